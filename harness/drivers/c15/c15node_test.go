package c15

import (
	"sort"
	"testing"
	"testing/synctest"
	"time"

	pb "github.com/libp2p/go-libp2p-pubsub/pb"

	"verifharness/hnet"
	"verifharness/rec"
	"verifharness/vh"
	"verifharness/world"
)

// TestC15Node exercises the queue where it lives: between the event loop
// (pushes, recorded by the library's own SendRPC/DropRPC trace calls at the
// push site) and the writer loop of comm.go (pops, observed as frames at a
// fake peer). Writes to the peer are gated so the queue fills; urgent pushes
// are the IDONTWANTs gossipsub sends before validating a large message.
// The history is emitted in the call/ret form of RpcQueueTrace: a push is a
// call+ret at its Send/Drop event; pop k is called right after pop k-1
// returned and returns when its frame arrives.
func TestC15Node(t *testing.T) {
	out := vh.NewOut(t, "VERIF_OUT")
	reps := 6
	if vh.Thorough() {
		reps = 40
	}
	for rep := 0; rep < reps; rep++ {
		for _, capacity := range []int{1, 2, 4} {
			nodeOne(t, out, capacity, rep)
		}
	}
}

type tev struct {
	t    int64
	kind int // 0 push, 1 frame
	n    int
	ev   vh.M
}

func nodeOne(t *testing.T, out *vh.Out, capacity, rep int) {
	synctest.Test(t, func(t *testing.T) {
		// the world writes its own step lines to a scratch sink; we only want its machinery
		sink := vh.NewOut(t, "VERIF_SINK")
		w := world.New(t, sink, rep, world.Config{QueueSize: capacity, Hosts: 5, Score: false}, nil)
		defer w.Close()
		w.Do(world.M{"a": "peer", "p": "p1", "proto": "v12", "dir": "in", "subs": []any{"T1"}})
		w.Do(world.M{"a": "peer", "p": "p2", "proto": "v12", "dir": "in", "subs": []any{"T1"}})
		w.Do(world.M{"a": "subscribe", "t": "T1"})
		w.Do(world.M{"a": "graft", "p": "p1", "t": "T1"})
		w.Do(world.M{"a": "hb"})
		f := w.Fakes["p1"]
		f.Drain()
		w.Rec.Take()
		// from here on record pushes to p1 and frames at p1
		w.H.GateWrites(f.ID())
		nmsg := 3 + rep%4
		for i := 0; i < nmsg; i++ {
			name := vh.Sprintf("q%d", i)
			size := 16
			if i%2 == 1 {
				size = 100 // above the IDONTWANT threshold: an urgent push precedes the message
			}
			m := w.Fakes["p2"].NewMessage(name, "T1", size, true)
			w.RegMsg(name, m)
			w.Fakes["p2"].Send(hnet.MsgRPC(m))
			hnet.Settle(3 * time.Millisecond)
			if rep%3 == 0 && i == 1 {
				w.H.UngateWrites(f.ID())
				hnet.Settle(4 * time.Millisecond)
				w.H.GateWrites(f.ID())
			}
		}
		w.H.UngateWrites(f.ID())
		hnet.Settle(50 * time.Millisecond)

		var evs []tev
		for _, e := range w.Rec.Take() {
			k, _ := e["k"].(string)
			if (k == "Send" || k == "Drop") && e["p"] == "p1" {
				evs = append(evs, tev{t: e["t"].(int64), kind: 0, n: e["n"].(int), ev: e})
			}
		}
		frames := f.Drain()
		for i, fr := range frames {
			evs = append(evs, tev{t: fr.T, kind: 1, n: i, ev: vh.M{"rpc": fr.RPC}})
		}
		// pushes before frame arrivals at equal virtual ms (sound: only widens pop intervals)
		sort.SliceStable(evs, func(i, j int) bool {
			if evs[i].t != evs[j].t {
				return evs[i].t < evs[j].t
			}
			if evs[i].kind != evs[j].kind {
				return evs[i].kind < evs[j].kind
			}
			return evs[i].n < evs[j].n
		})
		out.Emit(vh.M{"e": "reset", "cap": capacity})
		id := 0
		popOpen := 0
		openPop := func() {
			id++
			popOpen = id
			out.Emit(vh.M{"e": "call", "id": id, "op": "pop", "ctx": 1})
		}
		openPop()
		for _, e := range evs {
			if e.kind == 0 {
				rpc := e.ev["rpc"].(map[string]any)
				id++
				urgent := len(rpc["idontwant"].([]any)) > 0 && len(rpc["msgs"].([]any)) == 0
				out.Emit(vh.M{"e": "call", "id": id, "op": "push", "x": itemName(rpc), "urgent": urgent, "block": false})
				res := "ok"
				if e.ev["k"] == "Drop" {
					res = "full"
				}
				out.Emit(vh.M{"e": "ret", "id": id, "res": res})
			} else {
				out.Emit(vh.M{"e": "ret", "id": popOpen, "res": frameName(e.ev["rpc"].(*pb.RPC), w)})
				openPop()
			}
		}
		// quiescent and ungated: the writer is blocked in Pop on an empty queue
		out.Emit(vh.M{"e": "quiet", "blocked": []int{popOpen}})
	})
}

// itemName identifies an RPC by its content (message names / idontwant ids / control kinds).
func itemName(rpc map[string]any) string {
	s := "r"
	for _, m := range rpc["msgs"].([]any) {
		s += ":" + m.(map[string]any)["m"].(string)
	}
	for _, l := range rpc["idontwant"].([]any) {
		for _, id := range l.([]string) {
			s += ":dw-" + id
		}
	}
	for _, g := range rpc["graft"].([]any) {
		s += ":graft-" + g.(string)
	}
	for _, p := range rpc["prune"].([]any) {
		s += ":prune-" + p.(map[string]any)["topic"].(string)
	}
	for _, su := range rpc["subs"].([]any) {
		s += ":sub-" + su.(map[string]any)["topic"].(string)
	}
	for _, h := range rpc["ihave"].([]any) {
		s += ":ihave-" + h.(map[string]any)["topic"].(string)
	}
	if len(rpc["iwant"].([]any)) > 0 {
		s += ":iwant"
	}
	return s
}

func frameName(r *pb.RPC, w *world.World) string {
	return itemName(rec.RPCShape(r, w.Names))
}
