// Drivers for property C15 (per-peer outbound queue). They record call/return
// histories of the real rpcQueue as NDJSON; TLC validates them against
// spec/rpcqueue/RpcQueueTrace.tla. The drivers never judge results themselves.
package c15

import (
	"context"
	"math/rand"
	"sync"
	"sync/atomic"
	"testing"
	"testing/synctest"
	"time"

	pubsub "github.com/libp2p/go-libp2p-pubsub"

	"verifharness/vh"
)

type op struct {
	Op string `json:"op"`
	U  bool   `json:"u"`
	B  bool   `json:"b"`
	C  int    `json:"c"`
}

type scenario struct {
	Cap int  `json:"cap"`
	Ops []op `json:"ops"`
}

// run is one scenario's bookkeeping: which calls are outstanding, names of items.
type run struct {
	out   *vh.Out
	q     *pubsub.VerifRPCQueue
	mu    sync.Mutex
	open  map[int]bool
	names map[*pubsub.RPC]string
	ctxs  map[int]context.Context
	cancs map[int]context.CancelFunc
	next  int
}

func newRun(out *vh.Out, capacity int) *run {
	out.Emit(vh.M{"e": "reset", "cap": capacity})
	return &run{out: out, q: pubsub.VerifNewRPCQueue(capacity), open: map[int]bool{},
		names: map[*pubsub.RPC]string{}, ctxs: map[int]context.Context{}, cancs: map[int]context.CancelFunc{}}
}

func (r *run) ctx(c int) context.Context {
	r.mu.Lock()
	defer r.mu.Unlock()
	if _, ok := r.ctxs[c]; !ok {
		r.ctxs[c], r.cancs[c] = context.WithCancel(context.Background())
	}
	return r.ctxs[c]
}

func (r *run) id() int {
	r.mu.Lock()
	defer r.mu.Unlock()
	r.next++
	r.open[r.next] = true
	return r.next
}

func (r *run) ret(id int, res string) {
	// the line is written BEFORE the call stops counting as outstanding (both under mu): whoever sees the call
	// as returned (waitReturned, blocked) is then sure its "ret" line is already in the trace. Emitting after the
	// unlock let a descheduled goroutine write its line into the next scenario (seen once, at load 100).
	r.mu.Lock()
	r.out.Emit(vh.M{"e": "ret", "id": id, "res": res})
	delete(r.open, id)
	r.mu.Unlock()
}

func (r *run) blocked() []int {
	r.mu.Lock()
	defer r.mu.Unlock()
	b := []int{}
	for id := range r.open {
		b = append(b, id)
	}
	return b
}

// push performs one push call (to be run in its own goroutine).
func (r *run) push(id int, urgent, block bool) {
	rpc := &pubsub.RPC{}
	name := vh.Sprintf("i%d", id)
	r.mu.Lock()
	r.names[rpc] = name
	r.mu.Unlock()
	r.out.Emit(vh.M{"e": "call", "id": id, "op": "push", "x": name, "urgent": urgent, "block": block})
	res := "ok"
	func() {
		defer func() {
			if p := recover(); p != nil {
				if p == pubsub.ErrQueuePushOnClosed {
					res = "pushclosed"
				} else {
					res = vh.Sprintf("panic:%v", p)
				}
			}
		}()
		var err error
		if urgent {
			err = r.q.UrgentPush(rpc, block)
		} else {
			err = r.q.Push(rpc, block)
		}
		switch err {
		case nil:
		case pubsub.ErrQueueFull:
			res = "full"
		default:
			res = "err:" + err.Error()
		}
	}()
	r.ret(id, res)
}

func (r *run) pop(id int, c int) {
	ctx := r.ctx(c)
	r.out.Emit(vh.M{"e": "call", "id": id, "op": "pop", "ctx": c})
	rpc, err := r.q.Pop(ctx)
	var res string
	switch err {
	case nil:
		r.mu.Lock()
		res = r.names[rpc]
		r.mu.Unlock()
		if res == "" {
			res = "unknown-item"
		}
	case pubsub.ErrQueueCancelled:
		res = "cancelled"
	case pubsub.ErrQueueClosed:
		res = "closed"
	default:
		res = "err:" + err.Error()
	}
	r.ret(id, res)
}

func (r *run) cancel(c int) {
	r.ctx(c)
	r.out.Emit(vh.M{"e": "cancel", "ctx": c})
	r.mu.Lock()
	f := r.cancs[c]
	r.mu.Unlock()
	f()
}

func (r *run) close(id int) {
	r.out.Emit(vh.M{"e": "call", "id": id, "op": "close"})
	r.q.Close()
	r.ret(id, "done")
}

// TestC15Seq replays TLC-generated sequential operation sequences. Each
// operation runs in its own goroutine inside a synctest bubble; after each one
// the bubble is brought to quiescence and the set of still-blocked calls is
// logged, so TLC can check both results and (non-)blocking.
func TestC15Seq(t *testing.T) {
	scns := vh.ReadScenarios[scenario](t, "VERIF_IN")
	out := vh.NewOut(t, "VERIF_OUT")
	for _, s := range scns {
		synctest.Test(t, func(t *testing.T) {
			r := newRun(out, s.Cap)
			closed := false
			for _, o := range s.Ops {
				switch o.Op {
				case "push":
					go r.push(r.id(), o.U, o.B)
				case "pop":
					go r.pop(r.id(), o.C)
				case "cancel":
					r.cancel(o.C)
				case "close":
					r.close(r.id())
					closed = true
				}
				synctest.Wait()
				out.Emit(vh.M{"e": "quiet", "blocked": r.blocked()})
			}
			if !closed {
				r.close(r.id())
				synctest.Wait()
				out.Emit(vh.M{"e": "quiet", "blocked": r.blocked()})
			}
			for _, f := range r.cancs {
				f()
			}
		})
	}
}

// waitReturned waits in real time until the given call has returned.
func (r *run) waitReturned(id int, d time.Duration) bool {
	deadline := time.Now().Add(d)
	for time.Now().Before(deadline) {
		r.mu.Lock()
		open := r.open[id]
		r.mu.Unlock()
		if !open {
			return true
		}
		time.Sleep(200 * time.Microsecond)
	}
	return false
}

// TestC15Forced parks a Pop at the schedule point between its context check
// and its condition wait (hook "rpcqueue.pop.beforeWait"), lets the scenario's
// lock-free steps happen (cancel, and time for the AfterFunc goroutine), then
// releases it. Runs in real time: while parked, Pop holds the queue mutex, and
// a goroutine blocked on a mutex is not durably blocked for synctest.
func TestC15Forced(t *testing.T) {
	out := vh.NewOut(t, "VERIF_OUT")
	reps := 20
	if vh.Thorough() {
		reps = 200
	}
	tails := []string{"none", "push", "pop2-push", "close", "push-before-release", "cancel-other"}
	stuck := 0
	for rep := 0; rep < reps && stuck < 3; rep++ {
		for _, tail := range tails {
			for capacity := 1; capacity <= 2 && stuck < 3; capacity++ {
				if !forcedOne(t, out, capacity, tail) {
					stuck++ // a Pop that should have returned did not: three witnesses are enough
				}
			}
		}
	}
}

// stuckAfter is how long (real time) a call that should return is waited for before it is reported as
// blocked. It returns at once when the call returns, so the length only costs time when something IS stuck
// (at most three witnesses are collected); it is long because this driver runs in real time and the box may be
// heavily loaded.
const stuckAfter = 20 * time.Second

func forcedOne(t *testing.T, out *vh.Out, capacity int, tail string) (popReturned bool) {
	r := newRun(out, capacity)
	parked := make(chan struct{})
	release := make(chan struct{})
	var once atomic.Bool
	hook := func(name string) {
		if name == "rpcqueue.pop.beforeWait" && once.CompareAndSwap(false, true) {
			close(parked)
			<-release
		}
	}
	pubsub.VerifSchedPointFn.Store(&hook)
	defer pubsub.VerifSchedPointFn.Store(nil)

	popID := r.id()
	go r.pop(popID, 1)
	<-parked // Pop has checked ctx 1 (not cancelled) and holds the mutex
	var others []int
	switch tail {
	case "cancel-other":
		r.cancel(2) // a different context: must not release anybody
	default:
		r.cancel(1)
	}
	if tail == "push-before-release" {
		id := r.id()
		others = append(others, id)
		go r.push(id, false, true) // blocks on the mutex until Pop waits
	}
	// give the AfterFunc goroutine time to run its Broadcast while Pop is parked
	time.Sleep(2 * time.Millisecond)
	close(release)

	switch tail {
	case "push":
		if tailWait(r, popID) {
			id := r.id()
			others = append(others, id)
			r.push(id, false, false)
		}
	case "pop2-push":
		id2 := r.id()
		others = append(others, id2)
		go r.pop(id2, 2)
		time.Sleep(time.Millisecond)
		id := r.id()
		others = append(others, id)
		r.push(id, true, false)
	case "close":
		time.Sleep(time.Millisecond)
	}
	// what is still outstanding once things have had ample real time to settle?
	popReturned = true
	if tail != "cancel-other" { // there Pop is expected to stay blocked
		popReturned = r.waitReturned(popID, stuckAfter)
	} else {
		time.Sleep(2 * time.Millisecond)
	}
	for _, id := range others {
		r.waitReturned(id, stuckAfter)
	}
	out.Emit(vh.M{"e": "quiet", "blocked": r.blocked()})
	// cleanup: Close releases everything
	r.close(r.id())
	for _, id := range append(others, popID) {
		r.waitReturned(id, 2*stuckAfter)
	}
	out.Emit(vh.M{"e": "quiet", "blocked": r.blocked()})
	for _, f := range r.cancs {
		f()
	}
	return popReturned
}

func tailWait(r *run, popID int) bool {
	// a short grace period; whether or not Pop returned, carry on
	r.waitReturned(popID, 20*time.Millisecond)
	return true
}

// TestC15Stress runs many short concurrent rounds in real time. Every round is
// a fresh queue with a few goroutines doing seeded random operations; the
// call/return history of the round is linearised by TLC.
func TestC15Stress(t *testing.T) {
	out := vh.NewOut(t, "VERIF_OUT")
	rounds := 300
	if vh.Thorough() {
		rounds = 4000
	}
	rng := rand.New(rand.NewSource(vh.Seed()))
	for i := 0; i < rounds; i++ {
		capacity := 1 + rng.Intn(3)
		r := newRun(out, capacity)
		var wg sync.WaitGroup
		nG := 2 + rng.Intn(3)
		for g := 0; g < nG; g++ {
			seed := rng.Int63()
			kind := rng.Intn(3) // 0 pusher, 1 popper, 2 mixed
			wg.Add(1)
			go func() {
				defer wg.Done()
				lr := rand.New(rand.NewSource(seed))
				nops := 1 + lr.Intn(3)
				for k := 0; k < nops; k++ {
					isPush := kind == 0 || (kind == 2 && lr.Intn(2) == 0)
					if isPush {
						r.push(r.id(), lr.Intn(3) == 0, lr.Intn(2) == 0)
					} else {
						r.pop(r.id(), 1+lr.Intn(2))
					}
				}
			}()
		}
		// canceller / closer
		wg.Add(1)
		go func() {
			defer wg.Done()
			d := time.Duration(rng.Intn(300)) * time.Microsecond
			time.Sleep(d)
			r.cancel(1)
			if rng.Intn(2) == 0 {
				time.Sleep(d)
				r.cancel(2)
			}
		}()
		done := make(chan struct{})
		go func() { wg.Wait(); close(done) }()
		select {
		case <-done:
		case <-time.After(30 * time.Millisecond):
			// somebody is blocked (legitimately or not): record who, then Close to release
			out.Emit(vh.M{"e": "quiet-soft", "blocked": r.blocked()})
			r.close(r.id())
			select {
			case <-done:
			case <-time.After(2 * stuckAfter):
			}
		}
		out.Emit(vh.M{"e": "quiet", "blocked": r.blocked()})
		for _, f := range r.cancs {
			f()
		}
		if len(r.blocked()) > 0 {
			// leave the stuck goroutines behind; the trace will be rejected by TLC
			continue
		}
	}
}
