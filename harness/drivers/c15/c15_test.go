// Drivers for property C15 (per-peer outbound queue). They record call/return
// histories of the real rpcQueue as NDJSON; TLC validates them against
// spec/rpcqueue/RpcQueueTrace.tla. The drivers never judge results themselves.
package c15

import (
	"context"
	"math/rand"
	"runtime"
	"sync"
	"sync/atomic"
	"testing"
	"testing/synctest"
	"time"

	pubsub "github.com/libp2p/go-libp2p-pubsub"

	"verifharness/vh"
)

type op struct {
	Op string `json:"op"`
	U  bool   `json:"u"`
	B  bool   `json:"b"`
	C  int    `json:"c"`
	G  bool   `json:"g"` // glued to the previous operation: same goroutine, no quiescence in between (a burst)
}

type scenario struct {
	Cap  int  `json:"cap"`
	Fill int  `json:"fill"` // normal items pushed (non-blocking) before the operations
	Ops  []op `json:"ops"`
}

// run is one scenario's bookkeeping: which calls are outstanding, names of items.
type run struct {
	out   *vh.Out
	q     *pubsub.VerifRPCQueue
	mu    sync.Mutex
	open  map[int]bool
	names map[*pubsub.RPC]string
	ctxs  map[int]context.Context
	cancs map[int]context.CancelFunc
	next  int
}

func newRun(out *vh.Out, capacity int) *run {
	out.Emit(vh.M{"e": "reset", "cap": capacity})
	return &run{out: out, q: pubsub.VerifNewRPCQueue(capacity), open: map[int]bool{},
		names: map[*pubsub.RPC]string{}, ctxs: map[int]context.Context{}, cancs: map[int]context.CancelFunc{}}
}

func (r *run) ctx(c int) context.Context {
	r.mu.Lock()
	defer r.mu.Unlock()
	if _, ok := r.ctxs[c]; !ok {
		r.ctxs[c], r.cancs[c] = context.WithCancel(context.Background())
	}
	return r.ctxs[c]
}

func (r *run) id() int {
	r.mu.Lock()
	defer r.mu.Unlock()
	r.next++
	r.open[r.next] = true
	return r.next
}

func (r *run) ret(id int, res string) {
	// the line is written BEFORE the call stops counting as outstanding (both under mu): whoever sees the call
	// as returned (waitReturned, blocked) is then sure its "ret" line is already in the trace. Emitting after the
	// unlock let a descheduled goroutine write its line into the next scenario (seen once, at load 100).
	r.mu.Lock()
	r.out.Emit(vh.M{"e": "ret", "id": id, "res": res})
	delete(r.open, id)
	r.mu.Unlock()
}

func (r *run) blocked() []int {
	r.mu.Lock()
	defer r.mu.Unlock()
	b := []int{}
	for id := range r.open {
		b = append(b, id)
	}
	return b
}

// push performs one push call (to be run in its own goroutine).
func (r *run) push(id int, urgent, block bool) {
	rpc := &pubsub.RPC{}
	name := vh.Sprintf("i%d", id)
	r.mu.Lock()
	r.names[rpc] = name
	r.mu.Unlock()
	r.out.Emit(vh.M{"e": "call", "id": id, "op": "push", "x": name, "urgent": urgent, "block": block})
	res := "ok"
	func() {
		defer func() {
			if p := recover(); p != nil {
				if p == pubsub.ErrQueuePushOnClosed {
					res = "pushclosed"
				} else {
					res = vh.Sprintf("panic:%v", p)
				}
			}
		}()
		var err error
		if urgent {
			err = r.q.UrgentPush(rpc, block)
		} else {
			err = r.q.Push(rpc, block)
		}
		switch err {
		case nil:
		case pubsub.ErrQueueFull:
			res = "full"
		default:
			res = "err:" + err.Error()
		}
	}()
	r.ret(id, res)
}

func (r *run) pop(id int, c int) {
	ctx := r.ctx(c)
	r.out.Emit(vh.M{"e": "call", "id": id, "op": "pop", "ctx": c})
	rpc, err := r.q.Pop(ctx)
	var res string
	switch err {
	case nil:
		r.mu.Lock()
		res = r.names[rpc]
		r.mu.Unlock()
		if res == "" {
			res = "unknown-item"
		}
	case pubsub.ErrQueueCancelled:
		res = "cancelled"
	case pubsub.ErrQueueClosed:
		res = "closed"
	default:
		res = "err:" + err.Error()
	}
	r.ret(id, res)
}

func (r *run) cancel(c int) {
	r.ctx(c)
	r.out.Emit(vh.M{"e": "cancel", "ctx": c})
	r.mu.Lock()
	f := r.cancs[c]
	r.mu.Unlock()
	f()
}

func (r *run) close(id int) {
	r.out.Emit(vh.M{"e": "call", "id": id, "op": "close"})
	r.q.Close()
	r.ret(id, "done")
}

// TestC15Seq replays TLC-generated sequential operation sequences. Each
// operation runs in its own goroutine inside a synctest bubble; after each one
// the bubble is brought to quiescence and the set of still-blocked calls is
// logged, so TLC can check both results and (non-)blocking.
func TestC15Seq(t *testing.T) {
	scns := vh.ReadScenarios[scenario](t, "VERIF_IN")
	out := vh.NewOut(t, "VERIF_OUT")
	for _, s := range scns {
		replay(t, out, s)
	}
}

// TestC15Burst replays TLC-generated sequences in which some operations are glued into bursts: the operations of
// a burst run back to back in ONE goroutine. The test runs on a single P: a goroutine then runs until it blocks, and
// Signal / Broadcast only mark waiters runnable, so none of the waiters woken by an operation of the burst has run
// when the next operation executes (two pops before the pusher woken by the first one re-acquires the lock, a push
// that takes the slot freed for a woken pusher, ...). One quiet line follows each burst. Should the runtime preempt
// the burst all the same, the history is still a correct history (TLC linearises whatever happened); only the
// coverage obligation counts bursts that really ran back to back.
func TestC15Burst(t *testing.T) {
	scns := vh.ReadScenarios[scenario](t, "VERIF_IN")
	out := vh.NewOut(t, "VERIF_OUT")
	defer runtime.GOMAXPROCS(runtime.GOMAXPROCS(1))
	for _, s := range scns {
		replay(t, out, s)
	}
}

// one performs one operation synchronously in the calling goroutine.
func (r *run) one(o op) {
	switch o.Op {
	case "push":
		r.push(r.id(), o.U, o.B)
	case "pop":
		r.pop(r.id(), o.C)
	case "cancel":
		r.cancel(o.C)
	case "close":
		r.close(r.id())
	}
}

// quiesce brings the bubble to quiescence and logs who is still blocked.
func (r *run) quiesce() {
	synctest.Wait()
	r.out.Emit(vh.M{"e": "quiet", "blocked": r.blocked()})
}

// finish closes the queue if the scenario did not, and ends the scenario. A call that stays blocked whatever is
// tried would keep the bubble from ever ending (synctest panics when its root returns with blocked goroutines): the
// quiet line that shows it is already written, so flush the trace and stop; the orchestrator judges what was recorded.
func (r *run) finish(t *testing.T, closed bool) {
	if !closed {
		r.close(r.id())
		r.quiesce()
	}
	if len(r.blocked()) > 0 {
		// (the quiet line that shows it is written.) A wake-up that was lost is made up for by any later broadcast:
		// cancel every context and close once more, so that the bubble can end and the next scenarios still run.
		for c := range r.cancs {
			r.cancel(c)
		}
		r.close(r.id())
		synctest.Wait()
	}
	for _, f := range r.cancs {
		f()
	}
	if b := r.blocked(); len(b) > 0 {
		r.out.Close()
		t.Fatalf("calls %v still blocked after Close: trace flushed, stopping", b)
	}
}

func replay(t *testing.T, out *vh.Out, s scenario) {
	synctest.Test(t, func(t *testing.T) {
		r := newRun(out, s.Cap)
		for i := 0; i < s.Fill; i++ {
			r.push(r.id(), false, false)
		}
		closed := false
		for i := 0; i < len(s.Ops); {
			j := i + 1
			for j < len(s.Ops) && s.Ops[j].G {
				j++
			}
			group := s.Ops[i:j]
			i = j
			for _, o := range group {
				closed = closed || o.Op == "close"
			}
			switch {
			case len(group) > 1:
				go func() {
					for _, o := range group {
						r.one(o)
					}
				}()
			case group[0].Op == "push" || group[0].Op == "pop":
				go r.one(group[0])
			default:
				r.one(group[0])
			}
			r.quiesce()
		}
		r.finish(t, closed)
	})
}

// waitReturned waits in real time until the given call has returned.
func (r *run) waitReturned(id int, d time.Duration) bool {
	deadline := time.Now().Add(d)
	for time.Now().Before(deadline) {
		r.mu.Lock()
		open := r.open[id]
		r.mu.Unlock()
		if !open {
			return true
		}
		time.Sleep(200 * time.Microsecond)
	}
	return false
}

// TestC15Forced parks a Pop at the schedule point between its context check
// and its condition wait (hook "rpcqueue.pop.beforeWait"), lets the scenario's
// lock-free steps happen (cancel, and time for the AfterFunc goroutine), then
// releases it. Runs in real time: while parked, Pop holds the queue mutex, and
// a goroutine blocked on a mutex is not durably blocked for synctest.
func TestC15Forced(t *testing.T) {
	out := vh.NewOut(t, "VERIF_OUT")
	reps := 20
	if vh.Thorough() {
		reps = 200
	}
	tails := []string{"none", "push", "pop2-push", "close", "push-before-release", "cancel-other"}
	// real-time scenarios in which every call has to return: {hook, steps started while the call is parked}
	rt := [][]string{
		{hookPop, "close"},          // Close between Pop's closed check and its wait (NO cancel)
		{hookPop, "close", "push"},  //
		{hookPush, "close"},         // Close between a blocking push's closed check and its wait
		{hookPush, "pop"},           // a Pop makes room meanwhile: its Signal must not be lost
		{hookPush, "pop", "close"},  // both, in either order of arrival at the mutex
		{hookPush, "close", "pop"},
	}
	havePush := hookFires(t, hookPush)
	if !havePush {
		out.Emit(vh.M{"e": "note", "k": "nohook", "hook": hookPush})
	}
	stuck := 0
	for rep := 0; rep < reps && stuck < 3; rep++ {
		for _, tail := range tails {
			for capacity := 1; capacity <= 2 && stuck < 3; capacity++ {
				if !forcedOne(t, out, capacity, tail) {
					stuck++ // a Pop that should have returned did not: three witnesses are enough
				}
			}
		}
		for _, sc := range rt {
			for capacity := 1; capacity <= 2 && stuck < 3; capacity++ {
				if sc[0] == hookPush && !havePush {
					continue
				}
				if !forcedRT(out, capacity, sc[0], sc[1:]) {
					stuck++
				}
			}
		}
	}
}

const (
	hookPop  = "rpcqueue.pop.beforeWait"  // Pop: between the ctx / closed checks and dataAvailable.Wait(), mutex held
	hookPush = "rpcqueue.push.beforeWait" // blocking push on a full queue: right before spaceAvailable.Wait(), mutex held
)

// hookFires tells whether the tree under test has the named schedule point (a tree older than the hook has not: the
// scenarios that need it are then skipped with a note, and the orchestrator reports the unmet coverage obligation).
func hookFires(t *testing.T, name string) bool {
	var fired atomic.Bool
	hook := func(n string) {
		if n == name {
			fired.Store(true)
		}
	}
	pubsub.VerifSchedPointFn.Store(&hook)
	defer pubsub.VerifSchedPointFn.Store(nil)
	synctest.Test(t, func(t *testing.T) {
		// nothing here blocks the root goroutine of the bubble, whatever the tree under test does
		q := pubsub.VerifNewRPCQueue(1)
		q.Push(&pubsub.RPC{}, false)
		ctx, cancel := context.WithCancel(context.Background())
		go func() {
			defer func() { recover() }()
			q.Push(&pubsub.RPC{}, true) // full: takes the waiting path
		}()
		synctest.Wait()
		go q.Pop(ctx)
		synctest.Wait()
		go q.Pop(ctx)
		synctest.Wait()
		go q.Pop(ctx) // empty by now: takes the waiting path
		synctest.Wait()
		q.Close()
		cancel()
		synctest.Wait()
	})
	return fired.Load()
}

// stuckAfter is how long (real time) a call that should return is waited for before it is reported as
// blocked. It returns at once when the call returns, so the length only costs time when something IS stuck
// (at most three witnesses are collected); it is long because this driver runs in real time and the box may be
// heavily loaded.
const stuckAfter = 20 * time.Second

func forcedOne(t *testing.T, out *vh.Out, capacity int, tail string) (popReturned bool) {
	r := newRun(out, capacity)
	parked := make(chan struct{})
	release := make(chan struct{})
	var once atomic.Bool
	hook := func(name string) {
		if name == "rpcqueue.pop.beforeWait" && once.CompareAndSwap(false, true) {
			close(parked)
			<-release
		}
	}
	pubsub.VerifSchedPointFn.Store(&hook)
	defer pubsub.VerifSchedPointFn.Store(nil)

	popID := r.id()
	go r.pop(popID, 1)
	<-parked // Pop has checked ctx 1 (not cancelled) and holds the mutex
	var others []int
	switch tail {
	case "cancel-other":
		r.cancel(2) // a different context: must not release anybody
	default:
		r.cancel(1)
	}
	if tail == "push-before-release" {
		id := r.id()
		others = append(others, id)
		go r.push(id, false, true) // blocks on the mutex until Pop waits
	}
	// give the AfterFunc goroutine time to run its Broadcast while Pop is parked
	time.Sleep(2 * time.Millisecond)
	close(release)

	switch tail {
	case "push":
		if tailWait(r, popID) {
			id := r.id()
			others = append(others, id)
			r.push(id, false, false)
		}
	case "pop2-push":
		id2 := r.id()
		others = append(others, id2)
		go r.pop(id2, 2)
		time.Sleep(time.Millisecond)
		id := r.id()
		others = append(others, id)
		r.push(id, true, false)
	case "close":
		time.Sleep(time.Millisecond)
	}
	// what is still outstanding once things have had ample real time to settle?
	popReturned = true
	if tail != "cancel-other" { // there Pop is expected to stay blocked
		popReturned = r.waitReturned(popID, stuckAfter)
	} else {
		time.Sleep(2 * time.Millisecond)
	}
	for _, id := range others {
		r.waitReturned(id, stuckAfter)
	}
	out.Emit(vh.M{"e": "quiet", "blocked": r.blocked()})
	// cleanup: Close releases everything
	r.close(r.id())
	for _, id := range append(others, popID) {
		r.waitReturned(id, 2*stuckAfter)
	}
	out.Emit(vh.M{"e": "quiet", "blocked": r.blocked()})
	for _, f := range r.cancs {
		f()
	}
	return popReturned
}

// forcedRT (real time, all Ps): fills the queue when the parked call is a blocking push, parks the call at its hook
// (it holds the queue mutex there), starts the given steps each in its own goroutine (in the unchanged code they
// block on the mutex; a Close that no longer takes the lock completes at once and its broadcast finds nobody),
// gives them real time, releases the hook and waits until every call has returned (all of them have to, in every
// order the mutex may be handed over). Reports whether they did.
func forcedRT(out *vh.Out, capacity int, hookName string, during []string) (allReturned bool) {
	r := newRun(out, capacity)
	parked := make(chan struct{})
	release := make(chan struct{})
	var once atomic.Bool
	hook := func(name string) {
		if name == hookName && once.CompareAndSwap(false, true) {
			close(parked)
			<-release
		}
	}
	pubsub.VerifSchedPointFn.Store(&hook)
	defer pubsub.VerifSchedPointFn.Store(nil)

	var ids []int
	start := func(f func(id int)) {
		id := r.id()
		ids = append(ids, id)
		go f(id)
	}
	if hookName == hookPush {
		for i := 0; i < capacity; i++ {
			r.push(r.id(), false, false)
		}
		start(func(id int) { r.push(id, false, true) })
	} else {
		start(func(id int) { r.pop(id, 1) })
	}
	<-parked
	out.Emit(vh.M{"e": "note", "k": "parked", "hook": hookName, "rt": true})
	for _, st := range during {
		switch st {
		case "close":
			start(func(id int) { r.close(id) })
		case "pop":
			start(func(id int) { r.pop(id, 2) })
		case "push":
			start(func(id int) { r.push(id, false, false) })
		}
		// real time for the step to reach the mutex (or, lock-free, to run to its end) before the next one starts
		time.Sleep(time.Millisecond)
	}
	time.Sleep(time.Millisecond)
	out.Emit(vh.M{"e": "note", "k": "release"})
	close(release)
	allReturned = true
	for _, id := range ids {
		if !r.waitReturned(id, stuckAfter) {
			allReturned = false
		}
	}
	out.Emit(vh.M{"e": "quiet", "blocked": r.blocked()})
	// cleanup: Close releases everything
	r.close(r.id())
	for _, id := range ids {
		r.waitReturned(id, 2*stuckAfter)
	}
	out.Emit(vh.M{"e": "quiet", "blocked": r.blocked()})
	for _, f := range r.cancs {
		f()
	}
	return allReturned
}

// parkScn is one deterministic forced scenario of TestC15Park.
type parkScn struct {
	hook   string   // which call is parked: a Pop on an empty queue (hookPop) or a blocking push on a full one (hookPush)
	cap    int
	during []string // steps started while the call is parked, in this order
}

// TestC15Park is the deterministic form of the forced interleavings, for both schedule points and every ordered
// choice of one or two steps performed while the call is parked. It runs inside a synctest bubble on ONE P: the steps
// are started one at a time and given the processor (Gosched) until they block on the queue mutex, which the parked
// call holds - or, when a step does not take the mutex (cancel; a Close or a broadcast that lost its lock), until it
// has run to its end. synctest.Wait is never called while the call is parked (a goroutine blocked on a mutex is not
// durably blocked); after the release the bubble is brought to quiescence, which gives the exact set of calls that
// are still blocked without any real-time waiting. A fixed tail (push, pop, close) follows, one step at a time.
func TestC15Park(t *testing.T) {
	out := vh.NewOut(t, "VERIF_OUT")
	defer runtime.GOMAXPROCS(runtime.GOMAXPROCS(1))
	reps := 2
	if vh.Thorough() {
		reps = 12
	}
	vocab := map[string][]string{
		hookPop:  {"close", "cancel1", "cancel2", "push", "upush", "pop2", "pop1"},
		hookPush: {"close", "pop1", "pop2", "pushB", "upushB", "push", "cancel1"},
	}
	var scns []parkScn
	for _, h := range []string{hookPop, hookPush} {
		if !hookFires(t, h) {
			out.Emit(vh.M{"e": "note", "k": "nohook", "hook": h})
			continue
		}
		v := vocab[h]
		for capacity := 1; capacity <= 2; capacity++ {
			for _, a := range v {
				scns = append(scns, parkScn{h, capacity, []string{a}})
				for _, b := range v {
					if b != a || a == "pop1" || a == "pop2" || a == "pushB" {
						scns = append(scns, parkScn{h, capacity, []string{a, b}})
					}
				}
			}
		}
		// three steps: the combinations around Close with a second waiter of each kind
		for _, d := range [][]string{{"pop2", "close", "push"}, {"push", "pop2", "close"}, {"cancel1", "pop2", "close"},
			{"pop1", "pushB", "close"}, {"pushB", "pop1", "pop2"}, {"pop1", "push", "pushB"}, {"close", "pop1", "pushB"}} {
			scns = append(scns, parkScn{h, 2, d})
		}
	}
	for rep := 0; rep < reps; rep++ {
		for _, sc := range scns {
			parkOne(t, out, sc)
		}
	}
}

func parkOne(t *testing.T, out *vh.Out, sc parkScn) {
	synctest.Test(t, func(t *testing.T) {
		r := newRun(out, sc.cap)
		release := make(chan struct{})
		var parked atomic.Bool
		hook := func(name string) {
			if name == sc.hook && parked.CompareAndSwap(false, true) {
				<-release
			}
		}
		pubsub.VerifSchedPointFn.Store(&hook)
		defer pubsub.VerifSchedPointFn.Store(nil)

		if sc.hook == hookPush {
			for i := 0; i < sc.cap; i++ {
				r.push(r.id(), false, false)
			}
			go r.push(r.id(), false, true)
		} else {
			go r.pop(r.id(), 1)
		}
		synctest.Wait() // the call is parked in the hook (durably blocked on a channel of the bubble), mutex held
		if !parked.Load() {
			out.Emit(vh.M{"e": "note", "k": "nohook", "hook": sc.hook})
			r.finish(t, false)
			return
		}
		out.Emit(vh.M{"e": "note", "k": "parked", "hook": sc.hook})
		closed := false
		for _, st := range sc.during {
			o, ok := parkOps[st]
			if !ok {
				t.Fatalf("unknown step %q", st)
			}
			closed = closed || o.Op == "close"
			if o.Op == "cancel" {
				r.one(o) // lock-free; the AfterFunc goroutine it starts goes for the mutex
			} else {
				go r.one(o)
			}
			for i := 0; i < 20; i++ {
				runtime.Gosched()
			}
		}
		out.Emit(vh.M{"e": "note", "k": "release"})
		close(release)
		r.quiesce()
		for _, st := range []string{"push", "pop2"} {
			go r.one(parkOps[st])
			r.quiesce()
		}
		r.finish(t, closed)
	})
}

var parkOps = map[string]op{
	"close":   {Op: "close"},
	"cancel1": {Op: "cancel", C: 1},
	"cancel2": {Op: "cancel", C: 2},
	"pop1":    {Op: "pop", C: 1},
	"pop2":    {Op: "pop", C: 2},
	"push":    {Op: "push"},
	"upush":   {Op: "push", U: true},
	"pushB":   {Op: "push", B: true},
	"upushB":  {Op: "push", U: true, B: true},
}

func tailWait(r *run, popID int) bool {
	// a short grace period; whether or not Pop returned, carry on
	r.waitReturned(popID, 20*time.Millisecond)
	return true
}

// TestC15Stress runs many short concurrent rounds in real time. Every round is
// a fresh queue with a few goroutines doing seeded random operations; the
// call/return history of the round is linearised by TLC.
func TestC15Stress(t *testing.T) {
	out := vh.NewOut(t, "VERIF_OUT")
	rounds := 300
	if vh.Thorough() {
		rounds = 4000
	}
	rng := rand.New(rand.NewSource(vh.Seed()))
	stuck := 0
	for i := 0; i < rounds; i++ {
		capacity := 1 + rng.Intn(3)
		r := newRun(out, capacity)
		var wg sync.WaitGroup
		nG := 2 + rng.Intn(3)
		for g := 0; g < nG; g++ {
			seed := rng.Int63()
			kind := rng.Intn(3) // 0 pusher, 1 popper, 2 mixed
			wg.Add(1)
			go func() {
				defer wg.Done()
				lr := rand.New(rand.NewSource(seed))
				nops := 1 + lr.Intn(3)
				for k := 0; k < nops; k++ {
					isPush := kind == 0 || (kind == 2 && lr.Intn(2) == 0)
					if isPush {
						r.push(r.id(), lr.Intn(3) == 0, lr.Intn(2) == 0)
					} else {
						r.pop(r.id(), 1+lr.Intn(2))
					}
				}
			}()
		}
		// canceller / closer
		wg.Add(1)
		go func() {
			defer wg.Done()
			d := time.Duration(rng.Intn(300)) * time.Microsecond
			time.Sleep(d)
			r.cancel(1)
			if rng.Intn(2) == 0 {
				time.Sleep(d)
				r.cancel(2)
			}
		}()
		done := make(chan struct{})
		go func() { wg.Wait(); close(done) }()
		select {
		case <-done:
		case <-time.After(30 * time.Millisecond):
			// somebody is blocked (legitimately or not): record who, then Close to release
			out.Emit(vh.M{"e": "quiet-soft", "blocked": r.blocked()})
			r.close(r.id())
			select {
			case <-done:
			case <-time.After(stuckAfter):
			}
		}
		out.Emit(vh.M{"e": "quiet", "blocked": r.blocked()})
		for _, f := range r.cancs {
			f()
		}
		if len(r.blocked()) > 0 {
			// leave the stuck goroutines behind; the trace will be rejected by TLC. Three witnesses are enough
			// (each costs stuckAfter of real time).
			if stuck++; stuck >= 3 {
				break
			}
		}
	}
}
