// Drivers for property C20 (BasicSeqnoValidator never accepts a replay).
//
// TestC20Sched replays TLC-generated schedules (spec/seqno/GenSeqno.tla) on the
// PUBLIC validator pubsub.NewBasicSeqnoValidator. The harness supplies the
// PeerMetadataStore; its Get and Put park the calling validation goroutine on a
// channel until the scheduler releases it -- the first Get of a call happens
// under the validator's read lock, the second Get and the Put under its write
// lock, so the scheduler decides the interleaving of all store accesses. After
// every released step the scheduler waits for quiescence: every call is parked
// in the store, has returned, or is parked on the validator's RWMutex. The
// last is read off a stop-the-world goroutine dump (runtime.Stack), which is an
// exact observation, not a timing guess: at the instant of the dump no call can
// move. Runs in real time (a goroutine blocked on a sync.RWMutex is not durably
// blocked for synctest).
//
// TestC20Lengths calls the validator with sequence numbers of every encoding
// length inside recover().
//
// The drivers never judge: they log what the real code did (order of Get/Put
// with values, verdicts, panics) and TLC evaluates the predicates
// (spec/seqno/SeqnoTrace.tla).
package c20

import (
	"bytes"
	"context"
	"encoding/binary"
	"encoding/hex"
	"fmt"
	"io"
	"log/slog"
	"os"
	"runtime"
	"sort"
	"strconv"
	"strings"
	"testing"
	"time"

	pubsub "github.com/libp2p/go-libp2p-pubsub"
	pb "github.com/libp2p/go-libp2p-pubsub/pb"
	"github.com/libp2p/go-libp2p/core/peer"

	"verifharness/vh"
)

type callCfg struct {
	A int `json:"a"`
	S int `json:"s"`
}

type step struct {
	C   int      `json:"c"`
	Op  string   `json:"op"`
	Pos []string `json:"pos"`
}

type scenario struct {
	Calls []callCfg `json:"calls"`
	Init  []int     `json:"init"`  // Init[a-1] = rank of the initial nonce of author a (0 = no entry)
	Steps []step    `json:"steps"` // controllable steps with the expected quiescent positions before each
	Vals  []string  `json:"vals"`  // rank -> decimal uint64 (order preserving)
}

type ctxKey struct{}

const (
	stIdle = iota
	stFlight
	stHeld
	stDone
)

type event struct {
	kind    string // started | get | put | ret
	call    int
	gid     string
	key     peer.ID
	val     []byte
	resp    chan []byte
	verdict string
	msg     string
}

type callState struct {
	status int
	gid    string
	held   *event
	ngets  int
	lock   string // rb | wb | lk while parked on the mutex (from the last goroutine dump)
}

// sstore is the harness PeerMetadataStore: every access is handed to the scheduler.
type sstore struct{ ev chan event }

func (s *sstore) Get(ctx context.Context, p peer.ID) ([]byte, error) {
	c, _ := ctx.Value(ctxKey{}).(int)
	r := make(chan []byte, 1)
	s.ev <- event{kind: "get", call: c, key: p, resp: r}
	return <-r, nil
}

func (s *sstore) Put(ctx context.Context, p peer.ID, v []byte) error {
	c, _ := ctx.Value(ctxKey{}).(int)
	r := make(chan []byte, 1)
	s.ev <- event{kind: "put", call: c, key: p, val: append([]byte(nil), v...), resp: r}
	<-r
	return nil
}

type runner struct {
	out      *vh.Out
	sc       scenario
	vals     []uint64
	ev       chan event
	store    map[peer.ID][]byte
	calls    []*callState // index 1..n
	validate pubsub.ValidatorEx
	timing   int // number of times quiescence had to be assumed by timing
}

func authorID(a int) peer.ID { return peer.ID(fmt.Sprintf("author-%d", a)) }

var srcID = peer.ID("forwarder-x")

func authorOf(p peer.ID) int {
	s := string(p)
	if strings.HasPrefix(s, "author-") {
		if n, err := strconv.Atoi(s[len("author-"):]); err == nil {
			return n
		}
	}
	if p == srcID {
		return 9
	}
	return 0
}

func enc(v uint64) []byte {
	b := make([]byte, 8)
	binary.BigEndian.PutUint64(b, v)
	return b
}

// rank maps a stored value back to its rank; 0 for "no entry"; 98 = not 8 bytes, 99 = unknown value.
func (r *runner) rank(b []byte) int {
	if len(b) == 0 {
		return 0
	}
	if len(b) != 8 {
		return 98
	}
	v := binary.BigEndian.Uint64(b)
	for i, x := range r.vals {
		if x == v {
			return i
		}
	}
	return 99
}

func verdictName(v pubsub.ValidationResult) string {
	switch v {
	case pubsub.ValidationAccept:
		return "accept"
	case pubsub.ValidationIgnore:
		return "ignore"
	case pubsub.ValidationReject:
		return "reject"
	}
	return fmt.Sprintf("other%d", int(v))
}

func curGID() string {
	var buf [64]byte
	n := runtime.Stack(buf[:], false)
	f := strings.Fields(string(buf[:n]))
	if len(f) >= 2 {
		return f[1]
	}
	return "?"
}

var dumpBuf = make([]byte, 1<<20)

// goroutineStates returns, from one stop-the-world dump, gid -> (wait state, stack text).
func goroutineStates() map[string][2]string {
	n := runtime.Stack(dumpBuf, true)
	res := map[string][2]string{}
	for _, blk := range bytes.Split(dumpBuf[:n], []byte("\n\n")) {
		s := string(blk)
		if !strings.HasPrefix(s, "goroutine ") {
			continue
		}
		hdr := s
		if i := strings.IndexByte(s, '\n'); i >= 0 {
			hdr = s[:i]
		}
		f := strings.Fields(hdr)
		lb, rb := strings.IndexByte(hdr, '['), strings.LastIndexByte(hdr, ']')
		if len(f) < 2 || lb < 0 || rb < lb {
			continue
		}
		state := hdr[lb+1 : rb]
		if i := strings.IndexByte(state, ','); i >= 0 {
			state = state[:i]
		}
		res[f[1]] = [2]string{state, s}
	}
	return res
}

// lockWait classifies a goroutine that is parked on a sync mutex: "rb" (RWMutex.RLock), "wb"
// (RWMutex.Lock, either on the writer mutex or waiting for readers), "lk" (some other sync lock), "" = not parked on a lock.
func lockWait(state, stack string) string {
	switch state {
	case "sync.RWMutex.RLock":
		return "rb"
	case "sync.RWMutex.Lock":
		return "wb"
	case "sync.Mutex.Lock", "semacquire":
		switch {
		case strings.Contains(stack, "sync.(*RWMutex).RLock"):
			return "rb"
		case strings.Contains(stack, "sync.(*RWMutex).Lock"):
			return "wb"
		case strings.Contains(stack, "sync.(*"):
			return "lk"
		}
	}
	return ""
}

func newRunner(out *vh.Out, idx int, sc scenario) *runner {
	r := &runner{out: out, sc: sc, ev: make(chan event, 64), store: map[peer.ID][]byte{}}
	for _, s := range sc.Vals {
		v, err := strconv.ParseUint(s, 10, 64)
		if err != nil {
			panic(err)
		}
		r.vals = append(r.vals, v)
	}
	r.calls = make([]*callState, len(sc.Calls)+1)
	for i := range r.calls {
		r.calls[i] = &callState{}
	}
	for a, rk := range sc.Init {
		if rk > 0 {
			r.store[authorID(a+1)] = enc(r.vals[rk])
		}
	}
	logger := slog.New(slog.NewTextHandler(io.Discard, nil))
	r.validate = pubsub.NewBasicSeqnoValidator(&sstore{ev: r.ev}, logger)
	out.Emit(vh.M{"e": "reset", "sc": idx, "calls": sc.Calls, "init": sc.Init, "n": len(sc.Calls)})
	return r
}

func (r *runner) handle(e event) {
	c := r.calls[e.call]
	switch e.kind {
	case "get", "put":
		ev := e
		c.held, c.status = &ev, stHeld
	case "ret":
		c.status = stDone
		m := vh.M{"e": "ret", "c": e.call, "r": e.verdict}
		if e.msg != "" {
			m["msg"] = e.msg
		}
		r.out.Emit(m)
	}
}

func (r *runner) drain() {
	for {
		select {
		case e := <-r.ev:
			r.handle(e)
		default:
			return
		}
	}
}

// quiesce waits until no call can move without the scheduler: each is idle, held in the store,
// returned, or parked on the validator's mutex according to one goroutine dump.
func (r *runner) quiesce() {
	start := time.Now()
	for spins := 0; ; spins++ {
		r.drain()
		var flight []*callState
		for _, c := range r.calls[1:] {
			if c.status == stFlight {
				flight = append(flight, c)
			}
		}
		if len(flight) == 0 {
			return
		}
		states := goroutineStates()
		all := true
		for _, c := range flight {
			st, ok := states[c.gid]
			if !ok {
				all = false
				break
			}
			c.lock = lockWait(st[0], st[1])
			if c.lock == "" {
				all = false
				break
			}
		}
		if all {
			return
		}
		switch {
		case spins < 50:
			runtime.Gosched()
		case time.Since(start) > 10*time.Second:
			// unknown wait state: fall back to "nothing happened for a long while"
			r.timing++
			for _, c := range flight {
				if c.status == stFlight && c.lock == "" {
					c.lock = "lk"
				}
			}
			r.out.Emit(vh.M{"e": "note", "what": "quiescence assumed by timing"})
			return
		default:
			time.Sleep(20 * time.Microsecond)
		}
	}
}

func (r *runner) positions() []string {
	pos := make([]string, 0, len(r.calls)-1)
	for _, c := range r.calls[1:] {
		switch c.status {
		case stIdle:
			pos = append(pos, "idle")
		case stDone:
			pos = append(pos, "done")
		case stFlight:
			pos = append(pos, c.lock)
		case stHeld:
			switch {
			case c.held.kind == "put":
				pos = append(pos, "p")
			case c.ngets == 0:
				pos = append(pos, "g1")
			default:
				pos = append(pos, "g2")
			}
		}
	}
	return pos
}

func (r *runner) startCall(ci int) {
	c := r.calls[ci]
	cfg := r.sc.Calls[ci-1]
	msg := &pubsub.Message{Message: &pb.Message{From: []byte(authorID(cfg.A)), Seqno: enc(r.vals[cfg.S])}}
	ctx := context.WithValue(context.Background(), ctxKey{}, ci)
	r.out.Emit(vh.M{"e": "start", "c": ci})
	c.status = stFlight
	c.lock = ""
	go func() {
		r.ev <- event{kind: "started", call: ci, gid: curGID()}
		verdict, pmsg := "", ""
		func() {
			defer func() {
				if p := recover(); p != nil {
					verdict, pmsg = "panic", fmt.Sprint(p)
				}
			}()
			verdict = verdictName(r.validate(ctx, srcID, msg))
		}()
		r.ev <- event{kind: "ret", call: ci, verdict: verdict, msg: pmsg}
	}()
	for c.gid == "" {
		e := <-r.ev
		if e.kind == "started" {
			r.calls[e.call].gid = e.gid
		} else {
			r.handle(e)
		}
	}
}

func (r *runner) release(ci int) {
	c := r.calls[ci]
	e := c.held
	c.held, c.status, c.lock = nil, stFlight, ""
	a := authorOf(e.key)
	if e.kind == "get" {
		c.ngets++
		v := r.store[e.key]
		r.out.Emit(vh.M{"e": "get", "c": ci, "k": c.ngets, "a": a, "v": r.rank(v)})
		e.resp <- append([]byte(nil), v...)
		return
	}
	r.store[e.key] = e.val
	m := vh.M{"e": "put", "c": ci, "a": a, "v": r.rank(e.val)}
	if rk := r.rank(e.val); rk >= 98 {
		m["raw"] = hex.EncodeToString(e.val)
	}
	r.out.Emit(m)
	e.resp <- nil
}

func eqPos(a, b []string) bool {
	if len(a) != len(b) {
		return false
	}
	for i := range a {
		if a[i] != b[i] && !(a[i] == "lk" && (b[i] == "rb" || b[i] == "wb")) {
			return false
		}
	}
	return true
}

// run follows the schedule while the real positions agree with the planned ones; afterwards (or on
// divergence) it drains: starts what is idle, then releases Gets before Puts, Puts in descending
// sequence number -- the order most likely to expose a missing exclusion or re-check.
func (r *runner) run() (followed bool, stuck bool) {
	followed = true
	for i, st := range r.sc.Steps {
		r.quiesce()
		pos := r.positions()
		r.out.Emit(vh.M{"e": "q", "pos": pos})
		c := r.calls[st.C]
		okStep := (st.Op == "start" && c.status == stIdle) ||
			(st.Op == "get1" && c.status == stHeld && c.held.kind == "get" && c.ngets == 0) ||
			(st.Op == "get2" && c.status == stHeld && c.held.kind == "get" && c.ngets == 1) ||
			(st.Op == "put" && c.status == stHeld && c.held.kind == "put")
		if !eqPos(pos, st.Pos) || !okStep {
			r.out.Emit(vh.M{"e": "diverged", "at": i, "want": st.Pos, "got": pos, "op": st.Op, "c": st.C})
			followed = false
			break
		}
		if st.Op == "start" {
			r.startCall(st.C)
		} else {
			r.release(st.C)
		}
	}
	for {
		r.quiesce()
		pos := r.positions()
		r.out.Emit(vh.M{"e": "q", "pos": pos})
		done, idle := 0, 0
		var gets, puts []int
		for ci, c := range r.calls {
			if ci == 0 {
				continue
			}
			switch {
			case c.status == stDone:
				done++
			case c.status == stIdle:
				idle = ci
			case c.status == stHeld && c.held.kind == "get":
				gets = append(gets, ci)
			case c.status == stHeld:
				puts = append(puts, ci)
			}
		}
		switch {
		case done == len(r.calls)-1:
			return followed, false
		case idle != 0:
			followed = false
			r.startCall(idle)
		case len(gets) > 0:
			followed = false
			r.release(gets[0])
		case len(puts) > 0:
			followed = false
			sort.Slice(puts, func(i, j int) bool { return r.sc.Calls[puts[i]-1].S > r.sc.Calls[puts[j]-1].S })
			r.release(puts[0])
		default:
			// every remaining call is parked on the mutex and nobody can release it
			r.out.Emit(vh.M{"e": "stuck", "pos": pos})
			return false, true
		}
	}
}

func TestC20Sched(t *testing.T) {
	scns := vh.ReadScenarios[scenario](t, "VERIF_IN")
	out := vh.NewOut(t, "VERIF_OUT")
	marker := os.Getenv("VERIF_MARKER")
	followed, timing, stuck := 0, 0, 0
	t0 := time.Now()
	for i, sc := range scns {
		if marker != "" && i%256 == 0 {
			os.WriteFile(marker, []byte(strconv.Itoa(i)), 0o644)
		}
		r := newRunner(out, i, sc)
		f, s := r.run()
		if f {
			followed++
		}
		if s {
			stuck++
			if stuck >= 5 {
				break // five witnesses of a wedged validator are enough; each leaks goroutines
			}
		}
		timing += r.timing
	}
	out.Emit(vh.M{"e": "summary", "scenarios": len(scns), "followed": followed, "timing_fallbacks": timing, "stuck": stuck,
		"wall_ms": time.Since(t0).Milliseconds()})
}

// TestC20Lengths: P_C20_Total. Every encoding length of the sequence number, on an empty store and
// on a store that already holds a nonce, inside recover().
func TestC20Lengths(t *testing.T) {
	out := vh.NewOut(t, "VERIF_OUT")
	logger := slog.New(slog.NewTextHandler(io.Discard, nil))
	lengths := []int{0, 1, 2, 3, 4, 5, 6, 7, 8, 9, 16}
	for _, pre := range []uint64{0, 5} {
		for _, n := range lengths {
			for _, fill := range []byte{0x00, 0x01, 0xff} {
				st := &plainStore{m: map[peer.ID][]byte{}}
				if pre > 0 {
					st.m[authorID(1)] = enc(pre)
				}
				val := pubsub.NewBasicSeqnoValidator(st, logger)
				seq := bytes.Repeat([]byte{fill}, n)
				msg := &pubsub.Message{Message: &pb.Message{From: []byte(authorID(1)), Seqno: seq}}
				verdict, pmsg := "", ""
				func() {
					defer func() {
						if p := recover(); p != nil {
							verdict, pmsg = "panic", fmt.Sprint(p)
						}
					}()
					verdict = verdictName(val(context.Background(), srcID, msg))
				}()
				after := "none"
				if b, ok := st.m[authorID(1)]; ok {
					after = hex.EncodeToString(b)
				}
				cls := "8"
				switch {
				case n == 0:
					cls = "0"
				case n < 8:
					cls = "1..7"
				case n > 8:
					cls = ">8"
				}
				m := vh.M{"e": "len", "n": n, "cls": cls, "hex": hex.EncodeToString(seq), "pre": int(pre), "r": verdict,
					"stored": after, "puts": st.puts}
				if pmsg != "" {
					m["msg"] = pmsg
				} else {
					m["msg"] = ""
				}
				out.Emit(m)
			}
		}
	}
}

type plainStore struct {
	m    map[peer.ID][]byte
	puts int
}

func (s *plainStore) Get(_ context.Context, p peer.ID) ([]byte, error) { return s.m[p], nil }
func (s *plainStore) Put(_ context.Context, p peer.ID, v []byte) error {
	s.m[p] = append([]byte(nil), v...)
	s.puts++
	return nil
}
