package c20

import (
	"context"
	"encoding/binary"
	"io"
	"log/slog"
	"os"
	"strconv"
	"sync"
	"testing"
	"testing/synctest"
	"time"

	pubsub "github.com/libp2p/go-libp2p-pubsub"
	pb "github.com/libp2p/go-libp2p-pubsub/pb"
	"github.com/libp2p/go-libp2p/core/peer"
	"github.com/libp2p/go-libp2p/core/protocol"

	"verifharness/hnet"
	"verifharness/vh"
)

// TestC20Node: the validator where it lives. One real node (gossipsub or floodsub) with
// WithDefaultValidator(NewBasicSeqnoValidator(store)), WithSeenMessagesTTL(1s), 4 validation
// workers; two wire-level fake peers that author and send validly signed messages with chosen
// sequence numbers (and replay each other's messages); a third fake peer that only subscribes and
// records what the node forwards. "expire" lets virtual time pass beyond the next sweep of the
// seen cache, so a replay reaches the validator again. Per stimulus the driver logs what the
// application got (Subscription.Next), what went out on the wire to the observer, the node's own
// trace calls (validate/deliver/duplicate/reject+reason) and the Puts of the metadata store.
// SeqnoNodeTrace.tla judges.

type nodeStep struct {
	Op string `json:"op"`
	F  int    `json:"f"`
	A  int    `json:"a"`
	S  int    `json:"s"`
	S2 int    `json:"s2"`
}

type nodeScenario struct {
	Steps    []nodeStep `json:"steps"`
	Router   string     `json:"router"`
	TopicVal bool       `json:"topicval"`
	Inline   bool       `json:"inline"` // install the default validator with WithValidatorInline(true)
	// TopicInline: the accepting topic validator is inline as well. With Inline this puts the seqno
	// validator FIRST in a chain of two inline validators: its Ignore must survive the later Accept.
	TopicInline bool `json:"topicinline"`
	Vals     []string   `json:"vals"`
}

type msgKey struct {
	a peer.ID
	s uint64
}

// nodeTracer counts the node's own per-message trace calls.
type nodeTracer struct {
	mu  sync.Mutex
	val map[msgKey]int
	del map[msgKey]int
	dup map[msgKey]int
	rej map[msgKey][]string
}

func newNodeTracer() *nodeTracer {
	return &nodeTracer{val: map[msgKey]int{}, del: map[msgKey]int{}, dup: map[msgKey]int{}, rej: map[msgKey][]string{}}
}

func keyOf(m *pubsub.Message) msgKey {
	var s uint64
	if b := m.GetSeqno(); len(b) == 8 {
		s = binary.BigEndian.Uint64(b)
	}
	return msgKey{peer.ID(m.GetFrom()), s}
}

func (t *nodeTracer) OnNewOutboundStream(peer.ID, protocol.ID) {}
func (t *nodeTracer) OnClosedOutboundStream(peer.ID)           {}
func (t *nodeTracer) Join(string)                              {}
func (t *nodeTracer) Leave(string)                             {}
func (t *nodeTracer) Graft(peer.ID, string)                    {}
func (t *nodeTracer) Prune(peer.ID, string)                    {}
func (t *nodeTracer) ThrottlePeer(peer.ID)                     {}
func (t *nodeTracer) RecvRPC(*pubsub.RPC)                      {}
func (t *nodeTracer) SendRPC(*pubsub.RPC, peer.ID)             {}
func (t *nodeTracer) DropRPC(*pubsub.RPC, peer.ID)             {}
func (t *nodeTracer) UndeliverableMessage(*pubsub.Message)     {}
func (t *nodeTracer) ValidateMessage(m *pubsub.Message) {
	t.mu.Lock()
	t.val[keyOf(m)]++
	t.mu.Unlock()
}
func (t *nodeTracer) DeliverMessage(m *pubsub.Message) {
	t.mu.Lock()
	t.del[keyOf(m)]++
	t.mu.Unlock()
}
func (t *nodeTracer) DuplicateMessage(m *pubsub.Message) {
	t.mu.Lock()
	t.dup[keyOf(m)]++
	t.mu.Unlock()
}
func (t *nodeTracer) RejectMessage(m *pubsub.Message, reason string) {
	t.mu.Lock()
	k := keyOf(m)
	t.rej[k] = append(t.rej[k], reason)
	t.mu.Unlock()
}

func (t *nodeTracer) take(k msgKey) (val, del, dup int, rej []string) {
	t.mu.Lock()
	defer t.mu.Unlock()
	val, del, dup, rej = t.val[k], t.del[k], t.dup[k], t.rej[k]
	delete(t.val, k)
	delete(t.del, k)
	delete(t.dup, k)
	delete(t.rej, k)
	if rej == nil {
		rej = []string{}
	}
	return
}

// logStore is a non-blocking metadata store that logs its Puts.
type logStore struct {
	mu   sync.Mutex
	m    map[peer.ID][]byte
	puts []struct {
		p peer.ID
		v []byte
	}
}

func (s *logStore) Get(_ context.Context, p peer.ID) ([]byte, error) {
	s.mu.Lock()
	defer s.mu.Unlock()
	return s.m[p], nil
}

func (s *logStore) Put(_ context.Context, p peer.ID, v []byte) error {
	s.mu.Lock()
	defer s.mu.Unlock()
	c := append([]byte(nil), v...)
	s.m[p] = c
	s.puts = append(s.puts, struct {
		p peer.ID
		v []byte
	}{p, c})
	return nil
}

func TestC20Node(t *testing.T) {
	scns := vh.ReadScenarios[nodeScenario](t, "VERIF_IN")
	out := vh.NewOut(t, "VERIF_OUT")
	marker := os.Getenv("VERIF_MARKER")
	for i, sc := range scns {
		if marker != "" {
			// a panic in a library goroutine kills the process: say which scenario was running
			os.WriteFile(marker, []byte(strconv.Itoa(i)), 0o644)
		}
		nodeOne(t, out, i, sc)
	}
	out.Emit(vh.M{"e": "summary", "scenarios": len(scns)})
}

func nodeOne(t *testing.T, out *vh.Out, idx int, sc nodeScenario) {
	synctest.Test(t, func(t *testing.T) {
		const topic = "T"
		vals := make([]uint64, len(sc.Vals))
		for i, s := range sc.Vals {
			vals[i], _ = strconv.ParseUint(s, 10, 64)
		}
		rankOf := func(v uint64) int {
			for i, x := range vals {
				if x == v {
					return i
				}
			}
			return 99
		}
		nw := hnet.New(t, 4, false)
		hR := nw.Take()
		ctx, cancel := context.WithCancel(context.Background())
		defer cancel()
		st := &logStore{m: map[peer.ID][]byte{}}
		tr := newNodeTracer()
		logger := slog.New(slog.NewTextHandler(io.Discard, nil))
		var vopts []pubsub.ValidatorOpt
		if sc.Inline {
			vopts = append(vopts, pubsub.WithValidatorInline(true))
		}
		opts := []pubsub.Option{
			pubsub.WithDefaultValidator(pubsub.NewBasicSeqnoValidator(st, logger), vopts...),
			pubsub.WithSeenMessagesTTL(time.Second),
			pubsub.WithValidateWorkers(4),
			pubsub.WithRawTracer(tr),
		}
		var ps *pubsub.PubSub
		var err error
		if sc.Router == "floodsub" {
			ps, err = pubsub.NewFloodSub(ctx, hR, opts...)
		} else {
			ps, err = pubsub.NewGossipSub(ctx, hR, opts...)
		}
		if err != nil {
			t.Fatal(err)
		}
		if sc.TopicVal {
			// a topic validator next to the default validator: the default one must still decide
			var tvopts []pubsub.ValidatorOpt
			if sc.TopicInline {
				tvopts = append(tvopts, pubsub.WithValidatorInline(true))
			}
			if err := ps.RegisterTopicValidator(topic, func(context.Context, peer.ID, *pubsub.Message) pubsub.ValidationResult {
				return pubsub.ValidationAccept
			}, tvopts...); err != nil {
				t.Fatal(err)
			}
		}
		tp, err := ps.Join(topic)
		if err != nil {
			t.Fatal(err)
		}
		sub, err := tp.Subscribe()
		if err != nil {
			t.Fatal(err)
		}
		var dmu sync.Mutex
		deliv := map[msgKey]int{}
		go func() {
			for {
				m, err := sub.Next(ctx)
				if err != nil {
					return
				}
				dmu.Lock()
				deliv[keyOf(m)]++
				dmu.Unlock()
			}
		}()
		// fake peers speak floodsub: both routers forward every accepted message to them
		fk := make([]*hnet.FakePeer, 3) // 0,1 = authors/senders; 2 = observer
		for i := range fk {
			fk[i] = hnet.NewFakePeer(nw.Take(), "f"+strconv.Itoa(i+1), "flood", hR)
			if err := fk[i].DialNUT(); err != nil {
				t.Fatal(err)
			}
			hnet.Settle(20 * time.Millisecond)
			if err := fk[i].OpenOut(); err != nil {
				t.Fatal(err)
			}
			fk[i].Send(hnet.SubRPC(topic, true))
			hnet.Settle(20 * time.Millisecond)
		}
		obs := fk[2]
		authorNo := func(p peer.ID) int {
			for i := 0; i < 2; i++ {
				if fk[i].ID() == p {
					return i + 1
				}
			}
			return 0
		}
		// one message per (author, rank): a replay is the identical signed message
		msgs := map[[2]int]*pb.Message{}
		mk := func(a, rk int) *pb.Message {
			if m, ok := msgs[[2]int{a, rk}]; ok {
				return m
			}
			f := fk[a-1]
			tpc := topic
			m := &pb.Message{From: []byte(f.ID()), Seqno: enc(vals[rk]), Topic: &tpc, Data: []byte("m" + strconv.Itoa(a) + "-" + strconv.Itoa(rk))}
			if err := hnet.SignMessage(f.H.Peerstore().PrivKey(f.ID()), m); err != nil {
				t.Fatal(err)
			}
			msgs[[2]int{a, rk}] = m
			return m
		}
		observe := func(a, rk int) vh.M {
			k := msgKey{fk[a-1].ID(), vals[rk]}
			val, del, dup, rej := tr.take(k)
			dmu.Lock()
			d := deliv[k]
			delete(deliv, k)
			dmu.Unlock()
			return vh.M{"deliv": d, "val": val, "del": del, "dup": dup, "rej": rej}
		}
		forwards := func() map[[2]int]int {
			res := map[[2]int]int{}
			for _, fr := range obs.Drain() {
				for _, m := range fr.RPC.GetPublish() {
					var s uint64
					if len(m.GetSeqno()) == 8 {
						s = binary.BigEndian.Uint64(m.GetSeqno())
					}
					res[[2]int{authorNo(peer.ID(m.GetFrom())), rankOf(s)}]++
				}
			}
			return res
		}
		takePuts := func() []vh.M {
			st.mu.Lock()
			defer st.mu.Unlock()
			res := []vh.M{}
			for _, p := range st.puts {
				v := 98
				if len(p.v) == 8 {
					v = rankOf(binary.BigEndian.Uint64(p.v))
				}
				res = append(res, vh.M{"a": authorNo(p.p), "v": v})
			}
			st.puts = nil
			return res
		}
		out.Emit(vh.M{"e": "reset", "sc": idx, "router": sc.Router, "topicval": sc.TopicVal, "inline": sc.Inline, "topicinline": sc.TopicInline})
		hnet.Settle(100 * time.Millisecond)
		obs.Drain()
		slot := func() { // next k*1000+500 ms instant, away from heartbeats and sweeps
			now := hnet.NowMs()
			hnet.AdvanceTo((now/1000+1)*1000 + 500)
		}
		for _, s := range sc.Steps {
			switch s.Op {
			case "inj":
				slot()
				fk[s.F-1].Send(hnet.MsgRPC(mk(s.A, s.S)))
				hnet.Settle(300 * time.Millisecond)
				ln := observe(s.A, s.S)
				ln["e"], ln["f"], ln["a"], ln["s"] = "inj", s.F, s.A, s.S
				ln["fwd"] = forwards()[[2]int{s.A, s.S}]
				ln["puts"] = takePuts()
				out.Emit(ln)
			case "burst":
				// two different messages of author A at the same instant, each from its own sender
				slot()
				fk[0].Send(hnet.MsgRPC(mk(s.A, s.S)))
				fk[1].Send(hnet.MsgRPC(mk(s.A, s.S2)))
				hnet.Settle(300 * time.Millisecond)
				fw := forwards()
				o1, o2 := observe(s.A, s.S), observe(s.A, s.S2)
				o1["fwd"], o2["fwd"] = fw[[2]int{s.A, s.S}], fw[[2]int{s.A, s.S2}]
				out.Emit(vh.M{"e": "burst", "a": s.A, "s": s.S, "s2": s.S2, "o1": o1, "o2": o2, "puts": takePuts()})
			case "expire":
				// the seen cache is swept once a minute; entries older than the TTL (1 s) go
				hnet.Settle(2 * time.Second)
				now := hnet.NowMs()
				hnet.AdvanceTo((now/60000+1)*60000 + 1200)
				out.Emit(vh.M{"e": "expire", "t": hnet.NowMs()})
			}
		}
		cancel()
		hnet.Settle(50 * time.Millisecond)
	})
}
