// Driver for the container part of property C02: the seen-message time cache
// (github.com/libp2p/go-libp2p-pubsub/timecache). It replays TLC-generated
// operation sequences on the REAL cache inside testing/synctest bubbles and
// records every result as NDJSON; TLC validates the trace against
// spec/timecache/TimeCacheTrace.tla. The driver never judges results.
package c02cache

import (
	"testing"
	"testing/synctest"
	"time"

	"github.com/libp2p/go-libp2p-pubsub/timecache"

	"verifharness/vh"
)

type op struct {
	Op string `json:"op"` // add | has | adv
	ID string `json:"id"`
	N  int    `json:"n"` // adv: number of ticks
}

type scenario struct {
	Scn      int    `json:"scn"`
	Strategy string `json:"strategy"` // first | last
	UnitS    int    `json:"unit_s"`   // length of one tick in (virtual) seconds; must divide 60
	TTL      int    `json:"ttl"`      // in ticks
	Half     bool   `json:"half"`     // operations in the middle of a tick instead of at its start
	Ops      []op   `json:"ops"`
}

// sweepInterval is timecache.backgroundSweepInterval (unexported package constant).
const sweepInterval = time.Minute

// TestC02Cache: one bubble per scenario. The cache is created at virtual time
// T0; its sweeper fires at T0+60s, T0+120s, ... Tick k is the instant
// T0 + k*unit (+ unit/2 when Half). After every sleep the driver calls
// synctest.Wait, so an operation at a sweep instant is ordered after that sweep.
func TestC02Cache(t *testing.T) {
	scns := vh.ReadScenarios[scenario](t, "VERIF_IN")
	out := vh.NewOut(t, "VERIF_OUT")
	for _, s := range scns {
		unit := time.Duration(s.UnitS) * time.Second
		if unit <= 0 || sweepInterval%unit != 0 {
			t.Fatalf("scenario %d: unit %v does not divide the sweep interval", s.Scn, unit)
		}
		strat := timecache.Strategy_FirstSeen
		if s.Strategy == "last" {
			strat = timecache.Strategy_LastSeen
		}
		synctest.Test(t, func(t *testing.T) {
			out.Emit(vh.M{"e": "reset", "scn": s.Scn, "strategy": s.Strategy, "ttl": s.TTL,
				"sweep": int(sweepInterval / unit), "unit_ms": int(unit / time.Millisecond), "half": s.Half})
			t0 := time.Now()
			var tc timecache.TimeCache
			if s.Strategy == "first" && s.Scn%3 == 0 {
				tc = timecache.NewTimeCache(time.Duration(s.TTL) * unit) // the default constructor is first-seen
			} else {
				tc = timecache.NewTimeCacheWithStrategy(strat, time.Duration(s.TTL)*unit)
			}
			defer tc.Done()
			if s.Half {
				time.Sleep(unit / 2)
			}
			synctest.Wait()
			for _, o := range s.Ops {
				switch o.Op {
				case "adv":
					for i := 0; i < o.N; i++ {
						time.Sleep(unit)
						synctest.Wait() // a sweep due at this instant has run
						out.Emit(vh.M{"e": "tick", "t": int(time.Since(t0) / time.Millisecond)})
					}
				case "add":
					out.Emit(vh.M{"e": "add", "id": o.ID, "r": tc.Add(o.ID)})
				case "has":
					out.Emit(vh.M{"e": "has", "id": o.ID, "r": tc.Has(o.ID)})
				default:
					t.Fatalf("scenario %d: unknown op %q", s.Scn, o.Op)
				}
			}
		})
	}
}
