// C13 driver: replays peer lifecycles generated from spec/peerlife/PeerLife.tla against a
// real node (gossipsub with scoring, gater, tag tracer on a real BasicConnMgr and the test
// extension; or floodsub / randomsub for the core maps) and records, after every step, which
// per-peer container of the node still mentions which peer (rec.PerPeerKeys) and which
// pubsub:<topic> protections the connection manager holds.  The driver never judges:
// PeerLifeTrace.tla does.
package c13

import (
	"bytes"
	"context"
	"os"
	"regexp"
	"runtime/pprof"
	"sort"
	"sync"
	"syscall"
	"testing"
	"testing/synctest"
	"time"

	pubsub "github.com/libp2p/go-libp2p-pubsub"
	pb "github.com/libp2p/go-libp2p-pubsub/pb"
	"github.com/libp2p/go-libp2p/core/network"
	"github.com/libp2p/go-libp2p/core/peer"

	"verifharness/hnet"
	"verifharness/rec"
	"verifharness/vh"
	"verifharness/world"
)

type M = map[string]any

type peerCfg struct {
	Proto string `json:"proto"`
	Score int    `json:"score"`
	Dir   string `json:"dir"`
	// Direct makes the peer a direct peer of the node before the lifecycle starts (its GRAFTs are refused)
	Direct bool `json:"direct"`
}

type event struct {
	E string `json:"e"`
	P string `json:"p"`
	K string `json:"k"`
}

type scenario struct {
	ID     int                `json:"id"`
	Router string             `json:"router"`
	By     bool               `json:"by"` // a well-behaved bystander peer "pb" (v1.2, in the mesh) is present
	// Full: a bootstrapper-style node (D = Dlo = Dhi = Dout = Dscore = 0): every mesh is "full", a GRAFT from a peer
	// that dialled the node is refused by the Dhi admission check
	Full bool `json:"full"`
	Peers  map[string]peerCfg `json:"peers"`
	Evs    []event            `json:"evs"`
}

const (
	retainScore  = 2 * time.Second  // RetainScore
	scoreDecay   = 30 * time.Second // DecayInterval (> RetainScore: the first refresh after a disconnect is past expiry)
	gaterRetain  = 3 * time.Second
	seenTTL      = 10 * time.Second
	slowValidate = 8 * time.Second // validation time of "slow" messages (payload starts with 's')
	queueSize    = 8               // outbound queue size of the node (pgflood overflows it)
	watchdog     = 4 * time.Minute // real time
)

var topicSuffix = regexp.MustCompile(`\[.*\]$`)

func marker(i int) {
	if p := os.Getenv("VERIF_MARKER"); p != "" {
		os.WriteFile(p, []byte(vh.Sprintf("%d", i)), 0o644)
	}
}

type run struct {
	t    *testing.T
	w    *world.World
	s    scenario
	mu   sync.Mutex
	app  map[peer.ID]float64
	nmsg int
	last string // name of the most recent valid message known to be in the cache
	rst  bool   // an outbound stream was reset while connected (dead-peer backoff populated)
}

func (r *run) appScore(p peer.ID) float64 {
	r.mu.Lock()
	defer r.mu.Unlock()
	return r.app[p]
}

func (r *run) connected(id peer.ID) bool {
	return r.w.H.Network().Connectedness(id) == network.Connected
}

// extra adds the C13 observables to every step line.
func (r *run) extra(w *world.World, line M) {
	raw := w.RawSnap()
	byC := rec.PerPeerKeys(raw, w.Names) // container -> [peer names]
	keys := M{}
	full := M{}
	prot := M{}
	conn := M{}
	for name := range w.Fakes {
		keys[name] = []string{}
		full[name] = []string{}
		prot[name] = []string{}
	}
	for c, l := range byC {
		base := topicSuffix.ReplaceAllString(c, "")
		for _, p := range l.([]string) {
			if _, ok := keys[p]; !ok {
				keys[p] = []string{}
				full[p] = []string{}
			}
			if !contains(keys[p].([]string), base) {
				keys[p] = append(keys[p].([]string), base)
			}
			if !contains(full[p].([]string), c) {
				full[p] = append(full[p].([]string), c)
			}
		}
	}
	for p := range keys {
		sort.Strings(keys[p].([]string))
		sort.Strings(full[p].([]string))
	}
	topics := []string{"t1", "t2"}
	for name, f := range w.Fakes {
		l := []string{}
		if w.Cfg.ConnMgr && len(w.Net.ConnMs) > 0 {
			for _, t := range topics {
				if w.Net.ConnMs[0].IsProtected(f.ID(), "pubsub:"+t) {
					l = append(l, t)
				}
			}
		}
		prot[name] = l
		conn[name] = r.connected(f.ID())
	}
	line["keys"], line["keysFull"], line["prot"], line["connected"] = keys, full, prot, conn
}

func contains(l []string, s string) bool {
	for _, x := range l {
		if x == s {
			return true
		}
	}
	return false
}

func (r *run) peersHas(id peer.ID) bool {
	st := r.w.RawSnap()
	if st == nil {
		return false
	}
	_, ok := st.Peers[id]
	return ok
}

func (r *run) outUp(id peer.ID) bool {
	st := r.w.RawSnap()
	if st == nil {
		return false
	}
	if st.GS != nil {
		_, ok := st.GS.Peers[id]
		return ok
	}
	if st.RandomPeers != nil {
		_, ok := st.RandomPeers[id]
		return ok
	}
	return false
}

// poll lets virtual time pass in 25 ms slices until cond holds (at most max).
func poll(max time.Duration, cond func() bool) bool {
	for el := time.Duration(0); el < max; el += 25 * time.Millisecond {
		hnet.Settle(25 * time.Millisecond)
		if cond() {
			return true
		}
	}
	return cond()
}

func (r *run) msgName(prefix string) string {
	r.nmsg++
	return vh.Sprintf("%s%d", prefix, r.nmsg)
}

func (r *run) do(ev event) {
	w := r.w
	f := w.Fakes[ev.P]
	var id peer.ID
	if f != nil {
		id = f.ID()
	}
	lab := M{"e": ev.E, "p": ev.P, "k": ev.K}
	act := func(a M) M { a["c13"] = lab; return a }
	switch ev.E {
	case "ConnUp":
		w.Guard()
		w.H.FailOpen(id, false)
		w.H.HoldOpen(id) // the NUT's NewStream to this peer parks until OutUp / OutFail
		var err error
		if r.s.Peers[ev.P].Dir == "out" {
			err = hnet.Connect(w.H.Host, f.H)
		} else {
			err = f.DialNUT()
		}
		if err != nil {
			r.t.Fatalf("c13: connect %s: %v", ev.P, err)
		}
		hnet.Settle(40 * time.Millisecond)
		w.Emit(act(M{"a": "connUp", "p": ev.P, "dir": r.s.Peers[ev.P].Dir}))
	case "OutUp":
		w.Guard()
		w.H.ReleaseOpen(id)
		ok := poll(1500*time.Millisecond, func() bool { return r.outUp(id) || (w.Cfg.Router == "floodsub" && f.InboundAlive() > 0) })
		hnet.Settle(20 * time.Millisecond)
		w.Emit(act(M{"a": "outUp", "p": ev.P, "ok": ok}))
	case "OutFail":
		w.Guard()
		w.H.FailOpen(id, true)
		w.H.ReleaseOpen(id)
		ok := poll(1500*time.Millisecond, func() bool { return !r.peersHas(id) })
		w.Emit(act(M{"a": "outFail", "p": ev.P, "ok": ok}))
	case "OutReset":
		w.Guard()
		w.H.FailOpen(id, false)
		w.H.HoldOpen(id) // the respawned writer's NewStream parks
		f.ResetIn()
		hnet.Settle(20 * time.Millisecond)
		w.H.UngateWrites(id) // a writer blocked on the peer that stopped reading fails on the dead stream
		hnet.Settle(20 * time.Millisecond)
		r.rst = true
		w.Emit(act(M{"a": "outReset", "p": ev.P}))
	case "InUp", "InDup":
		w.Do(act(M{"a": "openOut", "p": ev.P}))
	case "InReset":
		w.Do(act(M{"a": "resetOut", "p": ev.P}))
	case "InEOF":
		w.Do(act(M{"a": "closeOut", "p": ev.P}))
	case "Blacklist":
		w.Guard()
		w.NUT.BlacklistPeer(id)
		hnet.Settle(20 * time.Millisecond)
		w.H.UngateWrites(id)
		// a NewStream still parked belongs to a peer the node has already forgotten: let it through,
		// the node resets the stream ("new stream for unknown peer")
		w.H.ReleaseOpen(id)
		hnet.Settle(40 * time.Millisecond)
		w.Emit(act(M{"a": "blacklist", "p": ev.P}))
	case "ConnDown":
		w.Guard()
		// from now on a NewStream of the node to this peer fails, as it does on a connection that is gone (the
		// swarm would re-dial the fake peer otherwise: the node may respawn its writer when it sees the stream
		// die before the connection is reported closed)
		w.H.FailOpen(id, true)
		f.Disconnect()
		hnet.Settle(30 * time.Millisecond)
		w.H.ReleaseOpen(id)  // a NewStream still parked fails now
		w.H.UngateWrites(id) // a writer blocked on the peer that stopped reading fails on the dead stream
		ok := poll(1500*time.Millisecond, func() bool { return !r.peersHas(id) })
		w.Emit(act(M{"a": "down", "p": ev.P, "ok": ok}))
	case "NodePub":
		w.Do(act(M{"a": "publish", "t": "t2", "m": r.msgName("n")}))
	case "Hb":
		w.Heartbeat()
	case "Wait":
		w.Do(act(M{"a": "elapse", "s": int(slowValidate/time.Second) + 1}))
	case "Send":
		switch ev.K {
		case "sub1":
			w.Do(act(M{"a": "sub", "p": ev.P, "t": "t1", "v": true}))
		case "sub2":
			w.Do(act(M{"a": "sub", "p": ev.P, "t": "t2", "v": true}))
		case "unsub1":
			w.Do(act(M{"a": "sub", "p": ev.P, "t": "t1", "v": false}))
		case "graft":
			w.Do(act(M{"a": "graft", "p": ev.P, "t": "t1"}))
		case "graftx": // a topic the node has not joined
			w.Do(act(M{"a": "graft", "p": ev.P, "t": "t3"}))
		case "prune":
			w.Do(act(M{"a": "prune", "p": ev.P, "t": "t1"}))
		case "prunepx":
			w.Do(act(M{"a": "prune", "p": ev.P, "t": "t1", "bo": 3, "px": []any{"pb"}}))
		case "ihave":
			w.Do(act(M{"a": "ihave", "p": ev.P, "t": "t1", "ids": []any{r.msgName("x")}}))
		case "iwant":
			w.Do(act(M{"a": "iwant", "p": ev.P, "ids": []any{r.last}}))
		case "idontwant":
			w.Do(act(M{"a": "idontwant", "p": ev.P, "ids": []any{r.last}}))
		case "pgflood":
			// the peer stops reading (writes of the node to it block), sends PRUNE and then GRAFTs inside the backoff:
			// the node's PRUNE replies overflow its outbound queue and are kept for retry in gs.control
			w.Guard()
			w.H.GateWrites(id)
			f.Send(hnet.PruneRPC("t1", 0, false, nil))
			hnet.Settle(5 * time.Millisecond)
			for i := 0; i < queueSize+4; i++ {
				f.Send(hnet.GraftRPC("t1"))
			}
			hnet.Settle(20 * time.Millisecond)
			w.Emit(act(M{"a": "pgflood", "p": ev.P}))
		case "ext":
			w.Guard()
			tr := true
			f.Send(&pb.RPC{Control: &pb.ControlMessage{Extensions: &pb.ControlExtensions{TestExtension: &tr}}, TestExtension: &pb.TestExtension{}})
			hnet.Settle(15 * time.Millisecond)
			w.Emit(act(M{"a": "ext", "p": ev.P}))
		case "pubv":
			n := r.msgName("v")
			w.Do(act(M{"a": "msg", "p": ev.P, "t": "t1", "m": n, "size": 100}))
			r.last = n
		case "pubi":
			w.Do(act(M{"a": "msg", "p": ev.P, "t": "t1", "m": r.msgName("i"), "size": 100, "badsig": true}))
		case "pubslow":
			w.Do(act(M{"a": "msg", "p": ev.P, "t": "t1", "m": r.msgName("s"), "size": 100}))
		default:
			r.t.Fatalf("c13: unknown send kind %q", ev.K)
		}
	default:
		r.t.Fatalf("c13: unknown event %q", ev.E)
	}
}

func runScenario(t *testing.T, out *vh.Out, s scenario) {
	synctest.Test(t, func(t *testing.T) {
		r := &run{t: t, s: s, app: map[peer.ID]float64{}, last: "z0"}
		cfg := world.Config{Router: s.Router, ConnMgr: true, Hosts: 2 + len(s.Peers), QueueSize: queueSize}
		if s.By {
			cfg.Hosts++
		}
		opts := []pubsub.Option{pubsub.WithSeenMessagesTTL(seenTTL)}
		gs := s.Router == "" || s.Router == "gossipsub"
		if gs {
			cfg.TestExt = true
			sp := &pubsub.PeerScoreParams{
				AppSpecificScore:  r.appScore,
				AppSpecificWeight: 1,
				DecayInterval:     scoreDecay,
				DecayToZero:       0.01,
				RetainScore:       retainScore,
				SeenMsgTTL:        seenTTL,
				Topics:            map[string]*pubsub.TopicScoreParams{},
			}
			th := &pubsub.PeerScoreThresholds{GossipThreshold: -2, PublishThreshold: -4, GraylistThreshold: -6, AcceptPXThreshold: 2, OpportunisticGraftThreshold: 1}
			gp := pubsub.DefaultPeerGaterParams()
			gp.RetainStats = gaterRetain
			gp.DecayInterval = time.Second
			opts = append(opts, pubsub.WithPeerScore(sp, th), pubsub.WithPeerGater(gp))
		}
		cfg.Opts = opts
		pcs := M{}
		for n, pc := range s.Peers {
			pcs[n] = M{"proto": pc.Proto, "score": pc.Score, "dir": pc.Dir, "direct": pc.Direct}
		}
		if s.Full && gs {
			p := world.SmallParams()
			p.D, p.Dlo, p.Dhi, p.Dout, p.Dscore = 0, 0, 0, 0, 0
			cfg.Params = &p
		}
		w := world.New(t, out, s.ID, cfg, M{"c13": true, "by": s.By, "full": s.Full, "peers": pcs,
			"retainMs": retainScore.Milliseconds(), "scoreDecayMs": scoreDecay.Milliseconds(), "gaterRetainMs": gaterRetain.Milliseconds(),
			"seenTTLMs": seenTTL.Milliseconds(), "slowMs": slowValidate.Milliseconds()})
		defer w.Close()
		r.w = w
		w.Extra = r.extra
		// let every host's identify service finish starting (it misses protocol handlers registered
		// between its initial snapshot and its event subscription: the NUT would then never learn that
		// the fake peer speaks pubsub)
		hnet.Settle(10 * time.Millisecond)
		// fake peers exist (unconnected) from the start so that every line lists them
		names := make([]string, 0, len(s.Peers))
		for n := range s.Peers {
			names = append(names, n)
		}
		sort.Strings(names)
		for _, n := range names {
			f := hnet.NewFakePeer(w.Net.Take(), n, s.Peers[n].Proto, w.H.Host)
			w.Names.AddPeer(f.ID(), n)
			w.Fakes[n] = f
			r.app[f.ID()] = float64(s.Peers[n].Score)
			if s.Peers[n].Direct && gs {
				w.NUT.AddDirectPeer(peer.AddrInfo{ID: f.ID(), Addrs: f.H.Addrs()})
			}
		}
		// slow validation for messages whose payload starts with 's' (a message still in validation
		// when its sender disconnects)
		err := w.NUT.RegisterTopicValidator("t1", func(ctx context.Context, from peer.ID, msg *pubsub.Message) pubsub.ValidationResult {
			if bytes.HasPrefix(msg.GetData(), []byte("s")) {
				time.Sleep(slowValidate)
			}
			return pubsub.ValidationAccept
		})
		if err != nil {
			t.Fatalf("c13: validator: %v", err)
		}
		w.Do(M{"a": "subscribe", "t": "t1"})
		if s.By {
			proto := "v12"
			if !gs {
				proto = "flood"
			}
			w.Do(M{"a": "peer", "p": "pb", "proto": proto, "dir": "in", "subs": []any{"t1", "t2"}})
			r.app[w.Fakes["pb"].ID()] = 1
			if gs {
				w.Do(M{"a": "graft", "p": "pb", "t": "t1"})
			}
			w.Do(M{"a": "msg", "p": "pb", "t": "t1", "m": "b0", "size": 100})
			r.last = "b0"
		}
		for _, ev := range s.Evs {
			r.do(ev)
		}
		// everything is down (the generator guarantees it); make sure no NewStream stays parked
		for _, n := range names {
			id := w.Fakes[n].ID()
			w.H.FailOpen(id, true)
			w.H.ReleaseOpen(id)
			w.H.UngateWrites(id)
		}
		// Elapse(R): R covers every retention period of the configuration (see c13.py)
		chunks := []int{12, 20, 90}
		if st := w.RawSnap(); st != nil && len(st.DeadBackoff) > 0 {
			r.rst = true
		}
		if r.rst {
			chunks = append(chunks, 300, 300, 120) // dead-peer backoff: TimeToLive 10 min + cleanup every minute
		}
		for i, c := range chunks {
			fin := i == len(chunks)-1
			e := "Wait" // time passes (validation ends, heartbeats); the model's Elapse is the last chunk
			if fin {
				e = "Elapse"
			}
			w.Do(M{"a": "elapse", "s": c, "c13": M{"e": e, "p": "", "k": ""}, "fin": fin})
		}
	})
}

// TestC13Replay replays the lifecycles of VERIF_IN (shard VERIF_SHARD of VERIF_SHARDS).
func TestC13Replay(t *testing.T) {
	scns := vh.ReadScenarios[scenario](t, "VERIF_IN")
	out := vh.NewOut(t, "VERIF_OUT")
	only := vh.EnvInt("VERIF_ONLY", -1)
	shard, shards := vh.EnvInt("VERIF_SHARD", 0), vh.EnvInt("VERIF_SHARDS", 1)
	after := vh.EnvInt("VERIF_AFTER", -1) // resume this shard behind the last lifecycle a previous run recorded completely
	skip := vh.EnvInt("VERIF_SKIP", -1)   // ... leaving out the lifecycle it died in
	skipping := after >= 0
	for i, s := range scns {
		if only >= 0 && s.ID != only {
			continue
		}
		if i%shards != shard {
			continue
		}
		if skipping {
			if s.ID == after {
				skipping = false
			}
			continue
		}
		if s.ID == skip {
			continue
		}
		marker(s.ID)
		// self-test hooks of the orchestrator's dead-driver handling (never set by bin/check)
		if (s.ID == vh.EnvInt("VERIF_C13_DIE", -1) && only < 0) || s.ID == vh.EnvInt("VERIF_C13_DIEHARD", -1) {
			os.Exit(3)
		}
		if s.ID == vh.EnvInt("VERIF_C13_WEDGE", -1) && only < 0 {
			syscall.Kill(os.Getpid(), syscall.SIGSTOP) // a process that makes no progress at all
		}
		// watchdog in REAL time (outside the bubble): a lifecycle normally takes ~25 ms; if one does not come back
		// the goroutines are dumped and the process exits so that the orchestrator can attribute and resume
		id := s.ID
		wd := time.AfterFunc(watchdog, func() {
			os.Stderr.WriteString(vh.Sprintf("c13: WATCHDOG lifecycle %d did not finish within %s of real time\n", id, watchdog))
			pprof.Lookup("goroutine").WriteTo(os.Stderr, 1)
			out.Close()
			os.Exit(3)
		})
		runScenario(t, out, s)
		wd.Stop()
	}
}
