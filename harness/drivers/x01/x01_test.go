//go:debug randseednop=0

// Drivers for the extension check X01 (the gossipsub peer gater, peer_gater.go).
//
// TestX01Unit replays the scenarios of spec/gater/GenGater.tla (plus directed ones) call by call into a
// REAL peerGater built by pubsub.VerifNewPeerGater (no host: IPs come from the scenario, as in the
// package's own unit tests; the decay goroutine is the real one and runs on the virtual clock of a
// testing/synctest bubble) and records, after every call, the gater's whole bookkeeping
// (pubsub.VerifDump) as fixed-point integers.
//
// The random early drop is made decidable without touching the library: AcceptFrom draws from the
// global math/rand source, which the driver seeds (rand.Seed works because of the go:debug line above)
// right before the call with a seed whose first Float64 is known to lie in the cell [k/64,(k+1)/64)
// the scenario asks for. Nothing else runs between the seeding and the call (the bubble is quiescent).
//
// The drivers never judge: spec/gater/GaterTrace.tla does.
package x01

import (
	"context"
	"math"
	"math/rand"
	"os"
	"sort"
	"testing"
	"testing/synctest"
	"time"

	pubsub "github.com/libp2p/go-libp2p-pubsub"
	pb "github.com/libp2p/go-libp2p-pubsub/pb"
	"github.com/libp2p/go-libp2p/core/peer"

	"verifharness/hnet"
	"verifharness/vh"
)

type M = map[string]any

const (
	S     = 4096 // fixed-point unit of the counters (spec/gater/Gater.tla)
	Cells = 64
)

// ---------------------------------------------------------------------------
// the controlled uniform draw

var cellSeed [Cells]int64

// initSeeds finds, for every cell, a seed whose first Float64 falls inside it, and checks that seeding
// the global source really controls rand.Float64.
func initSeeds(t testing.TB) {
	found := 0
	for s := int64(1); found < Cells && s < 1_000_000; s++ {
		u := rand.New(rand.NewSource(s)).Float64()
		k := int(u * Cells)
		if cellSeed[k] == 0 {
			cellSeed[k] = s
			found++
		}
	}
	if found < Cells {
		t.Fatalf("x01: cannot find a seed for every cell")
	}
	for _, k := range []int{0, 17, 63} {
		rand.Seed(cellSeed[k])
		u := rand.Float64()
		if int(u*Cells) != k {
			t.Fatalf("x01: seeding the global math/rand source has no effect (GODEBUG randseednop?): cell %d, drew %v", k, u)
		}
	}
}

// draw arranges for the next rand.Float64 to fall into cell k and returns the cell (recomputed from the value).
func draw(k int) int {
	if k < 0 {
		k = 0
	}
	if k >= Cells {
		k = Cells - 1
	}
	rand.Seed(cellSeed[k])
	return int(rand.New(rand.NewSource(cellSeed[k])).Float64() * Cells)
}

func resName(a pubsub.AcceptStatus) string {
	switch a {
	case pubsub.AcceptAll:
		return "all"
	case pubsub.AcceptControl:
		return "ctl"
	case pubsub.AcceptNone:
		return "none"
	}
	return "other"
}

// ---------------------------------------------------------------------------
// parameters and dumps

type params struct {
	Gd     int            `json:"gd"`
	Sd     int            `json:"sd"`
	Dtz    int            `json:"dtz"`
	Di     int            `json:"di"`
	T0     int            `json:"t0"`
	Retain int            `json:"retain"`
	Quiet  int            `json:"quiet"`
	ThN    int            `json:"thN"`
	ThD    int            `json:"thD"`
	Dwd    int            `json:"dwd"`
	Iw     int            `json:"iw"`
	Rw     int            `json:"rw"`
	Tw     map[string]int `json:"tw"`
}

func (p params) real() *pubsub.PeerGaterParams {
	g := &pubsub.PeerGaterParams{
		Threshold:       float64(p.ThN) / float64(p.ThD),
		GlobalDecay:     1 / float64(p.Gd),
		SourceDecay:     1 / float64(p.Sd),
		DecayInterval:   time.Duration(p.Di) * time.Millisecond,
		DecayToZero:     float64(p.Dtz) / S,
		RetainStats:     time.Duration(p.Retain) * time.Millisecond,
		Quiet:           time.Duration(p.Quiet) * time.Millisecond,
		DuplicateWeight: 1 / float64(p.Dwd),
		IgnoreWeight:    float64(p.Iw),
		RejectWeight:    float64(p.Rw),
	}
	tw := map[string]float64{}
	for t, w := range p.Tw {
		tw[t] = float64(w) / S
	}
	return g.WithTopicDeliveryWeights(tw)
}

func (p params) json(t0 int64, tol int) M {
	tw := M{}
	for t, w := range p.Tw {
		tw[t] = w
	}
	return M{"gd": p.Gd, "sd": p.Sd, "dtz": p.Dtz, "di": p.Di, "t0": t0, "retain": p.Retain, "quiet": p.Quiet,
		"thN": p.ThN, "thD": p.ThD, "dwd": p.Dwd, "iw": p.Iw, "rw": p.Rw, "tw": tw, "tol": tol}
}

// fx converts a counter to units of 1/S; ok is false when that is not a (moderate) integer.
func fx(v float64, bad *bool) int64 {
	x := v * S
	if math.IsNaN(x) || math.IsInf(x, 0) || x != math.Trunc(x) || math.Abs(x) > 1<<30 {
		*bad = true
		return -7
	}
	return int64(x)
}

func msOf(unixNano int64) int64 {
	if unixNano == 0 {
		return -1
	}
	return (unixNano - hnet.Epoch.UnixNano()) / int64(time.Millisecond)
}

// dump normalises the gater's bookkeeping: peers and IPs by name, counters in 1/S, times in virtual ms.
func dump(pg *pubsub.VerifPeerGater, peerName func(peer.ID) string, ipName func(string) string) M {
	d := pg.VerifDump()
	bad := false
	objs := []M{}
	for _, o := range d.Objs {
		ps := []string{}
		for _, p := range o.Peers {
			ps = append(ps, peerName(p))
		}
		sort.Strings(ps)
		ip := ""
		if o.IP != "" {
			ip = ipName(o.IP)
		}
		objs = append(objs, M{"ip": ip, "peers": ps, "conn": o.Connected, "exp": msOf(o.Expire),
			"d": fx(o.Deliver, &bad), "u": fx(o.Duplicate, &bad), "i": fx(o.Ignore, &bad), "r": fx(o.Reject, &bad)})
	}
	return M{"gval": fx(d.Validate, &bad), "gthr": fx(d.Throttle, &bad), "last": msOf(d.LastThrottle), "bad": bad, "objs": objs}
}

// ---------------------------------------------------------------------------
// TestX01Unit

type act struct {
	E      string `json:"e"`
	P      string `json:"p"`
	Reason string `json:"reason"`
	Topic  string `json:"topic"`
	K      int    `json:"k"`
	Ms     int    `json:"ms"`
	IP     string `json:"ip"`
}

type scenario struct {
	Par  params            `json:"par"`
	IPOf map[string]string `json:"ipof"`
	Acts []act             `json:"acts"`
	Tag  string            `json:"tag"`
}

func marker(i int) {
	if p := os.Getenv("VERIF_MARKER"); p != "" {
		os.WriteFile(p, []byte(vh.Sprintf("%d", i)), 0o644)
	}
}

func runUnit(t *testing.T, out *vh.Out, idx int, s scenario) {
	synctest.Test(t, func(t *testing.T) {
		ctx, cancel := context.WithCancel(context.Background())
		defer func() {
			cancel()
			synctest.Wait()
		}()
		ips := map[string]string{}
		for p, ip := range s.IPOf {
			ips[p] = ip
		}
		getIP := func(p peer.ID) string {
			if ip, ok := ips[string(p)]; ok {
				return ip
			}
			return "U"
		}
		pg := pubsub.VerifNewPeerGater(ctx, s.Par.real(), getIP)
		pn := func(p peer.ID) string { return string(p) }
		in := func(ip string) string { return ip }
		snap := func() M { return dump(pg, pn, in) }
		ipof := M{}
		for p, ip := range s.IPOf {
			ipof[p] = ip
		}
		out.Emit(M{"e": "reset", "scn": idx, "src": "unit", "tag": s.Tag, "par": s.Par.json(hnet.NowMs(), 0), "ipof": ipof, "t": hnet.NowMs(), "st": snap()})
		// stimuli sit at k*1000+500 ms, decay ticks at multiples of the decay interval
		hnet.Settle(500 * time.Millisecond)
		for _, a := range s.Acts {
			pid := peer.ID(a.P)
			line := M{"e": a.E, "scn": idx}
			if a.P != "" {
				line["p"] = a.P
			}
			switch a.E {
			case "outopen":
				pg.OnNewOutboundStream(pid, "/meshsub/1.1.0")
			case "outclose":
				pg.OnClosedOutboundStream(pid)
			case "inopen":
				// the gater is not told about new inbound streams
			case "inclose":
				pg.OnClosedIncomingStream(pid, "/meshsub/1.1.0")
			case "validate":
				pg.ValidateMessage(&pubsub.Message{Message: &pb.Message{}, ReceivedFrom: pid})
			case "reject":
				line["reason"] = a.Reason
				pg.RejectMessage(&pubsub.Message{Message: &pb.Message{}, ReceivedFrom: pid}, a.Reason)
			case "deliver":
				line["topic"] = a.Topic
				tp := a.Topic
				pg.DeliverMessage(&pubsub.Message{Message: &pb.Message{Topic: &tp}, ReceivedFrom: pid})
			case "dup":
				pg.DuplicateMessage(&pubsub.Message{Message: &pb.Message{}, ReceivedFrom: pid})
			case "accept":
				line["k"] = draw(a.K)
				line["res"] = resName(pg.AcceptFrom(pid))
			case "adv":
				line["ms"] = a.Ms
				hnet.Settle(time.Duration(a.Ms) * time.Millisecond)
			case "setip":
				line["ip"] = a.IP
				ips[a.P] = a.IP
			default:
				t.Fatalf("x01: unknown action %q", a.E)
			}
			line["t"] = hnet.NowMs()
			line["st"] = snap()
			out.Emit(line)
		}
	})
}

func TestX01Unit(t *testing.T) {
	scns := vh.ReadScenarios[scenario](t, "VERIF_IN")
	out := vh.NewOut(t, "VERIF_OUT")
	initSeeds(t)
	for i, s := range scns {
		marker(i)
		runUnit(t, out, i, s)
	}
	marker(-1)
}
