// TestX01Node: the peer gater inside a running gossipsub node.
//
// One real node (world interpreter, virtual time) with WithPeerGater(<scenario parameters>), peer
// scoring (application score only), a validation queue of one slot with one worker, an inline
// validator on every topic whose verdict is the prefix of the payload ("rej..", "ign..", else accept)
// and that can be parked (queue overflow = "validation queue full"), and an asynchronous validator of
// concurrency one on topic "ta" (a second message while it is parked = "validation throttled").
// Wire-level fake peers sit on simulated hosts; peers that the scenario puts on the same IP get hosts
// listening on the same simnet address with different ports.
//
// Every step of the world interpreter is translated into the line format of spec/gater/GaterTrace.tla:
// one line per gater-relevant tracer event seen by the recorder (Up/Down = outbound stream opened /
// closed, Validate, Deliver, Reject, Duplicate; inbound stream openings / closings are taken from the
// stimulus), "setip" lines when the connectivity of a peer changes (the gater reads the IP off the
// connection: no connection = "<unknown>" = "U"), an "rpc" line with the facts about a probe RPC
// (payload + control from one peer) and finally an "obs" line with the dump of the node's gater.
// "acc" steps call the ROUTER's AcceptFrom inside the event loop with a controlled draw.
package x01

import (
	"context"
	"fmt"
	"sort"
	"strings"
	"sync/atomic"
	"testing"
	"testing/synctest"
	"time"

	"github.com/libp2p/go-libp2p"
	pubsub "github.com/libp2p/go-libp2p-pubsub"
	pb "github.com/libp2p/go-libp2p-pubsub/pb"
	"github.com/libp2p/go-libp2p/core/host"
	"github.com/libp2p/go-libp2p/core/network"
	"github.com/libp2p/go-libp2p/core/peer"
	"github.com/libp2p/go-libp2p/x/simlibp2p"
	"github.com/marcopolo/simnet"
	manet "github.com/multiformats/go-multiaddr/net"

	"verifharness/hnet"
	"verifharness/vh"
	"verifharness/world"
)

type nodeScenario struct {
	Par  params            `json:"par"`
	IPOf map[string]string `json:"ipof"` // fake peer name -> IP letter (same letter = same simulated address)
	Acts []M               `json:"acts"`
	Tag  string            `json:"tag"`
}

type nodeRun struct {
	t       *testing.T
	w       *world.World
	out     *vh.Out
	idx     int
	s       nodeScenario
	ipName  map[string]string // real IP -> letter
	curIP   map[string]string // peer name -> last reported letter
	direct  map[string]bool
	score   map[string]int
	lastT   int64
	blocked [2]atomic.Bool
	gate    [2]chan struct{}
	probe   M // facts of the probe RPC of the current step
}

func gs(m M, k string) string { s, _ := m[k].(string); return s }
func gi(m M, k string) int {
	if v, ok := m[k].(float64); ok {
		return int(v)
	}
	if v, ok := m[k].(int); ok {
		return v
	}
	return 0
}
func gb(m M, k string) bool  { b, _ := m[k].(bool); return b }
func gl(m M, k string) []any { l, _ := m[k].([]any); return l }

func hostIP(h host.Host) string {
	for _, a := range h.Addrs() {
		if ip, err := manet.ToIP(a); err == nil {
			return ip.String()
		}
	}
	return ""
}

// colocate replaces the unused host number i of the world's network by a fresh host that listens on
// the IP of host number j (another port).
func colocate(t *testing.T, w *world.World, i, j int) {
	ip := hostIP(w.Net.Hosts[j])
	link := simnet.NodeBiDiLinkSettings{
		Downlink: simnet.LinkSettings{BitsPerSecond: 1000 * simlibp2p.OneMbps},
		Uplink:   simnet.LinkSettings{BitsPerSecond: 1000 * simlibp2p.OneMbps},
	}
	h, err := libp2p.New(
		libp2p.ListenAddrStrings(fmt.Sprintf("/ip4/%s/udp/%d/quic-v1", ip, 8000+i)),
		simlibp2p.QUICSimnet(w.Net.Sim, link),
		libp2p.DisableIdentifyAddressDiscovery(),
		libp2p.ResourceManager(&network.NullResourceManager{}),
	)
	if err != nil {
		t.Fatalf("x01: colocated host: %v", err)
	}
	w.Net.Hosts[i].Close()
	w.Net.Hosts[i] = h
	hnet.Settle(10 * time.Millisecond)
}

func (r *nodeRun) emit(line M) {
	line["scn"] = r.idx
	if t, ok := line["t"].(int64); ok {
		if t < r.lastT {
			line["t"] = r.lastT
		} else {
			r.lastT = t
		}
	}
	r.out.Emit(line)
}

func (r *nodeRun) snap() M {
	pg := r.w.NUT.VerifGater()
	return dump(pg, func(p peer.ID) string { return r.w.Names.P(p) }, func(ip string) string {
		if ip == "<unknown>" {
			return "U"
		}
		if n, ok := r.ipName[ip]; ok {
			return n
		}
		return "?" + ip
	})
}

// syncIPs reports connectivity changes as setip lines.
func (r *nodeRun) syncIPs(t int64) {
	names := []string{}
	for n := range r.w.Fakes {
		names = append(names, n)
	}
	sort.Strings(names)
	for _, n := range names {
		f := r.w.Fakes[n]
		ip := "U"
		if len(r.w.H.Network().ConnsToPeer(f.ID())) > 0 {
			ip = r.s.IPOf[n]
		}
		if r.curIP[n] != ip {
			r.curIP[n] = ip
			r.emit(M{"e": "setip", "p": n, "ip": ip, "t": t})
		}
	}
}

func evT(ev M) int64 {
	switch v := ev["t"].(type) {
	case int64:
		return v
	case int:
		return int64(v)
	case float64:
		return int64(v)
	}
	return 0
}

// translate turns one step line of the world interpreter into gater trace lines.
func (r *nodeRun) translate(w *world.World, line M) {
	act, _ := line["act"].(M)
	a := gs(act, "a")
	p := gs(act, "p")
	now := line["t"].(int64)
	evs, _ := line["ev"].([]M)
	start := r.lastT
	r.syncIPs(start)
	if a == "peer" || a == "openOut" {
		r.emit(M{"e": "inopen", "p": p, "t": start})
	}
	if pr := r.probe; pr != nil {
		// facts about the probe RPC of this step
		thr, mev := 0, 0
		for _, ev := range evs {
			switch gs(ev, "k") {
			case "Throttle":
				if gs(ev, "p") == p {
					thr++
				}
			case "Validate", "Deliver", "Reject", "Duplicate", "Undeliverable":
				if gs(ev, "via") == p && !gb(ev, "self") {
					mev++
				}
			}
		}
		st, _ := line["st"].(M)
		inmesh := false
		if g := gs(pr, "graft"); g != "" {
			if mesh, ok := st["mesh"].(M); ok {
				switch l := mesh[g].(type) {
				case []string:
					for _, x := range l {
						inmesh = inmesh || x == p
					}
				case []any:
					for _, x := range l {
						inmesh = inmesh || x == p
					}
				}
			}
		}
		served := false
		if wnt := gs(pr, "iwant"); wnt != "" {
			if outs, ok := line["out"].(M); ok {
				if frs, ok := outs[p].([]any); ok {
					for _, fr := range frs {
						for _, m := range gl(fr.(M), "msgs") {
							served = served || gs(m.(M), "m") == wnt
						}
					}
				}
			}
		}
		pr["thr"], pr["mev"], pr["inmesh"], pr["served"] = thr, mev, inmesh, served
		pr["e"], pr["p"], pr["t"] = "rpc", p, start
		pr["direct"] = r.direct[p]
		pr["gray"] = r.score[p] < -6
		r.emit(pr)
		r.probe = nil
	}
	if (a == "msg" || a == "resend") && p != "" {
		// every RPC read from a peer passes AcceptFrom (which may create the peer's entry): tell the model, nothing to judge
		r.emit(M{"e": "rpc", "p": p, "t": start, "nmsg": 0, "msgs": []string{}, "thr": 0, "mev": 0, "graft": "", "iwant": "",
			"inmesh": false, "served": false, "direct": r.direct[p], "gray": r.score[p] < -6})
	}
	for _, ev := range evs {
		t := evT(ev)
		switch gs(ev, "k") {
		case "Up":
			r.emit(M{"e": "outopen", "p": gs(ev, "p"), "t": t})
		case "Down":
			r.emit(M{"e": "outclose", "p": gs(ev, "p"), "t": t})
		case "Validate":
			if !gb(ev, "self") {
				r.emit(M{"e": "validate", "t": t})
			}
		case "Deliver":
			if !gb(ev, "self") {
				r.emit(M{"e": "deliver", "p": gs(ev, "via"), "topic": gs(ev, "topic"), "t": t})
			}
		case "Reject":
			if !gb(ev, "self") {
				r.emit(M{"e": "reject", "p": gs(ev, "via"), "reason": gs(ev, "reason"), "t": t})
			}
		case "Duplicate":
			if !gb(ev, "self") {
				r.emit(M{"e": "dup", "p": gs(ev, "via"), "t": t})
			}
		}
	}
	if a == "down" || a == "closeOut" || a == "resetOut" {
		r.emit(M{"e": "inclose", "p": p, "t": r.lastT})
	}
	if a == "resend" {
		val, dup := false, false
		for _, ev := range evs {
			if gs(ev, "m") == gs(act, "m") {
				val = val || gs(ev, "k") == "Validate"
				dup = dup || gs(ev, "k") == "Duplicate"
			}
		}
		r.emit(M{"e": "resend", "p": p, "m": gs(act, "m"), "expect": gs(act, "expect"), "val": val, "dup": dup, "t": r.lastT})
	}
	r.syncIPs(r.lastT)
	r.emit(M{"e": "obs", "t": now, "a": a, "st": r.snap()})
}

func (r *nodeRun) message(f *hnet.FakePeer, name, topic string) *pb.Message {
	if m := r.w.Msg(name); m != nil {
		return m
	}
	m := f.NewMessage(name, topic, 16, true)
	r.w.RegMsg(name, m)
	return m
}

// rpcx sends one RPC with payload messages and control from fake peer p (a probe when "probe" is set).
func (r *nodeRun) rpcx(a M) {
	w := r.w
	p := gs(a, "p")
	f := w.Fakes[p]
	if f == nil {
		r.t.Fatalf("x01: rpc from unknown peer %q", p)
	}
	out := &pb.RPC{}
	ctl := &pb.ControlMessage{}
	for _, x := range gl(a, "msgs") {
		xm := x.(M)
		out.Publish = append(out.Publish, r.message(f, gs(xm, "m"), gs(xm, "t")))
	}
	if g := gs(a, "graft"); g != "" {
		ctl.Graft = append(ctl.Graft, &pb.ControlGraft{TopicID: &g})
	}
	if x := gs(a, "iwant"); x != "" {
		ctl.Iwant = append(ctl.Iwant, &pb.ControlIWant{MessageIDs: w.RealIDs([]string{x})})
	}
	if len(ctl.Graft)+len(ctl.Iwant) > 0 {
		out.Control = ctl
	}
	w.Guard()
	if gb(a, "probe") {
		names := []string{}
		for _, x := range gl(a, "msgs") {
			names = append(names, gs(x.(M), "m"))
		}
		r.probe = M{"graft": gs(a, "graft"), "iwant": gs(a, "iwant"), "nmsg": len(out.Publish), "msgs": names}
	}
	if err := f.Send(out); err != nil {
		r.t.Fatalf("x01: send: %v", err)
	}
	hnet.Settle(15 * time.Millisecond)
	w.Emit(a)
}

// acc asks the ROUTER (direct peers, graylist, gater) inside the event loop, with the draw in cell k.
func (r *nodeRun) acc(a M) {
	w := r.w
	p := gs(a, "p")
	f := w.Fakes[p]
	w.Guard()
	r.syncIPs(hnet.NowMs())
	var res pubsub.AcceptStatus
	k := 0
	err := w.NUT.VerifEval(func() {
		k = draw(gi(a, "k"))
		res = w.NUT.VerifRouter().AcceptFrom(f.ID())
	})
	if err != nil {
		r.t.Fatalf("x01: eval: %v", err)
	}
	r.emit(M{"e": "accept", "p": p, "k": k, "res": resName(res), "direct": r.direct[p], "gray": r.score[p] < -6,
		"t": hnet.NowMs(), "st": r.snap()})
}

func (r *nodeRun) setBlock(i int, on bool) {
	if on {
		r.blocked[i].Store(true)
	} else if r.blocked[i].Load() {
		r.blocked[i].Store(false)
		close(r.gate[i])
		r.gate[i] = make(chan struct{})
	}
}

func verdictOf(data []byte) pubsub.ValidationResult {
	switch {
	case strings.HasPrefix(string(data), "rej"):
		return pubsub.ValidationReject
	case strings.HasPrefix(string(data), "ign"):
		return pubsub.ValidationIgnore
	}
	return pubsub.ValidationAccept
}

func runNode(t *testing.T, out, sink *vh.Out, idx int, s nodeScenario) {
	synctest.Test(t, func(t *testing.T) {
		par := s.Par.real()
		cfg := world.Config{Score: true, Hosts: 7, Retain: 10 * time.Second,
			Opts: []pubsub.Option{pubsub.WithPeerGater(par), pubsub.WithValidateQueueSize(1), pubsub.WithValidateWorkers(1)}}
		sp := world.SmallParams()
		cfg.Params = &sp
		w := world.New(t, sink, idx, cfg, M{})
		t0 := hnet.NowMs()
		r := &nodeRun{t: t, w: w, out: out, idx: idx, s: s, ipName: map[string]string{}, curIP: map[string]string{},
			direct: map[string]bool{}, score: map[string]int{}, lastT: t0}
		r.gate[0], r.gate[1] = make(chan struct{}), make(chan struct{})
		defer w.Close()
		defer func() {
			r.setBlock(0, false)
			r.setBlock(1, false)
		}()
		if w.NUT.VerifGater() == nil {
			t.Fatalf("x01: the node has no gater")
		}
		// hosts: fake peer pN sits on host number N; colocated peers share the address of the first of them
		names := []string{}
		for n := range s.IPOf {
			names = append(names, n)
		}
		sort.Strings(names)
		first := map[string]int{}
		hostOf := map[string]int{}
		for i, n := range names {
			hostOf[n] = i + 1
			letter := s.IPOf[n]
			if j, ok := first[letter]; ok {
				colocate(t, w, i+1, j)
			} else {
				first[letter] = i + 1
			}
			r.ipName[hostIP(w.Net.Hosts[i+1])] = letter
			r.curIP[n] = "U"
		}
		ipof := M{}
		for _, n := range names {
			ipof[n] = "U"
		}
		r.emit(M{"e": "reset", "src": "node", "tag": s.Tag, "par": s.Par.json(t0, 60), "ipof": ipof, "t": t0, "st": r.snap()})
		w.Extra = r.translate
		// validators
		park := func(i int, ctx context.Context, from peer.ID) {
			if r.blocked[i].Load() && from != w.H.ID() {
				select {
				case <-r.gate[i]:
				case <-ctx.Done():
				}
			}
		}
		for _, tp := range []string{"t1", "t2", "t3", "ta"} {
			tp := tp
			var err error
			if tp == "ta" {
				err = w.NUT.RegisterTopicValidator(tp, func(ctx context.Context, from peer.ID, msg *pubsub.Message) pubsub.ValidationResult {
					park(1, ctx, from)
					return verdictOf(msg.GetData())
				}, pubsub.WithValidatorConcurrency(1))
			} else {
				err = w.NUT.RegisterTopicValidator(tp, func(ctx context.Context, from peer.ID, msg *pubsub.Message) pubsub.ValidationResult {
					park(0, ctx, from)
					return verdictOf(msg.GetData())
				}, pubsub.WithValidatorInline(true))
			}
			if err != nil {
				t.Fatalf("x01: validator: %v", err)
			}
		}
		for _, a := range s.Acts {
			switch gs(a, "a") {
			case "rpcx":
				r.rpcx(a)
			case "resend":
				// the same bytes again, from another peer
				f := w.Fakes[gs(a, "p")]
				m := w.Msg(gs(a, "m"))
				if f == nil || m == nil {
					t.Fatalf("x01: resend of unknown message / peer %v", a)
				}
				w.Guard()
				f.Send(hnet.MsgRPC(m))
				hnet.Settle(15 * time.Millisecond)
				w.Emit(a)
			case "acc":
				r.acc(a)
			case "hold":
				// the node's outbound stream to this (future) fake peer is not opened until released: an inbound-only peer
				id := w.Net.Hosts[hostOf[gs(a, "p")]].ID()
				if gb(a, "on") {
					w.H.HoldOpen(id)
				} else {
					w.H.ReleaseOpen(id)
				}
				w.Guard()
				hnet.Settle(40 * time.Millisecond)
				w.Emit(a)
			case "block":
				r.setBlock(gi(a, "i"), gb(a, "on"))
				w.Guard()
				hnet.Settle(15 * time.Millisecond)
				w.Emit(a)
			default:
				switch gs(a, "a") {
				case "direct":
					r.direct[gs(a, "p")] = gb(a, "on")
				case "score":
					r.score[gs(a, "p")] = gi(a, "v")
				}
				if !w.Do(a) {
					t.Fatalf("x01: unknown action %v", a)
				}
			}
		}
	})
}

func TestX01Node(t *testing.T) {
	scns := vh.ReadScenarios[nodeScenario](t, "VERIF_IN")
	out := vh.NewOut(t, "VERIF_OUT")
	sink := vh.NewOut(t, "VERIF_SINK")
	initSeeds(t)
	only := vh.EnvInt("VERIF_ONLY", -1)
	for i, s := range scns {
		if only >= 0 && i != only {
			continue
		}
		marker(i)
		runNode(t, out, sink, i, s)
	}
	marker(-1)
}
