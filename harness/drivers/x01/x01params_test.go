package x01

import (
	"context"
	"math"
	"testing"
	"time"

	"github.com/libp2p/go-libp2p"
	pubsub "github.com/libp2p/go-libp2p-pubsub"
	"github.com/libp2p/go-libp2p/core/host"
	"github.com/libp2p/go-libp2p/core/network"

	"verifharness/vh"
)

// TestX01Params pushes the parameter vectors of spec/gater/GaterParams.tla through the real
// PeerGaterParams.validate, NewGossipSub(WithPeerGater) and NewFloodSub(WithPeerGater).
func fval(s string) float64 {
	switch s {
	case "NaN":
		return math.NaN()
	case "-Inf":
		return math.Inf(-1)
	case "+Inf":
		return math.Inf(1)
	case "-1":
		return -1
	case "0":
		return 0
	case "1/2":
		return 0.5
	case "1":
		return 1
	case "2":
		return 2
	}
	panic("x01: unknown grid value " + s)
}

func dval(s string) time.Duration {
	switch s {
	case "-1ns":
		return -1
	case "0":
		return 0
	case "999ms":
		return 999 * time.Millisecond
	case "1s":
		return time.Second
	case "2s":
		return 2 * time.Second
	}
	panic("x01: unknown duration " + s)
}

func vecParams(v map[string]string) *pubsub.PeerGaterParams {
	return &pubsub.PeerGaterParams{
		Threshold: fval(v["Threshold"]), GlobalDecay: fval(v["GlobalDecay"]), SourceDecay: fval(v["SourceDecay"]),
		DecayInterval: dval(v["DecayInterval"]), DecayToZero: fval(v["DecayToZero"]), RetainStats: dval(v["RetainStats"]),
		Quiet: dval(v["Quiet"]), DuplicateWeight: fval(v["DuplicateWeight"]), IgnoreWeight: fval(v["IgnoreWeight"]),
		RejectWeight: fval(v["RejectWeight"]),
	}
}

func TestX01Params(t *testing.T) {
	vecs := vh.ReadScenarios[map[string]string](t, "VERIF_IN")
	out := vh.NewOut(t, "VERIF_OUT")
	// no virtual time here: a constructor that fails on an option leaves helper goroutines of the router behind
	// (address-book sweeper), which a testing/synctest bubble would refuse to end with
	var hs [2]host.Host
	for i := range hs {
		h, err := libp2p.New(libp2p.NoListenAddrs, libp2p.ResourceManager(&network.NullResourceManager{}))
		if err != nil {
			t.Fatal(err)
		}
		defer h.Close()
		hs[i] = h
	}
	for _, v := range vecs {
		line := M{"v": v}
		line["validate"] = pubsub.VerifValidatePeerGaterParams(vecParams(v)) == nil
		ctx, cancel := context.WithCancel(context.Background())
		ps, err := pubsub.NewGossipSub(ctx, hs[0], pubsub.WithPeerGater(vecParams(v)))
		line["gossipsub"] = err == nil
		line["hasGater"] = err == nil && ps.VerifGater() != nil
		_, err = pubsub.NewFloodSub(ctx, hs[1], pubsub.WithPeerGater(vecParams(v)))
		line["floodsub"] = err == nil
		cancel()
		out.Emit(line)
	}
}
