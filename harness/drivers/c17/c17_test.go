// C17 (router part), slow-validator driver: the same step lines as the generic
// router replay driver, but the node under test has an ASYNCHRONOUS default
// validator that holds every message whose name starts with cfg.slowPrefix for
// cfg.slowMs of virtual time.  Used for the promise scenarios in which the
// requested message arrives right after the IWANT but is still being validated
// when the follow-up time runs out (gossip_tracer.go: a promise is fulfilled
// as soon as the message enters validation).  The driver never judges; the
// lines are validated by spec/gossip/GossipTrace.tla.
package c17

import (
	"context"
	"strings"
	"testing"
	"testing/synctest"
	"time"

	pubsub "github.com/libp2p/go-libp2p-pubsub"
	"github.com/libp2p/go-libp2p/core/peer"

	"verifharness/vh"
	"verifharness/world"
)

type M = map[string]any

type scenario struct {
	Cfg  M   `json:"cfg"`
	Acts []M `json:"acts"`
}

func geti(m M, k string, def int) int {
	if v, ok := m[k].(float64); ok {
		return int(v)
	}
	return def
}

func gets(m M, k, def string) string {
	if s, ok := m[k].(string); ok {
		return s
	}
	return def
}

func run(t *testing.T, out *vh.Out, idx int, s scenario) {
	synctest.Test(t, func(t *testing.T) {
		p := world.SmallParams()
		p.D, p.Dlo, p.Dhi, p.Dscore, p.Dout = 2, 1, 3, 1, 0
		p.OpportunisticGraftTicks = 100000
		p.Dlazy = geti(s.Cfg, "Dlazy", 1)
		p.GossipFactor = float64(geti(s.Cfg, "gossipFactorPct", 50)) / 100
		p.IWantFollowupTime = time.Duration(geti(s.Cfg, "followupMs", 1000)) * time.Millisecond
		p.MaxIHaveLength = geti(s.Cfg, "maxIHaveLen", p.MaxIHaveLength)
		p.MaxIHaveMessages = geti(s.Cfg, "maxIHaveMsgs", p.MaxIHaveMessages)
		slow := time.Duration(geti(s.Cfg, "slowMs", 2300)) * time.Millisecond
		prefix := gets(s.Cfg, "slowPrefix", "s")
		verdict := gets(s.Cfg, "slowVerdict", "accept")
		val := func(ctx context.Context, from peer.ID, msg *pubsub.Message) pubsub.ValidationResult {
			if strings.HasPrefix(string(msg.GetData()), prefix) {
				select {
				case <-time.After(slow):
				case <-ctx.Done():
					return pubsub.ValidationIgnore
				}
				switch verdict {
				case "reject":
					return pubsub.ValidationReject
				case "ignore":
					return pubsub.ValidationIgnore
				}
			}
			return pubsub.ValidationAccept
		}
		th := &pubsub.PeerScoreThresholds{GossipThreshold: -2, PublishThreshold: -4, GraylistThreshold: -6, AcceptPXThreshold: 2, OpportunisticGraftThreshold: 1}
		cfg := world.Config{Score: true, PenWeight: 0, Retain: 10 * time.Second, Hosts: geti(s.Cfg, "hosts", 6), Params: &p, Thresholds: th,
			Opts: []pubsub.Option{pubsub.WithDefaultValidator(val)}}
		reset := M{"score": true, "flood": false, "px": false, "queue": 0, "penWeight": 0,
			"D": p.D, "Dlo": p.Dlo, "Dhi": p.Dhi, "Dscore": p.Dscore, "Dout": p.Dout, "Dlazy": p.Dlazy,
			"H": p.HistoryLength, "G": p.HistoryGossip, "retx": p.GossipRetransmission,
			"maxIHaveLen": p.MaxIHaveLength, "maxIHaveMsgs": p.MaxIHaveMessages, "maxIDWLen": p.MaxIDontWantLength,
			"maxIDWMsgs": p.MaxIDontWantMessages, "idwTTL": p.IDontWantMessageTTL, "idwThreshold": p.IDontWantMessageThreshold,
			"followupMs": p.IWantFollowupTime.Milliseconds(), "gossipFactorPct": int(p.GossipFactor * 100), "hbMs": p.HeartbeatInterval.Milliseconds(),
			"slowMs": slow.Milliseconds(), "slowPrefix": prefix, "slowVerdict": verdict,
			"thr": M{"gossip": int(th.GossipThreshold), "publish": int(th.PublishThreshold), "graylist": int(th.GraylistThreshold),
				"acceptPX": int(th.AcceptPXThreshold), "oppGraft": int(th.OpportunisticGraftThreshold)}}
		w := world.New(t, out, idx, cfg, reset)
		defer w.Close()
		for _, a := range s.Acts {
			if !w.Do(a) {
				t.Fatalf("unknown action %v", a)
			}
		}
	})
}

// TestC17Slow replays the scenarios of VERIF_IN against a node with the slow validator.
func TestC17Slow(t *testing.T) {
	scns := vh.ReadScenarios[scenario](t, "VERIF_IN")
	out := vh.NewOut(t, "VERIF_OUT")
	for i, s := range scns {
		run(t, out, i, s)
	}
}
