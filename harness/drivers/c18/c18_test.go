// Driver for property C18 (the peer-event stream of a topic reproduces the
// topic's peer set). One real node under test (gossipsub or floodsub, built by
// package world), 2-4 wire-level fake peers producing SUBSCRIBE / UNSUBSCRIBE /
// disconnect / reconnect / closed streams, topic event handlers created with
// Topic.EventHandler(), and consumer goroutines calling NextPeerEvent.
//
// The driver never judges. It writes NDJSON lines that TLC validates against
// spec/eventlog/EventLogTrace.tla:
//
//	{"e":"reset","scn","peers":[..],"mem":[..],"router"}       scenario start (membership ground truth)
//	{"e":"stim","scn","a","ops":[{"p","seq":[bool..]}]}        BEFORE a wire stimulus: per peer the subscription
//	                                                           options it is about to put on the wire (false also
//	                                                           stands for "disconnect / close the stream")
//	{"e":"step","scn","a","mem":[..],"lp":[..],"nh":n}         AFTER stimulus + settle: st.topics[T], Topic.ListPeers(), #handlers
//	{"e":"newh","scn","h"} {"e":"cancelh","scn","h"}           EventHandler() returned / Cancel() returned
//	{"e":"call","scn","id","c","h","ctx","mode"}               a consumer is about to call NextPeerEvent
//	{"e":"go","scn","id"}                                      a parked call is released into the select
//	{"e":"cancel","scn","ctx"}                                 a context is cancelled
//	{"e":"ret","scn","id","k":"J|L|ctx|err","p"}               NextPeerEvent returned
//	{"e":"quiet","scn","blocked":[ids],"parked":[ids],"mem","lp"}  after synctest.Wait(): calls in the select / parked in ctx.Done()
//
// Scheduling of consumers: NextPeerEvent evaluates ctx.Done() on every
// iteration, after an empty pull and the unlock, right before its select. In
// mode "step" the harness context parks the call inside Done() until the
// scenario says "go": that is the window in which a wake-up can be lost, and it
// lets a scenario pile up events while two consumers are about to wait.
package c18

import (
	"context"
	"encoding/json"
	"fmt"
	"math/rand"
	"os"
	"runtime"
	"sort"
	"strings"
	"sync"
	"testing"
	"testing/synctest"
	"time"

	pubsub "github.com/libp2p/go-libp2p-pubsub"
	pb "github.com/libp2p/go-libp2p-pubsub/pb"
	"github.com/libp2p/go-libp2p/core/peer"

	"verifharness/hnet"
	"verifharness/vh"
	"verifharness/world"
)

type M = map[string]any

const topic = "T"

type subop struct {
	P string `json:"p"`
	V bool   `json:"v"`
}

type step struct {
	A   string  `json:"a"`
	P   string  `json:"p"`
	H   string  `json:"h"`
	C   string  `json:"c"`
	M   string  `json:"m"`   // call: "step" | "free"; leave: wire variant ("", "unsub", "down", "closeOut", "resetOut")
	Ops []subop `json:"ops"` // multi
}

type scenario struct {
	Cfg       M                 `json:"cfg"` // router, nutSub, npeers, proto
	HandlerOf map[string]string `json:"handlerOf"`
	Steps     []step            `json:"steps"`
}

// schedCtx is the consumer's context. In step mode Done() parks the caller.
type schedCtx struct {
	context.Context
	r    *run
	id   int
	step bool
}

func (c *schedCtx) Done() <-chan struct{} {
	if c.step {
		c.r.park(c.id)
	}
	return c.Context.Done()
}

type call struct {
	id   int
	c, h string
}

type run struct {
	t     *testing.T
	out   *vh.Out
	w     *world.World
	scn   int
	rng   *rand.Rand
	tp    *pubsub.Topic
	mu    sync.Mutex
	next  int
	open  map[int]*call         // calls that have not returned
	park_ map[int]chan struct{} // calls parked in ctx.Done()
	cur   map[string]int        // consumer -> id of its open call
	lastK map[string]string     // consumer -> kind of its most recent return

	handlers map[string]*pubsub.TopicEventHandler
	ctxs     map[string]context.Context
	cancels  map[string]context.CancelFunc
	conn     map[string]string // peer -> "up" | "down" | "noout"
	member   map[string]bool   // what the stimuli sent so far imply (only used to pick stimuli)
	proto    map[string]string
	peers    []string
	setup    bool
	router   string
	np       int
	abort    string // the harness (not the library) failed: the scenario is abandoned and not judged
}

func (r *run) emit(m M) {
	m["scn"] = r.scn
	r.out.Emit(m)
}

func (r *run) park(id int) {
	ch := make(chan struct{})
	r.mu.Lock()
	r.park_[id] = ch
	r.mu.Unlock()
	<-ch
}

func (r *run) ctx(name string) context.Context {
	r.mu.Lock()
	defer r.mu.Unlock()
	if _, ok := r.ctxs[name]; !ok {
		r.ctxs[name], r.cancels[name] = context.WithCancel(context.Background())
	}
	return r.ctxs[name]
}

// truth reads the two ground truths: topics[T] of the snapshot and Topic.ListPeers().
func (r *run) truth() (mem, lp []string, nh int) {
	mem, lp = []string{}, []string{}
	if st := r.w.RawSnap(); st != nil {
		for p := range st.Topics[topic] {
			mem = append(mem, r.w.Names.P(p))
		}
		nh = st.MyTopics[topic].EvtHandlers
	}
	sort.Strings(mem)
	lp = append(lp, r.w.Names.Ps(r.tp.ListPeers())...)
	return
}

func (r *run) quiet() {
	synctest.Wait()
	r.mu.Lock()
	blocked, parked := []int{}, []int{}
	for id := range r.open {
		if _, ok := r.park_[id]; ok {
			parked = append(parked, id)
		} else {
			blocked = append(blocked, id)
		}
	}
	r.mu.Unlock()
	sort.Ints(blocked)
	sort.Ints(parked)
	mem, lp, _ := r.truth()
	r.emit(M{"e": "quiet", "blocked": blocked, "parked": parked, "mem": mem, "lp": lp})
}

// startCall starts one NextPeerEvent call of consumer c on handler h.
func (r *run) startCall(c, h, ctxName, mode string) {
	hd := r.handlers[h]
	if hd == nil {
		r.emit(M{"e": "skip", "why": "no handler " + h})
		return
	}
	r.mu.Lock()
	if _, busy := r.cur[c]; busy {
		r.mu.Unlock()
		r.emit(M{"e": "skip", "why": "consumer busy " + c})
		return
	}
	r.next++
	id := r.next
	r.open[id] = &call{id: id, c: c, h: h}
	r.cur[c] = id
	r.mu.Unlock()
	inner := r.ctx(ctxName)
	sctx := &schedCtx{Context: inner, r: r, id: id, step: mode == "step"}
	r.emit(M{"e": "call", "id": id, "c": c, "h": h, "ctx": ctxName, "mode": mode})
	go func() {
		ev, err := hd.NextPeerEvent(sctx)
		k, p := "err", ""
		switch {
		case err == nil && ev.Type == pubsub.PeerJoin:
			k, p = "J", r.w.Names.P(ev.Peer)
		case err == nil && ev.Type == pubsub.PeerLeave:
			k, p = "L", r.w.Names.P(ev.Peer)
		case err == context.Canceled:
			k = "ctx"
		default:
			if err != nil {
				p = err.Error()
			}
		}
		r.mu.Lock()
		delete(r.open, id)
		delete(r.cur, c)
		r.lastK[c] = k
		r.mu.Unlock()
		r.emit(M{"e": "ret", "id": id, "k": k, "p": p})
	}()
}

func (r *run) release(c string) {
	r.mu.Lock()
	id, ok := r.cur[c]
	var ch chan struct{}
	if ok {
		ch = r.park_[id]
		delete(r.park_, id)
	}
	r.mu.Unlock()
	if ch == nil {
		r.emit(M{"e": "skip", "why": "not parked " + c})
		return
	}
	r.emit(M{"e": "go", "id": id})
	close(ch)
}

func (r *run) cancelCtx(name string) {
	r.ctx(name)
	r.emit(M{"e": "cancel", "ctx": name})
	r.mu.Lock()
	f := r.cancels[name]
	r.mu.Unlock()
	f()
}

// stim announces a wire stimulus, performs it through world (which settles and
// emits the step line) and updates what the driver believes.
func (r *run) stim(variant string, ops []M, do func()) {
	r.w.Guard() // a heartbeat step, if one is due, must come before the announcement
	r.emit(M{"e": "stim", "a": variant, "ops": ops})
	do()
}

func op(p string, seq ...bool) M { return M{"p": p, "seq": seq} }

func subRPC(vs ...bool) *pb.RPC {
	rpc := &pb.RPC{}
	for _, v := range vs {
		t, v := topic, v
		rpc.Subscriptions = append(rpc.Subscriptions, &pb.RPC_SubOpts{Topicid: &t, Subscribe: &v})
	}
	return rpc
}

// bringUp makes sure p is connected with an open stream to the NUT, without announcing anything.
func (r *run) bringUp(p string) {
	switch r.conn[p] {
	case "down":
		r.stim("reconnect", []M{}, func() { r.reconnect(p, false) })
	case "noout":
		r.stim("openOut", []M{}, func() {
			if err := openOut(r.w.Fakes[p]); err != nil {
				r.abort = vh.Sprintf("openOut %s: %v", p, err)
			}
			hnet.Settle(15 * time.Millisecond)
			r.w.Emit(M{"a": "openOut"})
		})
	}
	r.conn[p] = "up"
}

// reconnect dials the NUT again from fake peer p, opens the stream and (optionally) sends the
// hello with the subscription, like world's "peer" action. The dial gets a deadline: under load
// BasicHost.Connect has been seen waiting for ever for identify on a connection that is up.
func (r *run) reconnect(p string, hello bool) {
	f := r.w.Fakes[p]
	if err := connectUp(f); err != nil {
		r.abort = vh.Sprintf("reconnect %s: %v", p, err)
	} else if hello {
		f.Send(subRPC(true))
	}
	hnet.Settle(20 * time.Millisecond)
	r.w.Emit(M{"a": "peer"})
}

// connectUp dials the NUT from a fake peer and opens its stream, like world's "peer" action,
// but every wait has a (virtual-time) deadline: hnet.Connect / FakePeer.OpenOut use
// context.Background() and BasicHost.Connect / NewStream wait for identify, which under load
// has been seen never to complete on a connection that is up.
func connectUp(f *hnet.FakePeer) error {
	ctx, cancel := context.WithTimeout(context.Background(), 3*time.Second)
	err := f.H.Connect(ctx, peer.AddrInfo{ID: f.NUT.ID(), Addrs: f.NUT.Addrs()})
	cancel()
	hnet.Settle(20 * time.Millisecond)
	if err2 := openOut(f); err2 != nil {
		return fmt.Errorf("connect: %v; open stream: %v", err, err2)
	}
	hnet.Settle(20 * time.Millisecond)
	return nil
}

// openOut is FakePeer.OpenOut with a deadline of 5 virtual seconds.
func openOut(f *hnet.FakePeer) error {
	done := make(chan error, 1)
	go func() { done <- f.OpenOut() }()
	select {
	case err := <-done:
		return err
	case <-time.After(5 * time.Second):
		return fmt.Errorf("FakePeer.OpenOut did not return within 5 s (virtual)")
	}
}

func (r *run) join(p string) {
	if r.conn[p] == "down" {
		// reconnect; the hello carries the subscription
		r.stim("reconnect+hello", []M{op(p, true)}, func() { r.reconnect(p, true) })
		r.conn[p] = "up"
	} else {
		r.bringUp(p)
		r.stim("sub", []M{op(p, true)}, func() { r.w.Do(M{"a": "sub", "p": p, "t": topic, "v": true}) })
	}
	r.member[p] = true
}

func (r *run) leave(p, variant string) {
	if r.conn[p] != "up" {
		r.emit(M{"e": "skip", "why": "leave of a peer that is not up " + p})
		return
	}
	if variant == "" {
		variant = []string{"unsub", "unsub", "down", "down", "closeOut", "resetOut"}[r.rng.Intn(6)]
	}
	switch variant {
	case "down":
		r.stim("down", []M{op(p, false)}, func() { r.w.Do(M{"a": "down", "p": p}) })
		r.conn[p] = "down"
	case "closeOut", "resetOut":
		r.stim(variant, []M{op(p, false)}, func() { r.w.Do(M{"a": variant, "p": p}) })
		r.conn[p] = "noout"
	default:
		r.stim("unsub", []M{op(p, false)}, func() { r.w.Do(M{"a": "sub", "p": p, "t": topic, "v": false}) })
	}
	r.member[p] = false
}

func (r *run) raw(name string, ops []M, send func()) {
	r.stim(name, ops, func() {
		send()
		hnet.Settle(15 * time.Millisecond)
		r.w.Emit(M{"a": name})
	})
}

// raceNewH makes an EventHandler() call race with a membership change of peer s.P. The event loop
// is parked inside an eval thunk; the wire stimulus (its frame ends up in the loop's input queue) and
// the EventHandler() call (its thunk waits at the eval channel) are both submitted; then the loop is
// released and takes the two in the order its select happens to choose. Both are logged as
// operations in flight (newhcall ... newh, stim ... step); TLC orders them. For the duration of the
// step the process runs on one P, so that once released the loop goroutine keeps running until it
// blocks: whatever it does between the thunk and the caller's return really happens in between.
// Which order the loop took is observed (handler count seen from inside the loop when the frame is
// processed) and logged in an informational "raceorder" line.
func (r *run) raceNewH(s step) {
	if r.handlers[s.H] != nil {
		r.emit(M{"e": "skip", "why": "handler exists " + s.H})
		return
	}
	p := s.P
	r.bringUp(p)
	if r.abort != "" {
		return
	}
	variant := s.M
	if variant == "" {
		if r.member[p] {
			variant = []string{"unsub", "unsub", "closeOut"}[r.rng.Intn(3)]
		} else {
			variant = "sub"
		}
	}
	first := s.C // which of the two is submitted first
	if first == "" {
		first = []string{"change", "handler"}[r.rng.Intn(2)]
	}
	f := r.w.Fakes[p]
	r.w.Guard()
	old := runtime.GOMAXPROCS(1)
	defer runtime.GOMAXPROCS(old)
	_, _, before := r.truth()

	parked, release := make(chan struct{}), make(chan struct{})
	go r.w.NUT.VerifEval(func() { close(parked); <-release })
	<-parked

	order := ""
	r.w.Rec.Hook = func(ev world.M) {
		if ev["k"] == "Recv" && ev["p"] == p && order == "" {
			if st := r.w.NUT.VerifSnapshotInLoop(); st != nil && st.MyTopics[topic].EvtHandlers > before {
				order = "handler-first"
			} else {
				order = "change-first"
			}
		}
	}
	created := make(chan struct{})
	mkHandler := func() {
		r.emit(M{"e": "newhcall", "h": s.H})
		go func() {
			defer close(created)
			h, err := r.tp.EventHandler()
			if err != nil {
				r.emit(M{"e": "skip", "why": "EventHandler: " + err.Error()})
				return
			}
			r.mu.Lock()
			r.handlers[s.H] = h
			r.mu.Unlock()
			r.emit(M{"e": "newh", "h": s.H})
		}()
		synctest.Wait() // the call is now waiting at the eval channel
	}
	change := func() {
		v := variant == "sub"
		r.emit(M{"e": "stim", "a": "race-" + variant, "ops": []M{op(p, v)}})
		switch variant {
		case "closeOut":
			f.CloseOut()
			r.conn[p] = "noout"
		default:
			f.Send(subRPC(v))
		}
		r.member[p] = v
		hnet.Settle(15 * time.Millisecond) // the frame (or the end of the stream) reaches the loop's input queue
	}
	if first == "handler" {
		mkHandler()
		change()
	} else {
		change()
		mkHandler()
	}
	close(release)
	hnet.Settle(20 * time.Millisecond)
	r.w.Rec.Hook = nil
	select {
	case <-created:
	default:
		r.abort = "EventHandler() did not return after the event loop was released"
	}
	if order != "" {
		r.emit(M{"e": "raceorder", "order": order, "first": first, "a": variant})
	}
	r.w.Emit(M{"a": "racenewh"})
}

func (r *run) do(s step) {
	switch s.A {
	case "join":
		r.join(s.P)
	case "leave":
		r.leave(s.P, s.M)
	case "resub":
		r.bringUp(s.P)
		r.stim("resub", []M{op(s.P, true)}, func() { r.w.Do(M{"a": "sub", "p": s.P, "t": topic, "v": true}) })
		r.member[s.P] = true
	case "reunsub":
		r.bringUp(s.P)
		r.stim("reunsub", []M{op(s.P, false)}, func() { r.w.Do(M{"a": "sub", "p": s.P, "t": topic, "v": false}) })
		r.member[s.P] = false
	case "flap":
		// one RPC, two subscription options for the same topic
		r.bringUp(s.P)
		seq := []bool{true, false}
		if r.member[s.P] {
			seq = []bool{false, true}
		}
		f := r.w.Fakes[s.P]
		r.raw("flap", []M{op(s.P, seq...)}, func() { f.Send(subRPC(seq...)) })
	case "multi":
		// several peers put one subscription option on the wire at the same virtual instant
		var ops []M
		for _, o := range s.Ops {
			r.bringUp(o.P)
			ops = append(ops, op(o.P, o.V))
		}
		r.raw("multi", ops, func() {
			for _, o := range s.Ops {
				r.w.Fakes[o.P].Send(subRPC(o.V))
				r.member[o.P] = o.V
			}
		})
	case "racenewh":
		r.raceNewH(s)
	case "newh":
		if r.handlers[s.H] != nil {
			r.emit(M{"e": "skip", "why": "handler exists " + s.H})
			return
		}
		h, err := r.tp.EventHandler()
		if err != nil {
			r.t.Fatalf("EventHandler: %v", err)
		}
		r.handlers[s.H] = h
		r.emit(M{"e": "newh", "h": s.H})
	case "cancelh":
		h := r.handlers[s.H]
		if h == nil {
			r.emit(M{"e": "skip", "why": "no handler " + s.H})
			return
		}
		h.Cancel()
		r.emit(M{"e": "cancelh", "h": s.H})
	case "call":
		mode := s.M
		if mode == "" {
			mode = "free"
		}
		r.startCall(s.C, s.H, s.C, mode)
	case "go":
		r.release(s.C)
	case "cancel":
		r.cancelCtx(s.C)
	default:
		r.t.Fatalf("c18: unknown step %q", s.A)
	}
	r.quiet()
}

func geti(m M, k string, def int) int {
	if v, ok := m[k].(float64); ok {
		return int(v)
	}
	return def
}
func gets(m M, k, def string) string {
	if s, ok := m[k].(string); ok && s != "" {
		return s
	}
	return def
}
func getb(m M, k string) bool { b, _ := m[k].(bool); return b }

func marker(i int) {
	if p := os.Getenv("VERIF_MARKER"); p != "" {
		os.WriteFile(p, []byte(vh.Sprintf("%d", i)), 0o644)
	}
}

// newWorld builds the node under test and its fake peers inside the current bubble.
func newWorld(t *testing.T, out *vh.Out, idx int, cfgm M) (*run, error) {
	np := geti(cfgm, "npeers", 2)
	router := gets(cfgm, "router", "gossipsub")
	cfg := world.Config{Router: router, Hosts: np + 2}
	r := &run{t: t, out: out, scn: idx, conn: map[string]string{}, proto: map[string]string{}, setup: true, router: router, np: np}
	w := world.New(t, out, idx, cfg, nil)
	r.w = w
	// let the hosts finish starting before stream handlers are registered (identify takes its
	// snapshot of the handlers early; a floodsub node has no heartbeat for world to cross first)
	hnet.Settle(10 * time.Millisecond)
	// every world step line is reduced to what C18 needs
	w.Extra = func(w *world.World, line world.M) {
		act, _ := line["act"].(world.M)
		a, _ := act["a"].(string)
		for k := range line {
			delete(line, k)
		}
		if r.setup {
			line["e"] = "setup"
			return
		}
		mem, lp, nh := r.truth()
		line["e"], line["scn"], line["a"], line["mem"], line["lp"], line["nh"] = "step", r.scn, a, mem, lp, nh
	}
	protos := []string{"v11", "v12", "flood", "v11"}
	if router == "floodsub" {
		protos = []string{"flood"}
	}
	for i := 0; i < np; i++ {
		p := vh.Sprintf("p%d", i+1)
		r.peers = append(r.peers, p)
		r.proto[p] = gets(cfgm, "proto", protos[i%len(protos)])
		w.Guard()
		f := hnet.NewFakePeer(w.Net.Take(), p, r.proto[p], w.H.Host)
		w.Names.AddPeer(f.ID(), p)
		w.Fakes[p] = f
		if err := connectUp(f); err != nil {
			return r, fmt.Errorf("setup of %s: %v", p, err)
		}
		w.Emit(M{"a": "peer"})
		r.conn[p] = "up"
	}
	r.tp = w.Topic(topic)
	if getb(cfgm, "nutSub") {
		w.Do(M{"a": "subscribe", "t": topic})
	}
	return r, nil
}

// episode replays one scenario on the (possibly reused) world. The membership is brought back
// to empty first; the reset line tells the trace specification where the scenario starts from.
func (r *run) episode(idx int, s scenario) {
	np := r.np
	r.scn = idx
	r.rng = rand.New(rand.NewSource(vh.Seed()*1000003 + int64(idx)))
	r.open, r.park_, r.cur, r.lastK = map[int]*call{}, map[int]chan struct{}{}, map[string]int{}, map[string]string{}
	r.handlers, r.ctxs, r.cancels = map[string]*pubsub.TopicEventHandler{}, map[string]context.Context{}, map[string]context.CancelFunc{}
	r.member, r.next = map[string]bool{}, 0
	r.setup = true
	if mem, _, _ := r.truth(); len(mem) > 0 {
		for _, p := range mem {
			if r.conn[p] == "up" {
				r.w.Do(M{"a": "sub", "p": p, "t": topic, "v": false})
			}
		}
	}
	r.setup = false
	{
		mem, _, _ := r.truth()
		for _, p := range mem {
			r.member[p] = true
		}
		r.emit(M{"e": "reset", "peers": r.peers, "mem": mem, "router": r.router})

		r.abort = ""
		for _, st := range s.Steps {
			r.do(st)
			if r.abort != "" {
				r.emit(M{"e": "abort", "why": r.abort})
				break
			}
		}

		// epilogue: release whoever is parked (with events pending it must return), then drain every
		// handler with a LIVE context: calls are made until one stays blocked in the select. A blocked
		// call is the evidence that the real log is empty (a context error would not be: an
		// implementation may check the context before it looks at the log), so the quiet line that
		// follows judges P_C18_Replay for every handler. Finally every context is cancelled and
		// whoever is still parked is released until all calls have returned.
		r.releaseAll()
		var hs []string
		for h := range r.handlers {
			hs = append(hs, h)
		}
		sort.Strings(hs)
		for _, h := range hs {
			for k := 0; k < 2*np+3; k++ {
				r.startCall("d"+h, h, "dctx-"+h, "free")
				synctest.Wait()
				r.mu.Lock()
				_, still := r.cur["d"+h]
				last := r.lastK["d"+h]
				r.mu.Unlock()
				if still || (last != "J" && last != "L") {
					break
				}
			}
		}
		r.quiet()
		var cs []string
		r.mu.Lock()
		for c := range r.ctxs {
			cs = append(cs, c)
		}
		r.mu.Unlock()
		sort.Strings(cs)
		for _, c := range cs {
			if r.ctxs[c].Err() == nil {
				r.cancelCtx(c)
			}
		}
		r.quiet()
		for k := 0; k < 4 && r.releaseAll() > 0; k++ {
		}
		r.emit(M{"e": "end"})
		// never leave a goroutine parked in Done(); unregister what the scenario left registered
		r.mu.Lock()
		for id, ch := range r.park_ {
			close(ch)
			delete(r.park_, id)
		}
		r.mu.Unlock()
		for _, h := range r.handlers {
			h.Cancel()
		}
		synctest.Wait()
	}
}

// releaseAll releases every parked call (one quiet line each) and returns how many there were.
func (r *run) releaseAll() int {
	var parkedC []string
	r.mu.Lock()
	for c, id := range r.cur {
		if _, ok := r.park_[id]; ok {
			parkedC = append(parkedC, c)
		}
	}
	r.mu.Unlock()
	sort.Strings(parkedC)
	for _, c := range parkedC {
		r.release(c)
		r.quiet()
	}
	return len(parkedC)
}

// fault is fault injection for testing the orchestrator's supervision of this driver (never set
// in a normal run): VERIF_C18_FAULT=hang:<scenario> wedges the process there (a goroutine blocked on
// a mutex is not durably blocked, so the bubble can neither proceed nor deadlock), die:<scenario> exits,
// dieonce:<scenario> exits only in the first process of a shard.
func fault(i int) {
	switch os.Getenv("VERIF_C18_FAULT") {
	case vh.Sprintf("hang:%d", i):
		var mu sync.Mutex
		mu.Lock()
		mu.Lock()
	case vh.Sprintf("die:%d", i):
		os.Exit(3)
	case vh.Sprintf("dieonce:%d", i): // only in a shard's first process
		if strings.HasSuffix(os.Getenv("VERIF_JOBS"), "-a1.json") {
			os.Exit(3)
		}
	}
}

// TestC18Replay replays scenarios of VERIF_IN. VERIF_JOBS names a JSON file with the jobs of this
// process: [[from, to], ...], half-open ranges of scenario indices that share one configuration and
// therefore one node under test (one synctest bubble per job; jobs run one after the other: running
// bubbles in parallel inside one process makes the Go 1.25 runtime die now and then with "sync:
// WaitGroup.Add called from multiple synctest bubbles"). Each job writes VERIF_OUTDIR/job-<from>.ndjson
// and closes it when done, so that what a process recorded before it died or was killed is kept.
// VERIF_MARKER is rewritten at the start of every scenario: the orchestrator watches it for progress.
func TestC18Replay(t *testing.T) {
	scns := vh.ReadScenarios[scenario](t, "VERIF_IN")
	outdir := os.Getenv("VERIF_OUTDIR")
	if outdir == "" {
		t.Skip("VERIF_OUTDIR not set (driver is run by bin/check)")
	}
	var jobs [][2]int
	if jf := os.Getenv("VERIF_JOBS"); jf != "" {
		b, err := os.ReadFile(jf)
		if err != nil {
			t.Fatal(err)
		}
		if err := json.Unmarshal(b, &jobs); err != nil {
			t.Fatal(err)
		}
	} else {
		jobs = [][2]int{{0, len(scns)}}
	}
	for _, jb := range jobs {
		if jb[0] < 0 || jb[1] > len(scns) || jb[0] >= jb[1] {
			t.Fatalf("bad job %v", jb)
		}
		os.Setenv("VERIF_OUT_JOB", vh.Sprintf("%s/job-%d.ndjson", outdir, jb[0]))
		out := vh.NewOut(t, "VERIF_OUT_JOB")
		synctest.Test(t, func(t *testing.T) {
			var r *run
			for i := jb[0]; i < jb[1]; i++ {
				marker(i)
				fault(i)
				for try := 0; r == nil && try < 3; try++ {
					var err error
					if r, err = newWorld(t, out, i, scns[i].Cfg); err != nil {
						out.Emit(M{"e": "setup-failed", "scn": i, "why": err.Error()})
						r.w.Close()
						r = nil
					}
				}
				if r == nil {
					t.Fatalf("c18: cannot set up the node under test and its peers for scenario %d", i)
				}
				r.t = t
				r.episode(i, scns[i])
				if r.abort != "" { // the harness lost a fake peer: do not reuse this world
					r.w.Close()
					r = nil
				}
			}
			if r != nil {
				r.w.Close()
			}
		})
		out.Close()
	}
}
