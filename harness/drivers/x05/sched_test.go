// Drivers for the extension family X05 (batch publishing), see /verif/spec/batch.
//
// TestX05Sched drives the REAL pubsub.RoundRobinMessageIDScheduler alone with
// the operation sequences TLC generated (spec/batch/GenSched.tla):
//
//	{"ops":[{"op":"add","p":"p1","m":"m2"},{"op":"all","k":0},{"op":"all","k":2},...]}
//
// and records what it yields. Every AddRPC gets its own *pubsub.RPC; the tag x
// of a yielded element is looked up by pointer (0 = a pointer that was never
// added). all(0) iterates to the end, all(k) breaks off at the k-th element.
// Every scenario ends with two complete iterations. Go randomises map
// iteration, so each scenario is replayed VERIF_REPS times. The driver never
// judges; spec/batch/SchedTrace.tla does.
package x05

import (
	"strconv"
	"testing"

	pubsub "github.com/libp2p/go-libp2p-pubsub"
	pb "github.com/libp2p/go-libp2p-pubsub/pb"
	"github.com/libp2p/go-libp2p/core/peer"

	"verifharness/vh"
)

type M = map[string]any

type schedOp struct {
	Op string `json:"op"`
	P  string `json:"p"`
	M  string `json:"m"`
	K  int    `json:"k"`
}

type schedScenario struct {
	Ops []schedOp `json:"ops"`
}

func runSched(out *vh.Out, scn int, s schedScenario) {
	var sch pubsub.RoundRobinMessageIDScheduler
	tags := map[*pubsub.RPC]int{}
	next := 0
	out.Emit(M{"e": "reset", "scn": scn})
	iterate := func(k int) {
		got := []any{}
		broke := false
		for p, rpc := range sch.All() {
			got = append(got, M{"p": string(p), "m": msgOf(rpc), "x": tags[rpc]})
			if k > 0 && len(got) >= k {
				broke = true
				break
			}
		}
		out.Emit(M{"e": "all", "k": k, "broke": broke, "out": got})
	}
	for _, op := range s.Ops {
		switch op.Op {
		case "add":
			next++
			// the payload names the message id the RPC was added under: a yield under the wrong id shows
			rpc := &pubsub.RPC{RPC: pb.RPC{Publish: []*pb.Message{{Data: []byte(op.M), Seqno: []byte(strconv.Itoa(next))}}}}
			tags[rpc] = next
			sch.AddRPC(peer.ID(op.P), op.M, rpc)
			out.Emit(M{"e": "add", "p": op.P, "m": op.M, "x": next})
		case "all":
			iterate(op.K)
		}
	}
	iterate(0)
	iterate(0)
}

func msgOf(rpc *pubsub.RPC) string {
	if rpc == nil || len(rpc.Publish) == 0 {
		return "?"
	}
	return string(rpc.Publish[0].Data)
}

func TestX05Sched(t *testing.T) {
	scns := vh.ReadScenarios[schedScenario](t, "VERIF_IN")
	out := vh.NewOut(t, "VERIF_OUT")
	reps := vh.EnvInt("VERIF_REPS", 3)
	n := 0
	for _, s := range scns {
		for r := 0; r < reps; r++ {
			runSched(out, n, s)
			n++
		}
	}
}
