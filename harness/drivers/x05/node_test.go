// TestX05Node replays in-node batch-publishing scenarios (spec/batch/GenBatch.tla,
// turned into world actions by bin/lib/props/x05.py) on one REAL node built by
// harness/world, and writes the common step lines plus a field "x":
//
//	"x":{"kind":"add|pub|conc|flush|", "res":"ok|err:reject|err:ignore|err:option|err:router|err:other:..",
//	     "bat":{"b1":[names in the batch after the step],"b2":[..]},
//	     "sched":{"used":bool,"alls":n,"adds":[{"p","m","rm"}],"yields":[{"p","m"}]},
//	     "adds":[{"m","res"}], "pubres":[..]}
//
// Actions beyond world's alphabet:
//
//	{"a":"add","b":batch,"t":topic,"m":name,"kind":"ok|local|reject|ignore|dup"}
//	    Topic.AddToBatch(batch, "<name>|<marker>...") (WithLocalPublication for "local"; the topic
//	    validator rejects marker R and ignores marker I; message ids are the names, so re-using a
//	    name is a duplicate)
//	{"a":"pub","b":batch,"strat":"default|rr|lifo|badopt"}
//	    PubSub.PublishBatch(batch[, option]): rr = the real RoundRobinMessageIDScheduler wrapped in a
//	    recorder, lifo = a recording strategy that yields in reverse AddRPC order, badopt = an option
//	    that fails
//	{"a":"conc","b":batch,"t":topic,"ms":[[names of goroutine 1],[..],..],"pubs":n}
//	    one goroutine per list calls AddToBatch for its names; the goroutines meet in the topic
//	    validator (a barrier) so that their MessageBatch.add calls collide; during the first n
//	    rounds a further goroutine calls PublishBatch at the same moment
//	{"a":"flush"}  every write gate is opened and the network drained
//
// The driver never judges; spec/batch/BatchTrace.tla does.
package x05

import (
	"bytes"
	"context"
	"errors"
	"iter"
	"os"
	"sort"
	"strings"
	"sync"
	"sync/atomic"
	"testing"
	"testing/synctest"
	"time"

	pubsub "github.com/libp2p/go-libp2p-pubsub"
	pb "github.com/libp2p/go-libp2p-pubsub/pb"
	"github.com/libp2p/go-libp2p/core/peer"

	"verifharness/hnet"
	"verifharness/vh"
	"verifharness/world"
)

type nodeScenario struct {
	Cfg  M   `json:"cfg"`
	Acts []M `json:"acts"`
}

func geti(m M, k string, def int) int {
	if v, ok := m[k].(float64); ok {
		return int(v)
	}
	return def
}
func getb(m M, k string) bool { b, _ := m[k].(bool); return b }
func gets(m M, k string) string {
	s, _ := m[k].(string)
	return s
}

func nameOf(data []byte) string {
	if i := bytes.IndexByte(data, '|'); i > 0 {
		return string(data[:i])
	}
	return ""
}

// contentID makes the harness name of a message its id (payload "<name>|..."):
// two publications of the same name are duplicates of each other.
func contentID(m *pb.Message) string {
	if n := nameOf(m.GetData()); n != "" {
		return n
	}
	return string(m.GetFrom()) + string(m.GetSeqno())
}

// ---------------------------------------------------------------------------
// barrier: parties meet, the last one releases all

type barrier struct {
	mu      sync.Mutex
	parties int
	waiting int
	gen     chan struct{}
	spin    *spinGate
}

// spinGate is the second phase of a meeting: the parties, all runnable again,
// spin until every one of them is actually running, so that they leave within
// nanoseconds of each other (bounded: a party that gets no processor in time is
// not waited for).
type spinGate struct {
	n    int32
	want int32
}

func (g *spinGate) pass() {
	atomic.AddInt32(&g.n, 1)
	for i := 0; i < 200000 && atomic.LoadInt32(&g.n) < g.want; i++ {
	}
}

func newBarrier(n int) *barrier { return &barrier{parties: n, gen: make(chan struct{})} }

func (b *barrier) release() *spinGate {
	g := &spinGate{want: int32(b.waiting)}
	b.spin = g
	close(b.gen)
	b.gen = make(chan struct{})
	b.waiting = 0
	return g
}

func (b *barrier) wait() {
	b.mu.Lock()
	b.waiting++
	if b.waiting >= b.parties {
		g := b.release()
		b.mu.Unlock()
		g.pass()
		return
	}
	ch := b.gen
	b.mu.Unlock()
	<-ch
	b.mu.Lock()
	g := b.spin
	b.mu.Unlock()
	g.pass()
}

func (b *barrier) leave() {
	b.mu.Lock()
	b.parties--
	if b.waiting > 0 && b.waiting >= b.parties {
		b.release()
	}
	b.mu.Unlock()
}

// ---------------------------------------------------------------------------
// recording strategies

type recSched struct {
	mu     sync.Mutex
	names  *hnet.Names
	inner  pubsub.RPCScheduler // nil: yield in reverse AddRPC order
	lifo   []recPending
	adds   []any
	yields []any
	alls   int
}

type recPending struct {
	p   peer.ID
	rpc *pubsub.RPC
}

func rpcMsg(rpc *pubsub.RPC) string {
	if rpc == nil || len(rpc.GetPublish()) == 0 {
		return "?"
	}
	return nameOf(rpc.GetPublish()[0].GetData())
}

func (s *recSched) AddRPC(p peer.ID, msgID string, rpc *pubsub.RPC) {
	s.mu.Lock()
	s.adds = append(s.adds, M{"p": s.names.P(p), "m": s.names.M(msgID), "rm": rpcMsg(rpc)})
	s.mu.Unlock()
	if s.inner != nil {
		s.inner.AddRPC(p, msgID, rpc)
	} else {
		s.lifo = append(s.lifo, recPending{p, rpc})
	}
}

func (s *recSched) All() iter.Seq2[peer.ID, *pubsub.RPC] {
	s.mu.Lock()
	s.alls++
	s.mu.Unlock()
	note := func(p peer.ID, rpc *pubsub.RPC) {
		s.mu.Lock()
		s.yields = append(s.yields, M{"p": s.names.P(p), "m": rpcMsg(rpc)})
		s.mu.Unlock()
	}
	return func(yield func(peer.ID, *pubsub.RPC) bool) {
		if s.inner != nil {
			for p, rpc := range s.inner.All() {
				note(p, rpc)
				if !yield(p, rpc) {
					return
				}
			}
			return
		}
		for i := len(s.lifo) - 1; i >= 0; i-- {
			e := s.lifo[i]
			s.lifo = s.lifo[:i]
			note(e.p, e.rpc)
			if !yield(e.p, e.rpc) {
				return
			}
		}
	}
}

func (s *recSched) shape() M {
	s.mu.Lock()
	defer s.mu.Unlock()
	a, y := s.adds, s.yields
	if a == nil {
		a = []any{}
	}
	if y == nil {
		y = []any{}
	}
	return M{"used": true, "alls": s.alls, "adds": a, "yields": y}
}

// ---------------------------------------------------------------------------
// one scenario

type nodeRun struct {
	t       *testing.T
	w       *world.World
	batches map[string]*pubsub.MessageBatch
	mu      sync.Mutex
	bar     *barrier
	x       M
}

func (r *nodeRun) batch(name string) *pubsub.MessageBatch {
	b, ok := r.batches[name]
	if !ok {
		b = &pubsub.MessageBatch{}
		r.batches[name] = b
	}
	return b
}

func (r *nodeRun) batShape() M {
	out := M{"b1": []any{}, "b2": []any{}}
	for name, b := range r.batches {
		l := []any{}
		for _, m := range b.VerifMessages() {
			l = append(l, nameOf(m.GetData()))
		}
		out[name] = l
	}
	return out
}

func noSched() M { return M{"used": false, "alls": 0, "adds": []any{}, "yields": []any{}} }

// extra is world's hook: it adds "x" to every step line.
func (r *nodeRun) extra(w *world.World, line M) {
	x := r.x
	r.x = nil
	if x == nil {
		x = M{"kind": "", "res": ""}
	}
	if _, ok := x["sched"]; !ok {
		x["sched"] = noSched()
	}
	if _, ok := x["adds"]; !ok {
		x["adds"] = []any{}
	}
	if _, ok := x["pubres"]; !ok {
		x["pubres"] = []any{}
	}
	x["bat"] = r.batShape()
	line["x"] = x
}

func payload(name string, marker byte) []byte {
	data := []byte(name + "|")
	data = append(data, marker)
	for len(data) < 16 {
		data = append(data, '.')
	}
	return data
}

func resOf(err error) string {
	if err == nil {
		return "ok"
	}
	var ve pubsub.ValidationError
	if errors.As(err, &ve) {
		switch ve.Reason {
		case pubsub.RejectValidationFailed:
			return "err:reject"
		case pubsub.RejectValidationIgnored:
			return "err:ignore"
		}
		return "err:validation:" + ve.Reason
	}
	if strings.Contains(err.Error(), "not a BatchPublisher") {
		return "err:router"
	}
	if strings.Contains(err.Error(), "x05: option refused") {
		return "err:option"
	}
	return "err:other:" + err.Error()
}

// validator: marker R rejects, I ignores, C meets the other goroutines of a "conc" step first.
func (r *nodeRun) validator(ctx context.Context, from peer.ID, msg *pubsub.Message) pubsub.ValidationResult {
	d := msg.GetData()
	i := bytes.IndexByte(d, '|')
	if i < 0 || i+1 >= len(d) {
		return pubsub.ValidationAccept
	}
	switch d[i+1] {
	case 'R':
		return pubsub.ValidationReject
	case 'I':
		return pubsub.ValidationIgnore
	case 'C':
		r.mu.Lock()
		b := r.bar
		r.mu.Unlock()
		if b != nil {
			b.wait()
		}
	}
	return pubsub.ValidationAccept
}

func (r *nodeRun) add(a M) {
	w := r.w
	w.Guard()
	tp := w.Topic(gets(a, "t"))
	kind := gets(a, "kind")
	marker := byte('.')
	switch kind {
	case "reject":
		marker = 'R'
	case "ignore":
		marker = 'I'
	}
	var opts []pubsub.PubOpt
	if kind == "local" {
		opts = append(opts, pubsub.WithLocalPublication(true))
	}
	err := tp.AddToBatch(w.Ctx, r.batch(gets(a, "b")), payload(gets(a, "m"), marker), opts...)
	hnet.Settle(10 * time.Millisecond)
	r.x = M{"kind": "add", "res": resOf(err)}
	w.Emit(a)
}

func (r *nodeRun) strategy(strat string) (*recSched, []pubsub.BatchPubOpt) {
	switch strat {
	case "rr":
		s := &recSched{names: r.w.Names, inner: &pubsub.RoundRobinMessageIDScheduler{}}
		return s, []pubsub.BatchPubOpt{func(o *pubsub.BatchPublishOptions) error { o.Strategy = s; return nil }}
	case "lifo":
		s := &recSched{names: r.w.Names}
		return s, []pubsub.BatchPubOpt{func(o *pubsub.BatchPublishOptions) error { o.Strategy = s; return nil }}
	case "badopt":
		return nil, []pubsub.BatchPubOpt{func(o *pubsub.BatchPublishOptions) error { return errors.New("x05: option refused") }}
	}
	return nil, nil
}

func (r *nodeRun) pub(a M) {
	w := r.w
	w.Guard()
	s, opts := r.strategy(gets(a, "strat"))
	err := w.NUT.PublishBatch(r.batch(gets(a, "b")), opts...)
	hnet.Settle(15 * time.Millisecond)
	r.x = M{"kind": "pub", "res": resOf(err)}
	if s != nil {
		r.x["sched"] = s.shape()
	}
	w.Emit(a)
}

func (r *nodeRun) conc(a M) {
	w := r.w
	w.Guard()
	tp := w.Topic(gets(a, "t"))
	b := r.batch(gets(a, "b"))
	var lists [][]string
	if l, ok := a["ms"].([]any); ok {
		for _, x := range l {
			var names []string
			if xl, ok := x.([]any); ok {
				for _, n := range xl {
					if s, ok := n.(string); ok {
						names = append(names, s)
					}
				}
			}
			lists = append(lists, names)
		}
	}
	pubs := geti(a, "pubs", 0)
	parties := len(lists)
	if pubs > 0 {
		parties++
	}
	bar := newBarrier(parties)
	r.mu.Lock()
	r.bar = bar
	r.mu.Unlock()
	results := make([][]any, len(lists))
	var pubres []any
	var wg sync.WaitGroup
	for i := range lists {
		wg.Add(1)
		go func(i int) {
			defer wg.Done()
			defer bar.leave()
			for _, name := range lists[i] {
				err := tp.AddToBatch(w.Ctx, b, payload(name, 'C'))
				results[i] = append(results[i], M{"m": name, "res": resOf(err)})
			}
		}(i)
	}
	if pubs > 0 {
		wg.Add(1)
		go func() {
			defer wg.Done()
			for j := 0; j < pubs; j++ {
				bar.wait()
				pubres = append(pubres, resOf(w.NUT.PublishBatch(b)))
			}
			bar.leave()
		}()
	}
	wg.Wait()
	r.mu.Lock()
	r.bar = nil
	r.mu.Unlock()
	hnet.Settle(15 * time.Millisecond)
	all := []any{}
	for _, l := range results {
		all = append(all, l...)
	}
	if pubres == nil {
		pubres = []any{}
	}
	r.x = M{"kind": "conc", "res": "ok", "adds": all, "pubres": pubres}
	w.Emit(a)
}

func (r *nodeRun) flush(a M) {
	w := r.w
	for _, f := range w.Fakes {
		w.H.UngateWrites(f.ID())
	}
	hnet.Settle(200 * time.Millisecond)
	r.x = M{"kind": "flush", "res": ""}
	w.Emit(a)
}

func nodeConfig(c M) (world.Config, M) {
	cfg := world.Config{Router: gets(c, "router"), Score: getb(c, "score"), FloodPublish: getb(c, "flood"),
		Hosts: geti(c, "hosts", 10), QueueSize: geti(c, "queue", 32), Retain: 10 * time.Second}
	p := world.SmallParams()
	p.D, p.Dlo, p.Dhi = geti(c, "D", p.D), geti(c, "Dlo", p.Dlo), geti(c, "Dhi", p.Dhi)
	p.Dscore, p.Dout = geti(c, "Dscore", 1), geti(c, "Dout", 0)
	p.Dlazy = geti(c, "Dlazy", p.Dlazy)
	p.OpportunisticGraftTicks = 1000000
	cfg.Params = &p
	cfg.Opts = append(cfg.Opts, pubsub.WithMessageIdFn(contentID))
	reset := M{"score": cfg.Score, "flood": cfg.FloodPublish, "D": p.D, "Dlo": p.Dlo, "Dhi": p.Dhi, "queue": cfg.QueueSize,
		"hbMs": p.HeartbeatInterval.Milliseconds(), "batchRouter": cfg.Router == "" || cfg.Router == "gossipsub"}
	return cfg, reset
}

func marker(i int) {
	if p := os.Getenv("VERIF_MARKER"); p != "" {
		os.WriteFile(p, []byte(vh.Sprintf("%d", i)), 0o644)
	}
}

func runNode(t *testing.T, out *vh.Out, idx int, s nodeScenario) {
	synctest.Test(t, func(t *testing.T) {
		cfg, reset := nodeConfig(s.Cfg)
		r := &nodeRun{t: t, batches: map[string]*pubsub.MessageBatch{}}
		// the reset line is written by world.New, before Extra can be installed: it carries no "x"
		w := world.New(t, out, idx, cfg, reset)
		r.w = w
		w.Extra = r.extra
		defer w.Close()
		topics := []string{"T1", "T2"}
		if l, ok := s.Cfg["topics"].([]any); ok {
			topics = nil
			for _, x := range l {
				if n, ok := x.(string); ok {
					topics = append(topics, n)
				}
			}
		}
		sort.Strings(topics)
		for _, tn := range topics {
			if err := w.NUT.RegisterTopicValidator(tn, r.validator); err != nil {
				t.Fatalf("x05: validator for %s: %v", tn, err)
			}
		}
		for _, a := range s.Acts {
			switch gets(a, "a") {
			case "add":
				r.add(a)
			case "pub":
				r.pub(a)
			case "conc":
				r.conc(a)
			case "flush":
				r.flush(a)
			default:
				if !w.Do(a) {
					t.Fatalf("x05: unknown action %v", a)
				}
			}
		}
	})
}

// TestX05Node replays the scenarios of VERIF_IN.
func TestX05Node(t *testing.T) {
	scns := vh.ReadScenarios[nodeScenario](t, "VERIF_IN")
	out := vh.NewOut(t, "VERIF_OUT")
	only := vh.EnvInt("VERIF_ONLY", -1)
	for i, s := range scns {
		if only >= 0 && i != only {
			continue
		}
		marker(i)
		runNode(t, out, i, s)
	}
}
