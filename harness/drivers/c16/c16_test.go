// Driver for property C16 (a blacklisted peer can neither inject messages nor
// receive traffic).
//
// TestC16Replay replays the situations emitted by spec/blacklist/GenBlacklist.tla
// ({"pos","how","by","stage","impl"[,"expire"]}) on ONE real node built by the
// shared world interpreter:
//
//   - pos   : where the victim p1 is in its lifecycle when it is blacklisted:
//     never (not connected yet) | pending (queue created, NewStream held back by the host
//     wrapper; with mem = mesh the victim has already GRAFTed us over its own stream and sits in the
//     mesh although the router has never seen an outbound stream to it) | conn (connected floodsub peer, never in a mesh) | mesh | fanout |
//     down (disconnected) | repending (reconnecting, NewStream held back) |
//     gated (its writer blocked in Write with one popped RPC and a backlog of >= 3 RPCs queued;
//     bk = mesh | mesh-urgent (v1.2 peer, urgent IDONTWANTs + messages) | topic (flood publishing) |
//     flood (floodsub peer) | directpeer | fanout; after BlacklistPeer the Writes are released one by one) |
//     nostream (NewStream failed: no queue, but its GRAFT on the inbound stream was accepted, D6)
//   - how   : api = PubSub.BlacklistPeer, direct = Add on the Blacklist object
//     that was passed with pubsub.WithBlacklist (map: inside the event
//     loop through VerifEval; time-cached: from outside, it locks)
//   - by    : the in-flight / probe message names the victim as forwarder
//     (origin: p1 forwards a message authored by p3) or as author
//     (author: p2 forwards a message authored by p1)
//   - stage : where a message of the victim sits in the inbound pipeline at the
//     instant of the blacklisting: none | arrived (read off the stream, the parked
//     loop has not run shouldPush yet) | valQ (single worker parked on another
//     message) | worker (parked at its Validate event) | async (gated asynchronous
//     topic validator) | sendQ (worker blocked on sendMsg, loop parked on a marker RPC)
//   - impl  : map = NewMapBlacklist, timed = NewTimeCachedBlacklist(30 s)
//   - path  : queue = signed messages (validation queue) | direct = StrictNoSign and unsigned
//     messages: pushMsg publishes inside the loop iteration that ran shouldPush
//
// After the blacklisting every scenario probes: the victim forwards a third party's message,
// a third party forwards a message authored by the victim, the node publishes, a bystander
// publishes, a heartbeat, a GRAFT of the victim on its surviving inbound stream, (direct) a reset
// of the outbound stream so that the writer is respawned, a disconnect and a reconnect with the
// stream open held back and released, and (time-cached) the expiry.
//
// The configured blacklist is a recording proxy around the REAL implementation:
// it stamps every Add with the recorder's sequence number at that instant, so
// that the trace specification can order every Deliver/Send/Up event against
// the blacklisting exactly. Pipeline positions are forced with Recorder.Hook
// traps (Validate event parks a validation worker, a marker Recv parks the
// event loop) and a gated asynchronous topic validator.
//
// The driver never judges: spec/blacklist/BlacklistTrace.tla does.
package c16

import (
	"context"
	"os"
	"sort"
	"sync"
	"sync/atomic"
	"testing"
	"testing/synctest"
	"time"

	pubsub "github.com/libp2p/go-libp2p-pubsub"
	"github.com/libp2p/go-libp2p/core/peer"

	"verifharness/hnet"
	"verifharness/vh"
	"verifharness/world"
)

type M = map[string]any

type scenario struct {
	Pos    string `json:"pos"`
	How    string `json:"how"`
	By     string `json:"by"`
	Stage  string `json:"stage"`
	Impl   string `json:"impl"`
	Bk     string `json:"bk"`   // gated only: what the backlog in the victim's queue is made of (mesh | mesh-urgent | topic | flood | directpeer | fanout)
	Mem    string `json:"mem"`  // pending / repending only: "mesh" = the victim GRAFTed us over ITS stream while our stream to it is still being opened (in the mesh by D6's path)
	Path   string `json:"path"` // queue (signed messages, validation queue) | direct (unsigned: pushMsg publishes at once)
	Expire bool   `json:"expire"`
}

const (
	victim   = "p1"
	third    = "p2"
	other    = "p3"
	expiryMs = 30000
)

// proxyBL is the configured blacklist: the real implementation plus a log of Adds.
type proxyBL struct {
	inner pubsub.Blacklist
	lastN *atomic.Int64
	exp   int64

	mu     sync.Mutex
	how    string
	adds   []M
	writes func(peer.ID) int // Write calls handed to the transport on streams to the peer so far
}

func (b *proxyBL) Add(p peer.ID) bool {
	n := b.lastN.Load()
	t := hnet.NowMs()
	wr := 0
	if b.writes != nil {
		wr = b.writes(p)
	}
	ok := b.inner.Add(p)
	b.mu.Lock()
	b.adds = append(b.adds, M{"id": p, "how": b.how, "n": n, "t": t, "exp": b.exp, "ok": ok, "wr": wr})
	b.mu.Unlock()
	return ok
}

func (b *proxyBL) Contains(p peer.ID) bool { return b.inner.Contains(p) }

func (b *proxyBL) setHow(h string) { b.mu.Lock(); b.how = h; b.mu.Unlock() }

// trap parks the goroutine that produces a matching tracer event.
type trap struct {
	match   func(ev M) bool
	reached chan struct{}
	gate    chan struct{}
	inLoop  func() // run on the parked goroutine after the gate opens
	hit     bool
	open    bool
}

type traps struct {
	mu sync.Mutex
	l  []*trap
}

func (ts *traps) add(match func(ev M) bool) *trap {
	tr := &trap{match: match, reached: make(chan struct{}), gate: make(chan struct{})}
	ts.mu.Lock()
	ts.l = append(ts.l, tr)
	ts.mu.Unlock()
	return tr
}

func (ts *traps) find(ev M) *trap {
	ts.mu.Lock()
	defer ts.mu.Unlock()
	for _, tr := range ts.l {
		if !tr.hit && tr.match(ev) {
			tr.hit = true
			return tr
		}
	}
	return nil
}

func (tr *trap) release() {
	if !tr.open {
		tr.open = true
		close(tr.gate)
	}
}

func (ts *traps) releaseAll() {
	ts.mu.Lock()
	l := append([]*trap(nil), ts.l...)
	ts.mu.Unlock()
	for _, tr := range l {
		tr.release()
	}
}

func isValidate(name string) func(M) bool {
	return func(ev M) bool { return ev["k"] == "Validate" && ev["m"] == name }
}

func isMarker(ev M) bool {
	if ev["k"] != "Recv" || ev["p"] != other {
		return false
	}
	rpc, _ := ev["rpc"].(M)
	subs, _ := rpc["subs"].([]any)
	for _, s := range subs {
		if sm, ok := s.(M); ok && sm["topic"] == "MARK" {
			return true
		}
	}
	return false
}

func marker(i int) {
	if p := os.Getenv("VERIF_MARKER"); p != "" {
		os.WriteFile(p, []byte(vh.Sprintf("%d", i)), 0o644)
	}
}

type run struct {
	t     *testing.T
	w     *world.World
	sc    scenario
	px    *proxyBL
	ts    *traps
	capQ  *pubsub.VerifRPCQueue
	capOK bool
	held  string // stage at which the in-flight message is currently held ("" = none)
	vgate chan struct{}
}

func (r *run) do(a M) {
	if r.sc.Path == "direct" && a["a"] == "msg" {
		a["unsigned"] = true
	}
	if !r.w.Do(a) {
		r.t.Fatalf("unknown action %v", a)
	}
}

// x emits a step line for a stimulus the driver performed itself.
func (r *run) x(op string, more M) {
	a := M{"a": "adv", "ms": 15, "x": op, "p": victim}
	for k, v := range more {
		a[k] = v
	}
	r.do(a)
}

func (r *run) fake(name string) *hnet.FakePeer { return r.w.Fakes[name] }

// sendRaw sends a new message without emitting a step line (used while the event loop is parked,
// when no snapshot can be taken). The payload convention is the world's: "<name>|....".
func (r *run) sendRaw(a M) {
	f := r.fake(a["p"].(string))
	au := f
	if x, ok := a["author"].(string); ok && r.fake(x) != nil {
		au = r.fake(x)
	}
	unsigned, _ := a["unsigned"].(bool)
	m := au.NewMessage(a["m"].(string), a["t"].(string), 16, !unsigned)
	r.w.Names.AddMsg(hnet.DefaultMsgID(m), a["m"].(string))
	f.Send(hnet.MsgRPC(m))
}

// newIdleFake creates a fake peer that is known by name but not connected.
func (r *run) newIdleFake(name, proto string) {
	f := hnet.NewFakePeer(r.w.Net.Take(), name, proto, r.w.H.Host)
	r.w.Names.AddPeer(f.ID(), name)
	r.w.Fakes[name] = f
}

func (r *run) extra(w *world.World, line M) {
	names := []string{victim, third, other}
	alive, opened, blc, writes := M{}, M{}, M{}, M{}
	res := map[string]bool{}
	// Contains on the real implementation, evaluated on the event loop (the map
	// implementation is not safe for concurrent use)
	w.NUT.VerifEval(func() {
		for _, n := range names {
			if f := w.Fakes[n]; f != nil {
				res[n] = r.px.inner.Contains(f.ID())
			}
		}
	})
	for _, n := range names {
		f := w.Fakes[n]
		if f == nil {
			alive[n], opened[n], blc[n], writes[n] = 0, 0, false, 0
			continue
		}
		alive[n], opened[n], blc[n], writes[n] = f.InboundAlive(), f.InboundTotal(), res[n], w.H.Writes(f.ID())
	}
	q := "none"
	if r.capOK && r.capQ != nil {
		_, _, closed := r.capQ.VerifLen()
		if closed {
			q = "closed"
		} else {
			q = "open"
		}
	}
	r.px.mu.Lock()
	bl := []any{}
	for _, a := range r.px.adds {
		bl = append(bl, M{"p": w.Names.P(a["id"].(peer.ID)), "how": a["how"], "n": a["n"], "t": a["t"], "exp": a["exp"], "ok": a["ok"], "wr": a["wr"]})
	}
	r.px.mu.Unlock()
	lp := M{}
	for _, t := range []string{"T1", "T2"} {
		l := w.Names.Ps(w.NUT.ListPeers(t))
		sort.Strings(l)
		lp[t] = l
	}
	held := r.held
	if held == "" {
		held = "none"
	}
	line["c16"] = M{"bl": bl, "blc": blc, "alive": alive, "opened": opened, "capq": q, "captured": r.capOK, "lp": lp, "held": held, "writes": writes}
}

func (r *run) setupVictim() {
	w := r.w
	subs := []any{"T1", "T2"}
	id := func() peer.ID { return r.fake(victim).ID() }
	switch r.sc.Pos {
	case "never":
		r.newIdleFake(victim, "v11")
	case "pending":
		r.newIdleFake(victim, "v11")
		w.H.HoldOpen(id())
		r.do(M{"a": "peer", "p": victim, "dir": "in", "subs": subs})
		if r.sc.Mem == "mesh" {
			r.do(M{"a": "graft", "p": victim, "t": "T1"})
		}
	case "conn":
		r.do(M{"a": "peer", "p": victim, "proto": "flood", "dir": "in", "subs": subs})
	case "mesh":
		r.do(M{"a": "peer", "p": victim, "proto": "v11", "dir": "in", "subs": subs})
		r.do(M{"a": "graft", "p": victim, "t": "T1"})
	case "fanout":
		r.do(M{"a": "peer", "p": victim, "proto": "v11", "dir": "out", "subs": subs})
		r.do(M{"a": "publish", "t": "T2", "m": "mf"})
	case "down":
		// the disconnect follows once the in-flight message has been placed (scenario())
		r.do(M{"a": "peer", "p": victim, "proto": "v11", "dir": "in", "subs": subs})
	case "nostream":
		// the outbound stream cannot be opened (newPeerError forgets the queue); the peer's own
		// stream to us works, and its GRAFT is accepted all the same (DESIGN D6)
		r.newIdleFake(victim, "v11")
		w.H.FailOpen(id(), true)
		r.do(M{"a": "peer", "p": victim, "dir": "in", "subs": subs})
		r.do(M{"a": "graft", "p": victim, "t": "T1"})
	case "repending":
		r.do(M{"a": "peer", "p": victim, "proto": "v11", "dir": "in", "subs": subs})
		r.do(M{"a": "down", "p": victim})
		w.H.HoldOpen(id())
		r.do(M{"a": "peer", "p": victim, "dir": "in", "subs": subs})
		if r.sc.Mem == "mesh" {
			r.do(M{"a": "graft", "p": victim, "t": "T1"})
		}
	case "gated":
		// a backlog in the victim's outbound queue: its writes are gated (the writer sits inside
		// Write with ONE popped RPC), then >= 3 more RPCs are queued for it
		pub := "T1"
		switch r.sc.Bk {
		case "mesh", "":
			r.do(M{"a": "peer", "p": victim, "proto": "v11", "dir": "in", "subs": subs})
			r.do(M{"a": "graft", "p": victim, "t": "T1"})
		case "mesh-urgent":
			r.do(M{"a": "peer", "p": victim, "proto": "v12", "dir": "in", "subs": subs})
			r.do(M{"a": "graft", "p": victim, "t": "T1"})
		case "topic": // gossipsub peer in the topic, not in the mesh: reached by flood publishing
			r.do(M{"a": "peer", "p": victim, "proto": "v11", "dir": "in", "subs": subs})
		case "flood":
			r.do(M{"a": "peer", "p": victim, "proto": "flood", "dir": "in", "subs": subs})
		case "directpeer":
			r.do(M{"a": "peer", "p": victim, "proto": "v11", "dir": "in", "subs": subs})
			r.do(M{"a": "direct", "p": victim, "on": true})
		case "fanout":
			pub = "T2"
			r.do(M{"a": "peer", "p": victim, "proto": "v11", "dir": "out", "subs": subs})
			r.do(M{"a": "publish", "t": "T2", "m": "mf"})
		default:
			r.t.Fatalf("unknown backlog kind %q", r.sc.Bk)
		}
		r.do(M{"a": "gate", "p": victim, "on": true})
		r.do(M{"a": "publish", "t": pub, "m": "g1"}) // popped by the writer, blocked in Write
		if r.sc.Bk == "mesh-urgent" {
			// large messages of a bystander: an urgent IDONTWANT (priority class) and the forwarded
			// message (normal class) are queued for the victim each time
			for _, m := range []string{"b1", "b2", "b3"} {
				r.do(M{"a": "msg", "p": third, "t": "T1", "m": m, "size": 100})
			}
		} else {
			for _, m := range []string{"g2", "g3", "g4"} {
				r.do(M{"a": "publish", "t": pub, "m": m})
			}
		}
		r.do(M{"a": "hb"}) // whatever control traffic the heartbeat has for the victim is queued too
	default:
		r.t.Fatalf("unknown position %q", r.sc.Pos)
	}
}

// canSend: the victim has a live stream to the node under test.
func (r *run) canSend() bool { return r.fake(victim).HasOut() }

// inflightMsg is the action that sends the message naming the victim.
func (r *run) msgAct(name string) M {
	if r.sc.By == "origin" {
		return M{"a": "msg", "p": victim, "t": "T1", "m": name, "author": other}
	}
	return M{"a": "msg", "p": third, "t": "T1", "m": name, "author": victim}
}

func (r *run) blacklistNow(id peer.ID) {
	if r.sc.How == "api" {
		r.do(M{"a": "blacklist", "p": victim})
		return
	}
	if r.sc.Impl == "map" {
		r.w.NUT.VerifEval(func() { r.px.Add(id) })
	} else {
		r.px.Add(id) // the time-cached implementation locks internally
	}
	r.x("bladd", nil)
	if r.sc.How == "both" {
		// the peer is already in the blacklist (Add of the time-cached implementation will
		// return false): BlacklistPeer must clean up all the same
		r.px.setHow("api")
		r.do(M{"a": "blacklist", "p": victim})
	}
}

func (r *run) scenario() {
	w, sc := r.w, r.sc
	r.do(M{"a": "subscribe", "t": "T1"})
	r.do(M{"a": "peer", "p": third, "proto": "v11", "dir": "in", "subs": []any{"T1", "T2"}})
	r.do(M{"a": "peer", "p": other, "proto": "v11", "dir": "in", "subs": []any{"T1", "T2"}})
	r.do(M{"a": "hb"})
	r.setupVictim()
	vid := r.fake(victim).ID()

	// ---- put a message of the victim into the pipeline
	var wtrap *trap
	switch sc.Stage {
	case "none":
	case "valQ":
		r.ts.add(isValidate("mblk")) // the only worker parks at the Validate event of the blocker
		r.do(M{"a": "msg", "p": other, "t": "T1", "m": "mblk"})
		r.held = "valQ"
		r.do(r.msgAct("min"))
	case "worker":
		r.ts.add(isValidate("min"))
		r.held = "worker"
		r.do(r.msgAct("min"))
	case "async":
		r.held = "async"
		r.do(r.msgAct("min"))
	case "sendQ":
		wtrap = r.ts.add(isValidate("min"))
		r.held = "worker"
		r.do(r.msgAct("min"))
	case "arrived":
		// handled together with the blacklisting below (the loop has to be parked first)
	default:
		r.t.Fatalf("unknown stage %q", sc.Stage)
	}
	if sc.Pos == "down" {
		r.do(M{"a": "down", "p": victim})
	}

	// ---- the blacklisting
	w.NUT.VerifEval(func() { r.capQ = w.NUT.VerifPeerQueue(vid) })
	r.capOK = true
	if sc.How == "both" {
		r.px.setHow("direct")
	} else {
		r.px.setHow(sc.How)
	}
	if sc.Stage == "arrived" {
		// park the loop, let the RPC carrying the message be read off the stream (it waits in
		// front of the loop), add to the blacklist on the loop goroutine, let the loop go
		ltrap := r.ts.add(isMarker)
		ltrap.inLoop = func() { r.px.Add(vid) }
		r.fake(other).Send(hnet.SubRPC("MARK", true))
		hnet.Settle(10 * time.Millisecond)
		a := r.msgAct("min")
		if sc.Path == "direct" {
			a["unsigned"] = true
		}
		r.sendRaw(a)
		hnet.Settle(5 * time.Millisecond)
		r.held = "arrived"
		ltrap.release()
		hnet.Settle(5 * time.Millisecond)
		r.held = ""
		r.x("blparked", M{"stage": "arrived"})
	} else if sc.Stage == "sendQ" {
		// park the loop on a marker RPC, let the worker run into the send on
		// sendMsg, blacklist, then let the loop go: all inside one step line
		ltrap := r.ts.add(isMarker)
		if sc.How == "direct" {
			ltrap.inLoop = func() { r.px.Add(vid) }
		}
		r.fake(other).Send(hnet.SubRPC("MARK", true))
		hnet.Settle(10 * time.Millisecond)
		wtrap.release()
		hnet.Settle(5 * time.Millisecond)
		r.held = "sendQ"
		if sc.How == "api" {
			go w.NUT.BlacklistPeer(vid)
			hnet.Settle(5 * time.Millisecond)
		}
		ltrap.release()
		hnet.Settle(5 * time.Millisecond)
		r.held = ""
		r.x("blparked", M{"stage": "sendQ"})
	} else {
		r.blacklistNow(vid)
	}

	// ---- let the held message go on
	switch sc.Stage {
	case "valQ", "worker":
		r.ts.releaseAll()
		r.held = ""
		r.x("release", M{"stage": sc.Stage})
	case "async":
		close(r.vgate)
		r.vgate = nil
		r.held = ""
		r.x("release", M{"stage": sc.Stage})
	}

	// ---- position specific continuation
	switch sc.Pos {
	case "pending", "repending":
		w.H.ReleaseOpen(vid)
		r.x("releaseOpen", nil)
	case "gated":
		// let the blocked Write go, one Write per step, so that every frame that is written reaches
		// the peer before anything can reset the stream; then remove the gate. The unchanged code lets
		// exactly the one Write that was in progress finish; its next Pop returns ErrQueueClosed.
		for i := 0; i < 6; i++ {
			w.H.StepWrite(vid)
			r.x("stepwrite", M{"k": i + 1})
		}
		r.do(M{"a": "gate", "p": victim, "on": false})
	}

	// ---- probes after the blacklisting
	if r.canSend() {
		r.do(M{"a": "msg", "p": victim, "t": "T1", "m": "ma1", "author": other})
	}
	r.do(M{"a": "msg", "p": third, "t": "T1", "m": "mb", "author": victim})
	r.do(M{"a": "publish", "t": "T1", "m": "mc"})
	if sc.Pos == "fanout" {
		r.do(M{"a": "publish", "t": "T2", "m": "mc2"})
	}
	r.do(M{"a": "msg", "p": third, "t": "T1", "m": "md"})
	r.do(M{"a": "hb"})
	if r.canSend() && sc.Pos != "conn" {
		// D6: a GRAFT on the surviving inbound stream (information only)
		r.do(M{"a": "graft", "p": victim, "t": "T1"})
		r.do(M{"a": "publish", "t": "T1", "m": "mg"})
	}
	connected := sc.Pos == "conn" || sc.Pos == "mesh" || sc.Pos == "fanout" || sc.Pos == "gated"
	if sc.How == "direct" && connected {
		// the outbound stream dies while the connection stays: the writer is
		// respawned and its new stream must be refused
		r.do(M{"a": "resetIn", "p": victim})
		r.do(M{"a": "adv", "ms": 1500, "x": "respawn", "p": victim})
	}
	// reconnect (or connect for the first time) with the stream open held back
	if sc.Pos != "never" && sc.Pos != "down" {
		r.do(M{"a": "down", "p": victim})
	}
	w.H.FailOpen(vid, false)
	w.H.HoldOpen(vid)
	r.do(M{"a": "peer", "p": victim, "dir": "in", "subs": []any{"T1"}})
	w.H.ReleaseOpen(vid)
	r.x("releaseOpen", nil)
	r.do(M{"a": "msg", "p": victim, "t": "T1", "m": "ma2"})
	r.do(M{"a": "publish", "t": "T1", "m": "mh"})
	r.do(M{"a": "hb"})

	if sc.Impl == "timed" && sc.Expire {
		// after the expiry (and the next sweep) the property no longer binds
		r.do(M{"a": "elapse", "s": 65})
		r.do(M{"a": "msg", "p": victim, "t": "T1", "m": "mx"})
		r.do(M{"a": "msg", "p": third, "t": "T1", "m": "my", "author": victim})
	}
}

func runScenario(t *testing.T, out *vh.Out, idx int, sc scenario) {
	synctest.Test(t, func(t *testing.T) {
		lastN := &atomic.Int64{}
		px := &proxyBL{lastN: lastN}
		var timed *pubsub.TimeCachedBlacklist
		if sc.Impl == "timed" {
			b, err := pubsub.NewTimeCachedBlacklist(expiryMs * time.Millisecond)
			if err != nil {
				t.Fatal(err)
			}
			timed = b.(*pubsub.TimeCachedBlacklist)
			defer timed.VerifDone()
			px.inner, px.exp = b, expiryMs
		} else {
			px.inner, px.exp = pubsub.NewMapBlacklist(), 0
		}
		opts := []pubsub.Option{pubsub.WithBlacklist(px)}
		if sc.Stage == "valQ" {
			opts = append(opts, pubsub.WithValidateWorkers(1))
		}
		if sc.Path == "direct" {
			opts = append(opts, pubsub.WithMessageSignaturePolicy(pubsub.StrictNoSign))
		} else {
			sc.Path = "queue"
		}
		if sc.Pos != "gated" {
			sc.Bk = ""
		} else if sc.Bk == "" {
			sc.Bk = "mesh"
		}
		r := &run{t: t, sc: sc, px: px, ts: &traps{}}
		cfg := world.Config{Hosts: 6, Opts: opts, FloodPublish: sc.Bk == "topic"}
		w := world.New(t, out, idx, cfg, M{"pos": sc.Pos, "how": sc.How, "by": sc.By, "stage": sc.Stage, "impl": sc.Impl, "path": sc.Path, "bk": sc.Bk, "mem": sc.Mem,
			"expire": sc.Expire, "victim": victim, "expMs": px.exp})
		r.w = w
		px.writes = w.H.Writes
		defer w.Close()
		defer func() {
			r.ts.releaseAll()
			if r.vgate != nil {
				close(r.vgate)
			}
			if f := w.Fakes[victim]; f != nil {
				w.H.ReleaseOpen(f.ID())
			}
		}()
		w.Rec.Hook = func(ev M) {
			if n, ok := ev["n"].(int); ok {
				lastN.Store(int64(n))
			}
			if tr := r.ts.find(ev); tr != nil {
				close(tr.reached)
				<-tr.gate
				if tr.inLoop != nil {
					tr.inLoop()
				}
			}
		}
		if sc.Stage == "async" {
			r.vgate = make(chan struct{})
			gate := r.vgate
			err := w.NUT.RegisterTopicValidator("T1", func(ctx context.Context, from peer.ID, msg *pubsub.Message) pubsub.ValidationResult {
				d := msg.GetData()
				if len(d) >= 4 && string(d[:4]) == "min|" {
					<-gate
				}
				return pubsub.ValidationAccept
			})
			if err != nil {
				t.Fatal(err)
			}
		}
		w.Extra = r.extra
		r.scenario()
	})
}

// TestC16Replay replays the situations of VERIF_IN.
func TestC16Replay(t *testing.T) {
	scns := vh.ReadScenarios[scenario](t, "VERIF_IN")
	out := vh.NewOut(t, "VERIF_OUT")
	only := vh.EnvInt("VERIF_ONLY", -1)
	for i, s := range scns {
		if only >= 0 && i != only {
			continue
		}
		marker(i)
		runScenario(t, out, i, s)
	}
}
