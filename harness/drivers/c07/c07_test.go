// C07 driver (besides the shared router replay/walk drivers): asks the real
// GossipSubParams.validate about every (D, Dlo, Dhi, Dscore, Dout) of a small
// grid. One NDJSON line per parameter set; MeshParams.tla compares the answers
// with the domain the mesh model is checked for. Drivers never judge.
package c07

import (
	"testing"

	pubsub "github.com/libp2p/go-libp2p-pubsub"

	"verifharness/vh"
)

type M = map[string]any

func TestC07Validate(t *testing.T) {
	out := vh.NewOut(t, "VERIF_OUT")
	defer out.Close()
	max := vh.EnvInt("VERIF_GRID", 5)
	for d := 0; d <= max; d++ {
		for dlo := 0; dlo <= max; dlo++ {
			for dhi := 0; dhi <= max; dhi++ {
				for dscore := 0; dscore <= max; dscore++ {
					for dout := 0; dout <= max; dout++ {
						p := pubsub.DefaultGossipSubParams()
						p.D, p.Dlo, p.Dhi, p.Dscore, p.Dout = d, dlo, dhi, dscore, dout
						err := pubsub.VerifValidateGossipSubParams(&p)
						out.Emit(M{"D": d, "Dlo": dlo, "Dhi": dhi, "Dscore": dscore, "Dout": dout, "ok": err == nil})
					}
				}
			}
		}
	}
}
