// X06 driver (the discovery pipeline, /repo/discovery.go and its call sites in pubsub.go / topic.go).
//
// One real node (gossipsub with world.SmallParams, floodsub or randomsub) is built through the public
// constructor with pubsub.WithDiscovery(<scriptable mock discovery service>) on a simulated network under
// testing/synctest.  The mock records every Advertise / FindPeers call with virtual time stamps, returns
// scripted TTLs / errors / peer lists and can hold a call until it is released.  Scenarios are sequences of
// world actions (see harness/world) plus
//
//	svc{adv:{ttl,err,errttl,hold}, find:{mode:"empty"|"peers"|"hold"|"err", peers:[..]}}   script the service
//	release{what:"adv"|"find"}         release the held calls
//	pub{t,m,n,to}                      start Topic.Publish(ctx, m, WithReadiness(MinTopicSize(n))) in a goroutine; to = timeout of ctx in ms (0: none)
//	cancelpub{m}                       cancel the context of publish m
//	peers{t,n}                         make exactly the first n fake peers subscribers of t (connecting them when needed)
//	graft{p,t} ...                     every world action (a GRAFT pushes the mesh beyond D)
//	found{p,subs}                      a peer the node has dialled opens its stream and announces subs
//	elapse{s}                          s virtual seconds pass
//	shutdown                           the context of the node is cancelled
//
// Time grid (virtual ms, modulo 1000): gossipsub heartbeat 100, EnoughPeers sample 200, discovery poll poll0 (300),
// stimulus 500; the service answers Advertise after 13 ms and closes a FindPeers channel after 217 ms (held
// calls: at release or 3 ms after their context ends), so that no timer of the mechanism shares an instant
// with a stimulus.  Every step line carries
//
//	"x": {"t0": stimulus instant, "dv": [mock / driver events in real order, the stimulus marked by {"k":"stim"}],
//	      "census": {goroutines of the discovery pipeline by role}, "alive": [advertiser ids whose context is live],
//	      "pend": [publishes not yet returned]}   (sample events carry {topic: [EnoughPeers(topic, 0..7)]})
//
// The driver never judges; spec/discovery/DiscoveryTrace.tla does.
package x06

import (
	"context"
	"errors"
	"os"
	"runtime"
	"sort"
	"strings"
	"sync"
	"testing"
	"testing/synctest"
	"time"

	pubsub "github.com/libp2p/go-libp2p-pubsub"
	"github.com/libp2p/go-libp2p/core/discovery"
	"github.com/libp2p/go-libp2p/core/host"
	"github.com/libp2p/go-libp2p/core/peer"
	discimpl "github.com/libp2p/go-libp2p/p2p/discovery/backoff"

	"verifharness/hnet"
	"verifharness/vh"
	"verifharness/world"
)

type M = map[string]any

type scenario struct {
	ID   int    `json:"id"`
	Src  string `json:"src"`
	Cfg  M      `json:"cfg"`
	Acts []M    `json:"acts"`
}

const (
	advLat   = 13 * time.Millisecond
	findLat  = 217 * time.Millisecond
	holdTail = 3 * time.Millisecond
	optLimit = 7
	optTTL   = 77 * time.Second
	maxN     = 7 // EnoughPeers is sampled for suggested sizes 0..maxN
)

var topics = []string{"t1", "t2"}

func geti(m M, k string, def int) int {
	switch v := m[k].(type) {
	case float64:
		return int(v)
	case int:
		return v
	}
	return def
}
func getb(m M, k string) bool { b, _ := m[k].(bool); return b }
func gets(m M, k string) string {
	s, _ := m[k].(string)
	return s
}
func getm(m M, k string) M {
	x, _ := m[k].(map[string]any)
	return x
}
func getl(m M, k string) []string {
	out := []string{}
	if l, ok := m[k].([]any); ok {
		for _, x := range l {
			if s, ok := x.(string); ok {
				out = append(out, s)
			}
		}
	}
	return out
}

func marker(i int) {
	if p := os.Getenv("VERIF_MARKER"); p != "" {
		os.WriteFile(p, []byte(vh.Sprintf("%d", i)), 0o644)
	}
}

// ---------------------------------------------------------------------------------------------- driver state

type pubCall struct {
	name   string
	topic  string
	cancel context.CancelFunc
	done   bool
}

type drv struct {
	t  *testing.T
	w  *world.World
	mu sync.Mutex
	dv []M // event log since the last line

	// service script
	advMode  M
	findMode M
	advRel   chan struct{}
	findRel  chan struct{}
	nadv     int
	nfind    int
	ctxIDs   map[context.Context]int
	ctxs     []context.Context

	pubs   map[string]*pubCall
	order  []string
	subsOf map[string]map[string]bool // fake peer -> topics it has announced
	conn   map[string]bool            // fake peers whose stream to the node is open
	proto  string
	dead   bool
	self   peer.ID
}

func (d *drv) log(e M) {
	d.mu.Lock()
	d.dv = append(d.dv, e)
	d.mu.Unlock()
}

func errKind(err error) string {
	switch {
	case err == nil:
		return ""
	case errors.Is(err, context.DeadlineExceeded):
		return "deadline"
	case errors.Is(err, context.Canceled):
		return "canceled"
	}
	return "other:" + err.Error()
}

// ---------------------------------------------------------------------------------------------- mock service

type mock struct{ d *drv }

func applied(opts []discovery.Option) (ttl int64, limit int, other int) {
	var o discovery.Options
	if err := o.Apply(opts...); err != nil {
		return -1, -1, -1
	}
	return o.Ttl.Milliseconds(), o.Limit, len(o.Other)
}

func (m *mock) Advertise(ctx context.Context, ns string, opts ...discovery.Option) (time.Duration, error) {
	d := m.d
	ottl, olim, _ := applied(opts)
	d.mu.Lock()
	g, ok := d.ctxIDs[ctx]
	if !ok {
		g = len(d.ctxs) + 1
		d.ctxIDs[ctx] = g
		d.ctxs = append(d.ctxs, ctx)
	}
	d.nadv++
	id := d.nadv
	mode, rel := d.advMode, d.advRel
	d.dv = append(d.dv, M{"k": "adv", "id": id, "g": g, "ns": ns, "t": hnet.NowMs(), "ottl": ottl, "olim": olim, "dead": ctx.Err() != nil})
	d.mu.Unlock()
	if !ok {
		context.AfterFunc(ctx, func() { d.log(M{"k": "advctx", "g": g, "t": hnet.NowMs()}) })
	}
	if getb(mode, "hold") {
		select {
		case <-rel:
		case <-ctx.Done():
		}
	} else {
		tm := time.NewTimer(advLat)
		select {
		case <-tm.C:
		case <-ctx.Done():
			tm.Stop()
		}
	}
	var ttl time.Duration
	var err error
	switch {
	case ctx.Err() != nil:
		err = ctx.Err()
	case getb(mode, "err"):
		ttl, err = time.Duration(geti(mode, "errttl", 0))*time.Millisecond, errors.New("x06: advertise refused")
	default:
		ttl = time.Duration(geti(mode, "ttl", 3007)) * time.Millisecond
	}
	d.log(M{"k": "advret", "id": id, "g": g, "ns": ns, "t": hnet.NowMs(), "ttl": ttl.Milliseconds(), "err": errKind(err)})
	return ttl, err
}

func (m *mock) FindPeers(ctx context.Context, ns string, opts ...discovery.Option) (<-chan peer.AddrInfo, error) {
	d := m.d
	ottl, olim, _ := applied(opts)
	dl := int64(-1)
	if t, ok := ctx.Deadline(); ok {
		dl = t.Sub(hnet.Epoch).Milliseconds()
	}
	d.mu.Lock()
	d.nfind++
	id := d.nfind
	mode, rel := d.findMode, d.findRel
	d.mu.Unlock()
	kind := gets(mode, "mode")
	if kind == "" {
		kind = "empty"
	}
	names := []string{}
	if kind == "peers" {
		names = getl(mode, "peers")
	}
	ev := M{"k": "find", "id": id, "ns": ns, "t": hnet.NowMs(), "dl": dl, "ottl": ottl, "olim": olim, "mode": kind, "peers": names}
	if kind == "err" {
		d.log(ev)
		d.log(M{"k": "findend", "id": id, "ns": ns, "t": hnet.NowMs(), "err": true})
		return nil, errors.New("x06: find refused")
	}
	ch := make(chan peer.AddrInfo, len(names)+1)
	for _, n := range names {
		switch {
		case n == "self":
			ch <- peer.AddrInfo{ID: d.self, Addrs: d.w.H.Addrs()}
		case d.w.Fakes[n] != nil:
			f := d.w.Fakes[n]
			ch <- peer.AddrInfo{ID: f.ID(), Addrs: f.H.Addrs()}
		}
	}
	d.log(ev)
	go func() {
		if kind == "hold" {
			select {
			case <-rel:
			case <-ctx.Done():
				time.Sleep(holdTail)
			}
		} else {
			tm := time.NewTimer(findLat)
			select {
			case <-tm.C:
			case <-ctx.Done():
				tm.Stop()
			}
		}
		d.log(M{"k": "findend", "id": id, "ns": ns, "t": hnet.NowMs(), "err": false})
		close(ch)
	}()
	return ch, nil
}

// ---------------------------------------------------------------------------------------------- observations

func (d *drv) sample(kind string) {
	if d.dead {
		return
	}
	en := M{}
	rt := d.w.NUT.VerifRouter()
	err := d.w.NUT.VerifEval(func() {
		for _, t := range topics {
			l := make([]bool, maxN+1)
			for n := 0; n <= maxN; n++ {
				l[n] = rt.EnoughPeers(t, n)
			}
			en[t] = l
		}
	})
	if err != nil {
		return
	}
	d.log(M{"k": "sample", "kind": kind, "t": hnet.NowMs(), "en": en})
}

var roles = []struct{ name, pat, not string }{
	{"adv", "go-libp2p-pubsub.(*discover).Advertise.func1", ""},
	{"poll", "go-libp2p-pubsub.(*discover).pollTimer", ""},
	{"hd", "go-libp2p-pubsub.(*discover).discoverLoop.func1", ""},
	{"loop", "go-libp2p-pubsub.(*discover).discoverLoop(", ""},
	{"boot", "go-libp2p-pubsub.(*discover).Bootstrap", ""},
	{"dialing", "discovery/backoff.(*BackoffConnector).Connect.func1", ""},
	{"pubcall", "go-libp2p-pubsub.(*Topic).Publish", ""},
}

func census() M {
	buf := make([]byte, 1<<20)
	for {
		n := runtime.Stack(buf, true)
		if n < len(buf) {
			buf = buf[:n]
			break
		}
		buf = make([]byte, 2*len(buf))
	}
	out := M{}
	for _, r := range roles {
		out[r.name] = 0
	}
	bubble := ""
	for i, g := range strings.Split(string(buf), "\n\n") {
		// only goroutines of the current synctest bubble (the first block is the calling goroutine): goroutines leaked
		// by an earlier scenario stay in their dead bubble
		hdr := strings.SplitN(g, "\n", 2)[0]
		b := ""
		if k := strings.Index(hdr, "synctest bubble "); k >= 0 {
			b = strings.TrimRight(hdr[k:], "]:")
		}
		if i == 0 {
			bubble = b
		}
		if b != bubble {
			continue
		}
		for _, r := range roles {
			if strings.Contains(g, r.pat) {
				if r.name == "loop" && strings.Contains(g, "discoverLoop.func1") {
					continue
				}
				out[r.name] = out[r.name].(int) + 1
			}
		}
	}
	return out
}

func (d *drv) extra(w *world.World, line M) {
	d.sample("end")
	d.mu.Lock()
	dv := d.dv
	d.dv = nil
	alive := []int{}
	for i, c := range d.ctxs {
		if c.Err() == nil {
			alive = append(alive, i+1)
		}
	}
	pend := []string{}
	for _, n := range d.order {
		if !d.pubs[n].done {
			pend = append(pend, n)
		}
	}
	d.mu.Unlock()
	if dv == nil {
		dv = []M{}
	}
	line["x"] = M{"dv": dv, "census": census(), "alive": alive, "pend": pend}
}

// ---------------------------------------------------------------------------------------------- time

// toStimulus advances to the next instant = 500 (mod 1000) strictly after now, `secs` seconds on; EnoughPeers is
// sampled at 200 (mod 1000) of every second crossed (after the gossipsub heartbeat, before the discovery poll).
func (d *drv) toStimulus(secs int) {
	for i := 0; i < secs; i++ {
		now := hnet.NowMs()
		next := (now-500+1000)/1000*1000 + 500
		if next <= now {
			next += 1000
		}
		if s := next - 300; now < s {
			hnet.AdvanceTo(s)
			d.sample("pre")
		}
		hnet.AdvanceTo(next)
	}
}

// ---------------------------------------------------------------------------------------------- stimuli

func (d *drv) ready(name string, n int) pubsub.RouterReady {
	lib := pubsub.MinTopicSize(n)
	return func(rt pubsub.PubSubRouter, topic string) (bool, error) {
		res, err := lib(rt, topic)
		direct := rt.EnoughPeers(topic, n)
		d.log(M{"k": "ready", "m": name, "topic": topic, "n": n, "t": hnet.NowMs(), "res": res, "direct": direct})
		return res, err
	}
}

func (d *drv) pub(a M) {
	name, t, n, to := gets(a, "m"), gets(a, "t"), geti(a, "n", 1), geti(a, "to", 0)
	tp := d.w.Topic(t)
	var ctx context.Context
	var cancel context.CancelFunc
	if to > 0 {
		ctx, cancel = context.WithTimeout(context.Background(), time.Duration(to)*time.Millisecond)
	} else {
		ctx, cancel = context.WithCancel(context.Background())
	}
	pc := &pubCall{name: name, topic: t, cancel: cancel}
	d.mu.Lock()
	d.pubs[name] = pc
	d.order = append(d.order, name)
	d.mu.Unlock()
	context.AfterFunc(ctx, func() { d.log(M{"k": "pubctx", "m": name, "t": hnet.NowMs()}) })
	data := []byte(name + "|................")
	go func() {
		err := tp.Publish(ctx, data, pubsub.WithReadiness(d.ready(name, n)))
		d.mu.Lock()
		pc.done = true
		d.dv = append(d.dv, M{"k": "pubret", "m": name, "t": hnet.NowMs(), "err": errKind(err)})
		d.mu.Unlock()
	}()
}

func (d *drv) validator(ctx context.Context, src peer.ID, msg *pubsub.Message) pubsub.ValidationResult {
	name := "?"
	for i, b := range msg.GetData() {
		if b == '|' {
			name = string(msg.GetData()[:i])
			break
		}
	}
	d.w.Names.MsgFromData(hnet.DefaultMsgID(msg.Message), msg.GetData())
	d.log(M{"k": "val", "m": name, "topic": msg.GetTopic(), "t": hnet.NowMs(), "self": src == d.self})
	return pubsub.ValidationAccept
}

// peers makes exactly the first n fake peers subscribers of t.
func (d *drv) peers(t string, n int) {
	w := d.w
	for i := 1; i <= len(w.Fakes); i++ {
		name := vh.Sprintf("p%d", i)
		f := w.Fakes[name]
		want := i <= n
		if d.subsOf[name] == nil {
			d.subsOf[name] = map[string]bool{}
		}
		if want && !d.conn[name] {
			if err := f.DialNUT(); err != nil {
				d.t.Fatalf("x06: dial %s: %v", name, err)
			}
			hnet.Settle(4 * time.Millisecond)
			if err := f.OpenOut(); err != nil {
				d.t.Fatalf("x06: open %s: %v", name, err)
			}
			d.conn[name] = true
		}
		if d.conn[name] && d.subsOf[name][t] != want {
			f.Send(hnet.SubRPC(t, want))
			d.subsOf[name][t] = want
		}
	}
}

func (d *drv) do(a M) {
	w := d.w
	kind := gets(a, "a")
	secs := 1
	if kind == "elapse" {
		secs = geti(a, "s", 1)
	}
	d.toStimulus(secs)
	d.log(M{"k": "stim", "t": hnet.NowMs(), "a": kind})
	own := true
	switch kind {
	case "elapse":
	case "svc":
		d.mu.Lock()
		if m := getm(a, "adv"); m != nil {
			d.advMode = m
		}
		if m := getm(a, "find"); m != nil {
			d.findMode = m
		}
		d.mu.Unlock()
	case "release":
		d.mu.Lock()
		if gets(a, "what") == "adv" {
			close(d.advRel)
			d.advRel = make(chan struct{})
		} else {
			close(d.findRel)
			d.findRel = make(chan struct{})
		}
		d.mu.Unlock()
	case "pub":
		d.pub(a)
	case "cancelpub":
		d.mu.Lock()
		pc := d.pubs[gets(a, "m")]
		d.mu.Unlock()
		if pc != nil {
			pc.cancel()
		}
	case "peers":
		d.peers(gets(a, "t"), geti(a, "n", 0))
	case "found":
		// a peer the node has dialled (or any unconnected fake peer) opens its stream and announces its topics
		name := gets(a, "p")
		f := w.Fakes[name]
		if f != nil && !d.conn[name] {
			if err := f.DialNUT(); err == nil {
				hnet.Settle(4 * time.Millisecond)
				if err := f.OpenOut(); err == nil {
					d.conn[name] = true
				}
			}
		}
		if f != nil && d.conn[name] {
			if d.subsOf[name] == nil {
				d.subsOf[name] = map[string]bool{}
			}
			for _, t := range getl(a, "subs") {
				f.Send(hnet.SubRPC(t, true))
				d.subsOf[name][t] = true
			}
		}
	case "shutdown":
		w.Stop()
		d.dead = true
	case "closeTopic":
		// Topic.Close takes the topic's lock, which a Publish waiting for readiness holds (read side) for the whole wait: it
		// would block on a mutex inside the bubble.  The stimulus is skipped while a publish on the topic is pending.
		busy := false
		d.mu.Lock()
		for _, pc := range d.pubs {
			if !pc.done && pc.topic == gets(a, "t") {
				busy = true
			}
		}
		d.mu.Unlock()
		if !busy {
			own = false
		}
	default:
		own = false
	}
	if own {
		hnet.Settle(15 * time.Millisecond)
		w.Emit(a)
		return
	}
	if !w.Do(a) {
		d.t.Fatalf("x06: unknown action %v", a)
	}
}

// ---------------------------------------------------------------------------------------------- one scenario

func runScenario(t *testing.T, out *vh.Out, s scenario) {
	oldD, oldI := pubsub.DiscoveryPollInitialDelay, pubsub.DiscoveryPollInterval
	defer func() { pubsub.DiscoveryPollInitialDelay, pubsub.DiscoveryPollInterval = oldD, oldI }()
	defer func() {
		// a scenario that leaves goroutines of the node blocked ends in synctest's deadlock panic when the bubble's
		// root goroutine returns: the lines are written by then; the orchestrator sees the leak in the census
		if r := recover(); r != nil {
			out.Emit(M{"i": -1, "scn": s.ID, "t": 0, "act": M{"a": "bubble-panic", "what": vh.Sprintf("%v", r)}})
		}
	}()
	synctest.Test(t, func(t *testing.T) {
		d := &drv{t: t, advMode: M{}, findMode: M{}, advRel: make(chan struct{}), findRel: make(chan struct{}),
			ctxIDs: map[context.Context]int{}, pubs: map[string]*pubCall{}, subsOf: map[string]map[string]bool{}, conn: map[string]bool{}}
		router := gets(s.Cfg, "router")
		if router == "" {
			router = "gossipsub"
		}
		npeers := geti(s.Cfg, "npeers", 3)
		disc, withOpts, connector := !getb(s.Cfg, "nodisc"), getb(s.Cfg, "opts"), gets(s.Cfg, "conn")
		poll0, pollIv := int64(geti(s.Cfg, "poll0", 300)), int64(geti(s.Cfg, "pollIv", 1000))
		d.proto = gets(s.Cfg, "pproto")
		if d.proto == "" {
			d.proto = map[string]string{"gossipsub": "v11", "floodsub": "flood", "randomsub": "random"}[router]
		}
		backoffMs, fixed := 10000, false
		if connector == "custom" && disc {
			backoffMs, fixed = 3000, true
		}
		cfg := world.Config{Router: router, Hosts: 2 + npeers}
		cfg.PreNUT = func(w *world.World) {
			d.w = w
			d.self = w.H.ID()
			w.H.OnConnect = func(pi peer.AddrInfo) {
				d.log(M{"k": "dial", "p": w.Names.P(pi.ID), "t": hnet.NowMs(), "addrs": len(pi.Addrs)})
			}
			if !disc {
				return
			}
			pubsub.DiscoveryPollInitialDelay = time.Duration(poll0-hnet.NowMs()) * time.Millisecond
			pubsub.DiscoveryPollInterval = time.Duration(pollIv) * time.Millisecond
			var dopts []pubsub.DiscoverOpt
			if withOpts {
				dopts = append(dopts, pubsub.WithDiscoveryOpts(discovery.Limit(optLimit), discovery.TTL(optTTL)))
			}
			if connector == "custom" {
				dopts = append(dopts, pubsub.WithDiscoverConnector(func(h host.Host) (*discimpl.BackoffConnector, error) {
					d.log(M{"k": "factory", "t": hnet.NowMs(), "self": h.ID() == d.self})
					return discimpl.NewBackoffConnector(h, 16, time.Minute, discimpl.NewFixedBackoff(3*time.Second))
				}))
			}
			w.Cfg.Opts = append(w.Cfg.Opts, pubsub.WithDiscovery(&mock{d}, dopts...))
		}
		p := world.SmallParams()
		reset := M{"x06": true, "disc": disc, "opts": withOpts, "conn": connector, "poll0": poll0, "pollIv": pollIv,
			"backoffMs": backoffMs, "fixed": fixed, "advLat": advLat.Milliseconds(), "findLat": findLat.Milliseconds(),
			"Dlo": p.Dlo, "Dhi": p.Dhi, "RandomSubD": pubsub.RandomSubD, "FloodSize": pubsub.FloodSubTopicSearchSize,
			"optLimit": optLimit, "optTTL": optTTL.Milliseconds(), "npeers": npeers, "pproto": d.proto}
		w := world.New(t, out, s.ID, cfg, reset)
		d.w = w
		w.Extra = d.extra
		defer func() {
			d.mu.Lock()
			close(d.advRel)
			close(d.findRel)
			for _, pc := range d.pubs {
				pc.cancel()
			}
			d.mu.Unlock()
			w.Close()
		}()
		hnet.Settle(10 * time.Millisecond)
		// every fake peer exists (unconnected) from the start so that the service can return it before it has ever connected
		for i := 1; i <= npeers; i++ {
			name := vh.Sprintf("p%d", i)
			proto := d.proto
			if proto == "mixed" {
				// odd peers speak the router's own protocol, even peers floodsub
				proto = map[string]string{"gossipsub": "v11", "floodsub": "flood", "randomsub": "random"}[router]
				if i%2 == 0 {
					proto = "flood"
				}
			}
			f := hnet.NewFakePeer(w.Net.Take(), name, proto, w.H.Host)
			w.Names.AddPeer(f.ID(), name)
			w.Fakes[name] = f
		}
		for _, tp := range topics {
			if err := w.NUT.RegisterTopicValidator(tp, d.validator); err != nil {
				t.Fatalf("x06: validator: %v", err)
			}
		}
		for _, a := range s.Acts {
			d.do(a)
		}
		// every scenario ends with the shutdown of the node (unless it has been shut down already) and a last line
		d.toStimulus(1)
		d.log(M{"k": "stim", "t": hnet.NowMs(), "a": "end"})
		w.Stop()
		d.dead = true
		hnet.Settle(15 * time.Millisecond)
		w.Emit(M{"a": "end", "fin": true})
	})
}

// TestX06Replay replays the scenarios of VERIF_IN (shard VERIF_SHARD of VERIF_SHARDS).
func TestX06Replay(t *testing.T) {
	scns := vh.ReadScenarios[scenario](t, "VERIF_IN")
	out := vh.NewOut(t, "VERIF_OUT")
	only := vh.EnvInt("VERIF_ONLY", -1)
	shard, shards := vh.EnvInt("VERIF_SHARD", 0), vh.EnvInt("VERIF_SHARDS", 1)
	skip := map[string]bool{}
	for _, x := range strings.Split(os.Getenv("VERIF_SKIPIDS"), ",") {
		skip[x] = true
	}
	for i, s := range scns {
		if skip[vh.Sprintf("%d", s.ID)] {
			continue
		}
		if only >= 0 && s.ID != only {
			continue
		}
		if only < 0 && i%shards != shard {
			continue
		}
		marker(s.ID)
		runScenario(t, out, s)
	}
}

var _ = sort.Strings
