// Driver for the in-node message pipeline (spec/ingest: C02 pipeline part, C04).
//
// One real node (gossipsub with peer scoring, or floodsub) is built through the
// public constructors with harness VALIDATORS that count their invocations per
// (validator, message) and BLOCK on a per-(validator, message) gate, so that the
// scenario - not the Go scheduler - dictates the order in which validators
// complete.  Fake peers p1, p2 write the copies, `obs` is a mesh peer that only
// observes what is forwarded, `g1` is a non-mesh peer that sees the gossip,
// `pb` writes the "blocker" messages (invalid signature) that park a validation
// worker inside the tracer callback, before the seen cache is touched.
//
// Scenario: {"cfg":{...},"acts":[...]}; actions:
//
//	msg{p,m}        forwarder p writes a copy of message m (same bytes for every copy)
//	rpc{p,ms}       forwarder p writes ONE RPC whose Publish list is ms (a message may be repeated)
//	rel{v,m,r}      validator v (1-based) returns r (0 Accept, 1 Reject, 2 Ignore, other = out of range) for m
//	adv{tv:[{v,m,r}]} let the validator timeout pass; running validators with a timeout return tv's verdicts
//	pub{m}          Topic.Publish of the payload of m on its own goroutine; the return value is logged when it returns
//	badd{m} / bpub  Topic.AddToBatch of the payload of m (own goroutine, return value logged) / PubSub.PublishBatch of that batch
//	held{acts}      park the event loop, perform the inner bpub / rel actions, release the loop: one step
//	down{p}         forwarder p disconnects (its score record is retained: "pen" entries carry "c": connected)
//	block{m} / unblock{m}   park / release a validation worker
//	hb              cross one heartbeat
//
// Every action is one step line of the world format with extra fields:
// "val" (validator call / return events), "pubret" (Publish return values),
// "deliv" (Subscription.Next results), "pen" (per-peer invalid-message-delivery
// counters read from the score state).  The driver never judges; IngestTrace does.
package ingest

import (
	"context"
	"os"
	"sort"
	"sync"
	"testing"
	"testing/synctest"
	"time"

	pubsub "github.com/libp2p/go-libp2p-pubsub"
	pb "github.com/libp2p/go-libp2p-pubsub/pb"
	"github.com/libp2p/go-libp2p-pubsub/timecache"
	"github.com/libp2p/go-libp2p/core/peer"

	"verifharness/hnet"
	"verifharness/vh"
	"verifharness/world"
)

type M = map[string]any

const topicName = "T1"
const topic2Name = "T2"

// topicOf: messages whose name starts with 'n' travel on the second topic.
func topicOf(name string) string {
	if len(name) > 0 && name[0] == 'n' {
		return topic2Name
	}
	return topicName
}

type scenario struct {
	Cfg  M   `json:"cfg"`
	Acts []M `json:"acts"`
}

func geti(m M, k string, def int) int {
	switch v := m[k].(type) {
	case float64:
		return int(v)
	case int:
		return v
	}
	return def
}
func getb(m M, k string) bool { b, _ := m[k].(bool); return b }
func gets(m M, k, def string) string {
	if s, ok := m[k].(string); ok && s != "" {
		return s
	}
	return def
}
func getis(m M, k string) map[int]bool {
	out := map[int]bool{}
	if l, ok := m[k].([]any); ok {
		for _, x := range l {
			if f, ok := x.(float64); ok {
				out[int(f)] = true
			}
		}
	}
	return out
}

type gate struct {
	ch       chan struct{}
	open     bool
	waiting  int // validator invocations currently parked at this gate
	verdict  int // returned when the gate opens
	tverdict int // returned when the validator's own deadline passes (or it is cancelled)
}

type drv struct {
	w    *world.World
	mu   sync.Mutex
	gts  map[string]*gate
	blk  map[string]chan struct{}
	val  []M
	pret []M
	dlv  []M
	done chan struct{}
	deaf bool
	wg   sync.WaitGroup
}

func msgName(data []byte) string {
	for i, b := range data {
		if b == '|' {
			return string(data[:i])
		}
	}
	return "?"
}

func (d *drv) gate(v int, m string) *gate {
	k := vh.Sprintf("%d/%s", v, m)
	d.mu.Lock()
	defer d.mu.Unlock()
	g := d.gts[k]
	if g == nil {
		g = &gate{ch: make(chan struct{}), verdict: 2, tverdict: 2}
		d.gts[k] = g
	}
	return g
}

func (d *drv) logVal(ev M) {
	d.mu.Lock()
	d.val = append(d.val, ev)
	d.mu.Unlock()
}

// validator builds harness validator number v (1-based).
func (d *drv) validator(v int) pubsub.ValidatorEx {
	return func(ctx context.Context, src peer.ID, msg *pubsub.Message) pubsub.ValidationResult {
		name := msgName(msg.GetData())
		local := d.w != nil && src == d.w.H.ID()
		if d.w != nil && msg.ID != "" {
			d.w.Names.MsgFromData(msg.ID, msg.GetData()) // the event tracer names locally published messages by id only
		}
		g := d.gate(v, name)
		d.logVal(M{"e": "call", "v": v, "m": name, "local": local, "t": hnet.NowMs()})
		d.mu.Lock()
		g.waiting++
		d.mu.Unlock()
		defer func() {
			d.mu.Lock()
			g.waiting--
			d.mu.Unlock()
		}()
		ret := func(r int, how string) pubsub.ValidationResult {
			d.logVal(M{"e": "ret", "v": v, "m": name, "local": local, "r": r, "how": how, "t": hnet.NowMs()})
			return pubsub.ValidationResult(r)
		}
		ctxDone := ctx.Done()
		for {
			select {
			case <-g.ch:
				d.mu.Lock()
				r := g.verdict
				d.mu.Unlock()
				return ret(r, "gate")
			case <-ctxDone:
				d.mu.Lock()
				r := g.tverdict
				d.mu.Unlock()
				if ctx.Err() == context.DeadlineExceeded {
					return ret(r, "timeout")
				}
				select {
				case <-d.done: // the scenario is over: not an observation
					return pubsub.ValidationIgnore
				default:
				}
				if !d.deaf {
					return ret(r, "cancel")
				}
				ctxDone = nil // a validator that does not watch its context: only the gate ends it
			case <-d.done:
				return pubsub.ValidationIgnore
			}
		}
	}
}

func contentID(m *pb.Message) string { return string(m.GetData()) }

func payload(name string) []byte {
	data := []byte(name + "|")
	for len(data) < 16 {
		data = append(data, '.')
	}
	return data
}

func marker(i int) {
	if p := os.Getenv("VERIF_MARKER"); p != "" {
		os.WriteFile(p, []byte(vh.Sprintf("%d", i)), 0o644)
	}
}

func runScenario(t *testing.T, out *vh.Out, idx int, s scenario) {
	synctest.Test(t, func(t *testing.T) {
		c := s.Cfg
		nv := geti(c, "nv", 0)
		inl, tmo := getis(c, "inl"), getis(c, "tmo")
		gthr, vthr := geti(c, "gthr", 1), geti(c, "vthr", 1)
		workers, qcap := geti(c, "workers", 2), geti(c, "qcap", 2)
		signed := getb(c, "signed")
		nsubs, relay := geti(c, "subs", 1), getb(c, "relay")
		idfn := gets(c, "idfn", "default")
		strategy := gets(c, "strategy", "first")
		router := gets(c, "router", "gossipsub")
		tv1, tv2, twoTopics := geti(c, "tv1", 0), geti(c, "tv2", 0), getb(c, "t2")
		tmoMs := geti(c, "tmoMs", 20000)

		d := &drv{gts: map[string]*gate{}, blk: map[string]chan struct{}{}, done: make(chan struct{}), deaf: getb(c, "deaf")}

		valOpts := func(v int) []pubsub.ValidatorOpt {
			o := []pubsub.ValidatorOpt{pubsub.WithValidatorInline(inl[v]), pubsub.WithValidatorConcurrency(vthr)}
			if tmo[v] {
				o = append(o, pubsub.WithValidatorTimeout(time.Duration(tmoMs)*time.Millisecond))
			}
			return o
		}
		opts := []pubsub.Option{pubsub.WithValidateWorkers(workers), pubsub.WithValidateThrottle(gthr), pubsub.WithValidateQueueSize(qcap)}
		// validators tv1 / tv2 are the validators of topic T1 / T2, all the others are default validators (registered first)
		for v := 1; v <= nv; v++ {
			if v != tv1 && v != tv2 {
				opts = append(opts, pubsub.WithDefaultValidator(d.validator(v), valOpts(v)...))
			}
		}
		if idfn == "content" {
			opts = append(opts, pubsub.WithMessageIdFn(contentID))
		}
		if !signed {
			opts = append(opts, pubsub.WithMessageSignaturePolicy(pubsub.StrictNoSign))
		}
		if strategy == "last" {
			opts = append(opts, pubsub.WithSeenMessagesStrategy(timecache.Strategy_LastSeen))
		}
		tsp := func() *pubsub.TopicScoreParams {
			return &pubsub.TopicScoreParams{TopicWeight: 1, TimeInMeshQuantum: time.Second,
				InvalidMessageDeliveriesWeight: -1, InvalidMessageDeliveriesDecay: 0.5}
		}
		topics := []string{topicName}
		if twoTopics {
			topics = append(topics, topic2Name)
		}
		wc := world.Config{Router: router, Score: true, Hosts: 7, Opts: opts, Retain: time.Hour,
			TopicScore: map[string]*pubsub.TopicScoreParams{topicName: tsp(), topic2Name: tsp()},
			Thresholds: &pubsub.PeerScoreThresholds{GossipThreshold: -1e9, PublishThreshold: -2e9, GraylistThreshold: -3e9,
				AcceptPXThreshold: 1e9, OpportunisticGraftThreshold: 0}}
		w := world.New(t, out, idx, wc, M{"ingest": c})
		d.w = w
		defer func() {
			close(d.done)
			d.mu.Lock()
			for _, ch := range d.blk {
				select {
				case <-ch:
				default:
					close(ch)
				}
			}
			d.mu.Unlock()
			hnet.Settle(5 * time.Millisecond)
			w.Close()
			d.wg.Wait()
		}()

		// a blocker parks the worker inside the tracer callback that reports its invalid signature
		w.Rec.Hook = func(ev M) {
			if ev["k"] != "Reject" || ev["reason"] != pubsub.RejectInvalidSignature {
				return
			}
			name, _ := ev["m"].(string)
			d.mu.Lock()
			ch := d.blk[name]
			d.mu.Unlock()
			if ch != nil {
				select {
				case <-ch:
				case <-d.done:
				}
			}
		}
		w.Extra = func(w *world.World, line M) {
			d.mu.Lock()
			val, pret, dlv := d.val, d.pret, d.dlv
			d.val, d.pret, d.dlv = nil, nil, nil
			d.mu.Unlock()
			if val == nil {
				val = []M{}
			}
			if pret == nil {
				pret = []M{}
			}
			if dlv == nil {
				dlv = []M{}
			}
			line["val"], line["pubret"], line["deliv"] = val, pret, dlv
			pen := []M{}
			if st := w.RawSnap(); st != nil && st.GS != nil && st.GS.Score != nil {
				names := w.PeerNames()
				sort.Strings(names)
				for _, n := range names {
					if ps, ok := st.GS.Score.Peers[w.Fakes[n].ID()]; ok {
						// "c": false = the peer has left and this is its RETAINED record
						pen = append(pen, M{"p": n, "c": ps.Connected, "n": int(ps.Topics[topicName].InvalidMessageDeliveries + ps.Topics[topic2Name].InvalidMessageDeliveries)})
					}
				}
			}
			line["pen"] = pen
		}

		peers := []string{"p1", "p2", "obs"}
		if signed {
			peers = append(peers, "pb")
		}
		proto := "v11"
		if router == "floodsub" {
			proto = "flood"
		}
		for _, p := range peers {
			w.AddPeer(p, proto, "in", topics)
		}
		var topts []pubsub.TopicOpt
		if idfn == "topic" {
			topts = append(topts, pubsub.WithTopicMessageIdFn(contentID))
		}
		handles := map[string]*pubsub.Topic{}
		for ti, tn := range topics {
			tp, err := w.NUT.Join(tn, topts...)
			if err != nil {
				t.Fatalf("join: %v", err)
			}
			handles[tn] = tp
			tv := tv1
			if ti == 1 {
				tv = tv2
			}
			if tv > 0 {
				if err := w.NUT.RegisterTopicValidator(tn, d.validator(tv), valOpts(tv)...); err != nil {
					t.Fatalf("register topic validator: %v", err)
				}
			}
			for i := 1; i <= nsubs; i++ {
				sub, err := tp.Subscribe()
				if err != nil {
					t.Fatalf("subscribe: %v", err)
				}
				sname := vh.Sprintf("s%d", i)
				if ti == 1 {
					sname = vh.Sprintf("u%d", i)
				}
				tn := tn
				d.wg.Add(1)
				go func() {
					defer d.wg.Done()
					for {
						msg, err := sub.Next(w.Ctx)
						if err != nil {
							return
						}
						if msg.ID != "" {
							w.Names.MsgFromData(msg.ID, msg.GetData())
						}
						d.mu.Lock()
						d.dlv = append(d.dlv, M{"sub": sname, "topic": tn, "m": msgName(msg.GetData())})
						d.mu.Unlock()
					}
				}()
			}
			if relay {
				if _, err := tp.Relay(); err != nil {
					t.Fatalf("relay: %v", err)
				}
			}
		}
		hnet.Settle(30 * time.Millisecond)
		w.AddPeer("g1", proto, "in", topics)
		w.Guard()
		w.Emit(M{"a": "setup"})

		batch := &pubsub.MessageBatch{}
		for _, a := range s.Acts {
			kind, _ := a["a"].(string)
			m, _ := a["m"].(string)
			switch kind {
			case "down":
				// the forwarder's connection closes; its (non-positive) score record is retained
				p, _ := a["p"].(string)
				w.Do(M{"a": "down", "p": p})
			case "badd":
				// Topic.AddToBatch on its own goroutine (the validators run on the caller's goroutine)
				w.Guard()
				d.wg.Add(1)
				go func() {
					defer d.wg.Done()
					err := handles[topicOf(m)].AddToBatch(w.Ctx, batch, payload(m))
					select {
					case <-d.done:
						return
					default:
					}
					es := ""
					if err != nil {
						es = err.Error()
					}
					d.mu.Lock()
					d.pret = append(d.pret, M{"m": m, "err": es, "api": "badd", "t": hnet.NowMs()})
					d.mu.Unlock()
				}()
				hnet.Settle(15 * time.Millisecond)
				w.Emit(M{"a": "badd", "m": m})
			case "held":
				// the event loop is parked by a blocking eval thunk while the inner actions run (PublishBatch requests stay
				// pending in front of it; gate releases let a parked AddToBatch finish); no line can be emitted meanwhile
				// (the snapshot needs the loop), so the whole sequence is ONE step
				w.Guard()
				release := make(chan struct{})
				entered := make(chan struct{})
				d.wg.Add(1)
				go func() {
					defer d.wg.Done()
					w.NUT.VerifEval(func() {
						close(entered)
						select {
						case <-release:
						case <-d.done:
						}
					})
				}()
				<-entered
				inner := []M{}
				if l, ok := a["acts"].([]any); ok {
					for _, x := range l {
						ia, _ := x.(map[string]any)
						switch ia["a"] {
						case "bpub":
							err := w.NUT.PublishBatch(batch)
							es := ""
							if err != nil {
								es = err.Error()
							}
							d.mu.Lock()
							d.pret = append(d.pret, M{"m": "", "err": es, "api": "bpub", "t": hnet.NowMs()})
							d.mu.Unlock()
							inner = append(inner, M{"a": "bpub"})
						case "rel":
							v, r, im := geti(ia, "v", 0), geti(ia, "r", 0), gets(ia, "m", "")
							g := d.gate(v, im)
							d.mu.Lock()
							g.verdict = r
							if !g.open {
								g.open = true
								close(g.ch)
							}
							d.mu.Unlock()
							inner = append(inner, M{"a": "rel", "v": v, "m": im, "r": r})
						}
						hnet.Settle(5 * time.Millisecond)
					}
				}
				close(release)
				hnet.Settle(15 * time.Millisecond)
				w.Emit(M{"a": "held", "acts": inner})
			case "bpub":
				w.Guard()
				err := w.NUT.PublishBatch(batch)
				es := ""
				if err != nil {
					es = err.Error()
				}
				d.mu.Lock()
				d.pret = append(d.pret, M{"m": "", "err": es, "api": "bpub", "t": hnet.NowMs()})
				d.mu.Unlock()
				hnet.Settle(15 * time.Millisecond)
				w.Emit(M{"a": "bpub"})
			case "msg":
				p, _ := a["p"].(string)
				w.Do(M{"a": "msg", "p": p, "t": topicOf(m), "m": m, "unsigned": !signed})
			case "rpc":
				// ONE RPC whose Publish list carries several messages, possibly the same one more than once
				p, _ := a["p"].(string)
				f := w.Fakes[p]
				var list []*pb.Message
				names := []string{}
				if l, ok := a["ms"].([]any); ok {
					for _, x := range l {
						name, _ := x.(string)
						pm := w.Msg(name)
						if pm == nil {
							pm = f.NewMessage(name, topicOf(name), 16, signed)
							w.RegMsg(name, pm)
						}
						list = append(list, pm)
						names = append(names, name)
					}
				}
				w.Guard()
				f.Send(hnet.MsgRPC(list...))
				hnet.Settle(15 * time.Millisecond)
				w.Emit(M{"a": "rpc", "p": p, "ms": names})
			case "block":
				d.mu.Lock()
				d.blk[m] = make(chan struct{})
				d.mu.Unlock()
				w.Do(M{"a": "msg", "p": "pb", "t": topicName, "m": m, "badsig": true, "role": "block"})
			case "unblock":
				w.Guard()
				d.mu.Lock()
				if ch := d.blk[m]; ch != nil {
					select {
					case <-ch:
					default:
						close(ch)
					}
				}
				d.mu.Unlock()
				hnet.Settle(15 * time.Millisecond)
				w.Emit(M{"a": "unblock", "m": m})
			case "rel":
				w.Guard()
				v, r := geti(a, "v", 0), geti(a, "r", 0)
				g := d.gate(v, m)
				d.mu.Lock()
				g.verdict = r
				if !g.open {
					g.open = true
					close(g.ch)
				}
				d.mu.Unlock()
				hnet.Settle(15 * time.Millisecond)
				w.Emit(M{"a": "rel", "v": v, "m": m, "r": r})
			case "adv":
				tv := []M{}
				if l, ok := a["tv"].([]any); ok {
					for _, x := range l {
						if e, ok := x.(map[string]any); ok {
							g := d.gate(geti(e, "v", 0), gets(e, "m", ""))
							d.mu.Lock()
							g.tverdict = geti(e, "r", 2)
							d.mu.Unlock()
							tv = append(tv, M{"v": geti(e, "v", 0), "m": gets(e, "m", ""), "r": geti(e, "r", 2)})
						}
					}
				}
				w.Do(M{"a": "adv", "ms": tmoMs + 1000, "tv": tv})
			case "pub":
				w.Guard()
				d.wg.Add(1)
				go func() {
					defer d.wg.Done()
					err := handles[topicOf(m)].Publish(w.Ctx, payload(m))
					select {
					case <-d.done:
						return
					default:
					}
					es := ""
					if err != nil {
						es = err.Error()
					}
					d.mu.Lock()
					d.pret = append(d.pret, M{"m": m, "err": es, "api": "pub", "t": hnet.NowMs()})
					d.mu.Unlock()
				}()
				hnet.Settle(15 * time.Millisecond)
				w.Emit(M{"a": "pub", "m": m})
			case "hb":
				w.Do(M{"a": "hb"})
			default:
				t.Fatalf("unknown action %v", a)
			}
		}
		// drain: whatever is still parked at the end of the scenario (nothing, when the node did what the
		// scenario expects) is released with the scenario's drain verdict, so that every validation finishes
		// and is judged
		drainV := geti(c, "drain", 2)
		for round := 0; round < 8; round++ {
			n := 0
			d.mu.Lock()
			for _, g := range d.gts {
				if !g.open && g.waiting > 0 {
					g.open = true
					g.verdict = drainV
					close(g.ch)
					n++
				}
			}
			for _, ch := range d.blk {
				select {
				case <-ch:
				default:
					close(ch)
					n++
				}
			}
			d.mu.Unlock()
			if n == 0 {
				break
			}
			w.Guard()
			hnet.Settle(15 * time.Millisecond)
			w.Emit(M{"a": "drain", "r": drainV})
		}
		w.Guard()
		hnet.Settle(15 * time.Millisecond)
		w.Emit(M{"a": "end"})
	})
}

// TestIngestReplay replays the scenarios of VERIF_IN (VERIF_ONLY=i: only scenario i).
func TestIngestReplay(t *testing.T) {
	scns := vh.ReadScenarios[scenario](t, "VERIF_IN")
	out := vh.NewOut(t, "VERIF_OUT")
	only := vh.EnvInt("VERIF_ONLY", -1)
	for i, s := range scns {
		if only >= 0 && i != only {
			continue
		}
		marker(i)
		runScenario(t, out, i, s)
	}
}
