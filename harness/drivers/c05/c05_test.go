// C05 drivers: interest announcements converge to the true subscription state.
//
// TestC05Wire replays TLC-generated scenarios on ONE real node (any router) with wire-level fake peers
// through the shared `world` interpreter and adds, on every step line, the observables the trace
// specification judges: "wire" (per fake peer the ordered stream of new-stream / closed-stream marks and
// subscription options read from the wire), "lp" (the real PubSub.ListPeers per topic), "lp0"
// (ListPeers("")), "gt" (GetTopics), "quiet", and the results of Subscription.Next for the buffered
// subscription. TestC05Net replays scenarios on 2-3 REAL nodes (all three routers) with single-direction
// stream resets done on the stream objects of the libp2p connection. Drivers never judge.
package c05

import (
	"context"
	"errors"
	"os"
	"sort"
	"strings"
	"sync"
	"testing"
	"testing/synctest"
	"time"

	pubsub "github.com/libp2p/go-libp2p-pubsub"
	"github.com/libp2p/go-libp2p/core/host"
	"github.com/libp2p/go-libp2p/core/network"
	"github.com/libp2p/go-libp2p/core/peer"

	"verifharness/hnet"
	"verifharness/vh"
	"verifharness/world"
)

type M = map[string]any

type scenario struct {
	Cfg  M   `json:"cfg"`
	Acts []M `json:"acts"`
}

func geti(m M, k string, def int) int {
	switch v := m[k].(type) {
	case float64:
		return int(v)
	case int:
		return v
	}
	return def
}
func gets(m M, k string) string { s, _ := m[k].(string); return s }
func getb(m M, k string) bool   { b, _ := m[k].(bool); return b }

func marker(i int) {
	if p := os.Getenv("VERIF_MARKER"); p != "" {
		os.WriteFile(p, []byte(vh.Sprintf("%d", i)), 0o644)
	}
}

func shard(i int) bool {
	n := vh.EnvInt("VERIF_SHARDS", 1)
	k := vh.EnvInt("VERIF_SHARD", 0)
	if only := vh.EnvInt("VERIF_ONLY", -1); only >= 0 {
		return i == only
	}
	return n <= 1 || i%n == k
}

// ---------------------------------------------------------------------------
// (a) one real node + fake peers

// reader consumes one subscription like an application would and remembers how Next ended.
type reader struct {
	sub *pubsub.Subscription
	mu  sync.Mutex
	end string // "" while Next is still being served, else how the loop ended
}

func (r *reader) run(ctx context.Context) {
	for {
		msg, err := r.sub.Next(ctx)
		end := ""
		switch {
		case err == nil && msg != nil:
			continue
		case err == nil:
			end = "nil-nil"
		case errors.Is(err, pubsub.ErrSubscriptionCancelled):
			end = "cancelled"
		case ctx.Err() != nil:
			end = "ctx"
		default:
			end = "err:" + err.Error()
		}
		r.mu.Lock()
		r.end = end
		r.mu.Unlock()
		return
	}
}

func (r *reader) result() string {
	r.mu.Lock()
	defer r.mu.Unlock()
	if r.end == "" {
		return "blocked"
	}
	return r.end
}

type wireDriver struct {
	w      *world.World
	subs   map[string][]*reader                // live Subscription handles per topic, oldest first
	dead   map[string][]*reader                // already cancelled handles per topic (Cancel can be called again)
	relays map[string][]pubsub.RelayCancelFunc // not yet called RelayCancelFuncs per topic
	rdead  map[string][]pubsub.RelayCancelFunc // already called ones (can be called again)
	topics []string
	quiet  bool
	bsub   *pubsub.Subscription
	btopic string
	held   map[string]peer.ID
	vrel   chan struct{} // releases the blocking validator of gaterSetup
	extra  M             // fields added to the next emitted line only
}

func (d *wireDriver) extraFields(w *world.World, line M) {
	// real API views
	lp := M{}
	for _, t := range d.topics {
		lp[t] = w.Names.Ps(w.NUT.ListPeers(t))
	}
	line["lp"] = lp
	line["lp0"] = w.Names.Ps(w.NUT.ListPeers(""))
	gt := w.NUT.GetTopics()
	sort.Strings(gt)
	if gt == nil {
		gt = []string{}
	}
	line["gt"] = gt
	line["quiet"] = d.quiet
	// what libp2p itself says about the connections (the trace spec discards a scenario whose connectivity
	// stimulus did not take effect: that is the simulated network's business, not pubsub's)
	hc := []string{}
	for _, p := range w.PeerNames() {
		if w.H.Network().Connectedness(w.Fakes[p].ID()) == network.Connected {
			hc = append(hc, p)
		}
	}
	line["hconn"] = hc
	// wire view: merge stream marks (tracer events of the loop step that computed the hello / declared the
	// stream dead) with the subscription options the fake peer read, by virtual time
	type item struct {
		t    int64
		rank int
		v    M
	}
	per := map[string][]item{}
	if evs, ok := line["ev"].([]M); ok {
		for _, e := range evs {
			k, _ := e["k"].(string)
			if k != "Up" && k != "Down" {
				continue
			}
			p, _ := e["p"].(string)
			t, _ := e["t"].(int64)
			rank := 0
			if k == "Up" {
				rank = 1
			}
			per[p] = append(per[p], item{t, rank, M{"k": strings.ToLower(k), "t": t, "topic": "", "sub": false}})
		}
	}
	if outs, ok := line["out"].(M); ok {
		for p, l := range outs {
			frames, _ := l.([]any)
			for _, f := range frames {
				sh, _ := f.(M)
				t, _ := sh["t"].(int64)
				subs, _ := sh["subs"].([]any)
				for _, s := range subs {
					so, _ := s.(M)
					per[p] = append(per[p], item{t, 2, M{"k": "ann", "t": t, "topic": so["topic"], "sub": so["sub"]}})
				}
			}
		}
	}
	wire := M{}
	for _, p := range w.PeerNames() {
		l := per[p]
		sort.SliceStable(l, func(i, j int) bool {
			if l[i].t != l[j].t {
				return l[i].t < l[j].t
			}
			return l[i].rank < l[j].rank
		})
		o := []any{}
		for _, it := range l {
			o = append(o, it.v)
		}
		wire[p] = o
	}
	line["wire"] = wire
	for k, v := range d.extra {
		line[k] = v
	}
	d.extra = nil
}

func (d *wireDriver) do(t *testing.T, a M) {
	w := d.w
	d.quiet = false
	switch gets(a, "a") {
	case "hpeer":
		// hold the NUT's NewStream to p, then connect: the queue exists, the stream does not
		name := gets(a, "p")
		var id peer.ID
		if f := w.Fakes[name]; f != nil {
			id = f.ID()
		} else {
			id = w.Net.Hosts[1+len(w.Fakes)].ID()
		}
		w.H.HoldOpen(id)
		d.held[name] = id
		b := M{}
		for k, v := range a {
			b[k] = v
		}
		b["a"] = "peer"
		b["held"] = true
		if !w.Do(b) {
			t.Fatalf("peer action refused: %v", b)
		}
	case "release":
		w.Guard()
		name := gets(a, "p")
		if id, ok := d.held[name]; ok {
			w.H.ReleaseOpen(id)
			delete(d.held, name)
		}
		hnet.Settle(15 * time.Millisecond)
		w.Emit(a)
	case "subscribe":
		// own subscriptions (not world's): the reader records how Next ends after Cancel
		w.Guard()
		tp := gets(a, "t")
		sub, err := w.Topic(tp).Subscribe()
		if err != nil {
			t.Fatalf("subscribe: %v", err)
		}
		r := &reader{sub: sub}
		d.subs[tp] = append(d.subs[tp], r)
		go r.run(w.Ctx)
		hnet.Settle(15 * time.Millisecond)
		w.Emit(a)
	case "cancel":
		// cancels the newest live handle of the topic, or the oldest one ("old")
		w.Guard()
		tp := gets(a, "t")
		res := "none"
		if l := d.subs[tp]; len(l) > 0 {
			k := len(l) - 1
			if getb(a, "old") {
				k = 0
			}
			r := l[k]
			d.subs[tp] = append(append([]*reader{}, l[:k]...), l[k+1:]...)
			d.dead[tp] = append(d.dead[tp], r)
			r.sub.Cancel()
			hnet.Settle(15 * time.Millisecond)
			res = r.result()
		} else {
			hnet.Settle(15 * time.Millisecond)
		}
		d.extra = M{"rdone": res}
		w.Emit(a)
	case "cancelAgain":
		// Subscription.Cancel a SECOND time on the most recently cancelled handle of the topic
		w.Guard()
		tp := gets(a, "t")
		if l := d.dead[tp]; len(l) > 0 {
			l[len(l)-1].sub.Cancel()
		}
		hnet.Settle(15 * time.Millisecond)
		// how the still live readers of the topic are doing ("blocked" = being served)
		live := []any{}
		for _, r := range d.subs[tp] {
			live = append(live, r.result())
		}
		d.extra = M{"live": live}
		w.Emit(a)
	case "unrelay":
		w.Guard()
		tp := gets(a, "t")
		if l := d.relays[tp]; len(l) > 0 {
			c := l[len(l)-1]
			d.relays[tp] = l[:len(l)-1]
			d.rdead[tp] = append(d.rdead[tp], c)
			c()
		}
		hnet.Settle(15 * time.Millisecond)
		w.Emit(a)
	case "unrelayAgain":
		// the RelayCancelFunc that was called last is called a second time
		w.Guard()
		tp := gets(a, "t")
		if l := d.rdead[tp]; len(l) > 0 {
			l[len(l)-1]()
		}
		hnet.Settle(15 * time.Millisecond)
		w.Emit(a)
	case "relay":
		tp := gets(a, "t")
		if st := w.RawSnap(); st != nil && st.MyTopics[tp].FanoutOnly {
			// Topic.Relay on a fanout-only topic must refuse
			w.Guard()
			_, err := w.Topic(tp).Relay()
			res := "none"
			if errors.Is(err, pubsub.ErrFanoutOnlyTopic) {
				res = "fanoutOnly"
			} else if err != nil {
				res = err.Error()
			}
			hnet.Settle(15 * time.Millisecond)
			d.extra = M{"err": res}
			w.Emit(a)
			return
		}
		w.Guard()
		c, err := w.Topic(tp).Relay()
		if err != nil {
			t.Fatalf("relay: %v", err)
		}
		d.relays[tp] = append(d.relays[tp], c)
		hnet.Settle(15 * time.Millisecond)
		w.Emit(a)
	case "bsub":
		// a subscription with a small buffer and no reader
		w.Guard()
		tp := gets(a, "t")
		s, err := w.Topic(tp).Subscribe(pubsub.WithBufferSize(geti(a, "size", 2)))
		if err != nil {
			t.Fatalf("bsub: %v", err)
		}
		d.bsub, d.btopic = s, tp
		hnet.Settle(15 * time.Millisecond)
		w.Emit(a)
	case "bcancel":
		w.Guard()
		if d.bsub != nil {
			d.bsub.Cancel()
		}
		hnet.Settle(15 * time.Millisecond)
		w.Emit(a)
	case "next":
		w.Guard()
		res := []any{}
		for i := 0; i < geti(a, "n", 1) && d.bsub != nil; i++ {
			ctx, cancel := context.WithTimeout(context.Background(), 20*time.Millisecond)
			msg, err := d.bsub.Next(ctx)
			cancel()
			switch {
			case err == nil && msg != nil:
				id := msg.ID
				if id == "" {
					id = hnet.DefaultMsgID(msg.Message)
				}
				res = append(res, w.Names.MsgFromData(id, msg.GetData()))
			case err == nil:
				res = append(res, "nil-nil")
			case errors.Is(err, pubsub.ErrSubscriptionCancelled):
				res = append(res, "cancelled")
			case errors.Is(err, context.DeadlineExceeded):
				res = append(res, "timeout")
			default:
				res = append(res, "err:"+err.Error())
			}
		}
		hnet.Settle(5 * time.Millisecond)
		d.extra = M{"res": res}
		w.Emit(a)
	case "gaterSetup":
		// make the peer gater throttle peer p (AcceptControl): (1) p delivers messages with a broken signature (its goodput
		// drops: reject weight 16), (2) an asynchronous validator of concurrency 1 blocks on the first valid message so that
		// the following ones are rejected as "validation throttled" (the gater's circuit breaker closes). The node must
		// hold a subscription of t. The gater's decision per RPC is random with P(throttle) = 1 - 1/(1+16*bad).
		tp, pn := gets(a, "t"), gets(a, "p")
		if d.vrel == nil {
			d.vrel = make(chan struct{})
			rel := d.vrel
			err := w.NUT.RegisterTopicValidator(tp, func(ctx context.Context, _ peer.ID, _ *pubsub.Message) pubsub.ValidationResult {
				select {
				case <-rel:
				case <-ctx.Done():
				}
				return pubsub.ValidationAccept
			}, pubsub.WithValidatorConcurrency(1), pubsub.WithValidatorTimeout(time.Hour))
			if err != nil {
				t.Fatalf("gaterSetup: %v", err)
			}
		}
		for i := 0; i < geti(a, "bad", 3); i++ {
			w.Do(M{"a": "msg", "p": pn, "t": tp, "m": vh.Sprintf("bad%d", i), "badsig": true})
		}
		for i := 0; i < geti(a, "n", 4); i++ {
			w.Do(M{"a": "msg", "p": pn, "t": tp, "m": vh.Sprintf("thr%d", i)})
		}
	case "gaterRelease":
		w.Guard()
		if d.vrel != nil {
			close(d.vrel)
			d.vrel = nil
		}
		hnet.Settle(15 * time.Millisecond)
		w.Emit(a)
	case "quiet":
		// long enough for announceRetry (1..1000 ms) and for the dead-peer respawn backoff
		w.Guard()
		hnet.Settle(time.Duration(geti(a, "ms", 1600)) * time.Millisecond)
		d.quiet = true
		w.Emit(a)
		d.quiet = false
	default:
		if !w.Do(a) {
			t.Fatalf("unknown action %v", a)
		}
	}
}

func runWire(t *testing.T, out *vh.Out, idx int, s scenario) {
	synctest.Test(t, func(t *testing.T) {
		// "score": gossipsub with peer scoring (score = the application-specific score the scenario sets with score{p,v},
		// graylist threshold -6); "gater": gossipsub with the peer gater
		cfg := world.Config{Router: gets(s.Cfg, "router"), QueueSize: geti(s.Cfg, "queue", 0), Hosts: geti(s.Cfg, "hosts", 4),
			Score: getb(s.Cfg, "score"), Gater: getb(s.Cfg, "gater"), Retain: 10 * time.Second}
		d := &wireDriver{held: map[string]peer.ID{}, subs: map[string][]*reader{}, dead: map[string][]*reader{},
			relays: map[string][]pubsub.RelayCancelFunc{}, rdead: map[string][]pubsub.RelayCancelFunc{}}
		for _, x := range s.Cfg["topics"].([]any) {
			d.topics = append(d.topics, x.(string))
		}
		peers := []any{}
		if l, ok := s.Cfg["peers"].([]any); ok {
			peers = l
		}
		w := world.New(t, out, idx, cfg, M{"queue": cfg.QueueSize, "topics": s.Cfg["topics"], "peers": peers, "class": gets(s.Cfg, "class"), "score": cfg.Score, "gater": cfg.Gater, "graylist": -6})
		defer w.Close()
		d.w = w
		w.Extra = d.extraFields
		for _, a := range s.Acts {
			d.do(t, a)
		}
		if d.vrel != nil {
			close(d.vrel)
			d.vrel = nil
		}
		// never leave goroutines parked on gates / holds
		for _, f := range w.Fakes {
			w.H.UngateWrites(f.ID())
			w.H.ReleaseOpen(f.ID())
		}
		for _, id := range d.held {
			w.H.ReleaseOpen(id)
		}
	})
}

// TestC05Wire replays the scenarios of VERIF_IN (optionally one shard of them).
func TestC05Wire(t *testing.T) {
	scns := vh.ReadScenarios[scenario](t, "VERIF_IN")
	out := vh.NewOut(t, "VERIF_OUT")
	for i, s := range scns {
		if !shard(i) {
			continue
		}
		marker(i)
		runWire(t, out, i, s)
	}
}

// ---------------------------------------------------------------------------
// (b) real nodes only

type netScenario struct {
	Router string   `json:"router"`
	N      int      `json:"n"`
	Topics []string `json:"topics"`
	Acts   []M      `json:"acts"`
}

type node struct {
	name   string
	h      host.Host
	ps     *pubsub.PubSub
	topics map[string]*pubsub.Topic
	subs   map[string][]*pubsub.Subscription
	dead   map[string][]*pubsub.Subscription
	relays map[string][]pubsub.RelayCancelFunc
}

func (n *node) topic(t *testing.T, tp string) *pubsub.Topic {
	if x, ok := n.topics[tp]; ok {
		return x
	}
	x, err := n.ps.Join(tp)
	if err != nil {
		t.Fatalf("join: %v", err)
	}
	n.topics[tp] = x
	return x
}

func isPubsubProto(p string) bool {
	return strings.HasPrefix(p, "/meshsub/") || strings.HasPrefix(p, "/floodsub/") || strings.HasPrefix(p, "/randomsub/")
}

// pubsubStreams returns the pubsub streams of `from` towards `to` with the given direction.
func pubsubStreams(from, to host.Host, dir network.Direction) []network.Stream {
	var out []network.Stream
	for _, c := range from.Network().ConnsToPeer(to.ID()) {
		for _, s := range c.GetStreams() {
			if isPubsubProto(string(s.Protocol())) && s.Stat().Direction == dir {
				out = append(out, s)
			}
		}
	}
	return out
}

func runNet(t *testing.T, out *vh.Out, idx int, s netScenario) {
	synctest.Test(t, func(t *testing.T) {
		nw := hnet.New(t, s.N, false)
		ctx, stop := context.WithCancel(context.Background())
		defer func() { stop(); hnet.Settle(10 * time.Millisecond) }()
		names := hnet.NewNames()
		nodes := map[string]*node{}
		order := []string{}
		for i := 0; i < s.N; i++ {
			h := nw.Take()
			name := string(rune('A' + i))
			names.AddPeer(h.ID(), name)
			var ps *pubsub.PubSub
			var err error
			switch s.Router {
			case "floodsub":
				ps, err = pubsub.NewFloodSub(ctx, h)
			case "randomsub":
				ps, err = pubsub.NewRandomSub(ctx, h, 10)
			default:
				p := world.SmallParams()
				ps, err = pubsub.NewGossipSub(ctx, h, pubsub.WithGossipSubParams(p))
			}
			if err != nil {
				t.Fatal(err)
			}
			nodes[name] = &node{name: name, h: h, ps: ps, topics: map[string]*pubsub.Topic{}, subs: map[string][]*pubsub.Subscription{}, dead: map[string][]*pubsub.Subscription{}, relays: map[string][]pubsub.RelayCancelFunc{}}
			order = append(order, name)
		}
		step := 0
		emit := func(act M, quiet bool, extra M) {
			lp, gt, conn, lp0 := M{}, M{}, M{}, M{}
			for _, nm := range order {
				n := nodes[nm]
				m := M{}
				for _, tp := range s.Topics {
					m[tp] = names.Ps(n.ps.ListPeers(tp))
				}
				lp[nm] = m
				lp0[nm] = names.Ps(n.ps.ListPeers(""))
				g := n.ps.GetTopics()
				sort.Strings(g)
				if g == nil {
					g = []string{}
				}
				gt[nm] = g
				c := []string{}
				for _, o := range order {
					if o != nm && n.h.Network().Connectedness(nodes[o].h.ID()) == network.Connected {
						c = append(c, o)
					}
				}
				conn[nm] = c
			}
			line := M{"i": step, "scn": idx, "t": hnet.NowMs(), "act": act, "quiet": quiet, "lp": lp, "lp0": lp0, "gt": gt, "conn": conn}
			if os.Getenv("C05_DEBUG") != "" { // diagnosis aid: internal view of every node (never read by the trace spec)
				dbg := M{}
				for _, nm := range order {
					n := nodes[nm]
					st := n.ps.VerifSnapshot()
					str := M{}
					for _, o := range order {
						if o != nm {
							str[o] = []int{len(pubsubStreams(n.h, nodes[o].h, network.DirOutbound)), len(pubsubStreams(n.h, nodes[o].h, network.DirInbound))}
						}
					}
					tp := M{}
					for t, m := range st.Topics {
						l := []peer.ID{}
						for p := range m {
							l = append(l, p)
						}
						tp[t] = names.Ps(l)
					}
					dbg[nm] = M{"inbound": names.Ps(st.Inbound), "topics": tp, "streams": str, "deadBackoff": names.Ps(st.DeadBackoff)}
				}
				line["dbg"] = dbg
			}
			for k, v := range extra {
				line[k] = v
			}
			out.Emit(line)
			step++
		}
		emit(M{"a": "reset", "router": s.Router, "n": s.N, "nodes": order, "topics": s.Topics}, false, nil)
		for _, a := range s.Acts {
			n := nodes[gets(a, "n")]
			m := nodes[gets(a, "m")]
			tp := gets(a, "t")
			var extra M
			quiet := false
			switch gets(a, "a") {
			case "link":
				if err := hnet.Connect(n.h, m.h); err != nil {
					t.Fatalf("connect: %v", err)
				}
			case "unlink":
				hnet.Disconnect(n.h, m.h)
				for k := 0; k < 3; k++ {
					hnet.Settle(20 * time.Millisecond)
					if n.h.Network().Connectedness(m.h.ID()) != network.Connected && m.h.Network().Connectedness(n.h.ID()) != network.Connected {
						break
					}
					hnet.Disconnect(m.h, n.h)
					hnet.Disconnect(n.h, m.h)
				}
			case "subscribe":
				sub, err := n.topic(t, tp).Subscribe()
				if err != nil {
					t.Fatal(err)
				}
				n.subs[tp] = append(n.subs[tp], sub)
			case "cancel":
				if l := n.subs[tp]; len(l) > 0 {
					l[len(l)-1].Cancel()
					n.dead[tp] = append(n.dead[tp], l[len(l)-1])
					n.subs[tp] = l[:len(l)-1]
				}
			case "cancelAgain": // Cancel a second time on the handle cancelled last
				if l := n.dead[tp]; len(l) > 0 {
					l[len(l)-1].Cancel()
				}
			case "relay":
				c, err := n.topic(t, tp).Relay()
				if err != nil {
					t.Fatal(err)
				}
				n.relays[tp] = append(n.relays[tp], c)
			case "unrelay":
				if l := n.relays[tp]; len(l) > 0 {
					l[len(l)-1]()
					n.relays[tp] = l[:len(l)-1]
				}
			case "rst":
				// reset ONE direction of the pubsub stream pair between n and m, seen from n:
				// dir "out" = the stream n opened to m (n's outbound), "in" = the stream m opened to n.
				// side "local" resets n's stream object, "remote" resets m's object of the same stream.
				dir := network.DirOutbound
				if gets(a, "dir") == "in" {
					dir = network.DirInbound
				}
				var ss []network.Stream
				if gets(a, "side") == "remote" {
					od := network.DirInbound
					if dir == network.DirInbound {
						od = network.DirOutbound
					}
					ss = pubsubStreams(m.h, n.h, od)
				} else {
					ss = pubsubStreams(n.h, m.h, dir)
				}
				otherAlive := len(pubsubStreams(n.h, m.h, map[network.Direction]network.Direction{network.DirOutbound: network.DirInbound, network.DirInbound: network.DirOutbound}[dir])) > 0
				for _, st := range ss {
					st.Reset()
				}
				extra = M{"found": len(ss), "other_alive": otherAlive}
			case "quiet":
				hnet.Settle(time.Duration(geti(a, "ms", 2500)) * time.Millisecond)
				quiet = true
			default:
				t.Fatalf("unknown net action %v", a)
			}
			hnet.Settle(40 * time.Millisecond)
			emit(a, quiet, extra)
		}
	})
}

// TestC05Net replays multi-node scenarios of VERIF_IN.
func TestC05Net(t *testing.T) {
	scns := vh.ReadScenarios[netScenario](t, "VERIF_IN")
	out := vh.NewOut(t, "VERIF_OUT")
	for i, s := range scns {
		if !shard(i) {
			continue
		}
		marker(i)
		runNet(t, out, i, s)
	}
}
