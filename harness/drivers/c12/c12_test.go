// Driver for property C12 (no input from remote peers can crash the node or
// stall its event loop).
//
// TestC12 replays scenarios produced from spec/wire (GenWire + the class table
// it prints): {"id","origin","cfg":{factor:class},"frames":[{"kind","sub","f":{field:class}}]}.
// Every frame is turned into BYTES (pb.RPC built with the gogo types of
// /repo/pb, seeded garbage, broken framing) and written with FakePeer.SendRaw to
// a real inbound stream of a real node under test (NUT) built through the
// public constructors on top of world/hnet (simnet, virtual time).
//
// After each frame: marker file ("<scenario> <frame>"), settle, an honest second
// fake peer sends a validly signed message that the NUT's subscription must
// deliver, an eval round-trip through the event loop (ListPeers), and the state
// of the hostile peer's stream as seen from the hostile peer (a reader parked
// on it sees EOF or a reset) are recorded in ONE line, written unbuffered.
//
// The driver never judges. A Go panic in a library goroutine kills the process:
// the orchestrator (bin/lib/props/c12.py) notices, attributes it through the
// marker, re-runs the frame alone (VERIF_ONLY / VERIF_ONLY_FRAME) and restarts
// after it (VERIF_FROM). Panics in the harness's own code are caught and
// reported as such (exit code 6), they are not library panics.
package c12

import (
	"bufio"
	"crypto/sha256"
	"encoding/binary"
	"encoding/json"
	"fmt"
	"io"
	"log/slog"
	"math/rand"
	"os"
	"reflect"
	"regexp"
	"runtime"
	"runtime/debug"
	"sort"
	"strings"
	"sync"
	"sync/atomic"
	"testing"
	"testing/synctest"
	"time"

	pubsub "github.com/libp2p/go-libp2p-pubsub"
	"github.com/libp2p/go-libp2p-pubsub/partialmessages"
	pb "github.com/libp2p/go-libp2p-pubsub/pb"
	"github.com/libp2p/go-libp2p/core/crypto"
	"github.com/libp2p/go-libp2p/core/host"
	"github.com/libp2p/go-libp2p/core/network"
	"github.com/libp2p/go-libp2p/core/peer"
	"github.com/libp2p/go-libp2p/core/record"
	ma "github.com/multiformats/go-multiaddr"

	"context"

	"verifharness/hnet"
	"verifharness/vh"
	"verifharness/world"
)

type M = map[string]any

const (
	limit    = 1 << 18 // WithMaxMessageSize
	hugeSize = 1 << 16 // the "huge" class: 64 KiB
	topicT   = "T1"    // the topic the NUT has joined ("known")
)

type frame struct {
	Kind string            `json:"kind"`
	Sub  string            `json:"sub"`
	F    map[string]string `json:"f"`
	M    map[string]string `json:"m"` // classes of a Malformed frame (Wire!MalFields)
}

type scenario struct {
	Caps   map[string]int    `json:"caps"` // only on the blank line: the flood-protection caps of the class table
	ID     int               `json:"id"`
	Origin string            `json:"origin"`
	Cfg    map[string]string `json:"cfg"`
	Frames []frame           `json:"frames"`
}

// ---------------------------------------------------------------------------
// output: one JSON line per write, unbuffered (it must survive a crash)

type lineOut struct {
	mu sync.Mutex
	f  *os.File
}

func (o *lineOut) emit(v any) {
	b, err := json.Marshal(v)
	if err != nil {
		panic(err)
	}
	o.mu.Lock()
	o.f.Write(append(b, '\n'))
	o.mu.Unlock()
}

var progress atomic.Int64
var curScn, curFrame atomic.Int64

func marker(scn, k int) {
	curScn.Store(int64(scn))
	curFrame.Store(int64(k))
	progress.Add(1)
	if p := os.Getenv("VERIF_MARKER"); p != "" {
		// atomically: the orchestrator must never read a half-written marker
		os.WriteFile(p+".tmp", []byte(fmt.Sprintf("%d %d", scn, k)), 0o644)
		os.Rename(p+".tmp", p)
	}
}

// ---------------------------------------------------------------------------
// record types for PX envelopes that are valid envelopes but not peer records

type sameDomainRec struct{ P []byte }

func (r *sameDomainRec) Domain() string                 { return peer.PeerRecordEnvelopeDomain }
func (r *sameDomainRec) Codec() []byte                  { return []byte{0x03, 0x99} }
func (r *sameDomainRec) MarshalRecord() ([]byte, error) { return r.P, nil }
func (r *sameDomainRec) UnmarshalRecord(b []byte) error { r.P = append([]byte(nil), b...); return nil }

type otherDomainRec struct{ P []byte }

func (r *otherDomainRec) Domain() string                 { return "verif-c12-other-domain" }
func (r *otherDomainRec) Codec() []byte                  { return []byte{0x03, 0x9a} }
func (r *otherDomainRec) MarshalRecord() ([]byte, error) { return r.P, nil }
func (r *otherDomainRec) UnmarshalRecord(b []byte) error { r.P = append([]byte(nil), b...); return nil }

func init() {
	record.RegisterType(&sameDomainRec{})
	record.RegisterType(&otherDomainRec{})
}

// ---------------------------------------------------------------------------
// small pieces of the NUT's environment

// memStore is the PeerMetadataStore of the seqno validator. With yield set (asynchronous validator: every
// validation runs in a goroutine of its own) the FIRST Get of a goroutine - the optimistic read of the validator,
// under its read lock - sleeps one virtual millisecond: virtual time only advances when every goroutine of the
// bubble is blocked, so all validations of one RPC are inside their first read together (the overlap the
// validator's re-check exists for is forced, not left to luck). Later Gets of the goroutine (the re-check under the
// write lock) never sleep: a goroutine must not sleep while it holds a lock others wait for.
type memStore struct {
	mu    sync.Mutex
	m     map[peer.ID][]byte
	yield bool
	seen  map[uint64]bool
	gets  int
	slept int
	puts  int
}

// recheckRefused is the number of validator calls that got as far as the re-check under the write lock and were
// refused there (a second Get, no Put): only meaningful with yield (every call sleeps exactly once).
func (s *memStore) recheckRefused() int {
	if s == nil || !s.yield {
		return -1
	}
	s.mu.Lock()
	defer s.mu.Unlock()
	return s.gets - s.slept - s.puts
}

func goid() uint64 {
	var b [64]byte
	n := runtime.Stack(b[:], false)
	var id uint64
	fmt.Sscanf(string(b[:n]), "goroutine %d ", &id)
	return id
}

func (s *memStore) Get(_ context.Context, p peer.ID) ([]byte, error) {
	if s.yield {
		g := goid()
		s.mu.Lock()
		fresh := !s.seen[g]
		s.seen[g] = true
		if fresh {
			s.slept++
		}
		s.mu.Unlock()
		if fresh {
			time.Sleep(time.Millisecond)
		}
	}
	s.mu.Lock()
	defer s.mu.Unlock()
	s.gets++
	return s.m[p], nil
}
func (s *memStore) Put(_ context.Context, p peer.ID, v []byte) error {
	s.mu.Lock()
	defer s.mu.Unlock()
	s.m[p] = append([]byte(nil), v...)
	s.puts++
	return nil
}

func contentID(m *pb.Message) string {
	h := sha256.Sum256(append([]byte(m.GetTopic()+"|"), m.GetData()...))
	return string(h[:16])
}

// streamWatch parks a reader on one of our streams to the NUT: the NUT never
// writes on its inbound streams, so the read ends only when the NUT closes
// (EOF) or resets the stream.
type streamWatch struct {
	mu    sync.Mutex
	state string
	err   string
}

func watchStream(s network.Stream) *streamWatch {
	w := &streamWatch{state: "open"}
	go func() {
		buf := make([]byte, 64)
		for {
			_, err := s.Read(buf)
			if err != nil {
				w.mu.Lock()
				if err == io.EOF {
					w.state = "eof"
				} else {
					w.state = "reset"
				}
				w.err = err.Error()
				w.mu.Unlock()
				return
			}
		}
	}()
	return w
}

func (w *streamWatch) get() (string, string) {
	w.mu.Lock()
	defer w.mu.Unlock()
	return w.state, w.err
}

// ---------------------------------------------------------------------------
// one scenario's universe

type run struct {
	t    *testing.T
	out  *lineOut
	idx  int
	scn  scenario
	w    *world.World
	g, h *hnet.FakePeer
	gw   *streamWatch
	hw   *streamWatch
	o    host.Host      // "other": an identity that is not connected to the NUT
	o2   crypto.PrivKey // an identity that exists only as a key
	rng  *rand.Rand

	mu        sync.Mutex
	delivered map[string]bool
	nPartial  int
	nTestExt  int

	knownID  string
	tp       *pubsub.Topic
	store    *memStore
	prevBase uint64
	pipeQ    int
	pipeW    int
	pipeS    int
	nmsgs    int
	dec      string
	nfresh   int
	seq      uint64
	base     uint64
	hugeLeft int
	nosign   bool
}

func (r *run) cfg(k string) string { return r.scn.Cfg[k] }

func discardLogger(level slog.Level) *slog.Logger {
	return slog.New(slog.NewTextHandler(io.Discard, &slog.HandlerOptions{Level: level}))
}

func (r *run) build() {
	c := r.scn.Cfg
	cfg := world.Config{Router: c["router"], Hosts: 6, MaxMsgSize: limit, DoPX: true,
		Score: c["score"] == "on", Gater: c["gater"] == "on"}
	// the flood-protection caps are those of the class table (Wire!Caps), small so that "exactly at the cap" is cheap
	gp := world.SmallParams()
	gp.MaxIHaveLength, gp.MaxIHaveMessages = caps["MaxIHaveLength"], caps["MaxIHaveMessages"]
	gp.MaxIDontWantLength, gp.MaxIDontWantMessages = caps["MaxIDontWantLength"], caps["MaxIDontWantMessages"]
	gp.PrunePeers, gp.GossipRetransmission = caps["PrunePeers"], caps["GossipRetransmission"]
	gp.MaxPendingConnections, gp.Connectors = caps["MaxPendingConnections"], caps["Connectors"]
	cfg.Params = &gp
	if cfg.Router == "gossipsub" {
		cfg.Router = ""
	}
	opts := []pubsub.Option{pubsub.WithLogger(discardLogger(slog.LevelError))}
	if c["rpclog"] == "debug" {
		// the library renders every received RPC for its debug log: hostile input reaches that code too
		opts = append(opts, pubsub.WithRPCLogger(discardLogger(slog.LevelDebug)))
	}
	if c["validator"] == "seqno" || c["validator"] == "inline" {
		// asynchronous by default; "inline" runs it inside the validation worker
		r.store = &memStore{m: map[peer.ID][]byte{}, seen: map[uint64]bool{}, yield: c["validator"] == "seqno"}
		opts = append(opts, pubsub.WithDefaultValidator(
			pubsub.NewBasicSeqnoValidator(r.store, discardLogger(slog.LevelError)),
			pubsub.WithValidatorInline(c["validator"] == "inline")))
	}
	if c["valq"] == "small" {
		opts = append(opts, pubsub.WithValidateQueueSize(caps["ValidateQueueSmall"]), pubsub.WithValidateWorkers(caps["ValidateWorkersSmall"]))
	}
	if c["hslow"] == "on" {
		cfg.QueueSize = caps["OutboundQueueSmall"]
	}
	allow := pubsub.NewAllowlistSubscriptionFilter(topicT)
	switch c["filter"] {
	case "allow":
		opts = append(opts, pubsub.WithSubscriptionFilter(allow))
	case "regexp":
		opts = append(opts, pubsub.WithSubscriptionFilter(pubsub.NewRegexpSubscriptionFilter(regexp.MustCompile(`^T[0-9]+$`))))
	case "limit":
		opts = append(opts, pubsub.WithSubscriptionFilter(pubsub.WrapLimitSubscriptionFilter(allow, caps["SubLimit"])))
	}
	switch c["sign"] {
	case "nosign":
		r.nosign = true
		opts = append(opts, pubsub.WithMessageSignaturePolicy(pubsub.StrictNoSign), pubsub.WithNoAuthor(), pubsub.WithMessageIdFn(contentID))
	case "lax":
		opts = append(opts, pubsub.WithMessageSignaturePolicy(pubsub.LaxSign))
	}
	gossip := c["router"] == "gossipsub"
	if gossip && c["testext"] == "on" {
		opts = append(opts, pubsub.WithTestExtension(pubsub.TestExtensionConfig{OnReceiveTestExtension: func(peer.ID) {
			r.mu.Lock()
			r.nTestExt++
			r.mu.Unlock()
		}}))
	}
	if gossip && c["partial"] == "on" {
		pm := &partialmessages.PartialMessagesExtension[int]{
			Logger:       discardLogger(slog.LevelError),
			OnEmitGossip: func(string, []byte, []peer.ID, map[peer.ID]int) {},
			OnIncomingRPC: func(from peer.ID, st map[peer.ID]int, _ *pb.PartialMessagesExtension) error {
				st[from]++
				r.mu.Lock()
				r.nPartial++
				r.mu.Unlock()
				return nil
			},
		}
		opts = append(opts, pubsub.WithPartialMessagesExtension(pm))
	}
	cfg.Opts = opts
	wout := vh.NewOut(r.t, "VERIF_WORLD_OUT")
	r.w = world.New(r.t, wout, r.idx, cfg, nil)
	r.pipeQ, r.pipeW, r.pipeS = pipelineCaps(r.w.NUT)
}

// pipelineCaps reads the capacities of the hand-offs between the event loop and the validation workers
// (cap(validateQ), number of workers, cap(sendMsg)) off the node itself: reflection may read the length and
// capacity of unexported fields. -1 when the library no longer has a field of that name.
func pipelineCaps(ps *pubsub.PubSub) (q, w, s int) {
	q, w, s = -1, -1, -1
	defer func() { recover() }()
	v := reflect.ValueOf(ps).Elem()
	if f := v.FieldByName("sendMsg"); f.IsValid() && f.Kind() == reflect.Chan {
		s = f.Cap()
	}
	val := v.FieldByName("val")
	if val.IsValid() && val.Kind() == reflect.Ptr && !val.IsNil() {
		if f := val.Elem().FieldByName("validateQ"); f.IsValid() && f.Kind() == reflect.Chan {
			q = f.Cap()
		}
		if f := val.Elem().FieldByName("validateWorkers"); f.IsValid() && f.CanInt() {
			w = int(f.Int())
		}
	}
	return
}

// countMsgs turns a publish-count class into a number of messages, measured against the node's own pipeline.
func (r *run) countMsgs(class string) int {
	switch class {
	case "qm":
		return max(r.pipeQ-1, 1)
	case "q":
		return r.pipeQ
	case "qp":
		return r.pipeQ + 1
	case "absorb":
		return r.pipeQ + r.pipeW + r.pipeS
	case "over":
		return r.pipeQ + r.pipeW + r.pipeS + caps["OverMargin"]
	}
	return count("nmsg", class)
}

func (r *run) protoOf(who string) string {
	switch r.cfg("router") {
	case "floodsub":
		return "flood"
	case "randomsub":
		if who == "h" && r.cfg("proto") == "flood" {
			return "flood"
		}
		return "random"
	}
	if who == "g" {
		return "v11"
	}
	return r.cfg("proto")
}

// setup joins the topic, connects the honest and the hostile peer, lets one
// heartbeat pass and checks that an honest message is delivered.
func (r *run) setup() bool {
	w := r.w
	var topts []pubsub.TopicOpt
	if r.cfg("router") == "gossipsub" && r.cfg("partial") == "on" {
		topts = append(topts, pubsub.RequestPartialMessages())
	}
	tp, err := w.NUT.Join(topicT, topts...)
	if err != nil {
		r.t.Fatalf("c12: join: %v", err)
	}
	r.tp = tp
	sub, err := tp.Subscribe()
	if err != nil {
		r.t.Fatalf("c12: subscribe: %v", err)
	}
	// a second subscriber that never reads, with a tiny buffer: the hand-off from the event loop to a subscriber
	// overflows in every scenario (the loop must drop, never wait)
	if _, err := tp.Subscribe(pubsub.WithBufferSize(caps["SlowSubscriberBuffer"])); err != nil {
		r.t.Fatalf("c12: subscribe (slow): %v", err)
	}
	go func() {
		for {
			msg, err := sub.Next(w.Ctx)
			if err != nil {
				return
			}
			d := string(msg.GetData())
			if i := strings.IndexByte(d, '|'); i >= 0 {
				d = d[:i]
			}
			if len(d) > 40 {
				d = d[:40]
			}
			r.mu.Lock()
			r.delivered[d] = true
			r.mu.Unlock()
		}
	}()
	hnet.Settle(10 * time.Millisecond)

	r.g = w.AddPeer("g", r.protoOf("g"), "in", []string{topicT})
	r.gw = watchStream(r.g.OutStream())

	r.h = hnet.NewFakePeer(w.Net.Take(), "h", r.protoOf("h"), w.H.Host)
	w.Names.AddPeer(r.h.ID(), "h")
	w.Fakes["h"] = r.h
	if r.cfg("hpeer") == "unknown" {
		w.H.FailOpen(r.h.ID(), true) // the NUT never gets an outbound stream to the hostile peer
	}
	if !w.Do(M{"a": "peer", "p": "h", "dir": "in", "subs": []any{}}) {
		r.t.Fatalf("c12: cannot connect hostile peer")
	}
	r.hw = watchStream(r.h.OutStream())
	// the hostile peer's first RPC: its subscription and (maybe) extension flags
	hello := hnet.SubRPC(topicT, true)
	tr := true
	switch r.cfg("hext") {
	case "test":
		hello.Control = &pb.ControlMessage{Extensions: &pb.ControlExtensions{TestExtension: &tr}}
	case "partial":
		hello.Control = &pb.ControlMessage{Extensions: &pb.ControlExtensions{PartialMessages: &tr}}
		hello.Subscriptions[0].RequestsPartial = &tr
	case "both":
		hello.Control = &pb.ControlMessage{Extensions: &pb.ControlExtensions{TestExtension: &tr, PartialMessages: &tr}}
		hello.Subscriptions[0].SupportsSendingPartial = &tr
	}
	r.h.Send(hello)
	hnet.Settle(20 * time.Millisecond)

	r.o = w.Net.Take()
	w.Names.AddPeer(r.o.ID(), "o")
	k2, _, err := crypto.GenerateEd25519Key(r.rng)
	if err != nil {
		r.t.Fatal(err)
	}
	r.o2 = k2
	if r.cfg("score") == "on" {
		switch r.cfg("hscore") {
		case "high":
			w.SetApp(r.h.ID(), 5)
		case "low":
			w.SetApp(r.h.ID(), -10)
		}
	}
	w.Do(M{"a": "hb"})
	if r.cfg("hslow") == "on" {
		// from now on the hostile peer's transport does not take the node's writes: the node's outbound queue to it fills
		w.H.GateWrites(r.h.ID())
	}
	// a message the NUT has seen and cached: its id is the "known" message id
	m0 := r.honestMsg("m0")
	r.knownID = r.msgID(m0)
	r.g.Send(hnet.MsgRPC(m0))
	hnet.Settle(30 * time.Millisecond)
	w.Rec.Take()
	w.H.TakeConnects()
	r.g.Drain()
	r.h.Drain()
	return r.wasDelivered("m0")
}

func (r *run) msgID(m *pb.Message) string {
	if r.nosign {
		return contentID(m)
	}
	return hnet.DefaultMsgID(m)
}

func (r *run) honestMsg(name string) *pb.Message {
	if r.nosign {
		t := topicT
		return &pb.Message{Topic: &t, Data: []byte(name + "|honest")}
	}
	return r.g.NewMessage(name, topicT, 16, true)
}

func (r *run) wasDelivered(name string) bool {
	r.mu.Lock()
	defer r.mu.Unlock()
	return r.delivered[name]
}

func (r *run) publishProbe(name string) bool {
	done := make(chan error, 1)
	go func() { done <- r.tp.Publish(r.w.Ctx, []byte(name+"|local")) }()
	select {
	case err := <-done:
		if err != nil {
			return false
		}
	case <-time.After(5 * time.Second):
		return false
	}
	hnet.Settle(10 * time.Millisecond)
	return r.wasDelivered(name)
}

func (r *run) evalRoundTrip() bool {
	done := make(chan struct{})
	go func() {
		r.w.NUT.ListPeers(topicT)
		close(done)
	}()
	select {
	case <-done:
		return true
	case <-time.After(5 * time.Second):
		return false
	}
}

// ---------------------------------------------------------------------------
// concretisation: classes -> bytes

func (r *run) huge() string {
	n := 128 // once the budget of full-size elements is spent, "huge" elements are merely large
	if r.hugeLeft > 0 {
		r.hugeLeft--
		n = hugeSize
	}
	b := make([]byte, n)
	for i := range b {
		b[i] = 'A' + byte(r.rng.Intn(26))
	}
	return string(b)
}

var manyOf = map[string]int{"nsub": 40, "nmsg": 40, "ngraft": 40, "nprune": 12, "npx": 10, "nihave": 10, "ihaveN": 10,
	"niwant": 10, "iwantN": 10, "nidw": 10, "idwN": 10}

// capOf is the flood-protection cap a count field is measured against.
var capOf = map[string]string{"ihaveN": "MaxIHaveLength", "idwN": "MaxIDontWantLength", "npx": "PrunePeers"}

func count(field, class string) int {
	switch class {
	case "0":
		return 0
	case "1":
		return 1
	case "few":
		if field == "nsub" {
			return caps["SubLimit"]
		}
		return 2
	case "limp":
		return caps["SubLimit"] + 1
	case "capm":
		return caps[capOf[field]] - 1
	case "cap":
		return caps[capOf[field]]
	case "capp":
		return caps[capOf[field]] + 1
	case "pend":
		return caps["MaxPendingConnections"] + caps["Connectors"]
	case "pendp":
		return caps["MaxPendingConnections"] + caps["Connectors"] + 1
	case "many":
		return manyOf[field]
	}
	panic("c12: unknown count class " + field + "=" + class)
}

// topic gives element i of a repeated field its topic: element 0 and the odd
// elements carry the class itself, the even ones a distinct unknown topic.
func (r *run) topic(class string, i int, tag string) *string {
	if i > 0 && i%2 == 0 {
		s := fmt.Sprintf("U-%s-%d", tag, i)
		return &s
	}
	var s string
	switch class {
	case "absent":
		return nil
	case "empty":
		s = ""
	case "known":
		s = topicT
	case "unknown":
		s = "U-" + tag
	case "huge":
		s = r.huge()
	default:
		panic("c12: unknown topic class " + class)
	}
	return &s
}

func (r *run) msgid(class string, i int, tag string) string {
	switch class {
	case "empty":
		if i > 0 {
			return fmt.Sprintf("e%d", i)
		}
		return ""
	case "known":
		return r.knownID
	case "unknown":
		return fmt.Sprintf("unk-%s-%d-%d", tag, r.idx, r.rng.Intn(1<<30))
	case "huge":
		return r.huge()
	}
	panic("c12: unknown id class " + class)
}

func (r *run) keyFor(from string) crypto.PrivKey {
	if from == "other" {
		return r.o.Peerstore().PrivKey(r.o.ID())
	}
	return r.h.H.Peerstore().PrivKey(r.h.ID())
}

func (r *run) message(f map[string]string, k, i int) *pb.Message {
	m := &pb.Message{}
	name := fmt.Sprintf("x%d_%d_%d|", r.idx, k, i)
	switch f["data"] {
	case "small":
		m.Data = []byte(name)
	case "big":
		m.Data = []byte(name + strings.Repeat(".", 100))
	}
	m.Topic = r.topic(f["msgTopic"], 0, "M")
	switch f["from"] {
	case "empty":
		m.From = []byte{}
	case "self":
		m.From = []byte(r.w.H.ID())
	case "own":
		m.From = []byte(r.h.ID())
	case "other":
		m.From = []byte(r.o.ID())
	case "garbage":
		m.From = make([]byte, 20)
		r.rng.Read(m.From)
	}
	if n := int(f["seqno"][0] - '0'); n > 0 {
		// the messages of one RPC share a base value (r.base, set per RPC); seqrel says how they relate
		val := r.base + uint64(i)
		switch f["seqrel"] {
		case "descending":
			val = r.base + 1000 - uint64(i)
		case "equal", "sameprefix", "prevprefix":
			val = r.base
		}
		full := make([]byte, 9)
		full[0] = 1
		binary.BigEndian.PutUint64(full[1:], val)
		m.Seqno = full[9-n:]
		prefix := func(v uint64) []byte {
			b := make([]byte, 9)
			binary.BigEndian.PutUint64(b, v)
			b[8] = byte(1 + i%250)
			return b
		}
		switch {
		case f["seqrel"] == "sameprefix" && i > 0:
			// 9 bytes: the first 8 bytes of message 0 (ONE numeric value for the validator) and a tail of their own
			// (distinct message ids)
			b := prefix(r.base)
			if n >= 8 {
				copy(b, full[9-n:][:8])
			}
			m.Seqno = b
		case f["seqrel"] == "prevprefix":
			m.Seqno = prefix(r.prevBase)
			m.Seqno[8] = byte(251 - i%250)
		}
	}
	switch f["key"] {
	case "garbage":
		m.Key = make([]byte, 36)
		r.rng.Read(m.Key)
	case "mismatch":
		m.Key, _ = crypto.MarshalPublicKey(r.o2.GetPublic())
	case "match":
		m.Key, _ = crypto.MarshalPublicKey(r.keyFor(f["from"]).GetPublic())
	}
	switch f["sig"] {
	case "signed", "bad":
		if err := hnet.SignMessage(r.keyFor(f["from"]), m); err != nil {
			panic(err)
		}
		if f["sig"] == "bad" {
			m.Signature[len(m.Signature)/2] ^= 0x40
		}
	case "empty":
		m.Signature = []byte{}
	}
	return m
}

func (r *run) pxInfo(f map[string]string, i int) *pb.PeerInfo {
	pi := &pb.PeerInfo{}
	idc := f["pxId"]
	if i > 0 && i%2 == 0 && idc != "fresh" {
		idc = "garbage"
	}
	var fresh crypto.PrivKey
	switch idc {
	case "fresh":
		// a new identity; its valid record points at an address nobody listens on
		fresh, _, _ = crypto.GenerateEd25519Key(r.rng)
		id, _ := peer.IDFromPrivateKey(fresh)
		pi.PeerID = []byte(id)
	case "empty":
		pi.PeerID = []byte{}
	case "garbage":
		pi.PeerID = make([]byte, 24)
		r.rng.Read(pi.PeerID)
	case "connected":
		pi.PeerID = []byte(r.g.ID())
	case "unconnected":
		pi.PeerID = []byte(r.o.ID())
	case "self":
		pi.PeerID = []byte(r.w.H.ID())
	}
	seal := func(rec record.Record, k crypto.PrivKey) []byte {
		env, err := record.Seal(rec, k)
		if err != nil {
			panic(err)
		}
		b, err := env.Marshal()
		if err != nil {
			panic(err)
		}
		return b
	}
	okey := r.o.Peerstore().PrivKey(r.o.ID())
	switch f["pxRec"] {
	case "garbage":
		pi.SignedPeerRecord = make([]byte, 60)
		r.rng.Read(pi.SignedPeerRecord)
	case "wrongdomain":
		pi.SignedPeerRecord = seal(&otherDomainRec{P: []byte("not a peer record")}, okey)
	case "wrongtype":
		pi.SignedPeerRecord = seal(&sameDomainRec{P: []byte("not a peer record")}, okey)
	case "wrongid":
		id2, _ := peer.IDFromPrivateKey(r.o2)
		pi.SignedPeerRecord = seal(&peer.PeerRecord{PeerID: id2, Addrs: r.o.Addrs(), Seq: 7}, r.o2)
	case "valid":
		if fresh != nil {
			r.nfresh++
			hole := ma.StringCast(fmt.Sprintf("/ip4/10.%d.%d.%d/udp/4001/quic-v1", 200+r.nfresh>>16&0x1f, r.nfresh>>8&0xff, r.nfresh&0xff))
			pi.SignedPeerRecord = seal(&peer.PeerRecord{PeerID: peer.ID(pi.PeerID), Addrs: []ma.Multiaddr{hole}, Seq: 7}, fresh)
		} else {
			pi.SignedPeerRecord = seal(&peer.PeerRecord{PeerID: r.o.ID(), Addrs: r.o.Addrs(), Seq: 7}, okey)
		}
	}
	return pi
}

func (r *run) rpc(f map[string]string, k int) []byte {
	r.hugeLeft = 2
	rpc := &pb.RPC{}
	tr, fa := true, false
	for i := 0; i < count("nsub", f["nsub"]); i++ {
		so := &pb.RPC_SubOpts{Topicid: r.topic(f["subTopic"], i, "S")}
		switch f["subFlag"] {
		case "true":
			so.Subscribe = &tr
			if i%2 == 1 {
				so.Subscribe = &fa // the same topic with the opposite flag
			}
		case "false":
			so.Subscribe = &fa
			if i%2 == 1 {
				so.Subscribe = &tr
			}
		}
		switch f["subPart"] {
		case "req":
			so.RequestsPartial = &tr
		case "sup":
			so.SupportsSendingPartial = &tr
		case "both":
			so.RequestsPartial, so.SupportsSendingPartial = &tr, &tr
		}
		rpc.Subscriptions = append(rpc.Subscriptions, so)
	}
	r.prevBase = r.base
	if r.prevBase == 0 {
		r.prevBase = uint64(time.Now().UnixNano())
	}
	r.seq += 5000
	r.base = uint64(time.Now().UnixNano()) + r.seq
	r.nmsgs = r.countMsgs(f["nmsg"])
	for i := 0; i < r.nmsgs; i++ {
		rpc.Publish = append(rpc.Publish, r.message(f, k, i))
	}
	ctl := &pb.ControlMessage{}
	has := f["ext"] != "absent"
	for i := 0; i < count("ngraft", f["ngraft"]); i++ {
		ctl.Graft = append(ctl.Graft, &pb.ControlGraft{TopicID: r.topic(f["graftTopic"], i, "G")})
		has = true
	}
	for i := 0; i < count("nprune", f["nprune"]); i++ {
		p := &pb.ControlPrune{TopicID: r.topic(f["pruneTopic"], 0, "P")} // every PRUNE of the RPC names the same topic
		switch f["backoff"] {
		case "0":
			p.Backoff = new(uint64)
		case "1":
			one := uint64(1)
			p.Backoff = &one
		case "max":
			mx := ^uint64(0)
			p.Backoff = &mx
		}
		for j := 0; j < count("npx", f["npx"]); j++ {
			p.Peers = append(p.Peers, r.pxInfo(f, j))
		}
		ctl.Prune = append(ctl.Prune, p)
		has = true
	}
	for i := 0; i < count("nihave", f["nihave"]); i++ {
		ih := &pb.ControlIHave{TopicID: r.topic(f["ihaveTopic"], i, "H")}
		for j := 0; j < count("ihaveN", f["ihaveN"]); j++ {
			ih.MessageIDs = append(ih.MessageIDs, r.msgid(f["ihaveId"], j, "h"))
		}
		ctl.Ihave = append(ctl.Ihave, ih)
		has = true
	}
	for i := 0; i < count("niwant", f["niwant"]); i++ {
		iw := &pb.ControlIWant{}
		for j := 0; j < count("iwantN", f["iwantN"]); j++ {
			iw.MessageIDs = append(iw.MessageIDs, r.msgid(f["iwantId"], j, "w"))
		}
		ctl.Iwant = append(ctl.Iwant, iw)
		has = true
	}
	for i := 0; i < count("nidw", f["nidw"]); i++ {
		dw := &pb.ControlIDontWant{}
		for j := 0; j < count("idwN", f["idwN"]); j++ {
			dw.MessageIDs = append(dw.MessageIDs, r.msgid(f["idwId"], j, "d"))
		}
		ctl.Idontwant = append(ctl.Idontwant, dw)
		has = true
	}
	switch f["ext"] {
	case "empty":
		ctl.Extensions = &pb.ControlExtensions{}
	case "test":
		ctl.Extensions = &pb.ControlExtensions{TestExtension: &tr}
	case "partial":
		ctl.Extensions = &pb.ControlExtensions{PartialMessages: &tr}
	case "both":
		ctl.Extensions = &pb.ControlExtensions{TestExtension: &tr, PartialMessages: &tr}
	}
	if has {
		rpc.Control = ctl
	}
	if f["part"] == "present" {
		p := &pb.PartialMessagesExtension{TopicID: r.topic(f["partTopic"], 0, "X")}
		switch f["group"] {
		case "empty":
			p.GroupID = []byte{}
		case "small":
			p.GroupID = []byte(fmt.Sprintf("grp-%d", k))
		case "huge":
			p.GroupID = []byte(r.huge())
		}
		switch f["pdata"] {
		case "small":
			p.PartialMessage, p.PartsMetadata = []byte("part"), []byte{0x0f}
		case "huge":
			p.PartialMessage, p.PartsMetadata = []byte(r.huge()), []byte(r.huge())
		}
		rpc.Partial = p
	}
	if f["textmsg"] == "present" {
		rpc.TestExtension = &pb.TestExtension{}
	}
	b, err := rpc.Marshal()
	if err != nil {
		panic(err)
	}
	switch f["tail"] {
	case "unknown":
		b = binary.AppendUvarint(b, 2000<<3|0)
		b = binary.AppendUvarint(b, 12345)
		b = binary.AppendUvarint(b, 2001<<3|2)
		b = binary.AppendUvarint(b, 3)
		b = append(b, 1, 2, 3)
	case "tolimit":
		// pad with one unknown length-delimited field so that the frame is EXACTLY the size limit
		rest := limit - len(b) - 2 - 3 // 2 bytes of tag, 3 bytes of length
		if rest < 1<<14 || rest >= 1<<21 {
			panic(fmt.Sprintf("c12: cannot pad %d bytes to the limit", len(b)))
		}
		b = binary.AppendUvarint(b, 999<<3|2)
		b = binary.AppendUvarint(b, uint64(rest))
		b = append(b, make([]byte, rest)...)
		if len(b) != limit {
			panic("c12: padding arithmetic")
		}
	}
	if len(b) > limit {
		panic(fmt.Sprintf("c12: RPC of %d bytes exceeds the limit", len(b)))
	}
	if d := decodes(b); d == "no" {
		panic("c12: built an RPC that does not decode")
	}
	return b
}

// decodes runs the library's decoder on bytes the harness is about to send, inside recover(): the harness must
// survive a decoder that panics (the node under test is what the frame is for).
func decodes(b []byte) (res string) {
	defer func() {
		if recover() != nil {
			res = "panic"
		}
	}()
	if new(pb.RPC).Unmarshal(b) == nil {
		return "yes"
	}
	return "no"
}

// --- Malformed frames: one hand-made field inside one of the 13 message types (Wire!MalFields) ---

var malPath = map[string][]int{"rpc": {}, "subopts": {1}, "message": {2}, "control": {3}, "ihave": {3, 1}, "iwant": {3, 2},
	"graft": {3, 3}, "prune": {3, 4}, "idontwant": {3, 5}, "extensions": {3, 6}, "peerinfo": {3, 4, 2}, "partial": {10}, "testext": {6492434}}

// a valid known field of each message type (so that the hand-made field sits at an offset > 0)
var malPre = map[string][]byte{"rpc": {0x0a, 0x00}, "subopts": {0x08, 0x01}, "message": {0x12, 0x01, 'x'}, "control": {0x1a, 0x00},
	"ihave": {0x0a, 0x01, 't'}, "iwant": {0x0a, 0x01, 'm'}, "graft": {0x0a, 0x01, 't'}, "prune": {0x0a, 0x01, 't'},
	"idontwant": {0x0a, 0x01, 'm'}, "extensions": {0x50, 0x01}, "peerinfo": {0x0a, 0x01, 'p'}, "partial": {0x0a, 0x01, 't'},
	"testext": {0x98, 0x06, 0x01}} // TestExtension has no field: an unknown varint field precedes

// a known length-delimited field of each message type, and 3 bytes that are a valid value of it
var malKnown = map[string]int{"rpc": 2, "subopts": 2, "message": 2, "control": 1, "ihave": 2, "iwant": 1, "graft": 1, "prune": 1,
	"idontwant": 1, "peerinfo": 1, "partial": 2}
var malFits = map[string][]byte{"rpc": {0x12, 0x01, 'x'}, "control": {0x0a, 0x01, 't'}}

func (r *run) malformed(m map[string]string) []byte {
	where := m["where"]
	num := 15 // unknown in every message type
	if m["field"] == "known" {
		n, ok := malKnown[where]
		if !ok {
			panic("c12: no known length-delimited field in " + where)
		}
		num = n
	}
	var pre []byte
	if m["pre"] == "known" {
		pre = malPre[where]
	}
	tag := func(wt int) []byte { return binary.AppendUvarint(nil, uint64(num)<<3|uint64(wt)) }
	var fld []byte
	switch m["wt"] {
	case "varint":
		fld = append(tag(0), 0x01)
	case "fixed64":
		fld = append(tag(1), 1, 2, 3, 4, 5, 6, 7, 8)
	case "fixed32":
		fld = append(tag(5), 1, 2, 3, 4)
	case "group":
		fld = append(tag(3), tag(4)...)
	case "sgroup":
		fld = tag(3)
	case "egroup":
		fld = tag(4)
	case "illegal":
		fld = tag(7)
	case "len":
		t := tag(2)
		fits := malFits[where]
		if fits == nil || m["field"] == "unknown" {
			fits = []byte("abc")
		}
		off := uint64(len(pre) + len(t))
		const maxInt = uint64(1<<63 - 1)
		switch m["len"] {
		case "0":
			fld = append(t, 0)
		case "fits":
			fld = append(append(t, 3), fits...)
		case "plus1":
			fld = append(append(t, 4), fits...)
		case "i31m":
			fld = binary.AppendUvarint(t, 1<<31-1)
		case "i31":
			fld = binary.AppendUvarint(t, 1<<31)
		case "u32":
			fld = binary.AppendUvarint(t, 1<<32)
		case "ovfl": // offset of the field + tag + 9-byte varint + length = 2^63-1 exactly: the largest int
			fld = binary.AppendUvarint(t, maxInt-off-9)
		case "ovfl1": // ... = 2^63: wraps
			fld = binary.AppendUvarint(t, maxInt-off-9+1)
		case "i63":
			fld = binary.AppendUvarint(t, 1<<63)
		case "u64":
			fld = binary.AppendUvarint(t, ^uint64(0))
		case "long":
			fld = append(append(t, 0x80, 0x80, 0x80, 0x80, 0x80, 0x80, 0x80, 0x80, 0x80, 0x80), 0x01)
		default:
			panic("c12: unknown length class " + m["len"])
		}
	default:
		panic("c12: unknown wire type class " + m["wt"])
	}
	body := append(append([]byte(nil), pre...), fld...)
	path := malPath[where]
	for i := len(path) - 1; i >= 0; i-- {
		w := binary.AppendUvarint(nil, uint64(path[i])<<3|2)
		w = binary.AppendUvarint(w, uint64(len(body)))
		body = append(w, body...)
	}
	return body
}

func framed(body []byte) []byte {
	return append(binary.AppendUvarint(nil, uint64(len(body))), body...)
}

// bytesOf returns what to write and whether to half-close the stream afterwards.
func (r *run) bytesOf(fr frame, k int) ([]byte, bool) {
	mustFail := func(b []byte) []byte {
		if decodes(b) == "yes" {
			panic("c12: garbage decodes")
		}
		return b
	}
	switch fr.Kind + "/" + fr.Sub {
	case "Empty/one":
		return []byte{0}, false
	case "Empty/many":
		return make([]byte, 1000), false
	case "TooLong/plus1":
		return binary.AppendUvarint(nil, limit+1), false
	case "TooLong/big":
		return binary.AppendUvarint(nil, 1<<62), false
	case "TooLong/overflow":
		return []byte{0xff, 0xff, 0xff, 0xff, 0xff, 0xff, 0xff, 0xff, 0xff, 0xff, 0x01}, false
	case "Garbage/random":
		for {
			b := make([]byte, 1+r.rng.Intn(300))
			r.rng.Read(b)
			if decodes(b) != "yes" {
				return framed(b), false
			}
		}
	case "Garbage/nonminimal":
		return []byte{0x81, 0x00, 0x00}, false
	case "Garbage/wiretype":
		b, _ := hnet.SubRPC(topicT, true).Marshal()
		return framed(mustFail(append(b, 0x0f))), false
	case "Garbage/innerlen":
		return framed(mustFail([]byte{0x0a, 0x64, 0x01, 0x02})), false
	case "Truncated/body":
		return append(binary.AppendUvarint(nil, 100), make([]byte, 10)...), true
	case "Truncated/len":
		return []byte{0x80}, true
	case "Truncated/nobody":
		return binary.AppendUvarint(nil, 100), true
	case "Rpc/rpc":
		return framed(r.rpc(fr.F, k)), false
	case "Malformed/field":
		b := r.malformed(fr.M)
		r.dec = decodes(b)
		return framed(b), false
	}
	panic("c12: unknown frame " + fr.Kind + "/" + fr.Sub)
}

// ---------------------------------------------------------------------------

func (r *run) step(k int, fr frame) {
	w := r.w
	marker(r.idx, k)
	nbytes, werr := 0, ""
	w.Guard()
	// a peer whose stream has ended opens a new one (Wire!Reopen)
	if st, _ := r.hw.get(); st != "open" || !r.h.HasOut() {
		if s := r.h.OutStream(); s != nil {
			s.Reset()
		}
		if err := r.h.OpenOut(); err != nil {
			r.t.Fatalf("c12: reopen: %v", err)
		}
		r.hw = watchStream(r.h.OutStream())
		hnet.Settle(10 * time.Millisecond)
		w.Rec.Take()
	}
	r.nmsgs, r.dec = 0, "na"
	refused0 := r.store.recheckRefused()
	if fr.Kind == "Tick" {
		w.Do(M{"a": "hb"})
	} else if fr.Kind == "Dup" {
		// further inbound streams, one after the other, the previous ones left open: the node keeps the last
		for i := 0; i < 8; i++ {
			if err := r.h.OpenOut(); err != nil {
				r.t.Fatalf("c12: dup stream: %v", err)
			}
			hnet.Settle(2 * time.Millisecond)
		}
		r.hw = watchStream(r.h.OutStream())
		hnet.Settle(20 * time.Millisecond)
	} else {
		w.Guard()
		b, closeAfter := r.bytesOf(fr, k)
		nbytes = len(b)
		if err := r.h.SendRaw(b, false); err != nil {
			werr = err.Error()
		}
		if closeAfter {
			// half-close: EOF at the NUT while our reader stays parked (Stream.Close would also cancel our read side)
			r.h.OutStream().CloseWrite()
		}
		hnet.Settle(30 * time.Millisecond)
	}
	// what the node did with the frame
	evs := w.Rec.Take()
	// liveness probe: an honest message must still be delivered, the event loop must still answer
	w.Guard()
	name := fmt.Sprintf("q%d_%d", r.idx, k)
	r.g.Send(hnet.MsgRPC(r.honestMsg(name)))
	hnet.Settle(30 * time.Millisecond)
	refusedByFrame := r.store.recheckRefused() - refused0 // before the probes: what the hostile frame alone did
	eval := r.evalRoundTrip()
	// a local Publish must return and reach the node's own subscription (the built-in validators run inside it)
	pub := false
	if eval {
		pub = r.publishProbe(fmt.Sprintf("l%d_%d", r.idx, k))
	}
	evs = append(evs, w.Rec.Take()...)

	recv, throttled := 0, false
	kinds := map[string]int{}
	for _, e := range evs {
		kk, _ := e["k"].(string)
		p, _ := e["p"].(string)
		via, _ := e["via"].(string)
		switch kk {
		case "Recv":
			if p == "h" {
				recv++
			}
		case "Drop":
			kinds["Drop:"+p]++
		case "Throttle":
			if p == "g" {
				throttled = true
			}
			kinds["Throttle:"+p]++
		case "Deliver", "Validate", "Duplicate", "Undeliverable":
			kinds[kk+":"+via]++
		case "Reject":
			reason, _ := e["reason"].(string)
			kinds["Reject:"+via+":"+reason]++
		case "Graft", "Prune":
			kinds[kk+":"+p]++
		}
	}
	sent := map[string]int{}
	for _, fr := range r.h.Drain() {
		c := fr.RPC.GetControl()
		sent["msgs"] += len(fr.RPC.GetPublish())
		sent["iwant"] += len(c.GetIwant())
		for _, iw := range c.GetIwant() {
			sent["iwantIds"] += len(iw.GetMessageIDs())
		}
		sent["ihave"] += len(c.GetIhave())
		sent["graft"] += len(c.GetGraft())
		sent["prune"] += len(c.GetPrune())
		sent["idontwant"] += len(c.GetIdontwant())
		if fr.RPC.TestExtension != nil {
			sent["testext"]++
		}
	}
	r.g.Drain()
	dials := len(w.H.TakeConnects())
	hst, herr := r.hw.get()
	gst, _ := r.gw.get()
	r.mu.Lock()
	np, nt := r.nPartial, r.nTestExt
	r.mu.Unlock()
	// the node's own flood-protection counters for the hostile peer (coverage obligations only, never a verdict);
	// the snapshot goes through the event loop, so it is only taken when the loop answers
	inb, iasked, peerhave, peerdw, ticks := false, -1, -1, -1, -1
	if eval {
		st := w.RawSnap()
		for _, p := range st.Inbound {
			if p == r.h.ID() {
				inb = true
			}
		}
		if st.GS != nil {
			iasked, peerhave, peerdw, ticks = st.GS.Iasked[r.h.ID()], st.GS.Peerhave[r.h.ID()], st.GS.Peerdontwant[r.h.ID()], int(st.GS.HeartbeatTicks)
		}
	}
	ks := make([]string, 0, len(kinds))
	for s, n := range kinds {
		ks = append(ks, fmt.Sprintf("%s=%d", s, n))
	}
	sort.Strings(ks)
	ss := make([]string, 0, len(sent))
	for s, n := range sent {
		if n > 0 {
			ss = append(ss, fmt.Sprintf("%s=%d", s, n))
		}
	}
	sort.Strings(ss)
	r.out.emit(M{"e": "frame", "scn": r.idx, "k": k, "fr": fr,
		"obs": M{"alive": true, "stream": hst, "gstream": gst, "hOut": r.h.InboundAlive() > 0, "gOut": r.g.InboundAlive() > 0,
			"recv": recv, "eval": eval, "pub": pub, "probe": r.wasDelivered(name), "throttled": throttled, "dec": r.dec},
		"info": M{"bytes": nbytes, "werr": werr, "rerr": herr, "nutInbound": inb, "ev": ks, "sent": ss, "dials": dials,
			"partialCalls": np, "testExtCalls": nt, "t": hnet.NowMs(),
			"iasked": iasked, "peerhave": peerhave, "peerdontwant": peerdw, "ticks": ticks, "nmsgs": r.nmsgs,
			"seqnoRecheckRefused": refusedByFrame}})
	if !eval {
		// the event loop no longer answers: nothing can be shut down cleanly from here
		os.Exit(5)
	}
}

func runScenario(t *testing.T, out *lineOut, idx int, s scenario, onlyFrame int) {
	synctest.Test(t, func(t *testing.T) {
		defer func() {
			if x := recover(); x != nil {
				out.emit(M{"e": "harness-panic", "scn": idx, "k": curFrame.Load(), "what": fmt.Sprint(x), "stack": string(debug.Stack())})
				os.Exit(6)
			}
		}()
		r := &run{t: t, out: out, idx: idx, scn: s, delivered: map[string]bool{},
			rng: rand.New(rand.NewSource(vh.Seed()*1000003 + int64(s.ID)*7919))}
		marker(idx, -1)
		r.build()
		defer r.w.Close()
		ok := r.setup()
		out.emit(M{"e": "reset", "scn": idx, "id": s.ID, "origin": s.Origin, "cfg": s.Cfg, "ok": ok,
			"hOut": r.h.InboundAlive() > 0, "gOut": r.g.InboundAlive() > 0,
			"pipe": M{"q": r.pipeQ, "w": r.pipeW, "s": r.pipeS}})
		if !ok {
			return
		}
		for k, fr := range s.Frames {
			if onlyFrame >= 0 && k != onlyFrame {
				continue
			}
			r.step(k, fr)
		}
		if onlyFrame < 0 || onlyFrame == len(s.Frames) {
			r.step(len(s.Frames), frame{Kind: "Tick", Sub: "hb", F: blankOf(s), M: blankM})
		}
	})
}

// blankOf gives the Tick pseudo-frame the blank class of every field (taken
// from the scenario file: the orchestrator passes it as scenario -1's first frame).
var blank map[string]string
var caps map[string]int
var blankM map[string]string

func blankOf(scenario) map[string]string { return blank }

// TestC12 replays the scenarios of VERIF_IN. The first line of the file is
// {"id":-1,"frames":[{"kind":"Tick","sub":"hb","f":<blank classes>}]}.
func TestC12(t *testing.T) {
	inPath := os.Getenv("VERIF_IN")
	if inPath == "" {
		t.Skip("VERIF_IN not set (driver is run by bin/check)")
	}
	in, err := os.Open(inPath)
	if err != nil {
		t.Fatal(err)
	}
	defer in.Close()
	path := os.Getenv("VERIF_OUT")
	if path == "" {
		t.Skip("VERIF_OUT not set (driver is run by bin/check)")
	}
	f, err := os.OpenFile(path, os.O_APPEND|os.O_CREATE|os.O_WRONLY, 0o644)
	if err != nil {
		t.Fatal(err)
	}
	defer f.Close()
	out := &lineOut{f: f}
	if os.Getenv("VERIF_WORLD_OUT") == "" {
		os.Setenv("VERIF_WORLD_OUT", os.DevNull)
	}
	only, onlyFrame, from := vh.EnvInt("VERIF_ONLY", -1), vh.EnvInt("VERIF_ONLY_FRAME", -1), vh.EnvInt("VERIF_FROM", 0)
	shard, nshard := 0, 1
	fmt.Sscanf(os.Getenv("VERIF_SHARD"), "%d/%d", &shard, &nshard)
	if nshard < 1 {
		nshard = 1
	}
	// wall-clock watchdog (outside the bubbles): a frame that makes the node spin for ever
	stall := time.Duration(vh.EnvInt("VERIF_STALL_S", 120)) * time.Second
	go func() {
		last, at := progress.Load(), time.Now()
		for {
			time.Sleep(time.Second)
			if p := progress.Load(); p != last {
				last, at = p, time.Now()
			} else if time.Since(at) > stall {
				out.emit(M{"e": "hang", "scn": curScn.Load(), "k": curFrame.Load(), "after_s": int(stall.Seconds())})
				os.Exit(4)
			}
		}
	}()
	// the file is read line by line and only the scenarios of this shard are decoded (a restart after a
	// crash must not pay for the whole file again)
	sc := bufio.NewScanner(in)
	sc.Buffer(make([]byte, 1<<20), 1<<26)
	i := -2
	for sc.Scan() {
		if len(sc.Bytes()) == 0 {
			continue
		}
		i++
		if i == -1 {
			var b scenario
			if err := json.Unmarshal(sc.Bytes(), &b); err != nil || b.ID != -1 || len(b.Frames) != 1 {
				t.Fatal("c12: scenario file must start with the blank line")
			}
			blank, caps, blankM = b.Frames[0].F, b.Caps, b.Frames[0].M
			if len(caps) == 0 {
				t.Fatal("c12: the blank line carries no caps")
			}
			continue
		}
		if only >= 0 {
			if i != only {
				continue
			}
		} else if i < from || i%nshard != shard {
			continue
		}
		var s scenario
		if err := json.Unmarshal(sc.Bytes(), &s); err != nil {
			t.Fatalf("c12: bad scenario line %d: %v", i, err)
		}
		progress.Add(1)
		runScenario(t, out, i, s, onlyFrame)
	}
	marker(i+1, -1)
	out.emit(M{"e": "done", "shard": shard, "from": from})
}
