// Driver for property C06 (every forwarded copy goes to exactly the peers the
// router rules require) for the stimuli the common action alphabet lacks:
//
//	{"a":"batch","t":topic,"msgs":[{"m":name[,"localOnly":true][,"size":n]},...]}
//	    Topic.AddToBatch for every entry (WithLocalPublication for local-only ones),
//	    then PubSub.PublishBatch: ONE step line whose `ev` carries one Deliver per
//	    message, in batch order.
//
//	{"a":"msg","p":sender,"t":topic,"m":name, ... one or more of
//	   "rsa":1|2      the author is an RSA-2048 identity (not a connected peer; named "rsa1"/"rsa2"):
//	                  its public key cannot be extracted from the peer id and travels in `key`
//	   "withKey":true an Ed25519 author attaches its (redundant) public key in `key`
//	   "unk":true     the message carries an unrecognised protobuf field (signed over)
//	   "noseqno":true no `seqno` field
//	   "nofrom":true  no `from` field (implies unsigned; lax signature policy only)
//	   "unsigned":true, "size":n, "author":peer   as in the common alphabet}
//	    the driver builds and registers the message (world.RegMsg) before the common
//	    `msg` action sends it, so that world's copyEqual compares every copy the node
//	    forwards field for field (marshalled bytes incl. key and unknown fields) with
//	    what the fake peer sent.
//
//	{"a":"idontwant","p":peer,"ids":[names],"own":true,"next":[k,...]}
//	    IDONTWANT for messages the node has NOT published yet: the j-th name is the k_j-th message the node
//	    will publish from now on (its id is the node's peer id followed by its sequence number, which counts
//	    up from the construction time of the node: predictable under virtual time). The step line carries
//	    the action as given (PublishTrace builds its expectation from the names).
//
// cfg "sign":"lax" builds the node with the LaxSign policy (unsigned messages are
// accepted). Everything else goes to world.Do. The driver never judges;
// spec/publish/PublishTrace.tla does.
package c06

import (
	"crypto/rand"
	"encoding/binary"
	"os"
	"sync"
	"testing"
	"testing/synctest"
	"time"

	pubsub "github.com/libp2p/go-libp2p-pubsub"
	pb "github.com/libp2p/go-libp2p-pubsub/pb"
	"github.com/libp2p/go-libp2p/core/crypto"
	"github.com/libp2p/go-libp2p/core/peer"

	"verifharness/hnet"
	"verifharness/vh"
	"verifharness/world"
)

type M = map[string]any

type scenario struct {
	Cfg  M   `json:"cfg"`
	Acts []M `json:"acts"`
}

func geti(m M, k string, def int) int {
	if v, ok := m[k].(float64); ok {
		return int(v)
	}
	return def
}
func getb(m M, k string) bool { b, _ := m[k].(bool); return b }
func gets(m M, k string) string {
	s, _ := m[k].(string)
	return s
}

// configFrom understands the cfg keys the C06 generator uses (a subset of the
// router driver's): router, score, flood, hosts, D, Dlo, Dhi, Dscore, Dout,
// oppTicks, fanoutTTLS.
func configFrom(c M) world.Config {
	cfg := world.Config{Router: gets(c, "router"), Score: getb(c, "score"), FloodPublish: getb(c, "flood"), Hosts: geti(c, "hosts", 8),
		Retain: 10 * time.Second}
	p := world.SmallParams()
	p.D, p.Dlo, p.Dhi = geti(c, "D", p.D), geti(c, "Dlo", p.Dlo), geti(c, "Dhi", p.Dhi)
	p.Dscore, p.Dout = geti(c, "Dscore", p.Dscore), geti(c, "Dout", p.Dout)
	p.OpportunisticGraftTicks = uint64(geti(c, "oppTicks", int(p.OpportunisticGraftTicks)))
	p.FanoutTTL = time.Duration(geti(c, "fanoutTTLS", int(p.FanoutTTL/time.Second))) * time.Second
	cfg.Params = &p
	if gets(c, "sign") == "lax" {
		cfg.Opts = append(cfg.Opts, pubsub.WithMessageSignaturePolicy(pubsub.LaxSign))
	}
	return cfg
}

// ---------------------------------------------------------------------------
// RSA author identities (generated once per process: RSA key generation is slow)

type ident struct {
	priv crypto.PrivKey
	id   peer.ID
	kb   []byte // marshalled public key
}

var (
	rsaOnce sync.Once
	rsaIDs  [2]ident
	rsaSeq  uint64 = 5000
)

func rsaIdent(n int) ident {
	rsaOnce.Do(func() {
		for i := range rsaIDs {
			k, _, err := crypto.GenerateRSAKeyPair(2048, rand.Reader)
			if err != nil {
				panic(err)
			}
			id, err := peer.IDFromPrivateKey(k)
			if err != nil {
				panic(err)
			}
			kb, err := crypto.MarshalPublicKey(k.GetPublic())
			if err != nil {
				panic(err)
			}
			if pk, _ := id.ExtractPublicKey(); pk != nil {
				panic("c06: RSA id embeds its key")
			}
			rsaIDs[i] = ident{k, id, kb}
		}
	})
	if n == 2 {
		return rsaIDs[1]
	}
	return rsaIDs[0]
}

func isVariant(a M) bool {
	return geti(a, "rsa", 0) > 0 || getb(a, "withKey") || getb(a, "unk") || getb(a, "noseqno") || getb(a, "nofrom")
}

// prepareVariant builds the message of a `msg` action that asks for a field
// variant and registers it under its name; the common action then sends it.
func prepareVariant(t *testing.T, w *world.World, a M) {
	name := gets(a, "m")
	if w.Msg(name) != nil {
		return
	}
	f := w.Fakes[gets(a, "p")]
	if x := w.Fakes[gets(a, "author")]; x != nil {
		f = x
	}
	if f == nil {
		t.Fatalf("c06: msg variant from unknown peer %v", a)
	}
	size := geti(a, "size", 16)
	topic := gets(a, "t")
	var m *pb.Message
	var priv crypto.PrivKey
	if n := geti(a, "rsa", 0); n > 0 {
		id := rsaIdent(n)
		w.Names.AddPeer(id.id, vh.Sprintf("rsa%d", n))
		rsaSeq++
		seq := make([]byte, 8)
		binary.BigEndian.PutUint64(seq, rsaSeq)
		data := []byte(name + "|")
		for len(data) < size {
			data = append(data, '.')
		}
		m = &pb.Message{From: []byte(id.id), Seqno: seq, Topic: &topic, Data: data, Key: id.kb}
		priv = id.priv
	} else {
		m = f.NewMessage(name, topic, size, false)
		priv = f.H.Peerstore().PrivKey(f.H.ID())
		if getb(a, "withKey") {
			kb, err := crypto.MarshalPublicKey(priv.GetPublic())
			if err != nil {
				t.Fatal(err)
			}
			m.Key = kb
		}
	}
	if getb(a, "unk") {
		// field 15, wire type 2 (length-delimited), 5 bytes: unknown to pb.Message, kept in XXX_unrecognized
		m.XXX_unrecognized = []byte{0x7a, 0x05, 'e', 'x', 't', 'r', 'a'}
	}
	if getb(a, "noseqno") {
		m.Seqno = nil
	}
	unsigned := getb(a, "unsigned")
	if getb(a, "nofrom") {
		m.From = nil
		unsigned = true
	}
	if unsigned {
		m.Key = nil
	} else if err := hnet.SignMessage(priv, m); err != nil {
		t.Fatal(err)
	}
	w.RegMsg(name, m)
}

// resetArgs is what the reset line tells PublishTrace (thresholds are world's defaults).
func resetArgs(cfg world.Config) M {
	p := cfg.Params
	return M{"score": cfg.Score, "flood": cfg.FloodPublish, "D": p.D, "Dlo": p.Dlo, "Dhi": p.Dhi, "Dscore": p.Dscore, "Dout": p.Dout,
		"fanoutTTLMs": p.FanoutTTL.Milliseconds(), "hbMs": p.HeartbeatInterval.Milliseconds(), "oppTicks": int(p.OpportunisticGraftTicks),
		"maxIDWLen": p.MaxIDontWantLength, "maxIDWMsgs": p.MaxIDontWantMessages, "idwTTL": p.IDontWantMessageTTL, "idwThreshold": p.IDontWantMessageThreshold,
		"thr": M{"gossip": -2, "publish": -4, "graylist": -6, "acceptPX": 2, "oppGraft": 1}}
}

func resetWith(c M, cfg world.Config) M {
	r := resetArgs(cfg)
	if s := gets(c, "sign"); s != "" {
		r["sign"] = s
	}
	return r
}

func marker(i int) {
	if p := os.Getenv("VERIF_MARKER"); p != "" {
		os.WriteFile(p, []byte(vh.Sprintf("%d", i)), 0o644)
	}
}

func batch(t *testing.T, w *world.World, a M) {
	w.Guard()
	tp := w.Topic(gets(a, "t"))
	b := &pubsub.MessageBatch{}
	l, _ := a["msgs"].([]any)
	for _, x := range l {
		e, _ := x.(map[string]any)
		size := geti(e, "size", 16)
		data := []byte(gets(e, "m") + "|")
		for len(data) < size {
			data = append(data, '.')
		}
		var opts []pubsub.PubOpt
		if getb(e, "localOnly") {
			opts = append(opts, pubsub.WithLocalPublication(true))
		}
		if err := tp.AddToBatch(w.Ctx, b, data, opts...); err != nil {
			t.Fatalf("AddToBatch %v: %v", e, err)
		}
	}
	if err := w.NUT.PublishBatch(b); err != nil {
		t.Fatalf("PublishBatch: %v", err)
	}
	hnet.Settle(15 * time.Millisecond)
	w.Emit(a)
}

func runScenario(t *testing.T, out *vh.Out, idx int, s scenario) {
	synctest.Test(t, func(t *testing.T) {
		cfg := configFrom(s.Cfg)
		w := world.New(t, out, idx, cfg, resetWith(s.Cfg, cfg))
		defer w.Close()
		// PubSub.counter starts at the construction time; no virtual time has passed since
		seqBase := uint64(time.Now().UnixNano())
		published := uint64(0) // messages the node has been asked to publish (each takes one sequence number)
		for _, a := range s.Acts {
			switch gets(a, "a") {
			case "publish":
				published++
			case "batch":
				l, _ := a["msgs"].([]any)
				published += uint64(len(l))
			}
			if gets(a, "a") == "batch" {
				batch(t, w, a)
				continue
			}
			if gets(a, "a") == "idontwant" && getb(a, "own") {
				f := w.Fakes[gets(a, "p")]
				var ids []string
				l, _ := a["next"].([]any)
				for _, x := range l {
					k, _ := x.(float64)
					seq := make([]byte, 8)
					binary.BigEndian.PutUint64(seq, seqBase+published+uint64(k))
					ids = append(ids, string(w.H.ID())+string(seq))
				}
				w.Guard()
				f.Send(hnet.IDontWantRPC(ids...))
				hnet.Settle(15 * time.Millisecond)
				w.Emit(a)
				continue
			}
			if gets(a, "a") == "msg" && isVariant(a) {
				prepareVariant(t, w, a)
			}
			if !w.Do(a) {
				t.Fatalf("unknown action %v", a)
			}
		}
	})
}

// TestC06Replay replays the scenarios of VERIF_IN (batch publishing included).
func TestC06Replay(t *testing.T) {
	scns := vh.ReadScenarios[scenario](t, "VERIF_IN")
	out := vh.NewOut(t, "VERIF_OUT")
	only := vh.EnvInt("VERIF_ONLY", -1)
	for i, s := range scns {
		if only >= 0 && i != only {
			continue
		}
		marker(i)
		runScenario(t, out, i, s)
	}
}
