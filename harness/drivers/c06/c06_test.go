// Driver for property C06 (every forwarded copy goes to exactly the peers the
// router rules require) for the one stimulus the common action alphabet lacks:
// batch publishing.
//
//	{"a":"batch","t":topic,"msgs":[{"m":name[,"localOnly":true][,"size":n]},...]}
//	    Topic.AddToBatch for every entry (WithLocalPublication for local-only ones),
//	    then PubSub.PublishBatch: ONE step line whose `ev` carries one Deliver per
//	    message, in batch order.
//
// Everything else goes to world.Do. The driver never judges;
// spec/publish/PublishTrace.tla does.
package c06

import (
	"os"
	"testing"
	"testing/synctest"
	"time"

	pubsub "github.com/libp2p/go-libp2p-pubsub"

	"verifharness/hnet"
	"verifharness/vh"
	"verifharness/world"
)

type M = map[string]any

type scenario struct {
	Cfg  M   `json:"cfg"`
	Acts []M `json:"acts"`
}

func geti(m M, k string, def int) int {
	if v, ok := m[k].(float64); ok {
		return int(v)
	}
	return def
}
func getb(m M, k string) bool { b, _ := m[k].(bool); return b }
func gets(m M, k string) string {
	s, _ := m[k].(string)
	return s
}

// configFrom understands the cfg keys the C06 generator uses (a subset of the
// router driver's): router, score, flood, hosts, D, Dlo, Dhi, Dscore, Dout,
// oppTicks, fanoutTTLS.
func configFrom(c M) world.Config {
	cfg := world.Config{Router: gets(c, "router"), Score: getb(c, "score"), FloodPublish: getb(c, "flood"), Hosts: geti(c, "hosts", 8),
		Retain: 10 * time.Second}
	p := world.SmallParams()
	p.D, p.Dlo, p.Dhi = geti(c, "D", p.D), geti(c, "Dlo", p.Dlo), geti(c, "Dhi", p.Dhi)
	p.Dscore, p.Dout = geti(c, "Dscore", p.Dscore), geti(c, "Dout", p.Dout)
	p.OpportunisticGraftTicks = uint64(geti(c, "oppTicks", int(p.OpportunisticGraftTicks)))
	p.FanoutTTL = time.Duration(geti(c, "fanoutTTLS", int(p.FanoutTTL/time.Second))) * time.Second
	cfg.Params = &p
	return cfg
}

// resetArgs is what the reset line tells PublishTrace (thresholds are world's defaults).
func resetArgs(cfg world.Config) M {
	p := cfg.Params
	return M{"score": cfg.Score, "flood": cfg.FloodPublish, "D": p.D, "Dlo": p.Dlo, "Dhi": p.Dhi, "Dscore": p.Dscore, "Dout": p.Dout,
		"fanoutTTLMs": p.FanoutTTL.Milliseconds(), "hbMs": p.HeartbeatInterval.Milliseconds(), "oppTicks": int(p.OpportunisticGraftTicks),
		"thr": M{"gossip": -2, "publish": -4, "graylist": -6, "acceptPX": 2, "oppGraft": 1}}
}

func marker(i int) {
	if p := os.Getenv("VERIF_MARKER"); p != "" {
		os.WriteFile(p, []byte(vh.Sprintf("%d", i)), 0o644)
	}
}

func batch(t *testing.T, w *world.World, a M) {
	w.Guard()
	tp := w.Topic(gets(a, "t"))
	b := &pubsub.MessageBatch{}
	l, _ := a["msgs"].([]any)
	for _, x := range l {
		e, _ := x.(map[string]any)
		size := geti(e, "size", 16)
		data := []byte(gets(e, "m") + "|")
		for len(data) < size {
			data = append(data, '.')
		}
		var opts []pubsub.PubOpt
		if getb(e, "localOnly") {
			opts = append(opts, pubsub.WithLocalPublication(true))
		}
		if err := tp.AddToBatch(w.Ctx, b, data, opts...); err != nil {
			t.Fatalf("AddToBatch %v: %v", e, err)
		}
	}
	if err := w.NUT.PublishBatch(b); err != nil {
		t.Fatalf("PublishBatch: %v", err)
	}
	hnet.Settle(15 * time.Millisecond)
	w.Emit(a)
}

func runScenario(t *testing.T, out *vh.Out, idx int, s scenario) {
	synctest.Test(t, func(t *testing.T) {
		cfg := configFrom(s.Cfg)
		w := world.New(t, out, idx, cfg, resetArgs(cfg))
		defer w.Close()
		for _, a := range s.Acts {
			if gets(a, "a") == "batch" {
				batch(t, w, a)
			} else if !w.Do(a) {
				t.Fatalf("unknown action %v", a)
			}
		}
	})
}

// TestC06Replay replays the scenarios of VERIF_IN (batch publishing included).
func TestC06Replay(t *testing.T) {
	scns := vh.ReadScenarios[scenario](t, "VERIF_IN")
	out := vh.NewOut(t, "VERIF_OUT")
	only := vh.EnvInt("VERIF_ONLY", -1)
	for i, s := range scns {
		if only >= 0 && i != only {
			continue
		}
		marker(i)
		runScenario(t, out, i, s)
	}
}
