// Driver for property C09 (score thresholds gate what a peer may send and
// receive) on top of the shared world interpreter.
//
// TestC09Replay replays the scenarios of spec/thresholds/GenThresholds.tla that
// need more than the common action alphabet:
//
//	{"a":"rpc","p":..,"subs":[{t,v}],"msgs":[{m,t}],"graft":[t],"prune":[{t,px:[{x,rec}]}],
//	 "ihave":[{t,ids}],"iwant":[ids],"idontwant":[ids]}
//	    one RPC with any mix of parts. A peer-exchange entry names a third party x ("hN") and a
//	    record class: "none" (bare id), "valid" (a simnet host that is NOT connected to the node
//	    under test, record sealed with its own key), "wrongid" (valid record of somebody else),
//	    "baddomain" (envelope sealed for another domain), "garbage" (not an envelope),
//	    "notrecord" (valid envelope of the peer-record domain whose payload is not a PeerRecord);
//	    an x that names a fake peer is sent as a bare id.
//	{"a":"gaterprep","p":..,"t":..}  makes the validation-overload gater throttle: a validator
//	    that rejects "bad*" messages gives p a poor goodput; then the validator is blocked, the
//	    size-1 validation queue overflows (RejectValidationQueueFull) and stays full.
//	{"a":"gaterrelease"}             unblocks the validator.
//
// Everything else goes to world.Do. Every step line additionally carries
// "hostconn" (peers connected at host level) and "vblocked" (validator parked).
// The driver never judges; spec/thresholds/ThresholdsTrace.tla does.
package c09

import (
	"context"
	"crypto/rand"
	"os"
	"sort"
	"strings"
	"sync/atomic"
	"testing"
	"testing/synctest"
	"time"

	pubsub "github.com/libp2p/go-libp2p-pubsub"
	pb "github.com/libp2p/go-libp2p-pubsub/pb"
	"github.com/libp2p/go-libp2p/core/crypto"
	"github.com/libp2p/go-libp2p/core/network"
	"github.com/libp2p/go-libp2p/core/peer"
	"github.com/libp2p/go-libp2p/core/record"
	ma "github.com/multiformats/go-multiaddr"

	"verifharness/hnet"
	"verifharness/vh"
	"verifharness/world"
)

type M = map[string]any

type scenario struct {
	Cfg  M      `json:"cfg"`
	Fam  string `json:"fam"`
	Acts []M    `json:"acts"`
}

func geti(m M, k string, def int) int {
	if v, ok := m[k].(float64); ok {
		return int(v)
	}
	return def
}
func getb(m M, k string) bool { b, _ := m[k].(bool); return b }
func gets(m M, k string) string {
	s, _ := m[k].(string)
	return s
}
func list(m M, k string) []any { l, _ := m[k].([]any); return l }
func strl(l []any) []string {
	var out []string
	for _, x := range l {
		if s, ok := x.(string); ok {
			out = append(out, s)
		}
	}
	return out
}

// configFrom understands the cfg keys the C09 generator uses (a subset of the
// router driver's): score, px, flood, gater, hosts, thr.
func configFrom(c M) world.Config {
	cfg := world.Config{Score: getb(c, "score"), FloodPublish: getb(c, "flood"), DoPX: getb(c, "px"),
		Gater: getb(c, "gater"), Hosts: geti(c, "hosts", 12), Retain: 10 * time.Second}
	p := world.SmallParams()
	cfg.Params = &p
	if t, ok := c["thr"].(map[string]any); ok {
		cfg.Thresholds = &pubsub.PeerScoreThresholds{
			GossipThreshold: float64(geti(t, "gossip", -2)), PublishThreshold: float64(geti(t, "publish", -4)),
			GraylistThreshold: float64(geti(t, "graylist", -6)), AcceptPXThreshold: float64(geti(t, "acceptPX", 2)),
			OpportunisticGraftThreshold: float64(geti(t, "oppGraft", 1))}
	}
	if cfg.Gater {
		// deterministic overload: one worker, queue of one
		cfg.Opts = append(cfg.Opts, pubsub.WithValidateQueueSize(1), pubsub.WithValidateWorkers(1))
	}
	return cfg
}

// resetArgs mirrors drivers/router ResetArgs (same keys, so that one trace
// specification reads the traces of both drivers).
func resetArgs(cfg world.Config) M {
	p := cfg.Params
	th := cfg.Thresholds
	if th == nil {
		th = &pubsub.PeerScoreThresholds{GossipThreshold: -2, PublishThreshold: -4, GraylistThreshold: -6, AcceptPXThreshold: 2, OpportunisticGraftThreshold: 1}
	}
	return M{"score": cfg.Score, "flood": cfg.FloodPublish, "px": cfg.DoPX, "queue": cfg.QueueSize, "penWeight": int(cfg.PenWeight),
		"gater": cfg.Gater,
		"D": p.D, "Dlo": p.Dlo, "Dhi": p.Dhi, "Dscore": p.Dscore, "Dout": p.Dout, "Dlazy": p.Dlazy,
		"H": p.HistoryLength, "G": p.HistoryGossip, "retx": p.GossipRetransmission,
		"pruneBackoffMs": p.PruneBackoff.Milliseconds(), "unsubBackoffMs": p.UnsubscribeBackoff.Milliseconds(),
		"graftFloodMs": p.GraftFloodThreshold.Milliseconds(), "fanoutTTLMs": p.FanoutTTL.Milliseconds(),
		"maxIHaveLen": p.MaxIHaveLength, "maxIHaveMsgs": p.MaxIHaveMessages, "maxIDWLen": p.MaxIDontWantLength,
		"maxIDWMsgs": p.MaxIDontWantMessages, "idwTTL": p.IDontWantMessageTTL, "idwThreshold": p.IDontWantMessageThreshold,
		"followupMs": p.IWantFollowupTime.Milliseconds(), "oppTicks": int(p.OpportunisticGraftTicks), "oppPeers": p.OpportunisticGraftPeers,
		"prunePeers": p.PrunePeers, "gossipFactorPct": int(p.GossipFactor * 100), "hbMs": p.HeartbeatInterval.Milliseconds(),
		"thr": M{"gossip": int(th.GossipThreshold), "publish": int(th.PublishThreshold), "graylist": int(th.GraylistThreshold),
			"acceptPX": int(th.AcceptPXThreshold), "oppGraft": int(th.OpportunisticGraftThreshold)}}
}

// ---------------------------------------------------------------------------
// peer records

// otherDomainRec is a PeerRecord that seals under a different envelope domain.
type otherDomainRec struct{ *peer.PeerRecord }

func (r *otherDomainRec) Domain() string { return "verif-not-the-peer-record-domain" }

// notPeerRec is a registered record type of the peer-record DOMAIN that is not a PeerRecord.
type notPeerRec struct{ data []byte }

func (r *notPeerRec) Domain() string                 { return peer.PeerRecordEnvelopeDomain }
func (r *notPeerRec) Codec() []byte                  { return []byte{0x03, 0x7f} }
func (r *notPeerRec) MarshalRecord() ([]byte, error) { return r.data, nil }
func (r *notPeerRec) UnmarshalRecord(b []byte) error { r.data = append([]byte(nil), b...); return nil }

func init() { record.RegisterType(&notPeerRec{}) }

func seal(t testing.TB, rec record.Record, key crypto.PrivKey) []byte {
	env, err := record.Seal(rec, key)
	if err != nil {
		t.Fatalf("c09: seal: %v", err)
	}
	b, err := env.Marshal()
	if err != nil {
		t.Fatalf("c09: marshal envelope: %v", err)
	}
	return b
}

func newIdentity(t testing.TB) (crypto.PrivKey, peer.ID) {
	priv, pub, err := crypto.GenerateEd25519Key(rand.Reader)
	if err != nil {
		t.Fatal(err)
	}
	id, err := peer.IDFromPublicKey(pub)
	if err != nil {
		t.Fatal(err)
	}
	return priv, id
}

type run struct {
	t       *testing.T
	w       *world.World
	third   map[string]peer.ID // "hN" -> identity
	blocked atomic.Bool
	gate    chan struct{}
	valOn   bool
}

var someAddr = ma.StringCast("/ip4/10.9.9.9/udp/4001/quic-v1")

// pxInfo builds the PeerInfo for one peer-exchange entry.
func (r *run) pxInfo(x, class string) *pb.PeerInfo {
	if f := r.w.Fakes[x]; f != nil {
		return &pb.PeerInfo{PeerID: []byte(f.ID())}
	}
	if class == "valid" {
		// a real host that is not connected to the node under test
		h := r.w.Net.Take()
		r.third[x] = h.ID()
		r.w.Names.AddPeer(h.ID(), x)
		rec := &peer.PeerRecord{PeerID: h.ID(), Addrs: h.Addrs(), Seq: 1}
		return &pb.PeerInfo{PeerID: []byte(h.ID()), SignedPeerRecord: seal(r.t, rec, h.Peerstore().PrivKey(h.ID()))}
	}
	priv, id := newIdentity(r.t)
	r.third[x] = id
	r.w.Names.AddPeer(id, x)
	pi := &pb.PeerInfo{PeerID: []byte(id)}
	switch class {
	case "none":
	case "wrongid":
		opriv, oid := newIdentity(r.t)
		pi.SignedPeerRecord = seal(r.t, &peer.PeerRecord{PeerID: oid, Addrs: []ma.Multiaddr{someAddr}, Seq: 1}, opriv)
	case "baddomain":
		pi.SignedPeerRecord = seal(r.t, &otherDomainRec{&peer.PeerRecord{PeerID: id, Addrs: []ma.Multiaddr{someAddr}, Seq: 1}}, priv)
	case "garbage":
		pi.SignedPeerRecord = []byte("this is not a signed envelope")
	case "notrecord":
		pi.SignedPeerRecord = seal(r.t, &notPeerRec{data: []byte("not a peer record")}, priv)
	default:
		r.t.Fatalf("c09: unknown record class %q", class)
	}
	return pi
}

func (r *run) message(f *hnet.FakePeer, name, topic string) *pb.Message {
	if m := r.w.Msg(name); m != nil {
		return m
	}
	m := f.NewMessage(name, topic, 16, true)
	r.w.RegMsg(name, m)
	return m
}

// rpc sends one RPC with any mix of parts and emits its step line.
func (r *run) rpc(a M) {
	w := r.w
	f := w.Fakes[gets(a, "p")]
	if f == nil {
		r.t.Fatalf("c09: rpc from unknown peer %v", a["p"])
	}
	out := &pb.RPC{}
	ctl := &pb.ControlMessage{}
	for _, s := range list(a, "subs") {
		sm := s.(map[string]any)
		t, v := gets(sm, "t"), getb(sm, "v")
		out.Subscriptions = append(out.Subscriptions, &pb.RPC_SubOpts{Topicid: &t, Subscribe: &v})
	}
	for _, x := range list(a, "msgs") {
		xm := x.(map[string]any)
		out.Publish = append(out.Publish, r.message(f, gets(xm, "m"), gets(xm, "t")))
	}
	for _, t := range strl(list(a, "graft")) {
		t := t
		ctl.Graft = append(ctl.Graft, &pb.ControlGraft{TopicID: &t})
	}
	for _, x := range list(a, "prune") {
		xm := x.(map[string]any)
		t := gets(xm, "t")
		pr := &pb.ControlPrune{TopicID: &t}
		if bo := geti(xm, "bo", 0); bo > 0 {
			b := uint64(bo)
			pr.Backoff = &b
		}
		for _, e := range list(xm, "px") {
			em := e.(map[string]any)
			pr.Peers = append(pr.Peers, r.pxInfo(gets(em, "x"), gets(em, "rec")))
		}
		ctl.Prune = append(ctl.Prune, pr)
	}
	for _, x := range list(a, "ihave") {
		xm := x.(map[string]any)
		t := gets(xm, "t")
		ctl.Ihave = append(ctl.Ihave, &pb.ControlIHave{TopicID: &t, MessageIDs: w.RealIDs(strl(list(xm, "ids")))})
	}
	if ids := strl(list(a, "iwant")); len(ids) > 0 {
		ctl.Iwant = append(ctl.Iwant, &pb.ControlIWant{MessageIDs: w.RealIDs(ids)})
	}
	if ids := strl(list(a, "idontwant")); len(ids) > 0 {
		ctl.Idontwant = append(ctl.Idontwant, &pb.ControlIDontWant{MessageIDs: w.RealIDs(ids)})
	}
	if len(ctl.Graft)+len(ctl.Prune)+len(ctl.Ihave)+len(ctl.Iwant)+len(ctl.Idontwant) > 0 {
		out.Control = ctl
	}
	w.Guard()
	if err := f.Send(out); err != nil {
		r.t.Fatalf("c09: send: %v", err)
	}
	hnet.Settle(15 * time.Millisecond)
	w.Emit(a)
}

func rpcAct(p string) M {
	return M{"a": "rpc", "p": p, "subs": []any{}, "msgs": []any{}, "graft": []any{}, "prune": []any{}, "ihave": []any{}, "iwant": []any{}, "idontwant": []any{}}
}

// gaterPrep makes the gater throttle RPCs of peer p (see the file comment).
func (r *run) gaterPrep(a M) {
	w := r.w
	p, t := gets(a, "p"), gets(a, "t")
	if !r.valOn {
		r.valOn = true
		r.gate = make(chan struct{})
		err := w.NUT.RegisterTopicValidator(t, func(ctx context.Context, from peer.ID, msg *pubsub.Message) pubsub.ValidationResult {
			if strings.HasPrefix(string(msg.GetData()), "bad") {
				return pubsub.ValidationReject
			}
			// locally published messages are validated on the caller's goroutine: never park those
			if r.blocked.Load() && from != w.H.ID() {
				select {
				case <-r.gate:
				case <-ctx.Done():
				}
			}
			return pubsub.ValidationAccept
		}, pubsub.WithValidatorInline(true))
		if err != nil {
			r.t.Fatalf("c09: register validator: %v", err)
		}
	}
	// 1. poor goodput for p: rejected messages (one per RPC so that none overflows the queue)
	for i := 1; i <= 4; i++ {
		x := rpcAct(p)
		x["msgs"] = []any{map[string]any{"m": vh.Sprintf("bad%d", i), "t": t}}
		r.rpc(x)
	}
	// 2. park the only validation worker, then overflow the queue from another peer
	other := "p2"
	if p == other {
		other = "p3"
	}
	r.blocked.Store(true)
	x := rpcAct(other)
	x["msgs"] = []any{map[string]any{"m": "g1", "t": t}}
	r.rpc(x) // taken by the worker, parked in the validator
	x = rpcAct(other)
	var ms []any
	for i := 2; i <= 9; i++ {
		ms = append(ms, map[string]any{"m": vh.Sprintf("g%d", i), "t": t})
	}
	x["msgs"] = ms
	r.rpc(x) // one fills the queue, the others are rejected: queue full
}

func (r *run) gaterRelease(a M) {
	if r.blocked.Load() {
		r.blocked.Store(false)
		close(r.gate)
		r.gate = make(chan struct{})
	}
	r.w.Guard()
	hnet.Settle(15 * time.Millisecond)
	r.w.Emit(a)
}

func marker(i int) {
	if p := os.Getenv("VERIF_MARKER"); p != "" {
		os.WriteFile(p, []byte(vh.Sprintf("%d", i)), 0o644)
	}
}

func runScenario(t *testing.T, out *vh.Out, idx int, s scenario) {
	synctest.Test(t, func(t *testing.T) {
		cfg := configFrom(s.Cfg)
		ra := resetArgs(cfg)
		ra["fam"] = s.Fam
		w := world.New(t, out, idx, cfg, ra)
		r := &run{t: t, w: w, third: map[string]peer.ID{}}
		defer w.Close()
		defer func() {
			if r.blocked.Load() {
				r.blocked.Store(false)
				close(r.gate)
			}
		}()
		w.Extra = func(w *world.World, line M) {
			hc := []string{}
			for n, f := range w.Fakes {
				if w.H.Network().Connectedness(f.ID()) == network.Connected {
					hc = append(hc, n)
				}
			}
			for n, id := range r.third {
				if w.H.Network().Connectedness(id) == network.Connected {
					hc = append(hc, n)
				}
			}
			sort.Strings(hc)
			line["hostconn"] = hc
			line["vblocked"] = r.blocked.Load()
		}
		for _, a := range s.Acts {
			switch gets(a, "a") {
			case "rpc":
				r.rpc(a)
			case "gaterprep":
				r.gaterPrep(a)
			case "gaterrelease":
				r.gaterRelease(a)
			default:
				if !w.Do(a) {
					t.Fatalf("unknown action %v", a)
				}
			}
		}
	})
}

// TestC09Replay replays the scenarios of VERIF_IN.
func TestC09Replay(t *testing.T) {
	scns := vh.ReadScenarios[scenario](t, "VERIF_IN")
	out := vh.NewOut(t, "VERIF_OUT")
	only := vh.EnvInt("VERIF_ONLY", -1)
	for i, s := range scns {
		if only >= 0 && i != only {
			continue
		}
		marker(i)
		runScenario(t, out, i, s)
	}
}
