// TestX07Node replays TLC-generated scenarios on ONE real node that was built with WithSubscriptionFilter
// (allowlist or regexp filter, optionally wrapped by WrapLimitSubscriptionFilter) and wire-level fake peers,
// through the shared `world` interpreter. Stimuli of its own: "rpc" (ONE RPC carrying a list of subscription
// entries, messages and GRAFTs together) and the topic API (join, subscribe, psubscribe = the deprecated
// PubSub.Subscribe, ppublish = the deprecated PubSub.Publish, relay, cancel, unrelay, publish), done here
// rather than by `world` so that a refused Join is recorded ("err") instead of failing the test.
// Every step line also carries: "bel" (p.topics with the partial flag), "lp" (ListPeers per topic), "gt"
// (GetTopics), "pev" (peer events read from an event handler of every joined topic), "dlv" (messages the
// subscriptions returned). Drivers never judge; SubFilterNodeTrace.tla does.
package x07

import (
	"os"
	"regexp"
	"sort"
	"strings"
	"sync"
	"testing"
	"testing/synctest"
	"time"

	pubsub "github.com/libp2p/go-libp2p-pubsub"
	pb "github.com/libp2p/go-libp2p-pubsub/pb"

	"verifharness/hnet"
	"verifharness/vh"
	"verifharness/world"
)

type nodeScenario struct {
	Cfg  M   `json:"cfg"`
	Acts []M `json:"acts"`
}

func geti(m M, k string, def int) int {
	switch v := m[k].(type) {
	case float64:
		return int(v)
	case int:
		return v
	}
	return def
}
func gets(m M, k string) string { s, _ := m[k].(string); return s }
func getl(m M, k string) []any  { l, _ := m[k].([]any); return l }
func strl(m M, k string) []string {
	out := []string{}
	for _, x := range getl(m, k) {
		if s, ok := x.(string); ok {
			out = append(out, s)
		}
	}
	return out
}

func marker(i int) {
	if p := os.Getenv("VERIF_MARKER"); p != "" {
		os.WriteFile(p, []byte(vh.Sprintf("%d", i)), 0o644)
	}
}

func shard(i int) bool {
	n := vh.EnvInt("VERIF_SHARDS", 1)
	k := vh.EnvInt("VERIF_SHARD", 0)
	if only := vh.EnvInt("VERIF_ONLY", -1); only >= 0 {
		return i == only
	}
	return n <= 1 || i%n == k
}

type nodeDriver struct {
	w      *world.World
	u      []string
	topics map[string]*pubsub.Topic
	subs   map[string][]*pubsub.Subscription
	relays map[string][]pubsub.RelayCancelFunc
	nsub   int

	mu    sync.Mutex
	dlv   []any
	pev   []any
	extra M
}

func errClass(err error) string {
	switch {
	case err == nil:
		return ""
	case strings.Contains(err.Error(), "not allowed by the subscription filter"):
		return "filter"
	default:
		return "err:" + err.Error()
	}
}

// handle returns the Topic handle, joining on first use (and attaching an event handler whose events are recorded).
func (d *nodeDriver) handle(t string) (*pubsub.Topic, error) {
	if tp, ok := d.topics[t]; ok {
		return tp, nil
	}
	tp, err := d.w.NUT.Join(t)
	if err != nil {
		return nil, err
	}
	d.topics[t] = tp
	if h, err := tp.EventHandler(); err == nil {
		go func() {
			for {
				ev, err := h.NextPeerEvent(d.w.Ctx)
				if err != nil {
					return
				}
				k := "join"
				if ev.Type == pubsub.PeerLeave {
					k = "leave"
				}
				d.mu.Lock()
				d.pev = append(d.pev, M{"t": t, "p": d.w.Names.P(ev.Peer), "k": k})
				d.mu.Unlock()
			}
		}()
	}
	return tp, nil
}

func (d *nodeDriver) read(t string, s *pubsub.Subscription) {
	d.nsub++
	name := vh.Sprintf("s%d", d.nsub)
	d.subs[t] = append(d.subs[t], s)
	w := d.w
	go func() {
		for {
			msg, err := s.Next(w.Ctx)
			if err != nil {
				return
			}
			id := msg.ID
			if id == "" {
				id = hnet.DefaultMsgID(msg.Message)
			}
			d.mu.Lock()
			d.dlv = append(d.dlv, M{"sub": name, "topic": msg.GetTopic(), "m": w.Names.MsgFromData(id, msg.GetData())})
			d.mu.Unlock()
		}
	}()
}

func payload(name string) []byte {
	data := []byte(name + "|")
	for len(data) < 16 {
		data = append(data, '.')
	}
	return data
}

func (d *nodeDriver) api(a M) error {
	w := d.w
	t := gets(a, "t")
	switch gets(a, "a") {
	case "join":
		_, err := d.handle(t)
		return err
	case "subscribe":
		tp, err := d.handle(t)
		if err != nil {
			return err
		}
		s, err := tp.Subscribe()
		if err != nil {
			return err
		}
		d.read(t, s)
	case "psubscribe":
		// the deprecated PubSub.Subscribe goes through tryJoin itself; take the handle first where Join works so
		// that later actions still find one
		d.handle(t)
		s, err := w.NUT.Subscribe(t)
		if err != nil {
			return err
		}
		d.read(t, s)
	case "ppublish":
		d.handle(t)
		return w.NUT.Publish(t, payload(gets(a, "m")))
	case "publish":
		tp, err := d.handle(t)
		if err != nil {
			return err
		}
		return tp.Publish(w.Ctx, payload(gets(a, "m")))
	case "relay":
		tp, err := d.handle(t)
		if err != nil {
			return err
		}
		c, err := tp.Relay()
		if err != nil {
			return err
		}
		d.relays[t] = append(d.relays[t], c)
	case "cancel":
		if l := d.subs[t]; len(l) > 0 {
			l[len(l)-1].Cancel()
			d.subs[t] = l[:len(l)-1]
		}
	case "unrelay":
		if l := d.relays[t]; len(l) > 0 {
			l[len(l)-1]()
			d.relays[t] = l[:len(l)-1]
		}
	}
	return nil
}

func (d *nodeDriver) rpc(t *testing.T, a M) {
	w := d.w
	f := w.Fakes[gets(a, "p")]
	if f == nil {
		t.Fatalf("rpc from unknown peer: %v", a)
	}
	rpc := &pb.RPC{}
	for _, x := range getl(a, "subs") {
		e, _ := x.(M)
		tp, _ := e["t"].(string)
		s, _ := e["s"].(bool)
		r, _ := e["r"].(bool)
		o := &pb.RPC_SubOpts{Topicid: &tp, Subscribe: &s}
		if r {
			o.RequestsPartial = &r
		}
		rpc.Subscriptions = append(rpc.Subscriptions, o)
	}
	for _, x := range getl(a, "msgs") {
		e, _ := x.(M)
		name, _ := e["m"].(string)
		tp, _ := e["t"].(string)
		m := w.Msg(name)
		if m == nil {
			m = f.NewMessage(name, tp, 16, true)
			w.RegMsg(name, m)
		}
		rpc.Publish = append(rpc.Publish, m)
	}
	if g := strl(a, "graft"); len(g) > 0 {
		rpc.Control = hnet.GraftRPC(g...).Control
	}
	f.Send(rpc)
}

func (d *nodeDriver) extraFields(w *world.World, line M) {
	bel := []any{}
	if st := w.RawSnap(); st != nil {
		ts := make([]string, 0, len(st.Topics))
		for t := range st.Topics {
			ts = append(ts, t)
		}
		sort.Strings(ts)
		for _, t := range ts {
			type cell struct {
				p string
				v string
			}
			var cells []cell
			for p, s := range st.Topics[t] {
				v := "sub"
				if s.RequestsPartial {
					v = "subP"
				}
				cells = append(cells, cell{w.Names.P(p), v})
			}
			sort.Slice(cells, func(i, j int) bool { return cells[i].p < cells[j].p })
			for _, c := range cells {
				bel = append(bel, M{"t": t, "p": c.p, "v": c.v})
			}
		}
	}
	line["bel"] = bel
	lp := []any{}
	for _, t := range d.u {
		ps := w.Names.Ps(w.NUT.ListPeers(t))
		sort.Strings(ps)
		lp = append(lp, M{"t": t, "ps": ps})
	}
	line["lp"] = lp
	gt := w.NUT.GetTopics()
	sort.Strings(gt)
	if gt == nil {
		gt = []string{}
	}
	line["gt"] = gt
	d.mu.Lock()
	dlv, pev := d.dlv, d.pev
	d.dlv, d.pev = nil, nil
	d.mu.Unlock()
	if dlv == nil {
		dlv = []any{}
	}
	if pev == nil {
		pev = []any{}
	}
	line["dlv"], line["pev"] = dlv, pev
	line["err"] = ""
	for k, v := range d.extra {
		line[k] = v
	}
	d.extra = nil
}

func (d *nodeDriver) do(t *testing.T, a M) {
	w := d.w
	switch gets(a, "a") {
	case "rpc":
		w.Guard()
		d.rpc(t, a)
		hnet.Settle(15 * time.Millisecond)
		w.Emit(a)
	case "join", "subscribe", "psubscribe", "ppublish", "publish", "relay", "cancel", "unrelay":
		w.Guard()
		err := d.api(a)
		hnet.Settle(15 * time.Millisecond)
		d.extra = M{"err": errClass(err)}
		w.Emit(a)
	default:
		if !w.Do(a) {
			t.Fatalf("unknown action %v", a)
		}
	}
}

func filterFrom(c M) pubsub.SubscriptionFilter {
	allow := strl(c, "allow")
	var f pubsub.SubscriptionFilter
	if gets(c, "kind") == "regexp" {
		q := make([]string, len(allow))
		for i, a := range allow {
			q[i] = regexp.QuoteMeta(a)
		}
		f = pubsub.NewRegexpSubscriptionFilter(regexp.MustCompile("^(" + strings.Join(q, "|") + ")$"))
	} else {
		f = pubsub.NewAllowlistSubscriptionFilter(allow...)
	}
	if l := geti(c, "limit", -1); l >= 0 {
		f = pubsub.WrapLimitSubscriptionFilter(f, l)
	}
	return f
}

func runNode(t *testing.T, out *vh.Out, idx int, s nodeScenario) {
	synctest.Test(t, func(t *testing.T) {
		cfg := world.Config{Router: gets(s.Cfg, "router"), Hosts: geti(s.Cfg, "hosts", 4), Score: true,
			Opts: []pubsub.Option{pubsub.WithSubscriptionFilter(filterFrom(s.Cfg))}}
		d := &nodeDriver{u: strl(s.Cfg, "u"), topics: map[string]*pubsub.Topic{}, subs: map[string][]*pubsub.Subscription{},
			relays: map[string][]pubsub.RelayCancelFunc{}}
		w := world.New(t, out, idx, cfg, M{"u": s.Cfg["u"], "allow": s.Cfg["allow"], "limit": geti(s.Cfg, "limit", -1),
			"kind": gets(s.Cfg, "kind"), "peers": s.Cfg["peers"], "class": gets(s.Cfg, "class")})
		defer w.Close()
		d.w = w
		w.Extra = d.extraFields
		for _, a := range s.Acts {
			d.do(t, a)
		}
	})
}

// TestX07Node replays the scenarios of VERIF_IN (optionally one shard of them).
func TestX07Node(t *testing.T) {
	scns := vh.ReadScenarios[nodeScenario](t, "VERIF_IN")
	out := vh.NewOut(t, "VERIF_OUT")
	for i, s := range scns {
		if !shard(i) {
			continue
		}
		marker(i)
		runNode(t, out, i, s)
	}
}
