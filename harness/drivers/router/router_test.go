// Generic router-family drivers (C06-C09, C13, C16, C17, C19): replay scenario
// files through the world interpreter, or walk randomly (seeded). One NDJSON
// step line per stimulus; TLC trace specifications judge them.
package router

import (
	"encoding/json"
	"math/rand"
	"os"
	"testing"
	"testing/synctest"
	"time"

	pubsub "github.com/libp2p/go-libp2p-pubsub"

	"verifharness/vh"
	"verifharness/world"
)

type M = map[string]any

// scenario is {"cfg":{...},"acts":[{...},...]}.
type scenario struct {
	Cfg  M   `json:"cfg"`
	Acts []M `json:"acts"`
}

func geti(m M, k string, def int) int {
	if v, ok := m[k].(float64); ok {
		return int(v)
	}
	return def
}
func getb(m M, k string) bool { b, _ := m[k].(bool); return b }
func gets(m M, k string) string {
	s, _ := m[k].(string)
	return s
}

// ConfigFrom turns a scenario's cfg object into a world.Config. Recognised
// keys: router, score, penWeight, retainS, flood, px, queue, maxMsg, connmgr,
// gater, testExt, hosts, keepPB, D, Dlo, Dhi, Dscore, Dout, Dlazy, H, G, retx,
// pruneBackoffS, unsubBackoffS, graftFloodS, fanoutTTLS, maxIHaveLen,
// maxIHaveMsgs, maxIDWLen, maxIDWMsgs, idwTTL, idwThreshold, followupMs,
// oppTicks, oppPeers, prunePeers, gossipFactorPct, thr:{gossip,publish,graylist,acceptPX,oppGraft}.
func ConfigFrom(c M) world.Config {
	cfg := world.Config{Router: gets(c, "router"), Score: getb(c, "score"), FloodPublish: getb(c, "flood"),
		DoPX: getb(c, "px"), QueueSize: geti(c, "queue", 0), MaxMsgSize: geti(c, "maxMsg", 0), ConnMgr: getb(c, "connmgr"),
		Gater: getb(c, "gater"), TestExt: getb(c, "testExt"), Hosts: geti(c, "hosts", 8), KeepPB: getb(c, "keepPB"),
		PenWeight: float64(geti(c, "penWeight", 0)), Retain: time.Duration(geti(c, "retainS", 10)) * time.Second}
	p := world.SmallParams()
	p.D, p.Dlo, p.Dhi = geti(c, "D", p.D), geti(c, "Dlo", p.Dlo), geti(c, "Dhi", p.Dhi)
	p.Dscore, p.Dout, p.Dlazy = geti(c, "Dscore", p.Dscore), geti(c, "Dout", p.Dout), geti(c, "Dlazy", p.Dlazy)
	p.HistoryLength, p.HistoryGossip = geti(c, "H", p.HistoryLength), geti(c, "G", p.HistoryGossip)
	p.GossipRetransmission = geti(c, "retx", p.GossipRetransmission)
	p.PruneBackoff = time.Duration(geti(c, "pruneBackoffS", int(p.PruneBackoff/time.Second))) * time.Second
	p.UnsubscribeBackoff = time.Duration(geti(c, "unsubBackoffS", int(p.UnsubscribeBackoff/time.Second))) * time.Second
	p.GraftFloodThreshold = time.Duration(geti(c, "graftFloodS", int(p.GraftFloodThreshold/time.Second))) * time.Second
	p.FanoutTTL = time.Duration(geti(c, "fanoutTTLS", int(p.FanoutTTL/time.Second))) * time.Second
	p.MaxIHaveLength = geti(c, "maxIHaveLen", p.MaxIHaveLength)
	p.MaxIHaveMessages = geti(c, "maxIHaveMsgs", p.MaxIHaveMessages)
	p.MaxIDontWantLength = geti(c, "maxIDWLen", p.MaxIDontWantLength)
	p.MaxIDontWantMessages = geti(c, "maxIDWMsgs", p.MaxIDontWantMessages)
	p.IDontWantMessageTTL = geti(c, "idwTTL", p.IDontWantMessageTTL)
	p.IDontWantMessageThreshold = geti(c, "idwThreshold", p.IDontWantMessageThreshold)
	p.IWantFollowupTime = time.Duration(geti(c, "followupMs", int(p.IWantFollowupTime/time.Millisecond))) * time.Millisecond
	p.OpportunisticGraftTicks = uint64(geti(c, "oppTicks", int(p.OpportunisticGraftTicks)))
	p.OpportunisticGraftPeers = geti(c, "oppPeers", p.OpportunisticGraftPeers)
	p.PrunePeers = geti(c, "prunePeers", p.PrunePeers)
	if v, ok := c["gossipFactorPct"].(float64); ok {
		p.GossipFactor = v / 100
	}
	cfg.Params = &p
	if t, ok := c["thr"].(map[string]any); ok {
		cfg.Thresholds = &pubsub.PeerScoreThresholds{
			GossipThreshold: float64(geti(t, "gossip", -2)), PublishThreshold: float64(geti(t, "publish", -4)),
			GraylistThreshold: float64(geti(t, "graylist", -6)), AcceptPXThreshold: float64(geti(t, "acceptPX", 2)),
			OpportunisticGraftThreshold: float64(geti(t, "oppGraft", 1))}
	}
	return cfg
}

// ResetArgs is what the reset line tells the trace specs about the configuration.
func ResetArgs(c M, cfg world.Config) M {
	p := cfg.Params
	th := cfg.Thresholds
	if th == nil {
		th = &pubsub.PeerScoreThresholds{GossipThreshold: -2, PublishThreshold: -4, GraylistThreshold: -6, AcceptPXThreshold: 2, OpportunisticGraftThreshold: 1}
	}
	return M{"score": cfg.Score, "flood": cfg.FloodPublish, "px": cfg.DoPX, "queue": cfg.QueueSize, "penWeight": int(cfg.PenWeight),
		"D": p.D, "Dlo": p.Dlo, "Dhi": p.Dhi, "Dscore": p.Dscore, "Dout": p.Dout, "Dlazy": p.Dlazy,
		"H": p.HistoryLength, "G": p.HistoryGossip, "retx": p.GossipRetransmission,
		"pruneBackoffMs": p.PruneBackoff.Milliseconds(), "unsubBackoffMs": p.UnsubscribeBackoff.Milliseconds(),
		"graftFloodMs": p.GraftFloodThreshold.Milliseconds(), "fanoutTTLMs": p.FanoutTTL.Milliseconds(),
		"maxIHaveLen": p.MaxIHaveLength, "maxIHaveMsgs": p.MaxIHaveMessages, "maxIDWLen": p.MaxIDontWantLength,
		"maxIDWMsgs": p.MaxIDontWantMessages, "idwTTL": p.IDontWantMessageTTL, "idwThreshold": p.IDontWantMessageThreshold,
		"followupMs": p.IWantFollowupTime.Milliseconds(), "oppTicks": int(p.OpportunisticGraftTicks), "oppPeers": p.OpportunisticGraftPeers,
		"prunePeers": p.PrunePeers, "gossipFactorPct": int(p.GossipFactor * 100), "hbMs": p.HeartbeatInterval.Milliseconds(),
		"thr": M{"gossip": int(th.GossipThreshold), "publish": int(th.PublishThreshold), "graylist": int(th.GraylistThreshold),
			"acceptPX": int(th.AcceptPXThreshold), "oppGraft": int(th.OpportunisticGraftThreshold)}}
}

// marker records which scenario is running so that a crash can be attributed.
func marker(i int) {
	if p := os.Getenv("VERIF_MARKER"); p != "" {
		os.WriteFile(p, []byte(vh.Sprintf("%d", i)), 0o644)
	}
}

func runScenario(t *testing.T, out *vh.Out, idx int, s scenario) {
	synctest.Test(t, func(t *testing.T) {
		cfg := ConfigFrom(s.Cfg)
		w := world.New(t, out, idx, cfg, ResetArgs(s.Cfg, cfg))
		defer w.Close()
		for _, a := range s.Acts {
			if !w.Do(a) {
				t.Fatalf("unknown action %v", a)
			}
		}
	})
}

// TestRouterReplay replays the scenarios of VERIF_IN.
func TestRouterReplay(t *testing.T) {
	scns := vh.ReadScenarios[scenario](t, "VERIF_IN")
	out := vh.NewOut(t, "VERIF_OUT")
	only := vh.EnvInt("VERIF_ONLY", -1)
	for i, s := range scns {
		if only >= 0 && i != only {
			continue
		}
		marker(i)
		runScenario(t, out, i, s)
	}
}

// TestRouterWalk performs seeded random walks. VERIF_WALKS walks of VERIF_STEPS
// steps; the configuration comes from VERIF_CFG (a JSON object) or defaults.
func TestRouterWalk(t *testing.T) {
	out := vh.NewOut(t, "VERIF_OUT")
	walks := vh.EnvInt("VERIF_WALKS", 20)
	steps := vh.EnvInt("VERIF_STEPS", 60)
	var base M
	if c := os.Getenv("VERIF_CFG"); c != "" {
		if err := json.Unmarshal([]byte(c), &base); err != nil {
			t.Fatal(err)
		}
	} else {
		base = M{"score": true}
	}
	rng := rand.New(rand.NewSource(vh.Seed()))
	for i := 0; i < walks; i++ {
		marker(i)
		s := RandomScenario(rng, base, steps)
		if d := os.Getenv("VERIF_DUMP_SCN"); d != "" {
			f, _ := os.OpenFile(d, os.O_APPEND|os.O_CREATE|os.O_WRONLY, 0o644)
			b, _ := json.Marshal(s)
			f.Write(append(b, '\n'))
			f.Close()
		}
		runScenario(t, out, i, s)
	}
}

// RandomScenario draws a random scenario: 3-6 peers of mixed protocol and
// direction, 1-2 topics, and a walk over the whole action alphabet.
func RandomScenario(rng *rand.Rand, base M, steps int) scenario {
	cfg := M{}
	for k, v := range base {
		cfg[k] = v
	}
	if _, ok := cfg["flood"]; !ok {
		cfg["flood"] = rng.Intn(4) == 0
	}
	if _, ok := cfg["px"]; !ok {
		cfg["px"] = rng.Intn(3) == 0
	}
	protos := []string{"v11", "v12", "v13", "v10", "flood", "v12", "v11"}
	topics := []string{"T1", "T2"}
	np := 3 + rng.Intn(4)
	cfg["hosts"] = float64(np + 2)
	var acts []M
	peers := []string{}
	for i := 0; i < np; i++ {
		name := vh.Sprintf("p%d", i+1)
		peers = append(peers, name)
		subs := []any{}
		for _, tp := range topics {
			if rng.Intn(4) != 0 {
				subs = append(subs, tp)
			}
		}
		dir := "in"
		if rng.Intn(2) == 0 {
			dir = "out"
		}
		acts = append(acts, M{"a": "peer", "p": name, "proto": protos[rng.Intn(len(protos))], "dir": dir, "subs": subs})
	}
	nmsg := 0
	pick := func() string { return peers[rng.Intn(len(peers))] }
	topic := func() string { return topics[rng.Intn(len(topics))] }
	msgs := []string{}
	for len(acts) < steps {
		var a M
		switch r := rng.Intn(100); {
		case r < 12:
			a = M{"a": "hb"}
		case r < 20:
			a = M{"a": "subscribe", "t": topic()}
		case r < 24:
			a = M{"a": "cancel", "t": topic()}
		case r < 26:
			a = M{"a": "relay", "t": topic()}
		case r < 27:
			a = M{"a": "unrelay", "t": topic()}
		case r < 37:
			nmsg++
			n := vh.Sprintf("m%d", nmsg)
			msgs = append(msgs, n)
			size := 16
			if rng.Intn(2) == 0 {
				size = 100
			}
			a = M{"a": "msg", "p": pick(), "t": topic(), "m": n, "size": float64(size)}
			if rng.Intn(3) == 0 {
				a["author"] = pick()
			}
		case r < 41 && len(msgs) > 0:
			// a duplicate of an earlier message from another peer
			a = M{"a": "msg", "p": pick(), "t": topic(), "m": msgs[rng.Intn(len(msgs))]}
		case r < 49:
			nmsg++
			n := vh.Sprintf("m%d", nmsg)
			msgs = append(msgs, n)
			a = M{"a": "publish", "t": topic(), "m": n, "size": float64(16 + 84*rng.Intn(2))}
		case r < 56:
			a = M{"a": "graft", "p": pick(), "t": topic()}
		case r < 63:
			a = M{"a": "prune", "p": pick(), "t": topic()}
			if rng.Intn(2) == 0 {
				a["bo"] = float64(1 + rng.Intn(8))
			}
			if rng.Intn(3) == 0 {
				a["px"] = []any{pick()}
			}
		case r < 68:
			a = M{"a": "sub", "p": pick(), "t": topic(), "v": rng.Intn(3) != 0}
		case r < 74:
			ids := []any{}
			for k := 0; k < 1+rng.Intn(4); k++ {
				if len(msgs) > 0 && rng.Intn(2) == 0 {
					ids = append(ids, msgs[rng.Intn(len(msgs))])
				} else {
					ids = append(ids, vh.Sprintf("x%d", rng.Intn(50)))
				}
			}
			a = M{"a": "ihave", "p": pick(), "t": topic(), "ids": ids}
		case r < 80 && len(msgs) > 0:
			ids := []any{}
			for k := 0; k < 1+rng.Intn(3); k++ {
				ids = append(ids, msgs[rng.Intn(len(msgs))])
			}
			a = M{"a": "iwant", "p": pick(), "ids": ids}
		case r < 85 && len(msgs) > 0:
			ids := []any{}
			for k := 0; k < 1+rng.Intn(3); k++ {
				ids = append(ids, msgs[rng.Intn(len(msgs))])
			}
			a = M{"a": "idontwant", "p": pick(), "ids": ids}
		case r < 92:
			a = M{"a": "score", "p": pick(), "v": float64(rng.Intn(12) - 8)}
		case r < 94:
			a = M{"a": "direct", "p": pick(), "on": rng.Intn(2) == 0}
		case r < 96:
			a = M{"a": "down", "p": pick()}
		case r < 98:
			a = M{"a": "peer", "p": pick(), "dir": []string{"in", "out"}[rng.Intn(2)], "subs": []any{topic()}}
		default:
			a = M{"a": "hb"}
		}
		if a != nil {
			acts = append(acts, a)
		}
	}
	return scenario{Cfg: cfg, Acts: acts}
}
