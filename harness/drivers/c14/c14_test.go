// Driver for property C14 (after shutdown every API call returns and every
// library goroutine exits).  It replays scenarios derived from the TLA+ model
// spec/lifecycle/GenLifecycle.tla into a REAL PubSub instance on a simulated
// network under testing/synctest and records, per scenario, one line per API
// call (did it return within the virtual-time watchdog, with which class of
// result) and one line with the library goroutines that are still alive after
// the context was cancelled and the hosts were closed.  The driver never
// judges: TLC validates the lines against spec/lifecycle/LifecycleTrace.tla.
//
// "Within an operation" is reached without repository hooks: the event loop is
// parked inside the handling of one request by a blocking RawTracer callback
// (rec.Recorder.Hook on a Join/Leave/Recv event) or by an application callback
// that the library runs on the loop goroutine (the PublishPartial actions
// function); validators block on harness channels.  No parked goroutine holds a
// library mutex, and every call that sits at its hand-off uses a topic of its
// own (Topic.SetScoreParams / Topic.Close hold the topic's write lock there).
package c14

import (
	"bufio"
	"context"
	"encoding/json"
	"errors"
	"fmt"
	"iter"
	"log/slog"
	"os"
	"regexp"
	"runtime"
	"sort"
	"strconv"
	"strings"
	"sync"
	"sync/atomic"
	"testing"
	"testing/synctest"
	"time"

	pubsub "github.com/libp2p/go-libp2p-pubsub"
	"github.com/libp2p/go-libp2p-pubsub/partialmessages"
	pb "github.com/libp2p/go-libp2p-pubsub/pb"
	"github.com/libp2p/go-libp2p/core/discovery"
	"github.com/libp2p/go-libp2p/core/peer"

	"verifharness/hnet"
	"verifharness/rec"
	"verifharness/vh"
	"verifharness/world"
)

// ---------------------------------------------------------------------------
// scenario input

type callSpec struct {
	API   string `json:"api"`
	Pat   string `json:"pat"`
	Phase string `json:"phase"` // before handling handoff validator sendq barefull after
}

type postSpec struct {
	API  string `json:"api"`
	Pat  string `json:"pat"`
	N    int    `json:"n"`
	When string `json:"when"` // afterParked | after
}

type scenario struct {
	ID     int        `json:"id"`
	Shape  int        `json:"shape"`
	Router string     `json:"router"`
	Disc   bool       `json:"disc"`
	Tcbl   bool       `json:"tcbl"`
	Calls  []callSpec `json:"calls"`
	Parker int        `json:"parker"` // index (1-based) in Calls, 0 = loop not parked, -1 = parked on an incoming RPC
	Tick   bool       `json:"tick"`
	Wval   bool       `json:"wval"`
	BatchQ int        `json:"batchq"`
	Post   []postSpec `json:"post"`
	ValCtx bool       `json:"valctx"` // validators return when the instance context is cancelled
	// Backlog: more validations than sendMsg has room for (32) are in progress at the cancellation and
	// finish after it: "local" = 40 Topic.Publish callers inside a gated validator, "remote" = 40 received
	// messages inside a gated asynchronous validator plus both validation workers inside a gated inline one.
	Backlog string `json:"backlog"`
	// BacklogPre: the backlog's gates open while the loop is parked BEFORE the cancellation, so that callers,
	// validation goroutines and workers sit in sendMsgBlocking at the instant of Cancel. DefVal: a default
	// validator is configured, so received messages take the multi-validator path (validateTopic).
	BacklogPre bool `json:"backlogpre"`
	DefVal     bool `json:"defval"`
	// Fam: a fixed scenario family that brings one library goroutine to one of its blocking points at the
	// instant of the cancellation (see playFam): retry-sleep retry-hand flood newpeer backoff early-cancel
	// early-park direct
	Fam string `json:"fam"`
	// Site: for fam "cbcancel" the callback running on the event loop inside which the context is cancelled
	// (every other goroutine then runs to completion BEFORE the loop is released: each hand-off the loop
	// performs after the callback meets a partner that is gone); for fam "bootstrap" the blocking point of
	// discover.Bootstrap at which a Publish(WithReadiness) with discovery configured stands at Cancel.
	Site string `json:"site"`
}

// ---------------------------------------------------------------------------
// output (flushed after every scenario: a panic in a library goroutine kills the process)

type outFile struct {
	mu sync.Mutex
	f  *os.File
	w  *bufio.Writer
}

func openOut(t *testing.T) *outFile {
	path := os.Getenv("VERIF_OUT")
	if path == "" {
		t.Skip("VERIF_OUT not set (driver is run by bin/check)")
	}
	f, err := os.OpenFile(path, os.O_CREATE|os.O_WRONLY|os.O_APPEND, 0o644)
	if err != nil {
		t.Fatal(err)
	}
	return &outFile{f: f, w: bufio.NewWriterSize(f, 1<<16)}
}

func (o *outFile) emit(v any) {
	b, err := json.Marshal(v)
	if err != nil {
		panic(err)
	}
	o.mu.Lock()
	o.w.Write(b)
	o.w.WriteByte('\n')
	o.mu.Unlock()
}

func (o *outFile) flush() {
	o.mu.Lock()
	o.w.Flush()
	o.mu.Unlock()
}

func marker(s string) {
	if p := os.Getenv("VERIF_MARKER"); p != "" {
		os.WriteFile(p, []byte(s), 0o644)
	}
}

// ---------------------------------------------------------------------------
// a discovery service for pubsub.WithDiscovery (after /repo/discovery_test.go: dummyDiscovery)

// fakeDiscovery: a discovery round normally takes 700 ms (or until its context ends); with hold set FindPeers
// blocks until the harness opens the gate (or the context ends).
type fakeDiscovery struct {
	hold atomic.Bool
	gate chan struct{}
}

func (*fakeDiscovery) Advertise(ctx context.Context, ns string, opts ...discovery.Option) (time.Duration, error) {
	return time.Hour, nil
}

func (d *fakeDiscovery) FindPeers(ctx context.Context, ns string, opts ...discovery.Option) (<-chan peer.AddrInfo, error) {
	ch := make(chan peer.AddrInfo)
	hold := d.hold.Load()
	go func() {
		if hold {
			select {
			case <-d.gate:
			case <-ctx.Done():
			}
		} else {
			select {
			case <-time.After(700 * time.Millisecond):
			case <-ctx.Done():
			}
		}
		close(ch)
	}()
	return ch, nil
}

// ---------------------------------------------------------------------------
// one scenario

type call struct {
	id    int
	api   string
	pat   string
	phase string
	when  string // before-cancel | at-cancel | after-cancel
	ord   int    // ordinal among the calls of this api made after the cancellation (0 otherwise)
	qord  int    // ordinal of its bare send on a queue whose consumer has stopped (0 = none)
	k     int    // resource index (topic "t<k>")
	topic string // overrides "t<k>"
	done  chan struct{}
	res   string
	retAt int64
	start int64
}

type parkPoint struct {
	armed   atomic.Bool
	match   func(ev rec.M) bool
	entered chan struct{}
	release chan struct{}
}

type run struct {
	t   *testing.T
	s   scenario
	out *outFile

	net    *hnet.Net
	nh     *nutHost
	disc   *fakeDiscovery
	h      *hnet.WrapHost
	extra  []*hnet.FakePeer
	atCancel []string
	p3     *hnet.FakePeer
	ps     *pubsub.PubSub
	rec    *rec.Recorder
	ctx    context.Context
	cancel context.CancelFunc
	p1, p2 *hnet.FakePeer
	pm     *partialmessages.PartialMessagesExtension[struct{}]

	mu       sync.Mutex
	calls    []*call
	topics   map[int]*pubsub.Topic
	subs     map[int]*pubsub.Subscription
	relays   map[int]pubsub.RelayCancelFunc
	batches  map[int]*pubsub.MessageBatch
	valGates map[string]chan struct{}
	valCount map[string]int
	inVal    atomic.Int32
	park     *parkPoint
	partGate chan struct{}
	partIn   chan struct{}
	nextK    int
	nAfter   map[string]int
	batchOrd int // PublishBatch sends since the loop stopped consuming
	discOrd  int // discoverQ sends since the cancellation
	stopped  bool
	cancelAt int64
	notes    []string
}

func (r *run) note(f string, a ...any) { r.notes = append(r.notes, fmt.Sprintf(f, a...)) }

func (r *run) settle() { hnet.Settle(5 * time.Millisecond) }

func (r *run) gate(name string) chan struct{} {
	r.mu.Lock()
	defer r.mu.Unlock()
	g, ok := r.valGates[name]
	if !ok {
		g = make(chan struct{})
		r.valGates[name] = g
	}
	return g
}

func (r *run) openGate(name string) {
	r.mu.Lock()
	defer r.mu.Unlock()
	g, ok := r.valGates[name]
	if !ok {
		g = make(chan struct{})
		r.valGates[name] = g
	}
	select {
	case <-g:
	default:
		close(g)
	}
}

// blockingValidator blocks on a harness gate; like every well-behaved validator it gives up
// when the context it was handed (the INSTANCE context) is cancelled - unless the scenario
// says the application releases it late instead.
func (r *run) blockingValidator(name string) pubsub.ValidatorEx {
	g := r.gate(name)
	return func(ctx context.Context, p peer.ID, m *pubsub.Message) pubsub.ValidationResult {
		r.inVal.Add(1)
		defer r.inVal.Add(-1)
		r.mu.Lock()
		r.valCount[name]++
		r.mu.Unlock()
		defer func() {
			r.mu.Lock()
			r.valCount[name]--
			r.mu.Unlock()
		}()
		if r.s.ValCtx {
			select {
			case <-g:
			case <-ctx.Done():
			}
		} else {
			<-g
		}
		return pubsub.ValidationAccept
	}
}

func (r *run) inValidator(name string) int {
	r.mu.Lock()
	defer r.mu.Unlock()
	return r.valCount[name]
}

func (r *run) topicName(k int) string { return "t" + strconv.Itoa(k) }

func (r *run) join(k int) *pubsub.Topic {
	if t, ok := r.topics[k]; ok {
		return t
	}
	t, err := r.ps.Join(r.topicName(k))
	if err != nil {
		r.t.Fatalf("c14: setup join %d: %v", k, err)
	}
	r.topics[k] = t
	return t
}

var scoreParams = &pubsub.TopicScoreParams{
	TopicWeight: 1, TimeInMeshWeight: 0.01, TimeInMeshQuantum: time.Second, TimeInMeshCap: 10,
	FirstMessageDeliveriesWeight: 1, FirstMessageDeliveriesDecay: 0.5, FirstMessageDeliveriesCap: 10,
	InvalidMessageDeliveriesWeight: -1, InvalidMessageDeliveriesDecay: 0.5,
}

// newCall allocates the call and prepares, BEFORE anything is parked or cancelled, the resources
// its API needs (topic handles, subscriptions to cancel, batches, validators).
func (r *run) newCall(api, pat, phase string) *call {
	r.nextK++
	c := &call{id: len(r.calls) + 1, api: api, pat: pat, phase: phase, k: r.nextK, done: make(chan struct{})}
	r.calls = append(r.calls, c)
	switch api {
	case "Topic.Subscribe", "Topic.Relay", "Topic.Close", "Topic.SetScoreParams", "Topic.EventHandler",
		"Topic.ListPeers", "Topic.Publish", "Topic.AddToBatch", "Topic.PublishReady", "Topic.PublishNotReady":
		r.join(c.k)
	case "PubSub.UnregisterTopicValidator":
		if err := r.ps.RegisterTopicValidator(r.topicName(c.k), func(context.Context, peer.ID, *pubsub.Message) bool { return true }); err != nil {
			r.t.Fatalf("c14: setup validator: %v", err)
		}
	case "Subscription.Cancel":
		s, err := r.join(c.k).Subscribe()
		if err != nil {
			r.t.Fatalf("c14: setup subscribe: %v", err)
		}
		r.subs[c.k] = s
	case "RelayCancelFunc":
		f, err := r.join(c.k).Relay()
		if err != nil {
			r.t.Fatalf("c14: setup relay: %v", err)
		}
		r.relays[c.k] = f
	case "PubSub.PublishBatch":
		b := &pubsub.MessageBatch{}
		if err := r.join(c.k).AddToBatch(context.Background(), b, []byte("batch|"+strconv.Itoa(c.k))); err != nil {
			r.t.Fatalf("c14: setup batch: %v", err)
		}
		r.batches[c.k] = b
	}
	if pat == "Publish" && (phase == "validator" || phase == "sendq") && api != "Topic.PublishNotReady" {
		name := "v" + strconv.Itoa(c.k)
		if phase == "sendq" {
			name = "sq"
		}
		topic := r.topicName(c.k)
		if err := r.ps.RegisterTopicValidator(topic, r.blockingValidator(name)); err != nil {
			r.t.Fatalf("c14: setup blocking validator: %v", err)
		}
	}
	return c
}

func errClass(err error) string {
	switch {
	case err == nil:
		return "ok"
	case errors.Is(err, context.Canceled):
		return "ctx"
	case errors.Is(err, context.DeadlineExceeded):
		return "deadline"
	default:
		return "err"
	}
}

// invoke performs the API call on the calling goroutine and classifies the result.
func (r *run) invoke(c *call) string {
	ps, k := r.ps, c.k
	name := r.topicName(k)
	if c.topic != "" {
		name = c.topic
	}
	switch c.api {
	case "PubSub.Join":
		_, err := ps.Join(name)
		return errClass(err)
	case "PubSub.Subscribe":
		_, err := ps.Subscribe(name)
		return errClass(err)
	case "Topic.Subscribe":
		_, err := r.topics[k].Subscribe()
		return errClass(err)
	case "Topic.Relay":
		_, err := r.topics[k].Relay()
		return errClass(err)
	case "PubSub.GetTopics":
		if ps.GetTopics() == nil {
			return "nil"
		}
		return "ok"
	case "PubSub.RegisterTopicValidator":
		return errClass(ps.RegisterTopicValidator(name, func(context.Context, peer.ID, *pubsub.Message) bool { return true }))
	case "PubSub.UnregisterTopicValidator":
		return errClass(ps.UnregisterTopicValidator(name))
	case "Topic.Close":
		return errClass(r.topics[k].Close())
	case "Topic.SetScoreParams":
		return errClass(r.topics[k].SetScoreParams(scoreParams))
	case "Topic.EventHandler":
		_, err := r.topics[k].EventHandler()
		return errClass(err)
	case "PubSub.AddDirectPeer":
		return errClass(ps.AddDirectPeer(peer.AddrInfo{ID: r.net.Hosts[len(r.net.Hosts)-1].ID()}))
	case "PubSub.RemoveDirectPeer":
		return errClass(ps.RemoveDirectPeer(r.net.Hosts[len(r.net.Hosts)-1].ID()))
	case "PubSub.PeerFeedback":
		return errClass(ps.PeerFeedback(name, r.p1.ID(), pubsub.PeerFeedbackUsefulMessage))
	case "PublishPartial":
		block := c.phase == "handling"
		return errClass(pubsub.PublishPartial(ps, name, []byte("g"), func(map[peer.ID]struct{}, func(peer.ID) bool) iter.Seq2[peer.ID, partialmessages.PublishAction] {
			if block {
				close(r.partIn)
				<-r.partGate
			}
			return func(func(peer.ID, partialmessages.PublishAction) bool) {}
		}))
	case "Subscription.Cancel":
		r.subs[k].Cancel()
		return "void"
	case "PubSub.BlacklistPeer":
		if k%2 == 0 || c.phase == "before" {
			ps.BlacklistPeer(r.p2.ID())
		} else {
			ps.BlacklistPeer(r.net.Hosts[len(r.net.Hosts)-1].ID())
		}
		return "void"
	case "RelayCancelFunc":
		r.relays[k]()
		return "void"
	case "PubSub.ListPeers":
		if ps.ListPeers("shared") == nil {
			return "nil"
		}
		return "ok"
	case "Topic.ListPeers":
		if r.topics[k].ListPeers() == nil {
			return "nil"
		}
		return "ok"
	case "Topic.Publish":
		return errClass(r.topics[k].Publish(context.Background(), []byte("pub|"+strconv.Itoa(k)+"|"+strconv.Itoa(c.id))))
	case "PubSub.Publish":
		return errClass(ps.Publish(name, []byte("ppub|"+strconv.Itoa(k))))
	case "Topic.PublishReady":
		block := c.phase == "handling"
		return errClass(r.topics[k].Publish(context.Background(), []byte("rpub|"+strconv.Itoa(k)),
			pubsub.WithReadiness(func(pubsub.PubSubRouter, string) (bool, error) {
				if block { // runs on the event loop
					close(r.park.entered)
					<-r.park.release
				}
				return true, nil
			})))
	case "Topic.PublishNotReady":
		// the router never becomes ready: the call polls (readiness loop / discover.Bootstrap) until
		// the instance context is cancelled
		return errClass(r.topics[k].Publish(context.Background(), []byte("npub|"+strconv.Itoa(k)),
			pubsub.WithReadiness(func(pubsub.PubSubRouter, string) (bool, error) { return false, nil })))
	case "Topic.AddToBatch":
		return errClass(r.topics[k].AddToBatch(context.Background(), &pubsub.MessageBatch{}, []byte("add|"+strconv.Itoa(k))))
	case "PubSub.PublishBatch":
		return errClass(ps.PublishBatch(r.batches[k]))
	}
	r.t.Fatalf("c14: unknown api %q", c.api)
	return ""
}

// usesDiscoverQ: the APIs whose first blocking step is discover.Discover (a send on discoverQ).
// PubSub.Subscribe starts with tryJoin's hand-off and only then behaves like Topic.Subscribe.
func usesDiscoverQ(api string) bool {
	return api == "Topic.Subscribe" || api == "Topic.Relay"
}

// start runs the call on a goroutine of its own.
func (r *run) start(c *call) {
	c.start = hnet.NowMs()
	switch {
	case !r.stopped:
		c.when = "before-cancel"
	default:
		c.when = "after-cancel"
		r.nAfter[c.api]++
		c.ord = r.nAfter[c.api]
	}
	if c.api == "PubSub.PublishBatch" && r.s.Router == "gossipsub" && (r.stopped || r.loopParked()) {
		r.batchOrd++
		c.qord = r.batchOrd
	}
	if r.s.Disc && usesDiscoverQ(c.api) && r.stopped {
		r.discOrd++
		c.qord = r.discOrd
	}
	go func() {
		res := r.invoke(c)
		c.res = res
		c.retAt = hnet.NowMs()
		close(c.done)
	}()
}

func (r *run) loopParked() bool {
	if r.park == nil {
		return false
	}
	select {
	case <-r.park.entered:
		select {
		case <-r.park.release:
			return false
		default:
			return true
		}
	default:
		return false
	}
}

func returned(c *call) bool {
	select {
	case <-c.done:
		return true
	default:
		return false
	}
}

// ---------------------------------------------------------------------------

// nutHost is the host handed to the node under test: hnet.WrapHost (gated writes, held stream opens) plus
// Connect calls to chosen peers that hang until the caller's context ends (an unreachable direct peer).
type nutHost struct {
	*hnet.WrapHost
	mu   sync.Mutex
	hang map[peer.ID]bool
}

func (h *nutHost) Connect(ctx context.Context, pi peer.AddrInfo) error {
	h.mu.Lock()
	hang := h.hang[pi.ID]
	h.mu.Unlock()
	if hang {
		<-ctx.Done()
		return ctx.Err()
	}
	return h.WrapHost.Connect(ctx, pi)
}

func (r *run) build() {
	s := r.s
	nHosts := 8
	if s.Fam == "flood" {
		nHosts = 30
	}
	r.net = hnet.New(r.t, nHosts, false)
	h := hnet.Wrap(r.net.Take())
	r.h = h
	r.nh = &nutHost{WrapHost: h, hang: map[peer.ID]bool{}}
	names := hnet.NewNames()
	names.AddPeer(h.ID(), "self")
	r.rec = rec.New(names, h.ID())
	r.rec.Hook = func(ev rec.M) {
		p := r.park
		if p != nil && p.match != nil && p.armed.Load() && p.match(ev) && p.armed.CompareAndSwap(true, false) {
			close(p.entered)
			<-p.release
		}
	}
	r.ctx, r.cancel = context.WithCancel(context.Background())
	opts := []pubsub.Option{pubsub.WithRawTracer(r.rec), pubsub.WithValidateWorkers(2)}
	if s.DefVal {
		opts = append(opts, pubsub.WithDefaultValidator(func(context.Context, peer.ID, *pubsub.Message) bool { return true }))
	}
	if s.Fam == "cbcancel" && s.Site == "inspector" {
		opts = append(opts, pubsub.WithAppSpecificRpcInspector(func(from peer.ID, _ *pubsub.RPC) error {
			p := r.park // runs on the event loop
			if p != nil && from == r.p1.ID() && p.armed.CompareAndSwap(true, false) {
				close(p.entered)
				<-p.release
			}
			return nil
		}))
	}
	if strings.HasPrefix(s.Fam, "retry") || (s.Fam == "cbcancel" && s.Site == "Drop") {
		opts = append(opts, pubsub.WithPeerOutboundQueueSize(2))
	}
	early := strings.HasPrefix(s.Fam, "early")
	pubsub.DiscoveryPollInitialDelay = 0
	if early {
		pubsub.DiscoveryPollInitialDelay = 700 * time.Millisecond
	}
	if s.Disc {
		r.disc = &fakeDiscovery{gate: make(chan struct{})}
		opts = append(opts, pubsub.WithDiscovery(r.disc))
	}
	if s.Tcbl {
		bl, err := pubsub.NewTimeCachedBlacklist(time.Hour)
		if err != nil {
			r.t.Fatal(err)
		}
		opts = append(opts, pubsub.WithBlacklist(bl))
	}
	var err error
	switch s.Router {
	case "floodsub":
		r.ps, err = pubsub.NewFloodSub(r.ctx, r.nh, opts...)
	case "randomsub":
		r.ps, err = pubsub.NewRandomSub(r.ctx, r.nh, 10, opts...)
	default:
		r.pm = &partialmessages.PartialMessagesExtension[struct{}]{
			Logger:        slog.Default(),
			OnIncomingRPC: func(peer.ID, map[peer.ID]struct{}, *pb.PartialMessagesExtension) error { return nil },
			OnEmitGossip:  func(string, []byte, []peer.ID, map[peer.ID]struct{}) {},
		}
		sp := &pubsub.PeerScoreParams{
			AppSpecificScore: func(peer.ID) float64 { return 0 }, AppSpecificWeight: 1,
			DecayInterval: time.Second, DecayToZero: 0.01, BehaviourPenaltyDecay: 0.999,
			Topics: map[string]*pubsub.TopicScoreParams{},
		}
		th := &pubsub.PeerScoreThresholds{GossipThreshold: -2, PublishThreshold: -4, GraylistThreshold: -6, AcceptPXThreshold: 2, OpportunisticGraftThreshold: 1}
		gp := world.SmallParams()
		var direct []peer.AddrInfo
		if early {
			gp.HeartbeatInitialDelay = 700 * time.Millisecond
			gp.DirectConnectInitialDelay = 700 * time.Millisecond
			direct = append(direct, r.hangingPeer(nHosts-1))
		}
		if s.Fam == "direct" {
			// one connector, one pending slot, three direct peers nobody can reach
			gp.Connectors, gp.MaxPendingConnections = 1, 1
			gp.DirectConnectInitialDelay, gp.DirectConnectTicks = 300*time.Millisecond, 1
			for i := 1; i <= 3; i++ {
				direct = append(direct, r.hangingPeer(nHosts-i))
			}
		}
		if len(direct) > 0 {
			opts = append(opts, pubsub.WithDirectPeers(direct))
		}
		opts = append(opts, pubsub.WithGossipSubParams(gp), pubsub.WithPeerScore(sp, th),
			pubsub.WithPeerGater(pubsub.DefaultPeerGaterParams()), pubsub.WithPartialMessagesExtension(r.pm))
		r.ps, err = pubsub.NewGossipSub(r.ctx, r.nh, opts...)
	}
	if err != nil {
		r.t.Fatalf("c14: cannot build the node: %v", err)
	}
	proto := map[string]string{"gossipsub": "v11", "floodsub": "flood", "randomsub": "random"}[s.Router]
	r.p1 = hnet.NewFakePeer(r.net.Take(), "p1", proto, h.Host)
	r.p2 = hnet.NewFakePeer(r.net.Take(), "p2", proto, h.Host)
	r.p3 = hnet.NewFakePeer(r.net.Take(), "p3", proto, h.Host)
	nExtra := map[string]int{"flood": 22, "newpeer": 2}[s.Fam]
	for i := 0; i < nExtra; i++ {
		r.extra = append(r.extra, hnet.NewFakePeer(r.net.Take(), fmt.Sprintf("x%d", i+1), proto, h.Host))
	}
	names.AddPeer(r.p1.ID(), "p1")
	names.AddPeer(r.p2.ID(), "p2")
	names.AddPeer(r.p3.ID(), "p3")
	for _, f := range r.extra {
		names.AddPeer(f.ID(), f.Name)
	}
	if err := r.p1.DialNUT(); err != nil {
		r.t.Fatalf("c14: connect p1: %v", err)
	}
	if err := hnet.Connect(h.Host, r.p2.H); err != nil {
		r.t.Fatalf("c14: connect p2: %v", err)
	}
	hnet.Settle(20 * time.Millisecond)
	for _, f := range []*hnet.FakePeer{r.p1, r.p2} {
		if err := f.OpenOut(); err != nil {
			r.t.Fatalf("c14: open stream: %v", err)
		}
		f.Send(hnet.SubRPC("shared", true))
	}
	hnet.Settle(20 * time.Millisecond)
}

// hangingPeer registers host i of the simulated network as a peer whose Connect never completes.
func (r *run) hangingPeer(i int) peer.AddrInfo {
	h := r.net.Hosts[i]
	r.nh.mu.Lock()
	r.nh.hang[h.ID()] = true
	r.nh.mu.Unlock()
	return peer.AddrInfo{ID: h.ID(), Addrs: h.Addrs()}
}

// ---------------------------------------------------------------------------
// goroutine inventory

type gor struct {
	id    int
	state string
	funcs []string // innermost first
	locs  []string // "file:line" of each frame
	root  string
}

var gorHeader = regexp.MustCompile(`^goroutine (\d+) \[([^\]]*)\]:`)

func allGoroutines() []gor {
	buf := make([]byte, 1<<22)
	for {
		n := runtime.Stack(buf, true)
		if n < len(buf) {
			buf = buf[:n]
			break
		}
		buf = make([]byte, 2*len(buf))
	}
	var out []gor
	for _, blk := range strings.Split(string(buf), "\n\n") {
		lines := strings.Split(strings.TrimSpace(blk), "\n")
		if len(lines) == 0 {
			continue
		}
		m := gorHeader.FindStringSubmatch(lines[0])
		if m == nil {
			continue
		}
		g := gor{state: m[2]}
		g.id, _ = strconv.Atoi(m[1])
		for _, ln := range lines[1:] {
			if strings.HasPrefix(ln, "\t") {
				if len(g.locs) < len(g.funcs) {
					loc := strings.TrimSpace(ln)
					if i := strings.Index(loc, " +0x"); i > 0 {
						loc = loc[:i]
					}
					g.locs = append(g.locs, loc)
				}
				continue
			}
			if strings.HasPrefix(ln, "created by ") {
				continue
			}
			fn := ln
			if i := strings.LastIndex(fn, "("); i > 0 {
				fn = fn[:i]
			}
			g.funcs = append(g.funcs, fn)
		}
		if len(g.funcs) > 0 {
			g.root = g.funcs[len(g.funcs)-1]
		}
		out = append(out, g)
	}
	return out
}

const libPrefix = "github.com/libp2p/go-libp2p-pubsub"

func shortFn(fn string) string {
	fn = strings.TrimPrefix(fn, libPrefix)
	fn = strings.TrimPrefix(fn, "/")
	fn = strings.TrimPrefix(fn, ".")
	fn = strings.NewReplacer("(*", "", ")", "").Replace(fn)
	// closures: PubSub.handleNewPeer.func1 stays as is; generic instantiation noise goes
	if i := strings.Index(fn, "["); i > 0 {
		fn = fn[:i]
	}
	return fn
}

// libraryGoroutines returns, for every goroutine that is not one of the harness's own call
// goroutines and has library frames, "root>innermost library function".
func libraryGoroutines(exclude map[int]bool) []string {
	var left []string
	for _, g := range allGoroutines() {
		if exclude[g.id] {
			continue
		}
		if strings.HasPrefix(g.root, "verifharness/") || strings.HasPrefix(g.root, "testing.") {
			continue // the harness's own goroutines (API calls are judged by their return)
		}
		top := ""
		for _, fn := range g.funcs {
			if strings.HasPrefix(fn, libPrefix) && !strings.HasPrefix(fn, libPrefix+"/pb.") {
				top = fn
				break
			}
		}
		if top == "" {
			continue
		}
		name := shortFn(top)
		if strings.HasPrefix(g.root, libPrefix) && g.root != top {
			name = shortFn(g.root) + ">" + name
		}
		left = append(left, name)
	}
	sort.Strings(left)
	return left
}

// ---------------------------------------------------------------------------
// blocking points: where every library goroutine stands right now, as
// "root function | innermost library function | statement". The statement is read from the source line of
// the innermost library frame (a select is rendered with the head of each of its cases), so the name
// survives line shifts but changes when an arm is dropped.

var srcCache = map[string][]string{}

func srcLines(path string) []string {
	if l, ok := srcCache[path]; ok {
		return l
	}
	b, err := os.ReadFile(path)
	var l []string
	if err == nil {
		l = strings.Split(string(b), "\n")
	}
	srcCache[path] = l
	return l
}

var spaces = regexp.MustCompile(`\s+`)

func statementAt(loc string) string {
	i := strings.LastIndex(loc, ":")
	if i < 0 {
		return "?"
	}
	n, err := strconv.Atoi(loc[i+1:])
	lines := srcLines(loc[:i])
	if err != nil || n < 1 || n > len(lines) {
		return "?"
	}
	raw := lines[n-1]
	line := strings.TrimSpace(raw)
	if !strings.HasPrefix(line, "select {") {
		return spaces.ReplaceAllString(line, " ")
	}
	indent := raw[:len(raw)-len(strings.TrimLeft(raw, "\t"))]
	var cases []string
	for _, l := range lines[n:] {
		if strings.TrimRight(l, " \t") == indent+"}" {
			break
		}
		if strings.HasPrefix(l, indent+"case ") || strings.HasPrefix(l, indent+"default:") {
			c := strings.TrimSpace(l)
			c = strings.TrimSuffix(strings.TrimSuffix(c, "{"), ":")
			cases = append(cases, spaces.ReplaceAllString(strings.TrimSpace(c), " "))
		}
	}
	return "select{" + strings.Join(cases, "; ") + "}"
}

func pointsNow(exclude map[int]bool) []string {
	seen := map[string]bool{}
	for _, g := range allGoroutines() {
		if exclude[g.id] || strings.HasPrefix(g.root, "testing.") {
			continue
		}
		for i, fn := range g.funcs {
			if strings.HasPrefix(fn, libPrefix) && !strings.HasPrefix(fn, libPrefix+"/pb.") {
				stmt := "?"
				if i < len(g.locs) {
					stmt = statementAt(g.locs[i])
				}
				root := g.root
				if strings.HasPrefix(root, "verifharness/") {
					root = "(caller)" // an API call in progress, on a goroutine of the harness
				} else if !strings.HasPrefix(root, libPrefix) {
					root = "(host)"
				}
				seen[shortFn(root)+" | "+shortFn(fn)+" | "+stmt] = true
				break
			}
		}
	}
	out := make([]string, 0, len(seen))
	for k := range seen {
		out = append(out, k)
	}
	sort.Strings(out)
	return out
}

// ---------------------------------------------------------------------------

func (r *run) play() {
	s := r.s
	r.build()

	// ---- all calls and their resources
	var conc []*call
	for _, cs := range s.Calls {
		conc = append(conc, r.newCall(cs.API, cs.Pat, cs.Phase))
	}
	nSendq := 0
	for _, c := range conc {
		if c.phase == "sendq" {
			nSendq++
		}
	}
	var fillers []*call
	if nSendq > 0 {
		// sendMsg has room for 32 messages: 32 more publishes take them
		for i := 0; i < 32; i++ {
			fillers = append(fillers, r.newCall("Topic.Publish", "Publish", "sendq"))
		}
	}
	type postCall struct {
		c    *call
		when string
	}
	var post []postCall
	for _, p := range s.Post {
		for i := 0; i < p.N; i++ {
			post = append(post, postCall{r.newCall(p.API, p.Pat, "after"), p.When})
		}
	}
	// consumers: Subscription.Next and NextPeerEvent take the CALLER's context
	csub, err := r.join(9000).Subscribe()
	if err != nil {
		r.t.Fatal(err)
	}
	cevt, err := r.topics[9000].EventHandler()
	if err != nil {
		r.t.Fatal(err)
	}
	if s.Wval {
		if err := r.ps.RegisterTopicValidator("wv", r.blockingValidator("wv"), pubsub.WithValidatorInline(true)); err != nil {
			r.t.Fatal(err)
		}
		if _, err := r.ps.Subscribe("wv"); err != nil {
			r.t.Fatal(err)
		}
	}
	const backlogN = 40
	var backlog []*call
	switch s.Backlog {
	case "local":
		r.join(8000)
		if err := r.ps.RegisterTopicValidator(r.topicName(8000), r.blockingValidator("bl")); err != nil {
			r.t.Fatal(err)
		}
		for i := 0; i < backlogN; i++ {
			c := &call{id: len(r.calls) + 1, api: "Topic.Publish", pat: "Publish", phase: "validator", k: 8000, done: make(chan struct{})}
			r.calls = append(r.calls, c)
			backlog = append(backlog, c)
		}
	case "remote":
		if err := r.ps.RegisterTopicValidator("br", r.blockingValidator("bl")); err != nil {
			r.t.Fatal(err)
		}
		if err := r.ps.RegisterTopicValidator("bwk", r.blockingValidator("bw"), pubsub.WithValidatorInline(true)); err != nil {
			r.t.Fatal(err)
		}
		for _, tn := range []string{"br", "bwk"} {
			if _, err := r.ps.Subscribe(tn); err != nil {
				r.t.Fatal(err)
			}
		}
	}
	r.settle()
	hnet.AdvanceTo(1500)

	// ---- calls that complete before the cancellation (one PublishBatch is kept for the parked
	// loop when the model says the batch buffer is occupied at the cancellation)
	var lateBatch *call
	for _, c := range conc {
		if c.phase != "before" || (s.Parker > 0 && conc[s.Parker-1] == c) {
			continue
		}
		if c.api == "PubSub.PublishBatch" && s.BatchQ > 0 && lateBatch == nil && s.Parker != 0 {
			lateBatch = c
			continue
		}
		var probe *call
		if c.api == "PubSub.BlacklistPeer" {
			probe = r.newCall("Topic.Subscribe", "SelSend_Recv", "before")
			if s.Disc {
				probe.pat = "SubscribeDisc"
			}
		}
		r.start(c)
		if probe != nil {
			// the blacklisted peer's queue is closed as soon as the request is handled: an announcement
			// to all peers made at the same virtual instant (before the stream teardown is noticed)
			// must not touch it
			<-c.done
			r.start(probe)
		}
		r.settle()
	}
	hnet.AdvanceTo(2300)

	// ---- a remote message whose validation blocks a validation worker
	if s.Wval {
		r.p1.Send(hnet.MsgRPC(r.p1.NewMessage("w1", "wv", 16, true)))
		r.settle()
		if r.inVal.Load() == 0 {
			r.note("worker did not reach the validator")
		}
	}
	// ---- the backlog: more validations in progress than sendMsg has room for
	for _, c := range backlog {
		r.start(c)
	}
	if s.Backlog == "remote" {
		for b := 0; b < 4; b++ {
			var msgs []*pb.Message
			for i := 0; i < backlogN/4; i++ {
				msgs = append(msgs, r.p1.NewMessage(fmt.Sprintf("r%d", b*10+i), "br", 16, true))
			}
			r.p1.Send(hnet.MsgRPC(msgs...))
			r.settle()
		}
		for i := 0; i < 2; i++ { // one per validation worker
			r.p1.Send(hnet.MsgRPC(r.p1.NewMessage(fmt.Sprintf("w%d", i), "bwk", 16, true)))
			r.settle()
		}
	}
	// ---- publishes that sit in a validator at the cancellation
	for _, c := range append(append([]*call{}, conc...), fillers...) {
		if c.phase == "validator" || c.phase == "sendq" {
			r.start(c)
		}
	}
	r.settle()
	// ---- a peer connects; its outbound stream is held open so that the new-peer goroutines reach
	// their hand-off to the loop only once the loop is parked
	newPeer := s.Tick && s.Parker != 0
	if newPeer {
		r.h.HoldOpen(r.p3.ID())
		if err := r.p3.DialNUT(); err != nil {
			r.note("p3 could not connect: %v", err)
		}
		r.settle()
	}
	hnet.AdvanceTo(2500)

	// ---- park the event loop inside the handling of one request
	if s.Parker != 0 {
		r.park = &parkPoint{entered: make(chan struct{}), release: make(chan struct{})}
		if s.Parker > 0 {
			pc := conc[s.Parker-1]
			pc.phase = "handling"
			if pc.api == "PublishPartial" {
				r.partIn, r.partGate = r.park.entered, r.park.release
			} else {
				topic := r.topicName(pc.k)
				r.park.match = func(ev rec.M) bool {
					k, _ := ev["k"].(string)
					t, _ := ev["topic"].(string)
					return (k == "Join" || k == "Leave") && t == topic
				}
				r.park.armed.Store(true)
			}
			r.start(pc)
		} else {
			r.park.match = func(ev rec.M) bool {
				k, _ := ev["k"].(string)
				p, _ := ev["p"].(string)
				return k == "Recv" && p == "p1"
			}
			r.park.armed.Store(true)
			r.p1.Send(hnet.SubRPC("parker", true))
		}
		r.settle()
		select {
		case <-r.park.entered:
		default:
			r.note("event loop was not parked")
		}
	}
	if lateBatch != nil {
		r.start(lateBatch)
		r.settle()
	}
	// the sendMsg queue fills up while the loop is parked
	if nSendq > 0 {
		r.openGate("sq")
		r.settle()
	}
	for _, c := range conc {
		if c.phase == "handoff" || c.phase == "barefull" {
			r.start(c)
		}
	}
	r.settle()
	if newPeer {
		r.h.ReleaseOpen(r.p3.ID()) // handleNewPeer: NewStream returns, writer started, hand-off to the parked loop
		r.settle()
	}
	if s.Tick && s.Parker != 0 {
		hnet.AdvanceTo(3500) // heartbeat (3100) and discovery poll (3000) now sit at their eval hand-off
	}
	// the state of every call at the instant of the cancellation
	for _, c := range r.calls {
		if c.start != 0 && !returned(c) {
			c.when = "at-cancel"
		}
	}

	// ---- cancellation
	cctx, ccancel := context.WithTimeout(context.Background(), 10*time.Second)
	defer ccancel()
	during := []*call{
		{id: len(r.calls) + 1, api: "Subscription.Next", pat: "CallerCtx", phase: "handoff", done: make(chan struct{})},
		{id: len(r.calls) + 2, api: "TopicEventHandler.NextPeerEvent", pat: "CallerCtx", phase: "handoff", done: make(chan struct{})},
	}
	r.calls = append(r.calls, during...)
	for _, c := range during {
		c := c
		c.start, c.when = hnet.NowMs(), "at-cancel"
		go func() {
			var err error
			if c.api == "Subscription.Next" {
				_, err = csub.Next(cctx)
			} else {
				_, err = cevt.NextPeerEvent(cctx)
			}
			c.res, c.retAt = errClass(err), hnet.NowMs()
			close(c.done)
		}()
	}
	r.settle()
	blAsync, blWorkers := r.inValidator("bl"), r.inValidator("bw")
	if s.Backlog != "" && s.BacklogPre && s.Parker != 0 {
		// the backlog finishes validating while the loop is parked: 32 messages fit sendMsg, the other
		// callers / validation goroutines / workers sit in sendMsgBlocking at the instant of Cancel
		r.openGate("bl")
		r.settle()
		r.openGate("bw")
		r.settle()
	}
	r.atCancel = pointsNow(staleGoroutines)
	r.cancelAt = hnet.NowMs()
	r.cancel()
	r.stopped = true
	r.settle()

	// ---- calls made after the cancellation while the loop is still parked
	for _, c := range conc {
		if c.phase == "after" && s.Parker != 0 && c.id%2 == 0 {
			c.phase = "afterParked"
			r.start(c)
			r.settle()
		}
	}
	for _, p := range post {
		if p.when == "afterParked" && s.Parker != 0 {
			p.c.phase = "afterParked"
			r.start(p.c)
			r.settle()
		}
	}
	// ---- the backlog finishes validating after the cancellation (the loop parked, or gone): the first 32
	// messages fit sendMsg, every further sendMsgBlocking needs its ctx.Done arm
	if s.Backlog != "" {
		r.settle()
		r.openGate("bl")
		r.settle()
		r.openGate("bw")
		r.settle()
	}
	// ---- release the loop and the validators
	if r.park != nil {
		close(r.park.release)
	}
	r.settle()
	r.mu.Lock()
	var gates []string
	for g := range r.valGates {
		gates = append(gates, g)
	}
	r.mu.Unlock()
	for _, g := range gates {
		r.openGate(g)
	}
	r.settle()
	// ---- calls made after the shutdown
	for _, c := range conc {
		if c.phase == "after" && c.start == 0 {
			r.start(c)
			r.settle()
		}
	}
	for _, p := range post {
		if p.c.start == 0 {
			r.start(p.c)
			r.settle()
		}
	}
	after := []*call{
		{id: len(r.calls) + 1, api: "Subscription.Next", pat: "CallerCtx", phase: "after", done: make(chan struct{})},
		{id: len(r.calls) + 2, api: "TopicEventHandler.NextPeerEvent", pat: "CallerCtx", phase: "after", done: make(chan struct{})},
	}
	r.calls = append(r.calls, after...)
	actx, acancel := context.WithTimeout(context.Background(), 5*time.Second)
	defer acancel()
	for _, c := range after {
		c := c
		c.start, c.when = hnet.NowMs(), "after-cancel"
		go func() {
			var err error
			if c.api == "Subscription.Next" {
				_, err = csub.Next(actx)
			} else {
				_, err = cevt.NextPeerEvent(actx)
			}
			c.res, c.retAt = errClass(err), hnet.NowMs()
			close(c.done)
		}()
	}

	r.finish(blAsync, blWorkers)
}

// parkOnRecv parks the event loop inside the RawTracer callback for the next RPC received from p1.
func (r *run) parkOnRecv() {
	r.park = &parkPoint{entered: make(chan struct{}), release: make(chan struct{})}
	r.park.match = func(ev rec.M) bool {
		k, _ := ev["k"].(string)
		p, _ := ev["p"].(string)
		return k == "Recv" && p == "p1"
	}
	r.park.armed.Store(true)
	r.p1.Send(hnet.SubRPC("parker", true))
	r.settle()
	select {
	case <-r.park.entered:
	default:
		r.note("event loop was not parked")
	}
}

// parkAtSite parks the event loop inside one of the callbacks the library runs on it.
func (r *run) parkAtSite(site string) {
	r.park = &parkPoint{entered: make(chan struct{}), release: make(chan struct{})}
	kind := func(k string, extra func(ev rec.M) bool) {
		r.park.match = func(ev rec.M) bool {
			kk, _ := ev["k"].(string)
			return kk == k && (extra == nil || extra(ev))
		}
	}
	fromPeer := func(name string) func(rec.M) bool {
		return func(ev rec.M) bool { p, _ := ev["p"].(string); return p == name }
	}
	subscribeTo := func(topic string, opts ...pubsub.SubOpt) *pubsub.Subscription {
		sub, err := r.ps.Subscribe(topic, opts...)
		if err != nil {
			r.t.Fatalf("c14: cbcancel subscribe %s: %v", topic, err)
		}
		r.settle()
		return sub
	}
	msg := func(name, topic string, sign bool) { r.p1.Send(hnet.MsgRPC(r.p1.NewMessage(name, topic, 16, sign))) }
	arm := func() { r.park.armed.Store(true) }
	switch site {
	case "Up": // OnNewOutboundStream: the loop adopted a new outbound stream and has not yet handed over the hello
		kind("Up", fromPeer("p3"))
		arm()
		if err := r.p3.DialNUT(); err != nil {
			r.note("cbcancel: connect p3: %v", err)
		}
		hnet.Settle(20 * time.Millisecond)
	case "Down":
		kind("Down", fromPeer("p2"))
		arm()
		r.start(r.newCall("PubSub.BlacklistPeer", "SelSend", "before")) // phase "before": targets p2
	case "Join":
		c := r.newCall("PubSub.Subscribe", "SelSend_Recv", "handling")
		kind("Join", nil)
		arm()
		r.start(c)
	case "Leave":
		c := r.newCall("Subscription.Cancel", "SelSend", "handling")
		r.settle()
		r.park.match = func(ev rec.M) bool { k, _ := ev["k"].(string); return k == "Leave" || k == "Join" }
		arm()
		r.start(c)
	case "Graft", "Prune": // gossipsub: p1 and p2 are subscribed to "shared"
		if site == "Graft" {
			c := r.newCall("PubSub.Subscribe", "SelSend_Recv", "handling")
			c.topic = "shared"
			kind("Graft", nil)
			arm()
			r.start(c)
		} else {
			c := r.newCall("Subscription.Cancel", "SelSend", "handling")
			r.subs[c.k].Cancel()
			r.subs[c.k] = subscribeTo("shared")
			hnet.Settle(20 * time.Millisecond)
			kind("Prune", nil)
			arm()
			r.start(c)
		}
	case "Recv":
		kind("Recv", fromPeer("p1"))
		arm()
		r.p1.Send(hnet.SubRPC("parker", true))
	case "Send":
		c := r.newCall("PubSub.Subscribe", "SelSend_Recv", "handling")
		kind("Send", nil)
		arm()
		r.start(c)
	case "Drop":
		r.h.GateWrites(r.p2.ID())
		for i := 0; i < 3; i++ {
			subscribeTo(fmt.Sprintf("fill%d", i))
		}
		c := r.newCall("PubSub.Subscribe", "SelSend_Recv", "handling")
		kind("Drop", fromPeer("p2"))
		arm()
		r.start(c)
	case "Deliver", "Duplicate", "Reject":
		subscribeTo("dl")
		switch site {
		case "Deliver":
			kind("Deliver", nil)
			arm()
			msg("d1", "dl", true)
		case "Duplicate":
			m := r.p1.NewMessage("d1", "dl", 16, true)
			r.p1.Send(hnet.MsgRPC(m))
			hnet.Settle(20 * time.Millisecond)
			kind("Duplicate", nil)
			arm()
			r.p1.Send(hnet.MsgRPC(m)) // the same bytes again
		case "Reject":
			kind("Reject", nil)
			arm()
			msg("d2", "dl", false) // unsigned under StrictSign: rejected on the loop
		}
	case "Undeliverable":
		subscribeTo("ud", pubsub.WithBufferSize(1))
		msg("u1", "ud", true)
		hnet.Settle(20 * time.Millisecond)
		kind("Undeliverable", nil)
		arm()
		msg("u2", "ud", true)
	case "inspector":
		arm()
		r.p1.Send(hnet.SubRPC("parker", true))
	case "filter":
		subscribeTo("fl", pubsub.WithMessageFilter(func(*pubsub.Message) bool {
			p := r.park // runs on the event loop
			if p.armed.CompareAndSwap(true, false) {
				close(p.entered)
				<-p.release
			}
			return true
		}))
		arm()
		msg("f1", "fl", true)
	case "partial":
		c := r.newCall("PublishPartial", "SelSend_SelRecv", "handling")
		r.partIn, r.partGate = r.park.entered, r.park.release
		r.start(c)
	case "ready":
		c := r.newCall("Topic.PublishReady", "Publish", "handling")
		r.start(c)
	default:
		r.t.Fatalf("c14: unknown callback site %q", site)
	}
	hnet.Settle(20 * time.Millisecond)
	select {
	case <-r.park.entered:
	default:
		r.note("event loop was not parked at %s", site)
	}
}

// playFam: fixed scenario families; each brings some library goroutines to one of their blocking points at
// the instant of the cancellation (recorded in "atcancel"), the inventory after the shutdown is the judge.
func (r *run) playFam() {
	s := r.s
	r.build()
	first := r.newCall("PubSub.GetTopics", "SelSend_Recv", "before")
	switch s.Fam {
	case "early-cancel":
		// ~45 ms after construction: heartbeatTimer, pollTimer and the direct-connect goroutine are still
		// in their initial delay (700 ms)
		r.start(first)
		r.settle()
	case "early-park":
		// the loop is parked when the initial delays end: heartbeatTimer and pollTimer sit at their FIRST
		// hand-off to the loop
		r.start(first)
		r.settle()
		r.parkOnRecv()
		hnet.AdvanceTo(900)
	case "retry-sleep", "retry-hand":
		// p2's writes stall, its outbound queue (2 slots) fills up with announcements; the next
		// announcement is dropped and retried by a goroutine that first sleeps 1..1000 ms
		hnet.AdvanceTo(1500)
		r.start(first)
		r.settle()
		r.h.GateWrites(r.p2.ID())
		r.rec.Take()
		dropped := false
		for i := 0; i < 8 && !dropped; i++ {
			c := r.newCall("PubSub.Subscribe", "SelSend_Recv", "before")
			r.start(c)
			<-c.done // the announcement was made while the request was handled; no virtual time has passed
			for _, ev := range r.rec.Take() {
				if k, _ := ev["k"].(string); k == "Drop" {
					if p, _ := ev["p"].(string); p == "p2" {
						dropped = true
					}
				}
			}
			if !dropped {
				r.settle()
			}
		}
		if !dropped {
			r.note("no announcement was dropped")
		}
		if s.Fam == "retry-sleep" {
			time.Sleep(500 * time.Microsecond) // the retry goroutine sleeps at least 1 ms
			synctest.Wait()
		} else {
			r.parkOnRecv()
			time.Sleep(1100 * time.Millisecond) // whatever it slept, the retry now waits for the parked loop
			synctest.Wait()
		}
	case "flood":
		// the loop is parked, 20 peers send 3 RPCs each: the 32 slots of `incoming` fill up and every stream
		// reader is parked handing over its next RPC; then a silent peer closes its stream (ClosedStream
		// notification), a parked peer opens a second stream (the new handler waits for the old one) and a
		// new peer opens its first stream (NewStream notification)
		hnet.AdvanceTo(1500)
		r.start(first)
		r.settle()
		for _, f := range r.extra[:21] {
			if err := f.DialNUT(); err != nil {
				r.note("flood: connect %s: %v", f.Name, err)
			}
		}
		hnet.Settle(20 * time.Millisecond)
		for _, f := range r.extra[:21] {
			if err := f.OpenOut(); err != nil {
				r.note("flood: stream %s: %v", f.Name, err)
			}
			f.Send(hnet.SubRPC("shared", true)) // streams are negotiated lazily: the first frame starts the reader
		}
		hnet.Settle(20 * time.Millisecond)
		r.parkOnRecv()
		for i, f := range r.extra[:20] {
			for j := 0; j < 3; j++ {
				f.Send(hnet.SubRPC(fmt.Sprintf("f%d-%d", i, j), true))
			}
		}
		r.settle()
		r.extra[20].CloseOut()
		if err := r.extra[0].OpenOut(); err != nil {
			r.note("flood: second stream: %v", err)
		}
		r.extra[0].Send(hnet.SubRPC("again", true))
		if err := r.extra[21].DialNUT(); err == nil {
			hnet.Settle(20 * time.Millisecond)
			if err := r.extra[21].OpenOut(); err != nil {
				r.note("flood: late stream: %v", err)
			}
			r.extra[21].Send(hnet.SubRPC("late", true))
		} else {
			r.note("flood: late connect: %v", err)
		}
		hnet.Settle(20 * time.Millisecond)
	case "newpeer":
		// three peers connect with their outbound stream held open; the loop is parked; then one stream
		// opens (hand-off of the stream + writer waiting for its hello), one fails (hand-off of the error),
		// one stays in NewStream
		hnet.AdvanceTo(1500)
		r.start(first)
		r.settle()
		ps := []*hnet.FakePeer{r.p3, r.extra[0], r.extra[1]}
		for _, f := range ps {
			r.h.HoldOpen(f.ID())
		}
		r.h.FailOpen(ps[1].ID(), true)
		for _, f := range ps {
			if err := f.DialNUT(); err != nil {
				r.note("newpeer: connect %s: %v", f.Name, err)
			}
		}
		hnet.Settle(20 * time.Millisecond)
		r.parkOnRecv()
		r.h.ReleaseOpen(ps[0].ID())
		r.h.ReleaseOpen(ps[1].ID())
		r.settle()
	case "backoff":
		// p2 resets the stream we opened to it, twice: the second writer is respawned after a back-off
		// (100 ms) during which the context is cancelled
		hnet.AdvanceTo(1500)
		r.start(first)
		r.settle()
		r.p2.ResetIn()
		hnet.Settle(20 * time.Millisecond)
		r.p2.ResetIn()
		r.settle()
	case "direct":
		// three unreachable direct peers, one connector, one pending slot: the connector hangs in Connect,
		// the goroutines that queue the direct peers (after the initial delay, and at every heartbeat)
		// hang in their send on the connect channel
		r.start(first)
		r.settle()
		hnet.AdvanceTo(500)
	case "cbcancel":
		hnet.AdvanceTo(1500)
		r.start(first)
		r.settle()
		r.parkAtSite(s.Site)
	case "bootstrap":
		// Publish(WithReadiness) with discovery configured, router never ready, caller context without
		// deadline: discover.Bootstrap polls; the call is started after the poll tick at 2000 ms so that the
		// discovery round it waits for is its own
		hnet.AdvanceTo(2050)
		r.start(first)
		r.settle()
		c := r.newCall("Topic.PublishNotReady", "Publish", "validator")
		r.settle()
		switch s.Site {
		case "eval": // the ready check's hand-off to a parked loop
			r.parkOnRecv()
			r.start(c)
			r.settle()
		case "round": // waiting for disc.done while FindPeers is running
			r.disc.hold.Store(true)
			r.start(c)
			r.settle()
		case "timer": // the round is over: the 100 ms pause before the next ready check
			r.disc.hold.Store(true)
			r.start(c)
			r.settle()
			close(r.disc.gate)
			r.settle()
		default:
			r.t.Fatalf("c14: unknown bootstrap site %q", s.Site)
		}
	default:
		r.t.Fatalf("c14: unknown family %q", s.Fam)
	}
	r.atCancel = pointsNow(staleGoroutines)
	for _, c := range r.calls {
		if c.start != 0 && !returned(c) {
			c.when = "at-cancel"
		}
	}
	r.cancelAt = hnet.NowMs()
	r.cancel()
	r.stopped = true
	r.settle()
	if s.Fam == "cbcancel" {
		// every other goroutine runs to completion FIRST: whatever the loop hands over after the callback
		// meets a partner that is gone
		time.Sleep(200 * time.Millisecond)
		synctest.Wait()
	}
	if r.park != nil {
		close(r.park.release)
	}
	r.settle()
	r.finish(0, 0)
}

// finish: watchdog, call lines, closing of the hosts, goroutine inventory, exit line.
func (r *run) finish(blAsync, blWorkers int) {
	s := r.s
	// ---- watchdog: 30 s of virtual time
	time.Sleep(30 * time.Second)
	synctest.Wait()
	for _, c := range r.calls {
		ret := returned(c)
		line := vh.M{"e": "call", "scn": s.ID, "id": c.id, "api": c.api, "apik": strings.ReplaceAll(c.api, ".", ""), "pat": c.pat, "phase": c.phase, "when": c.when,
			"ord": c.ord, "qord": c.qord, "ret": ret, "res": "", "dt": 0}
		if c.start == 0 {
			line["phase"], line["ret"], line["res"] = "notrun", true, "notrun"
		} else if ret {
			line["res"], line["dt"] = c.res, c.retAt-c.start
		}
		r.out.emit(line)
	}

	// ---- the host closes its streams (a write stalled by the harness fails like any other); every
	// library goroutine must be gone
	for _, f := range append([]*hnet.FakePeer{r.p1, r.p2, r.p3}, r.extra...) {
		r.h.UngateWrites(f.ID())
		r.h.ReleaseOpen(f.ID())
	}
	r.net.Close()
	hnet.Settle(2 * time.Second)
	left := libraryGoroutines(staleGoroutines)
	r.out.emit(vh.M{"e": "exit", "scn": s.ID, "left": strings.Join(left, ","), "n": len(left), "notes": strings.Join(r.notes, "; "),
		"backlog": s.Backlog, "bl_n": blAsync, "bl_workers": blWorkers, "bl_parked": s.Backlog != "" && s.Parker != 0, "bl_pre": s.Backlog != "" && s.BacklogPre && s.Parker != 0,
		"fam": s.Fam, "site": s.Site, "atcancel": r.atCancel})
}

// goroutines left behind by earlier scenarios (they stay blocked in their dead bubble)
var staleGoroutines = map[int]bool{}

func runScenario(t *testing.T, out *outFile, s scenario) {
	out.emit(vh.M{"e": "reset", "scn": s.ID, "shape": s.Shape, "router": s.Router, "disc": s.Disc, "tcbl": s.Tcbl,
		"parker": s.Parker, "tick": s.Tick, "wval": s.Wval, "valctx": s.ValCtx, "backlog": s.Backlog})
	func() {
		// a call or a library goroutine that never ends keeps its bubble from draining: synctest
		// reports that as a panic on this goroutine AFTER the scenario's lines were written
		defer func() {
			if e := recover(); e != nil {
				if !strings.Contains(fmt.Sprint(e), "deadlock") {
					panic(e)
				}
			}
		}()
		synctest.Test(t, func(t *testing.T) {
			r := &run{t: t, s: s, out: out, topics: map[int]*pubsub.Topic{}, subs: map[int]*pubsub.Subscription{},
				relays: map[int]pubsub.RelayCancelFunc{}, batches: map[int]*pubsub.MessageBatch{},
				valGates: map[string]chan struct{}{}, valCount: map[string]int{}, nAfter: map[string]int{}}
			defer func() { pubsub.DiscoveryPollInitialDelay = 0 }()
			if s.Fam != "" {
				r.playFam()
			} else {
				r.play()
			}
		})
	}()
	for _, g := range allGoroutines() {
		for _, fn := range g.funcs {
			if strings.HasPrefix(fn, libPrefix) {
				staleGoroutines[g.id] = true
				break
			}
		}
	}
	out.emit(vh.M{"e": "end", "scn": s.ID})
	out.flush()
}

func TestC14Replay(t *testing.T) {
	scns := vh.ReadScenarios[scenario](t, "VERIF_IN")
	out := openOut(t)
	defer out.flush()
	startAt := vh.EnvInt("VERIF_START", 0)
	only := vh.EnvInt("VERIF_ONLY", -1)
	for i, s := range scns {
		if i < startAt || (only >= 0 && s.ID != only) {
			continue
		}
		marker(fmt.Sprintf("%d %d", i, s.ID))
		runScenario(t, out, s)
	}
	marker("done")
}
