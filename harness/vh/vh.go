// Package vh holds helpers shared by the verification drivers: environment,
// NDJSON trace output, scenario input.
package vh

import (
	"bufio"
	"encoding/json"
	"fmt"
	"os"
	"strconv"
	"sync"
	"testing"
)

// Env returns the value of an environment variable or a default.
func Env(name, def string) string {
	if v := os.Getenv(name); v != "" {
		return v
	}
	return def
}

func EnvInt(name string, def int) int {
	if v := os.Getenv(name); v != "" {
		if n, err := strconv.Atoi(v); err == nil {
			return n
		}
	}
	return def
}

func Seed() int64    { return int64(EnvInt("VERIF_SEED", 1)) }
func Tier() string   { return Env("VERIF_TIER", "quick") }
func Thorough() bool { return Tier() == "thorough" }

// Out is an NDJSON writer safe for concurrent use. The order of lines is the
// order in which Emit acquired the lock.
type Out struct {
	mu sync.Mutex
	f  *os.File
	w  *bufio.Writer
	n  int
}

func NewOut(t testing.TB, envName string) *Out {
	path := os.Getenv(envName)
	if path == "" {
		t.Skipf("%s not set (driver is run by bin/check)", envName)
	}
	f, err := os.Create(path)
	if err != nil {
		t.Fatal(err)
	}
	o := &Out{f: f, w: bufio.NewWriterSize(f, 1<<20)}
	t.Cleanup(func() { o.Close() })
	return o
}

func (o *Out) Emit(v any) {
	b, err := json.Marshal(v)
	if err != nil {
		panic(err)
	}
	o.mu.Lock()
	o.w.Write(b)
	o.w.WriteByte('\n')
	o.n++
	if o.n%128 == 0 {
		// the orchestrator watches the file grow to tell a working driver from a wedged one
		o.w.Flush()
	}
	o.mu.Unlock()
}

func (o *Out) Lines() int { o.mu.Lock(); defer o.mu.Unlock(); return o.n }

func (o *Out) Close() {
	o.mu.Lock()
	defer o.mu.Unlock()
	if o.f != nil {
		o.w.Flush()
		o.f.Close()
		o.f = nil
	}
}

// ReadScenarios reads an NDJSON file of scenarios into a slice of T.
func ReadScenarios[T any](t testing.TB, envName string) []T {
	path := os.Getenv(envName)
	if path == "" {
		t.Skipf("%s not set (driver is run by bin/check)", envName)
	}
	f, err := os.Open(path)
	if err != nil {
		t.Fatal(err)
	}
	defer f.Close()
	var out []T
	sc := bufio.NewScanner(f)
	sc.Buffer(make([]byte, 1<<20), 1<<26)
	for sc.Scan() {
		if len(sc.Bytes()) == 0 {
			continue
		}
		var v T
		if err := json.Unmarshal(sc.Bytes(), &v); err != nil {
			t.Fatalf("bad scenario line: %v: %s", err, sc.Text())
		}
		out = append(out, v)
	}
	return out
}

// M is a shorthand for a JSON object.
type M = map[string]any

func Sprintf(f string, a ...any) string { return fmt.Sprintf(f, a...) }
