package unit

import (
	"testing"

	pubsub "github.com/libp2p/go-libp2p-pubsub"
)

func TestSmoke(t *testing.T) {
	q := pubsub.VerifNewRPCQueue(1)
	if err := q.Push(&pubsub.RPC{}, false); err != nil {
		t.Fatal(err)
	}
	if err := q.Push(&pubsub.RPC{}, false); err != pubsub.ErrQueueFull {
		t.Fatal(err)
	}
}
