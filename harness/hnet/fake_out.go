package hnet

import "github.com/libp2p/go-libp2p/core/network"

// OutStream returns the fake peer's current stream to the NUT (the NUT's
// inbound stream), or nil. Drivers that must observe what the NUT does to that
// stream (reset / close) read from it themselves (added for C12).
func (f *FakePeer) OutStream() network.Stream {
	f.mu.Lock()
	defer f.mu.Unlock()
	return f.out
}
