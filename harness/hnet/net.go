// Package hnet is the network side of the verification harness: a simulated
// libp2p network (simnet, virtual time under testing/synctest), raw wire-level
// fake peers, a host wrapper that can gate writes / stream opens and logs
// Connect calls, and a symbol table that turns peer and message ids into the
// short names the TLA+ trace specifications use.
package hnet

import (
	"context"
	"fmt"
	"sort"
	"sync"
	"testing"
	"time"

	"github.com/libp2p/go-libp2p/core/host"
	"github.com/libp2p/go-libp2p/core/network"
	"github.com/libp2p/go-libp2p/core/peer"
	"github.com/libp2p/go-libp2p/core/protocol"
	"github.com/libp2p/go-libp2p/p2p/net/connmgr"
	"github.com/libp2p/go-libp2p/x/simlibp2p"
	"github.com/marcopolo/simnet"
)

// Epoch is the instant a synctest bubble starts at.
var Epoch = time.Date(2000, 1, 1, 0, 0, 0, 0, time.UTC)

// NowMs is the virtual time in milliseconds since the bubble started.
func NowMs() int64 { return time.Since(Epoch).Milliseconds() }

// Settle lets d of virtual time pass and then waits for quiescence.
func Settle(d time.Duration) {
	time.Sleep(d)
	syncWait()
}

// AdvanceTo sleeps until the given virtual millisecond (no-op if already past) and settles.
func AdvanceTo(ms int64) {
	if d := ms - NowMs(); d > 0 {
		time.Sleep(time.Duration(d) * time.Millisecond)
	}
	syncWait()
}

// Net is a simulated network of libp2p hosts.
type Net struct {
	T      testing.TB
	Sim    *simnet.Simnet
	Hosts  []host.Host
	ConnMs []*connmgr.BasicConnMgr
	used   int
}

// New creates n hosts on a simnet with 1 ms latency. When withConnMgr is set
// the hosts are "blank hosts" carrying a real BasicConnMgr (needed to observe
// the connection-manager protections installed by pubsub).
func New(t testing.TB, n int, withConnMgr bool) *Net {
	nw := &Net{T: t}
	settings := simlibp2p.NetworkSettings{}
	if withConnMgr {
		nw.ConnMs = make([]*connmgr.BasicConnMgr, n)
		for i := range nw.ConnMs {
			cm, err := connmgr.NewConnManager(1000, 2000, connmgr.WithGracePeriod(0), connmgr.WithSilencePeriod(time.Hour))
			if err != nil {
				t.Fatal(err)
			}
			nw.ConnMs[i] = cm
		}
		settings.UseBlankHost = true
		settings.BlankHostOptsForHostIdx = func(idx int) simlibp2p.BlankHostOpts {
			return simlibp2p.BlankHostOpts{ConnMgr: nw.ConnMs[idx]}
		}
	}
	sim, meta, err := simlibp2p.SimpleLibp2pNetwork(
		[]simlibp2p.NodeLinkSettingsAndCount{{
			LinkSettings: simnet.NodeBiDiLinkSettings{
				Downlink: simnet.LinkSettings{BitsPerSecond: 1000 * simlibp2p.OneMbps},
				Uplink:   simnet.LinkSettings{BitsPerSecond: 1000 * simlibp2p.OneMbps},
			},
			Count: n,
		}},
		simnet.StaticLatency(time.Millisecond),
		settings,
	)
	if err != nil {
		t.Fatal(err)
	}
	sim.Start()
	nw.Sim, nw.Hosts = sim, meta.Nodes
	t.Cleanup(nw.Close)
	// let every host's identify service finish starting: a stream handler set at the very instant
	// the host was created can be missed by identify (the peer is then never seen as a pubsub peer)
	Settle(10 * time.Millisecond)
	return nw
}

func (n *Net) Close() {
	for _, h := range n.Hosts {
		h.Close()
	}
	n.Sim.Close()
}

// Take hands out the next unused host.
func (n *Net) Take() host.Host {
	if n.used >= len(n.Hosts) {
		n.T.Fatalf("hnet: out of hosts (%d)", len(n.Hosts))
	}
	h := n.Hosts[n.used]
	n.used++
	return h
}

// Connect dials from a to b (a has the outbound connection).
func Connect(a, b host.Host) error {
	// bounded (virtual time): a dial can hang in identify when the peer is being torn down
	ctx, cancel := context.WithTimeout(context.Background(), 10*time.Second)
	defer cancel()
	return a.Connect(ctx, peer.AddrInfo{ID: b.ID(), Addrs: b.Addrs()})
}

// Disconnect closes every connection between a and b (from a's side).
func Disconnect(a, b host.Host) error {
	return a.Network().ClosePeer(b.ID())
}

// ---------------------------------------------------------------------------
// symbol table

// Names maps peer ids and message ids to short symbolic names.
type Names struct {
	mu    sync.Mutex
	peers map[peer.ID]string
	msgs  map[string]string
	nmsg  int
}

func NewNames() *Names {
	return &Names{peers: map[peer.ID]string{}, msgs: map[string]string{}}
}

func (nm *Names) AddPeer(id peer.ID, name string) {
	nm.mu.Lock()
	nm.peers[id] = name
	nm.mu.Unlock()
}

// P names a peer; unknown peers get a stable "x:<suffix>" name.
func (nm *Names) P(id peer.ID) string {
	nm.mu.Lock()
	defer nm.mu.Unlock()
	if s, ok := nm.peers[id]; ok {
		return s
	}
	if id == "" {
		return ""
	}
	s := id.String()
	if len(s) > 6 {
		s = s[len(s)-6:]
	}
	return "x:" + s
}

func (nm *Names) Ps(ids []peer.ID) []string {
	out := make([]string, 0, len(ids))
	for _, id := range ids {
		out = append(out, nm.P(id))
	}
	sort.Strings(out)
	return out
}

func (nm *Names) AddMsg(id, name string) {
	nm.mu.Lock()
	nm.msgs[id] = name
	nm.mu.Unlock()
}

// MsgFromData registers (id -> name) where the name is the prefix of the
// payload up to the first '|' (harness messages are "m3|padding").
func (nm *Names) MsgFromData(id string, data []byte) string {
	name := ""
	for i, b := range data {
		if b == '|' {
			name = string(data[:i])
			break
		}
	}
	nm.mu.Lock()
	defer nm.mu.Unlock()
	if s, ok := nm.msgs[id]; ok {
		return s
	}
	if name == "" {
		nm.nmsg++
		name = fmt.Sprintf("u%d", nm.nmsg)
	}
	nm.msgs[id] = name
	return name
}

// M names a message id; ids the harness never registered are returned in a
// printable form ("x1" stays "x1", binary ids become "#<hex>").
func (nm *Names) M(id string) string {
	nm.mu.Lock()
	defer nm.mu.Unlock()
	if s, ok := nm.msgs[id]; ok {
		return s
	}
	printable := len(id) > 0 && len(id) <= 16
	for i := 0; i < len(id); i++ {
		if id[i] < 0x21 || id[i] > 0x7e || id[i] == '"' || id[i] == '\\' {
			printable = false
		}
	}
	if printable {
		return id
	}
	if len(id) > 8 {
		// first and last bytes: default ids are from||seqno, so the tail tells messages of one author apart
		return fmt.Sprintf("#%x..%x", id[:4], id[len(id)-4:])
	}
	return fmt.Sprintf("#%x", id)
}

// IDOf is the reverse lookup: the real message id registered under a symbolic
// name (e.g. of a message the node under test published itself).
func (nm *Names) IDOf(name string) (string, bool) {
	nm.mu.Lock()
	defer nm.mu.Unlock()
	best, ok := "", false
	for id, n := range nm.msgs {
		if n == name && (!ok || id < best) {
			best, ok = id, true
		}
	}
	return best, ok
}

func (nm *Names) Ms(ids []string) []string {
	out := make([]string, 0, len(ids))
	for _, id := range ids {
		out = append(out, nm.M(id))
	}
	return out
}

// ---------------------------------------------------------------------------
// host wrapper

// WrapHost wraps the host of a node under test. Streams it opens can have
// their writes gated (a deterministic "slow peer"), stream opens can be held
// or failed, and Connect calls are logged.
type WrapHost struct {
	host.Host
	mu         sync.Mutex
	gates      map[peer.ID]chan struct{} // writes to this peer block while a gate is present
	holdOpen   map[peer.ID]chan struct{} // NewStream to this peer waits for the channel to close
	failOpen   map[peer.ID]bool
	Connects   []peer.ID
	OnNewStrm  func(p peer.ID)
	WriteCount map[peer.ID]int
	// OnConnect, when set, is called (outside the lock) at every Connect call before it is forwarded (X06: time-stamped dials).
	OnConnect func(pi peer.AddrInfo)
}

func Wrap(h host.Host) *WrapHost {
	return &WrapHost{Host: h, gates: map[peer.ID]chan struct{}{}, holdOpen: map[peer.ID]chan struct{}{},
		failOpen: map[peer.ID]bool{}, WriteCount: map[peer.ID]int{}}
}

func (w *WrapHost) Connect(ctx context.Context, pi peer.AddrInfo) error {
	w.mu.Lock()
	w.Connects = append(w.Connects, pi.ID)
	hook := w.OnConnect
	w.mu.Unlock()
	if hook != nil {
		hook(pi)
	}
	return w.Host.Connect(ctx, pi)
}

// TakeConnects returns and clears the log of Connect calls.
func (w *WrapHost) TakeConnects() []peer.ID {
	w.mu.Lock()
	defer w.mu.Unlock()
	c := w.Connects
	w.Connects = nil
	return c
}

// GateWrites makes every later Write on streams to p block until UngateWrites.
func (w *WrapHost) GateWrites(p peer.ID) {
	w.mu.Lock()
	if _, ok := w.gates[p]; !ok {
		w.gates[p] = make(chan struct{})
	}
	w.mu.Unlock()
}

func (w *WrapHost) UngateWrites(p peer.ID) {
	w.mu.Lock()
	if g, ok := w.gates[p]; ok {
		close(g)
		delete(w.gates, p)
	}
	w.mu.Unlock()
}

// HoldOpen makes NewStream to p wait until ReleaseOpen; FailOpen makes it fail.
func (w *WrapHost) HoldOpen(p peer.ID) {
	w.mu.Lock()
	if _, ok := w.holdOpen[p]; !ok {
		w.holdOpen[p] = make(chan struct{})
	}
	w.mu.Unlock()
}

func (w *WrapHost) ReleaseOpen(p peer.ID) {
	w.mu.Lock()
	if g, ok := w.holdOpen[p]; ok {
		close(g)
		delete(w.holdOpen, p)
	}
	w.mu.Unlock()
}

func (w *WrapHost) FailOpen(p peer.ID, fail bool) {
	w.mu.Lock()
	w.failOpen[p] = fail
	w.mu.Unlock()
}

func (w *WrapHost) NewStream(ctx context.Context, p peer.ID, pids ...protocol.ID) (network.Stream, error) {
	w.mu.Lock()
	hold := w.holdOpen[p]
	fail := w.failOpen[p]
	w.mu.Unlock()
	if hold != nil {
		select {
		case <-hold:
		case <-ctx.Done():
			return nil, ctx.Err()
		}
		w.mu.Lock()
		fail = w.failOpen[p]
		w.mu.Unlock()
	}
	if fail {
		return nil, fmt.Errorf("hnet: stream open to %s failed on request", p)
	}
	s, err := w.Host.NewStream(ctx, p, pids...)
	if err != nil {
		return nil, err
	}
	return &gatedStream{Stream: s, w: w, p: p}, nil
}

type gatedStream struct {
	network.Stream
	w *WrapHost
	p peer.ID
}

func (g *gatedStream) Write(b []byte) (int, error) {
	g.w.mu.Lock()
	gate := g.w.gates[g.p]
	g.w.mu.Unlock()
	if gate != nil {
		<-gate
	}
	g.w.mu.Lock()
	g.w.WriteCount[g.p]++
	g.w.mu.Unlock()
	return g.Stream.Write(b)
}
