package hnet

import "github.com/libp2p/go-libp2p/core/peer"

// Add-only accessors used by the C16 driver (kept in a file of their own so
// that they cannot collide with edits to fake.go).

// InboundTotal reports how many streams the node under test has opened to this
// fake peer so far (ended ones included).
func (f *FakePeer) InboundTotal() int {
	f.mu.Lock()
	defer f.mu.Unlock()
	return len(f.inStreams)
}

// StepWrite lets exactly the Write that is currently blocked on p's gate go
// through and keeps p gated: the gate is swapped under the wrapper's lock, so
// the next Write on a stream to p blocks again. With no gate installed it
// installs one. (C16: the backlog of a closed queue must not reach the wire.)
func (w *WrapHost) StepWrite(p peer.ID) {
	w.mu.Lock()
	old := w.gates[p]
	w.gates[p] = make(chan struct{})
	if old != nil {
		close(old)
	}
	w.mu.Unlock()
}

// Writes reports how many Write calls on streams to p have passed the gate
// (i.e. were handed to the transport) so far.
func (w *WrapHost) Writes(p peer.ID) int {
	w.mu.Lock()
	defer w.mu.Unlock()
	return w.WriteCount[p]
}
