package hnet

// Add-only accessors used by the C16 driver (kept in a file of their own so
// that they cannot collide with edits to fake.go).

// InboundTotal reports how many streams the node under test has opened to this
// fake peer so far (ended ones included).
func (f *FakePeer) InboundTotal() int {
	f.mu.Lock()
	defer f.mu.Unlock()
	return len(f.inStreams)
}
