package hnet

import (
	"bufio"
	"context"
	"encoding/binary"
	"fmt"
	"io"
	"sync"
	"sync/atomic"
	"testing/synctest"
	"time"

	pb "github.com/libp2p/go-libp2p-pubsub/pb"
	"github.com/libp2p/go-libp2p/core/crypto"
	"github.com/libp2p/go-libp2p/core/host"
	"github.com/libp2p/go-libp2p/core/network"
	"github.com/libp2p/go-libp2p/core/peer"
	"github.com/libp2p/go-libp2p/core/protocol"
)

func syncWait() { synctest.Wait() }

// Protocol names used in scenarios.
var Protos = map[string]protocol.ID{
	"flood":  "/floodsub/1.0.0",
	"random": "/randomsub/1.0.0",
	"v10":    "/meshsub/1.0.0",
	"v11":    "/meshsub/1.1.0",
	"v12":    "/meshsub/1.2.0",
	"v13":    "/meshsub/1.3.0",
}

// Frame is one RPC read from a stream the node under test opened to a fake peer.
type Frame struct {
	T     int64 // virtual ms
	RPC   *pb.RPC
	Bytes int
	Raw   []byte
}

// FakePeer is a wire-level peer: a libp2p host with a raw stream handler for
// one pubsub protocol id. It records every frame it receives and sends exactly
// the frames it is told to.
type FakePeer struct {
	Name  string
	H     host.Host
	Proto protocol.ID
	NUT   host.Host

	mu        sync.Mutex
	frames    []Frame
	inStreams []network.Stream // streams the NUT opened to us (NUT's outbound)
	inClosed  int              // how many of them have ended
	out       network.Stream   // our stream to the NUT (NUT's inbound)
	seqno     uint64
	KeepRaw   bool
	// StopReading makes the handler stop consuming frames (a peer that is slow at
	// the transport level).
	stopReading atomic.Bool
}

// NewFakePeer installs the stream handler for the given protocol name.
func NewFakePeer(h host.Host, name, proto string, nut host.Host) *FakePeer {
	f := &FakePeer{Name: name, H: h, Proto: Protos[proto], NUT: nut, seqno: 1000}
	if f.Proto == "" {
		f.Proto = protocol.ID(proto)
	}
	h.SetStreamHandler(f.Proto, f.handle)
	return f
}

func (f *FakePeer) ID() peer.ID { return f.H.ID() }

func (f *FakePeer) handle(s network.Stream) {
	f.mu.Lock()
	f.inStreams = append(f.inStreams, s)
	f.mu.Unlock()
	defer func() {
		f.mu.Lock()
		f.inClosed++
		f.mu.Unlock()
	}()
	r := bufio.NewReader(s)
	for {
		n, err := binary.ReadUvarint(r)
		if err != nil {
			s.Reset()
			return
		}
		buf := make([]byte, n)
		if _, err := io.ReadFull(r, buf); err != nil {
			s.Reset()
			return
		}
		rpc := new(pb.RPC)
		if err := rpc.Unmarshal(buf); err != nil {
			s.Reset()
			return
		}
		fr := Frame{T: NowMs(), RPC: rpc, Bytes: int(n)}
		if f.KeepRaw {
			fr.Raw = buf
		}
		f.mu.Lock()
		f.frames = append(f.frames, fr)
		f.mu.Unlock()
	}
}

// Drain returns the frames received since the previous Drain.
func (f *FakePeer) Drain() []Frame {
	f.mu.Lock()
	defer f.mu.Unlock()
	fr := f.frames
	f.frames = nil
	return fr
}

// InboundAlive reports how many streams opened by the NUT are still being read.
func (f *FakePeer) InboundAlive() int {
	f.mu.Lock()
	defer f.mu.Unlock()
	return len(f.inStreams) - f.inClosed
}

// DialNUT connects to the node under test (the NUT sees an inbound connection).
func (f *FakePeer) DialNUT() error { return Connect(f.H, f.NUT) }

// OpenOut opens our stream to the NUT (the NUT's inbound stream).
func (f *FakePeer) OpenOut() error {
	s, err := f.H.NewStream(context.Background(), f.NUT.ID(), f.Proto)
	if err != nil {
		return err
	}
	f.mu.Lock()
	f.out = s
	f.mu.Unlock()
	return nil
}

func (f *FakePeer) HasOut() bool {
	f.mu.Lock()
	defer f.mu.Unlock()
	return f.out != nil
}

// Send writes one RPC on our stream to the NUT.
func (f *FakePeer) Send(rpc *pb.RPC) error {
	b, err := rpc.Marshal()
	if err != nil {
		return err
	}
	return f.SendRaw(b, true)
}

// SendRaw writes bytes; with frame set they are prefixed with their varint length.
func (f *FakePeer) SendRaw(b []byte, frame bool) error {
	f.mu.Lock()
	s := f.out
	f.mu.Unlock()
	if s == nil {
		return fmt.Errorf("fake peer %s has no outbound stream", f.Name)
	}
	if frame {
		hdr := make([]byte, binary.MaxVarintLen64)
		n := binary.PutUvarint(hdr, uint64(len(b)))
		b = append(hdr[:n], b...)
	}
	s.SetWriteDeadline(time.Now().Add(10 * time.Second))
	_, err := s.Write(b)
	return err
}

// CloseOut closes our stream to the NUT gracefully (EOF at the NUT).
func (f *FakePeer) CloseOut() {
	f.mu.Lock()
	s := f.out
	f.out = nil
	f.mu.Unlock()
	if s != nil {
		s.Close()
	}
}

// ResetOut resets our stream to the NUT.
func (f *FakePeer) ResetOut() {
	f.mu.Lock()
	s := f.out
	f.out = nil
	f.mu.Unlock()
	if s != nil {
		s.Reset()
	}
}

// ResetIn resets the streams the NUT opened to us (the NUT's outbound streams).
func (f *FakePeer) ResetIn() {
	f.mu.Lock()
	ss := append([]network.Stream(nil), f.inStreams...)
	f.mu.Unlock()
	for _, s := range ss {
		s.Reset()
	}
}

// Disconnect closes every connection to the NUT.
func (f *FakePeer) Disconnect() {
	f.mu.Lock()
	f.out = nil
	f.mu.Unlock()
	f.H.Network().ClosePeer(f.NUT.ID())
}

// ---------------------------------------------------------------------------
// message construction (independent of the library's signing code)

const SignPrefix = "libp2p-pubsub:"

// SignMessage signs m the way the pubsub specification says: over the
// marshalled message without signature and key, prefixed with "libp2p-pubsub:".
func SignMessage(key crypto.PrivKey, m *pb.Message) error {
	xm := *m
	xm.Signature = nil
	xm.Key = nil
	b, err := xm.Marshal()
	if err != nil {
		return err
	}
	sig, err := key.Sign(append([]byte(SignPrefix), b...))
	if err != nil {
		return err
	}
	m.Signature = sig
	return nil
}

// NewMessage builds a message authored and signed by this fake peer. The
// payload is "<name>|" padded to size bytes.
func (f *FakePeer) NewMessage(name, topic string, size int, sign bool) *pb.Message {
	f.mu.Lock()
	f.seqno++
	sq := f.seqno
	f.mu.Unlock()
	seq := make([]byte, 8)
	binary.BigEndian.PutUint64(seq, sq)
	data := []byte(name + "|")
	for len(data) < size {
		data = append(data, '.')
	}
	m := &pb.Message{From: []byte(f.H.ID()), Seqno: seq, Topic: &topic, Data: data}
	if sign {
		if err := SignMessage(f.H.Peerstore().PrivKey(f.H.ID()), m); err != nil {
			panic(err)
		}
	}
	return m
}

// DefaultMsgID is the library's default message id (from || seqno).
func DefaultMsgID(m *pb.Message) string { return string(m.GetFrom()) + string(m.GetSeqno()) }

// RPC builders.
func SubRPC(topic string, sub bool) *pb.RPC {
	return &pb.RPC{Subscriptions: []*pb.RPC_SubOpts{{Topicid: &topic, Subscribe: &sub}}}
}

func MsgRPC(msgs ...*pb.Message) *pb.RPC { return &pb.RPC{Publish: msgs} }

func GraftRPC(topics ...string) *pb.RPC {
	c := &pb.ControlMessage{}
	for _, t := range topics {
		t := t
		c.Graft = append(c.Graft, &pb.ControlGraft{TopicID: &t})
	}
	return &pb.RPC{Control: c}
}

func PruneRPC(topic string, backoff uint64, hasBackoff bool, px []*pb.PeerInfo) *pb.RPC {
	p := &pb.ControlPrune{TopicID: &topic, Peers: px}
	if hasBackoff {
		p.Backoff = &backoff
	}
	return &pb.RPC{Control: &pb.ControlMessage{Prune: []*pb.ControlPrune{p}}}
}

func IHaveRPC(topic string, ids ...string) *pb.RPC {
	return &pb.RPC{Control: &pb.ControlMessage{Ihave: []*pb.ControlIHave{{TopicID: &topic, MessageIDs: ids}}}}
}

func IWantRPC(ids ...string) *pb.RPC {
	return &pb.RPC{Control: &pb.ControlMessage{Iwant: []*pb.ControlIWant{{MessageIDs: ids}}}}
}

func IDontWantRPC(ids ...string) *pb.RPC {
	return &pb.RPC{Control: &pb.ControlMessage{Idontwant: []*pb.ControlIDontWant{{MessageIDs: ids}}}}
}
