"""Shared machinery for /verif/bin/check: TLC runner and parsers, Go driver runner,
evidence writer, known-findings matcher, verdict printing.

Exit codes of a check: 0 = property held on everything explored (known findings are
printed as KNOWN-FINDING lines), 1 = VIOLATION (a property predicate failed on
observations of the real code and is not a listed finding), 2 = the machinery itself
could not reach a verdict (model error, timeout, dead driver, unmet coverage obligation).
"""
import json, os, re, shutil, subprocess, sys, time, hashlib, glob

VERIF = os.path.dirname(os.path.dirname(os.path.dirname(os.path.abspath(__file__))))
REPO = os.environ.get("VERIF_REPO", "/repo")
SPEC = os.path.join(VERIF, "spec")
HARNESS = os.path.join(VERIF, "harness")
WORK = os.path.join(VERIF, "work")
EVID = os.path.join(VERIF, "evidence")
REPLAYS = os.path.join(VERIF, "replays")
FINDINGS = os.path.join(VERIF, "known_findings.txt")
NCPU = os.cpu_count() or 4


import threading
_N_LOCK = threading.Lock()


class Inconclusive(Exception):
    """The machinery could not reach a verdict (exit 2)."""


class Ctx:
    def __init__(self, pid, tier, seed, replay=None):
        self.pid, self.tier, self.seed, self.replay = pid, tier, seed, replay
        self.t0 = time.time()
        scratch = os.path.realpath(REPO) != "/repo"
        suffix = ("-" + hashlib.sha1(os.path.realpath(REPO).encode()).hexdigest()[:8]) if scratch else ""
        self.work = os.path.join(WORK, "%s-%s%s" % (pid, tier, suffix))
        # runs against a scratch worktree (seeded changes) must not overwrite the evidence of the real tree
        self.evid_dir = self.work if scratch else EVID
        if os.environ.get("VERIF_EVID_DIR"):
            # extra runs (other seeds) that must not replace the committed evidence of the registered command
            self.evid_dir = os.environ["VERIF_EVID_DIR"]
            os.makedirs(self.evid_dir, exist_ok=True)
        elif pid.startswith("X") and not scratch:
            # extension checks (behaviour beyond the listed properties, DESIGN section 10) keep their evidence apart
            self.evid_dir = os.path.join(VERIF, "evidence_extra")
            os.makedirs(self.evid_dir, exist_ok=True)
        self.replay_dir = os.path.join(self.work, "replays") if scratch else REPLAYS
        shutil.rmtree(self.work, ignore_errors=True)
        os.makedirs(self.work, exist_ok=True)
        os.makedirs(EVID, exist_ok=True)
        self.n_tlc = 0
        self.violations = []      # dicts: {pred, sig, detail, replay}
        self.notes = []
        self.cov = {}             # free-form coverage counters
        self.thorough = tier == "thorough"

    def log(self, *a):
        print("[%s %s +%.0fs]" % (self.pid, self.tier, time.time() - self.t0), *a, flush=True)

    def sub(self, name):
        d = os.path.join(self.work, name)
        os.makedirs(d, exist_ok=True)
        return d


# ----------------------------------------------------------------------------- TLC

class TLCResult:
    def __init__(self, out, rc, wall):
        self.out, self.rc, self.wall = out, rc, wall
        m = re.findall(r"(\d[\d,]*) states generated, (\d[\d,]*) distinct states found", out)
        if m:
            self.generated = int(m[-1][0].replace(",", ""))
            self.distinct = int(m[-1][1].replace(",", ""))
        else:
            self.generated = self.distinct = 0
        self.no_error = "Model checking completed. No error has been found." in out or \
                        ("Finished in" in out and "Error:" not in out)
        self.violated = re.findall(r"Error: (?:Invariant|Temporal property|Action property) (\S+) (?:is|was) violated", out)
        self.deadlock = "Deadlock reached" in out
        self.errors = re.findall(r"^Error: (.*)$", out, re.M)
        hw = re.findall(r'<<"HW", (\d+), (\d+)>>', out)
        self.hw = (int(hw[-1][0]), int(hw[-1][1])) if hw else None
        self.cov_zero = []

    def printed(self, tag):
        """Values printed with PrintT(<<tag, ToJson(x)>>) decoded from JSON."""
        res = []
        pre = '<<"%s", "' % tag
        for line in self.out.splitlines():
            if line.startswith(pre) and line.endswith('">>'):
                body = line[len(pre):-3]
                body = body.replace('\\"', '"').replace("\\\\", "\\")
                try:
                    res.append(json.loads(body))
                except Exception:
                    pass
        return res

    def printed_raw(self, tag):
        pre = '<<"%s", ' % tag
        return [l[len(pre):-2] for l in self.out.splitlines() if l.startswith(pre) and l.endswith(">>")]


def cfg_text(spec="Spec", constants=None, invariants=(), properties=(), constraint=None,
             view=None, symmetry=None, postcondition=None, deadlock=False, action_constraint=None,
             init=None, next_=None, alias=None):
    lines = []
    if init:
        lines += ["INIT " + init, "NEXT " + next_]
    else:
        lines.append("SPECIFICATION " + spec)
    if constants:
        lines.append("CONSTANTS")
        for k, v in constants.items():
            lines.append("  %s" % (v if isinstance(v, str) and v.startswith(k + " <-") else "%s = %s" % (k, tla(v))))
    for i in invariants:
        lines.append("INVARIANT " + i)
    for p in properties:
        lines.append("PROPERTY " + p)
    if constraint:
        lines.append("CONSTRAINT " + constraint)
    if action_constraint:
        lines.append("ACTION_CONSTRAINT " + action_constraint)
    if view:
        lines.append("VIEW " + view)
    if symmetry:
        lines.append("SYMMETRY " + symmetry)
    if postcondition:
        lines.append("POSTCONDITION " + postcondition)
    if alias:
        lines.append("ALIAS " + alias)
    lines.append("CHECK_DEADLOCK " + ("TRUE" if deadlock else "FALSE"))
    return "\n".join(lines) + "\n"


def tla(v):
    if isinstance(v, bool):
        return "TRUE" if v else "FALSE"
    if isinstance(v, int):
        return str(v)
    if isinstance(v, str):
        return v
    if isinstance(v, (set, frozenset)):
        return "{" + ", ".join(tla(x) for x in sorted(v, key=str)) + "}"
    if isinstance(v, (list, tuple)):
        return "<<" + ", ".join(tla(x) for x in v) + ">>"
    raise ValueError(v)


def run_tlc(ctx, family, module, cfg, mode="mc", workers=None, files=None, timeout=600,
            simulate=None, depth=None, coverage=False, dfs=False, extra=(), heap=None, name=None):
    """Run TLC in a scratch copy of spec/common + spec/<family>. cfg is a file name in the
    family directory or the text of a configuration."""
    with _N_LOCK:
        ctx.n_tlc += 1
        n_tlc = ctx.n_tlc
    d = ctx.sub("tlc%02d-%s" % (n_tlc, name or module))
    for src in glob.glob(os.path.join(SPEC, "common", "*.tla")) + glob.glob(os.path.join(SPEC, family, "*")):
        if os.path.isfile(src):
            shutil.copy(src, d)
    for fn, content in (files or {}).items():
        dst = os.path.join(d, fn)
        if isinstance(content, str) and os.path.isfile(content):
            if os.path.exists(dst):
                os.remove(dst)
            try:
                os.link(content, dst)
            except OSError:
                shutil.copy(content, dst)
        else:
            with open(dst, "w") as f:
                f.write(content)
    if "\n" in cfg:
        with open(os.path.join(d, "_run.cfg"), "w") as f:
            f.write(cfg)
        cfgname = "_run.cfg"
    else:
        cfgname = cfg
    if workers is None:
        try:
            busy = os.getloadavg()[0] > NCPU
        except OSError:
            busy = False
        workers = 1 if mode == "trace" else (4 if busy else min(NCPU, 8))
    cmd = ["tlc", "-workers", str(workers), "-metadir", os.path.join(d, "md"), "-config", cfgname]
    if simulate:
        cmd += ["-simulate", simulate]
    if depth:
        cmd += ["-depth", str(depth)]
    if mode in ("sim",):
        cmd += ["-seed", str(ctx.seed)]
    if coverage:
        cmd += ["-coverage", "1"]
    cmd += list(extra) + [module + ".tla"]
    env = dict(os.environ)
    jopts = []
    if dfs:
        jopts.append("-Dtlc2.tool.queue.IStateQueue=StateDeque")
    jopts.append("-Xss64m")
    jopts.append("-Xmx" + (heap or ("3g" if mode == "trace" else "6g")))
    jopts.append("-XX:ParallelGCThreads=%d" % (2 if mode == "trace" else 4))
    env["JAVA_TOOL_OPTIONS"] = " ".join(jopts)
    slot = _acquire_tlc_slot()
    t0 = time.time()
    try:
        p = subprocess.run(["timeout", str(timeout)] + cmd, cwd=d, env=env, stdout=subprocess.PIPE,
                           stderr=subprocess.STDOUT, text=True, errors="replace")
        out, rc = p.stdout, p.returncode
    except Exception as e:  # pragma: no cover
        raise Inconclusive("tlc failed to start: %s" % e)
    finally:
        _release_tlc_slot(slot)
    wall = time.time() - t0
    with open(os.path.join(d, "tlc.out"), "w") as f:
        f.write(out)
    shutil.rmtree(os.path.join(d, "md"), ignore_errors=True)
    shutil.rmtree(os.path.join(d, "states"), ignore_errors=True)
    res = TLCResult(out, rc, wall)
    res.dir = d
    if rc == 124:
        res.timed_out = True
    else:
        res.timed_out = False
    if coverage:
        res.cov_zero = re.findall(r"^<(\w+) line .*>: 0:0$", out, re.M)
    return res


TLC_SLOTS = int(os.environ.get("VERIF_TLC_SLOTS", "10"))


def _acquire_tlc_slot():
    """System-wide cap on concurrent TLC JVMs (several checks may run at once): a pool of lock files."""
    import fcntl
    d = os.path.join(WORK, ".tlcslots")
    os.makedirs(d, exist_ok=True)
    while True:
        for i in range(TLC_SLOTS):
            f = open(os.path.join(d, "slot%d" % i), "w")
            try:
                fcntl.flock(f, fcntl.LOCK_EX | fcntl.LOCK_NB)
                return f
            except OSError:
                f.close()
        time.sleep(0.5)


def _release_tlc_slot(f):
    try:
        f.close()
    except Exception:
        pass


def require_mc_ok(ctx, res, what, allow_timeout=False):
    """A model-level failure is never a VIOLATION: it means model and property disagree and the
    machinery is broken (DESIGN 2.5)."""
    if res.timed_out:
        if allow_timeout:
            ctx.notes.append("%s: TLC timed out after %.0fs (%d distinct states)" % (what, res.wall, res.distinct))
            return
        raise Inconclusive("%s: TLC timed out" % what)
    if res.violated or res.deadlock or not res.no_error:
        raise Inconclusive("%s: model check failed: violated=%s errors=%s (see %s/tlc.out)" %
                           (what, res.violated, res.errors[:3], res.dir))


def require_mc_fails(ctx, res, what, prop):
    """Regression configs that MUST fail (non-vacuity of a property)."""
    if prop not in res.violated:
        raise Inconclusive("%s: expected %s to be violated (non-vacuity), got %s" % (what, prop, res.violated))


# ----------------------------------------------------------------------------- Go drivers

GOENV = {"GOFLAGS": "-mod=mod", "GOPROXY": "off"}


class _Done:
    pass


def _run_watched(cmd, env, timeout, watch, stall, logf):
    """Run cmd (own process group) with a wall timeout; if `watch` names a file, stop the run when the file has not
    grown for `stall` seconds while the process is still alive."""
    import signal
    r = _Done()
    r.stalled = False
    with open(logf, "w") as lf:
        pr = subprocess.Popen(cmd, cwd=HARNESS, env=env, stdout=lf, stderr=subprocess.STDOUT, start_new_session=True)
        t0 = time.time()
        last_size, last_change = -1, time.time()
        while True:
            try:
                pr.wait(timeout=3)
                break
            except subprocess.TimeoutExpired:
                pass
            now = time.time()
            if watch:
                try:
                    sz = os.path.getsize(watch)
                except OSError:
                    sz = -1          # still building
                    last_change = now if now - t0 < 900 else last_change
                if sz != last_size:
                    last_size, last_change = sz, now
                elif sz >= 0 and now - last_change > stall:
                    r.stalled = True
            if r.stalled or now - t0 > timeout + 30:
                for sig, wait in ((signal.SIGQUIT, 8), (signal.SIGKILL, 5)):
                    try:
                        os.killpg(pr.pid, sig)
                    except ProcessLookupError:
                        break
                    try:
                        pr.wait(timeout=wait)
                        break
                    except subprocess.TimeoutExpired:
                        continue
                break
    r.returncode = pr.returncode if pr.returncode is not None else -9
    r.stdout = open(logf, errors="replace").read()
    return r


def run_go(ctx, pkg, run, env=None, timeout=900, tags="verif", count=1, extra=(), name=None, cpu=None, stall=240):
    e = dict(os.environ)
    e.update(GOENV)
    e.pop("GOSUMDB", None)
    e.pop("GOTOOLCHAIN", None)
    e["VERIF_SEED"] = str(ctx.seed)
    e["VERIF_TIER"] = ctx.tier
    e.update({k: str(v) for k, v in (env or {}).items()})
    modargs = []
    if os.path.realpath(REPO) == "/repo":
        # keep go.sum in step with the repository under test
        try:
            src, dst = os.path.join(REPO, "go.sum"), os.path.join(HARNESS, "go.sum")
            if open(src).read() != open(dst).read():
                shutil.copy(src, dst)
        except Exception:
            pass
    else:
        # VERIF_REPO=<scratch worktree>: build against it through an alternative go.mod (used to try
        # the checks on seeded changes without touching /repo)
        alt = os.path.join(ctx.work, "go.alt.mod")
        with _N_LOCK:
            if not os.path.exists(alt):
                tmp = alt + ".tmp%d" % os.getpid()
                with open(tmp, "w") as f:
                    f.write(open(os.path.join(HARNESS, "go.mod")).read().replace("=> /repo", "=> " + os.path.realpath(REPO)))
                shutil.copy(os.path.join(REPO, "go.sum"), os.path.join(ctx.work, "go.alt.sum"))
                os.replace(tmp, alt)
        modargs = ["-modfile=" + alt]
    cmd = ["go", "test"] + modargs + ["-tags", tags, "-count", str(count), "-vet=off", "-timeout", "%ds" % timeout,
           "-run", run] + list(extra) + [pkg]
    t0 = time.time()
    logf = os.path.join(ctx.work, "go-%s.log" % (name or re.sub(r"\W+", "_", run)))
    watch = e.get("VERIF_OUT") if stall is not None else None
    p = None
    for attempt in (1, 2):
        p = _run_watched(cmd, e, timeout, watch, stall, logf if attempt == 1 else logf + ".retry")
        if not p.stalled:
            break
        # a wedged driver (no output growth for `stall` seconds: seen a few times in ~10^6 replays with synctest +
        # simnet, with the bubble's clock stuck) says nothing about the library: stop it (SIGQUIT leaves a goroutine
        # dump in the log) and replay the stage once more from scratch; a second stall is inconclusive.
        ctx.notes.append("driver %s %s stalled (no output for %d s); %s" % (pkg, run, stall, "replayed" if attempt == 1 else "gave up"))
        if attempt == 2:
            raise Inconclusive("driver %s %s stalled twice (no output growth for %d s), see %s" % (pkg, run, stall, logf))
    res = {"rc": p.returncode, "out": p.stdout, "wall": time.time() - t0, "log": logf}
    if "[build failed]" in p.stdout or "cannot find package" in p.stdout or re.search(r"^# ", p.stdout, re.M) and "FAIL" in p.stdout and "--- FAIL" not in p.stdout and "panic:" not in p.stdout:
        raise Inconclusive("go build of %s failed (hooks no longer fit the tree?) see %s" % (pkg, logf))
    return res


def read_ndjson(path):
    out = []
    with open(path) as f:
        for line in f:
            line = line.strip()
            if line:
                out.append(json.loads(line))
    return out


def write_ndjson(path, rows):
    with open(path, "w") as f:
        for r in rows:
            f.write(json.dumps(r, separators=(",", ":")) + "\n")


def split_scenarios(lines, reset_key="e", reset_val="reset"):
    """Split a list of trace lines into scenarios at reset lines."""
    scns, cur = [], None
    for ln in lines:
        if ln.get(reset_key) == reset_val:
            cur = [ln]
            scns.append(cur)
        elif cur is not None:
            cur.append(ln)
    return scns


# ----------------------------------------------------------------------------- trace validation by cursor

def validate_by_cursor(ctx, family, module, cfg, scenarios, chunk=400, max_rejects=6, timeout=600, name="tv",
                       dfs=True, trace_file="trace.ndjson"):
    """Validate scenarios (lists of trace lines, each starting with a reset line) with a trace spec that
    accepts a file iff its cursor reaches the end (POSTCONDITION prints <<"HW", hw, len+1>>).
    Rejected scenarios are returned (scenario index, line offset inside the scenario) and dropped so
    that the rest is still checked. Chunks run in parallel."""
    import concurrent.futures as cf
    rejected, accepted, states = [], 0, 0
    chunks = [list(range(i, min(i + chunk, len(scenarios)))) for i in range(0, len(scenarios), chunk)]

    def do_chunk(idx_list):
        rej, acc, st = [], 0, 0
        idx = list(idx_list)
        while idx:
            lines, owner = [], []
            for i in idx:
                for k, ln in enumerate(scenarios[i]):
                    lines.append(ln)
                    owner.append((i, k))
            path = os.path.join(ctx.work, "%s-chunk-%d.ndjson" % (name, idx_list[0]))
            write_ndjson(path, lines)
            res = run_tlc(ctx, family, module, cfg, mode="trace", files={trace_file: path}, timeout=timeout,
                          dfs=dfs, name="%s-%d" % (name, idx_list[0]))
            st += res.distinct
            if res.hw is None:
                raise Inconclusive("trace validation produced no verdict (see %s/tlc.out): %s" % (res.dir, res.errors[:2]))
            hw, end = res.hw
            if res.violated:
                # an invariant of the trace spec failed at the high-water line
                pass
            if hw >= end and not res.violated:
                acc += len(idx)
                break
            # the line at position hw (1-based) could not be explained
            bad_i, bad_k = owner[min(hw, len(owner)) - 1]
            rej.append((bad_i, bad_k, res.violated[:1]))
            pos = idx.index(bad_i)
            acc += pos
            idx = idx[pos + 1:]
            if len(rej) >= max_rejects:
                break
        return rej, acc, st

    with cf.ThreadPoolExecutor(max_workers=max(1, min(6, len(chunks)))) as ex:
        for rej, acc, st in ex.map(do_chunk, chunks):
            rejected += rej
            accepted += acc
            states += st
    return rejected, accepted, states


# ----------------------------------------------------------------------------- findings and verdict

def load_findings(pid):
    """known_findings.txt: one entry per line, never written at run time.
         fixed: property=<id> <commit> <what failed>            (suppresses nothing)
         known: property=<id> key=<Dn> match=<json> what=<text>  (printed as KNOWN-FINDING when re-observed)
    match = {"pred": <predicate name>, "sig": {<field>: <value or {"re": regex}>}} is compared with the
    signature of each violation; a violation of the same property that does not match is still reported."""
    out = []
    if os.path.exists(FINDINGS):
        for line in open(FINDINGS):
            line = line.strip()
            if not line.startswith("known:"):
                continue
            m = re.match(r"known:\s+property=(\S+)\s+key=(\S+)\s+match=(\{.*\})\s+what=(.*)$", line)
            if not m:
                raise Inconclusive("unparsable line in known_findings.txt: " + line[:80])
            if m.group(1) == pid:
                out.append({"property": pid, "key": m.group(2), "match": json.loads(m.group(3)),
                            "what": m.group(4), "status": "known"})
    return out


def save_replay(ctx, name, payload):
    os.makedirs(ctx.replay_dir, exist_ok=True)
    path = os.path.join(ctx.replay_dir, "%s-%s.json" % (ctx.pid, re.sub(r"[^\w.-]+", "_", name)[:80]))
    with open(path, "w") as f:
        json.dump(payload, f, indent=1, default=str)
    return path


def add_violation(ctx, pred, sig, detail, replay_payload=None):
    """Record a failure of property predicate `pred` observed on the real code. `sig` is the
    machine-matchable signature compared with known_findings.jsonl."""
    path = save_replay(ctx, "%s-%s" % (pred, hashlib.sha1(json.dumps(sig, sort_keys=True, default=str).encode()).hexdigest()[:8]),
                       {"property": ctx.pid, "pred": pred, "sig": sig, "detail": detail, "replay": replay_payload})
    ctx.violations.append({"pred": pred, "sig": sig, "detail": detail, "replay": path})


def sig_matches(finding, v):
    m = finding.get("match", {})
    if "pred" in m and m["pred"] != v["pred"]:
        return False
    sig = v["sig"] if isinstance(v["sig"], dict) else {"sig": v["sig"]}
    for k, want in m.get("sig", {}).items():
        got = sig.get(k)
        if isinstance(want, dict) and "re" in want:
            if got is None or not re.search(want["re"], str(got)):
                return False
        elif got != want:
            return False
    return True


_INT_KEYS = ("evaluations", "distinct_nontrivial", "states", "transitions", "traces_validated_against_impl",
             "obligations", "discharged", "programs", "disagreements_checked")


def sanitise_coverage(cov):
    """EVIDENCE.schema.json fixes the types of some coverage keys; a check that used one of those names for
    something else (e.g. "obligations" for a table of hit counts) gets it renamed instead of an invalid file."""
    for k in _INT_KEYS:
        if k in cov and not (isinstance(cov[k], int) and not isinstance(cov[k], bool)):
            cov[k + "_detail"] = cov.pop(k)
    if "exhaustive" in cov and not isinstance(cov["exhaustive"], bool):
        cov["exhaustive_note"] = cov.pop("exhaustive")
        cov["exhaustive"] = False
    if "samples" in cov and not isinstance(cov["samples"], list):
        cov["samples"] = [cov["samples"]]
    for k in ("rule", "checker_cmd", "explanation"):
        if k in cov and not isinstance(cov[k], str):
            cov[k] = json.dumps(cov[k], default=str)
    if "trusted_base" in cov and not (isinstance(cov["trusted_base"], list) and all(isinstance(x, str) for x in cov["trusted_base"])):
        cov["trusted_base_detail"] = cov.pop("trusted_base")
    return cov


def finish(ctx, level, coverage, assumptions):
    """Print the verdict lines, write the evidence file and return the exit code."""
    findings = load_findings(ctx.pid)
    known = [f for f in findings if f.get("status") == "known"]
    seen_known, new = {}, []
    for v in ctx.violations:
        hit = next((f for f in known if sig_matches(f, v)), None)
        if hit is not None:
            seen_known.setdefault(hit["key"], (hit, 0))
            seen_known[hit["key"]] = (hit, seen_known[hit["key"]][1] + 1)
        else:
            new.append(v)
    for key, (f, n) in seen_known.items():
        print("KNOWN-FINDING: property=%s %s (%s, observed %d time(s) in this run)" % (ctx.pid, f["what"], key, n))
    for f in known:
        if f["key"] not in seen_known:
            ctx.notes.append("known finding %s was not re-observed in this run" % f["key"])
    shown = set()
    for v in new:
        k = (v["pred"], json.dumps(v["sig"], sort_keys=True, default=str))
        if k in shown:
            continue
        shown.add(k)
        print("VIOLATION property=%s replay=%s  [%s] %s" % (ctx.pid, v["replay"], v["pred"], v["detail"]))
    for n in ctx.notes:
        print("NOTE:", n)
    cov = sanitise_coverage(dict(coverage))
    cov.setdefault("known_findings_seen", sorted(seen_known))
    cov.setdefault("notes", ctx.notes)
    ev = {"property_id": ctx.pid, "tier": ctx.tier, "seed": ctx.seed, "level": level, "coverage": cov,
          "assumptions": assumptions, "wall_s": round(time.time() - ctx.t0, 1), "violations": len(shown)}
    with open(os.path.join(ctx.evid_dir, ctx.pid + ".json"), "w") as f:
        json.dump(ev, f, indent=1, default=str)
    rc = 1 if new else 0
    if rc == 0:
        _prune_work(ctx)
    ctx.log("done: %s (violations=%d known=%d) wall=%.0fs" % ("FAIL" if rc else "ok", len(shown), len(seen_known), time.time() - ctx.t0))
    return rc


def _prune_work(ctx):
    """Disk space is limited: after a clean run drop the bulky intermediate traces (kept on a violation for replay)."""
    try:
        for root, _, files in os.walk(ctx.work):
            for fn in files:
                fp = os.path.join(root, fn)
                if fn.endswith((".ndjson", ".json", ".out", ".log", ".test", ".bin")) and os.path.getsize(fp) > (2 << 20):
                    os.remove(fp)
    except OSError:
        pass


def fail_inconclusive(ctx, level, msg):
    print("INCONCLUSIVE property=%s %s" % (ctx.pid, msg))
    ev = {"property_id": ctx.pid, "tier": ctx.tier, "seed": ctx.seed, "level": level,
          "coverage": {"evaluations": 0, "distinct_nontrivial": 0, "rule": "run was inconclusive: " + msg, "samples": []},
          "assumptions": [], "wall_s": round(time.time() - ctx.t0, 1), "violations": 0}
    with open(os.path.join(ctx.evid_dir, ctx.pid + ".json"), "w") as f:
        json.dump(ev, f, indent=1)
    return 2
