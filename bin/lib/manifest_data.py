import subprocess

def _repo_commits():
    try:
        out = subprocess.run(["git", "-C", "/repo", "log", "--format=%h %s"], stdout=subprocess.PIPE, text=True).stdout
        return [l.split()[0] for l in out.splitlines() if l.split(" ", 1)[1].startswith("verif ")]
    except Exception:
        return []

HOOKS = {
    "guard": "verif",
    "enable": "go test -tags verif in the harness module /verif/harness (go.mod: replace github.com/libp2p/go-libp2p-pubsub => /repo), so every check rebuilds /repo's working tree with the hooks on",
    "baseline_off_cmd": "cd /repo && GOPROXY=off go test -mod=mod -json -vet=off -count=1 -timeout 25m ./...",
    "source_commits": _repo_commits(),
    "add_only": True,
}

ENGINES = [
    {"name": "tlc", "path": "spec/", "serves_properties": [], "kind_free_text": "TLA+ specifications (one directory per family) checked by TLC: exhaustive MC configs, scenario generators (PrintT of a history variable), trace specifications reading NDJSON"},
    {"name": "harness", "path": "harness/", "serves_properties": [], "kind_free_text": "Go test drivers (module verifharness, replace => /repo, -tags verif): replay TLC-generated scenarios into the real code under testing/synctest + simnet and record NDJSON traces"},
    {"name": "check", "path": "bin/check", "serves_properties": [], "kind_free_text": "python3 orchestrator: TLC MC -> Gen -> Go replay -> TLC trace validation -> verdict/evidence (bin/lib/vlib.py, bin/lib/props/<id>.py)"},
]

NOTES = ("Every check: (1) TLC model-checks the family's TLA+ spec, (2) TLC emits scenarios, (3) a Go driver replays them into the real code built from /repo "
         "with -tags verif and records a trace, (4) TLC validates the trace against the trace spec. VIOLATION only for property predicates failing on real-code "
         "observations; model-only failures and dead drivers exit 2. known_findings.txt lists repaired and recorded defects.")

NOT_APPLICABLE = {}

CHECKS = {}

def add(pid, technique, text, note, design_ref, level="model_checking", engine="tlc+harness"):
    CHECKS[pid] = {"technique": technique, "text": text, "note": note, "design_ref": design_ref, "level": level, "engine": engine}
    for e in ENGINES:
        e["serves_properties"].append(pid)

add("C15",
    "TLA+ lock-grain model refined to a sequential FIFO spec (TLC, liveness under fairness) + linearisation of real call/return histories by TLC",
    "TLC exhaustively checks that the lock/condition-variable model of rpc_queue.go (incl. the context.AfterFunc goroutine) refines the sequential two-class bounded FIFO and that cancelled/closed/blocked operations return (liveness; the as-found variant with the broadcast outside the lock must fail). "
    "Real code: all operation sequences up to the bound emitted by TLC are replayed on the real rpcQueue in synctest bubbles with blocked-call sets recorded at quiescence; a Pop is parked by the schedule-point hook between its context check and Wait() while cancel fires; seeded concurrent stress rounds. "
    "Every recorded history is accepted by TLC only if some linearisation is a behaviour of RpcQueueSeq (results, FIFO order per class, urgent first, full exactly at capacity, who may remain blocked).",
    "Trusts: the Go runtime's sync.Cond/sync.Mutex/context.AfterFunc semantics as modelled; synctest quiescence detection; the forced interleaving needs ~2 ms real time for the AfterFunc goroutine. The stress part samples schedules.",
    "DESIGN.md section 4 C15")

add("C03",
    "TLA+ decision table over abstract message classes checked exhaustively by TLC (model checking of the abstraction) + every class concretised with real Ed25519/RSA keys, replayed on real nodes and judged by a TLC monitor with an independent crypto oracle",
    "TLA+ does not model signatures: SigPolicy.tla models the acceptance RULE. TLC enumerates all 1492 realisable message classes (from/seqno/key/signature/unknown-field/sender classes) x 10 constructible policy x author-mode configurations and the sending table, and checks CodeAccept => (signature carried => Authentic) /\\ (StrictSign => signed) /\\ (StrictNoSign => unsigned, anonymous => no from/seqno/key) /\\ not self-origin; five regression configurations (no key-to-author match, lax policies not verifying, no self-origin test, key ignored in anonymous mode, missing signature tolerated) must fail. "
    "Real code: each class (quick: seeded covering subset incl. all cfg x key x sig triples; thorough: the full table plus random byte-level mutations) is built by signing per the pubsub spec and tampering exactly as the class says, injected alone by fake peers (as author with Ed25519/RSA host ids, or third party) into real gossipsub and floodsub nodes under every policy x author mode; delivery (Subscription.Next), forwarding (observer peer in the mesh), reject reasons and the oracle's verdict are logged and TLC evaluates the predicates on every line; the node's own publications (default/custom/per-publish key/no author) are verified by the same oracle at the receiver.",
    "Level: model checking of the abstraction (DESIGN section 6). Trusts: crypto.Verify is sound; the oracle shares the protobuf codec and go-libp2p crypto/peer with the code but nothing of package pubsub; bytes outside every class are only sampled (fuzz lines). Zero-length fields and attached keys that do not match an inline id are judged leniently (conformance drift only). The node under test always has an Ed25519 host id.",
    "DESIGN.md section 4 C03, section 6, section 9")

add("C19",
    "TLA+ trace-replay machine (one action per TraceEvent type) composed with an abstract router and model-checked for state recovery at every quiet state (TLC; seeded-defect configs must fail) + replay of real EventTracer streams by TLC against snapshot, wire, subscriber and queue-hook ground truth",
    "TLC exhaustively checks that replaying the events the router model emits the way the library's call sites do (JOIN then GRAFTs, LEAVE then PRUNEs, only ON_CLOSED_OUTBOUND_STREAM on disconnect, SEND/DROP after every queue push, PUBLISH/DELIVER incl. batches) rebuilds peer set, joined set, meshes, delivery/publication bags and per-turn RPC tallies at every quiet state; variants with D8 (Leave emits JOIN), no close event, no PRUNE on leave, double DELIVER in batches must fail. "
    "Real code: gossipsub, floodsub and randomsub nodes driven through TLC-generated stimulus sequences, targeted scripts (queue of one with gated writes, announce retries, batch publishing, oversized RPCs, fanout-only topics, validator rejections, blacklist, stream resets) and seeded walks; every step line carries the protobuf event stream, the in-loop snapshot, subscriber deliveries, frames on the wire and every rpcQueue push seen by the verif hook; JSON and protobuf file tracers are parsed back after Close. "
    "TLC replays the events line by line and checks P_C19_Alternate, Peers, Mesh, Deliver, Publish, Rpc and Files at each quiet line.",
    "Trusts: synctest quiescence (a step line is a quiet state); the verif-tagged read-only snapshot and queue-push hook; harness naming of messages by payload prefix. Per-step (not per-peer cumulative) RPC accounting because the hook cannot map a queue to a peer. RemoteTracer not exercised.",
    "DESIGN.md section 4 C19, section 9")

add("C12",
    "TLA+ class table + stream machine (TLC: exhaustive over an alphabet of named frames, a configuration that must fail, generator of every sequence of <= 3 frames) driving model-generated hostile-input testing of a real node; TLC judges every recorded frame",
    "Wire.tla is the single table of what a remote peer can put on an inbound stream (5 frame kinds with 13 framing sub-kinds, 36 RPC fields / 143 classes, 13 configuration factors) with the stream machine (open/reset/eof per stream, alive) and P_C12_Alive / Isolation / Liveness. "
    "TLC prints the table and enumerates all 16275 sequences of <= 3 named frames; the orchestrator builds all-pairs covering arrays (wide + enabling-context 'deep', per router; thorough: 3 rounds + seeded random rows, ~99% of class triples) from the printed table. "
    "A Go driver turns every class into bytes (gogo pb.RPC, seeded garbage, broken varints, sealed PX envelopes) and writes them to a real inbound stream of a real gossipsub/floodsub/randomsub node with BasicSeqnoValidator, allowlist/regexp/limit filters, scoring, gater, test and partial-message extensions, signature policies; after each frame: marker, honest delivery probe, eval round-trip, stream state seen by the hostile peer. "
    "A library panic kills the driver: attributed via marker + stack, the single frame is re-run alone, replay restarts after it. WireTrace evaluates the three predicates per line; reset/Recv prediction is drift only.",
    "EXPLORATION level: inputs outside the generated class combinations and sequences are not covered; one concretisation per class; goroutine interleavings are sampled; liveness probed after synctest quiescence (honest delivery excused only when the node recorded throttling the honest peer).",
    "DESIGN.md section 4 C12, section 6, section 9", level="exploration")

add("C16",
    "TLA+ model of peer lifecycle x inbound pipeline with Blacklist(p, api|direct) enabled in every state (TLC exhaustive, 9 must-fail configurations) + TLC-generated situations replayed on a real node + TLC trace validation ordered by tracer sequence numbers",
    "TLC exhaustively checks the implementation-shaped model (connect notification, queue creation, stream establishment/failure, mesh/fanout, writer, stream reset, dead-peer respawn, reconnect; pipeline arrived->shouldPush->valQ->worker->async->sendQ->publish and the unsigned direct path; api/direct blacklisting and expiry at every point) against P_C16_NoInject/Refuse/Api/ApiQueue; the as-found variants (no re-check before publishMessage = D13, GRAFT without outbound stream = D6) and each removed mechanism must fail. "
    "GenBlacklist emits every reachable situation (9 positions x api|direct x by origin|author x 6 stages); the Go driver rebuilds each on a real gossipsub node (held NewStream, gated writes, parked validation worker / gated async validator / parked event loop), with NewMapBlacklist and NewTimeCachedBlacklist behind a recording proxy, through BlacklistPeer and through Add, then probes (victim forwards, third party forwards victim-authored, publishes, GRAFT on surviving inbound stream, writer respawn, reconnect with held stream, expiry). "
    "BlacklistTrace judges every Deliver/Send event, subscriber delivery and wire frame against the blacklist status at that event's sequence number, every stream completion while blacklisted, and the state/wire after BlacklistPeer.",
    "Trusts: tracer callbacks for Deliver/Send/Up run on the event loop (sequence numbers order them against Add); synctest quiescence; unsigned messages are published in the loop iteration that ran shouldPush (one instant). Not examined: IWANT retransmission from the message cache of messages accepted before the blacklisting; api blacklisting racing a message in front of the loop (select order). Known finding D6 (mesh entry of a peer without outbound stream).",
    "DESIGN.md section 4 C16, section 9")

add("C20",
    "TLA+ model of BasicSeqnoValidator at RW-lock/store-access grain (TLC exhaustive, non-vacuity config without the re-check must fail) + every TLC-generated interleaving of store accesses forced on the real public validator through a scheduling PeerMetadataStore + TLC monitor/trace validation; in-node composition with the seen cache",
    "TLC exhaustively checks (textbook RW lock and sync.RWMutex semantics, 2 authors, seqnos {0,1,2,max}, 3 concurrent calls incl. duplicates; 4 calls at thorough) that accepted seqnos strictly increase, the stored nonce is the highest accepted and never decreases, Accept iff Put, replays are Ignored; the config with the re-check under the write lock removed must violate it. "
    "Real code: GenSeqno emits every interleaving of the controllable steps (call start, first Get, second Get, Put; hidden lock steps run to quiescence); the Go driver forces each on pubsub.NewBasicSeqnoValidator with a store whose Get/Put park on channels, reading 'parked on the mutex' from a stop-the-world goroutine dump (no timing); MonSpec evaluates the predicates on the real order of Put/verdicts, TraceSpec validates conformance (Get values, Put values, verdicts, parking positions). "
    "Wrong-length seqnos (0,1..7,8,9,16) are called inside recover (P_C20_Total). In-node: real gossipsub/floodsub nodes with WithDefaultValidator (async/inline, with/without topic validator), SeenMessagesTTL 1s, 4 workers, fake peers that author and replay signed messages across seen-cache expiry and concurrent bursts; SeqnoNodeTrace judges not delivered / not forwarded / not penalised.",
    "Trusts: the metadata store does not fail (errors not injected); runtime.Stack wait-reason strings of the pinned toolchain (fallback to timing is reported and makes 'wedged' inconclusive); sync.RWMutex policy as modelled (a different policy shows as divergence, never as a wrong verdict). Conformance drift alone is a NOTE; coverage obligations are counted on conforming runs.",
    "DESIGN.md section 4 C20, section 9")
