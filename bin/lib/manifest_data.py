import subprocess

def _repo_commits():
    try:
        out = subprocess.run(["git", "-C", "/repo", "log", "--format=%h %s"], stdout=subprocess.PIPE, text=True).stdout
        return [l.split()[0] for l in out.splitlines() if l.split(" ", 1)[1].startswith("verif ")]
    except Exception:
        return []

HOOKS = {
    "guard": "verif",
    "enable": "go test -tags verif in the harness module /verif/harness (go.mod: replace github.com/libp2p/go-libp2p-pubsub => /repo), so every check rebuilds /repo's working tree with the hooks on",
    "baseline_off_cmd": "cd /repo && GOPROXY=off go test -mod=mod -json -vet=off -count=1 -timeout 25m ./...",
    "source_commits": _repo_commits(),
    "add_only": True,
}

ENGINES = [
    {"name": "tlc", "path": "spec/", "serves_properties": [], "kind_free_text": "TLA+ specifications (one directory per family) checked by TLC: exhaustive MC configs, scenario generators (PrintT of a history variable), trace specifications reading NDJSON"},
    {"name": "harness", "path": "harness/", "serves_properties": [], "kind_free_text": "Go test drivers (module verifharness, replace => /repo, -tags verif): replay TLC-generated scenarios into the real code under testing/synctest + simnet and record NDJSON traces"},
    {"name": "check", "path": "bin/check", "serves_properties": [], "kind_free_text": "python3 orchestrator: TLC MC -> Gen -> Go replay -> TLC trace validation -> verdict/evidence (bin/lib/vlib.py, bin/lib/props/<id>.py)"},
]

NOTES = ("Every check: (1) TLC model-checks the family's TLA+ spec, (2) TLC emits scenarios, (3) a Go driver replays them into the real code built from /repo "
         "with -tags verif and records a trace, (4) TLC validates the trace against the trace spec. VIOLATION only for property predicates failing on real-code "
         "observations; model-only failures and dead drivers exit 2. known_findings.txt lists repaired and recorded defects.")

NOT_APPLICABLE = {}

CHECKS = {}

def add(pid, technique, text, note, design_ref, level="model_checking", engine="tlc+harness"):
    CHECKS[pid] = {"technique": technique, "text": text, "note": note, "design_ref": design_ref, "level": level, "engine": engine}
    for e in ENGINES:
        e["serves_properties"].append(pid)

add("C15",
    "TLA+ lock-grain model refined to a sequential FIFO spec (TLC, liveness under fairness) + linearisation of real call/return histories by TLC",
    "TLC exhaustively checks that the lock/condition-variable model of rpc_queue.go (incl. the context.AfterFunc goroutine) refines the sequential two-class bounded FIFO and that cancelled/closed/blocked operations return (liveness; the as-found variant with the broadcast outside the lock must fail). "
    "Real code: all operation sequences up to the bound emitted by TLC are replayed on the real rpcQueue in synctest bubbles with blocked-call sets recorded at quiescence; a Pop is parked by the schedule-point hook between its context check and Wait() while cancel fires; seeded concurrent stress rounds. "
    "Every recorded history is accepted by TLC only if some linearisation is a behaviour of RpcQueueSeq (results, FIFO order per class, urgent first, full exactly at capacity, who may remain blocked).",
    "Trusts: the Go runtime's sync.Cond/sync.Mutex/context.AfterFunc semantics as modelled; synctest quiescence detection; the forced interleaving needs ~2 ms real time for the AfterFunc goroutine. The stress part samples schedules.",
    "DESIGN.md section 4 C15")

add("C03",
    "TLA+ decision table over abstract message classes checked exhaustively by TLC (model checking of the abstraction) + every class concretised with real Ed25519/RSA keys, replayed on real nodes and judged by a TLC monitor with an independent crypto oracle",
    "TLA+ does not model signatures: SigPolicy.tla models the acceptance RULE. TLC enumerates all 1492 realisable message classes (from/seqno/key/signature/unknown-field/sender classes) x 10 constructible policy x author-mode configurations and the sending table, and checks CodeAccept => (signature carried => Authentic) /\\ (StrictSign => signed) /\\ (StrictNoSign => unsigned, anonymous => no from/seqno/key) /\\ not self-origin; five regression configurations (no key-to-author match, lax policies not verifying, no self-origin test, key ignored in anonymous mode, missing signature tolerated) must fail. "
    "Real code: each class (quick: seeded covering subset incl. all cfg x key x sig triples; thorough: the full table plus random byte-level mutations) is built by signing per the pubsub spec and tampering exactly as the class says, injected alone by fake peers (as author with Ed25519/RSA host ids, or third party) into real gossipsub and floodsub nodes under every policy x author mode; delivery (Subscription.Next), forwarding (observer peer in the mesh), reject reasons and the oracle's verdict are logged and TLC evaluates the predicates on every line; the node's own publications (default/custom/per-publish key/no author) are verified by the same oracle at the receiver.",
    "Level: model checking of the abstraction (DESIGN section 6). Trusts: crypto.Verify is sound; the oracle shares the protobuf codec and go-libp2p crypto/peer with the code but nothing of package pubsub; bytes outside every class are only sampled (fuzz lines). Zero-length fields and attached keys that do not match an inline id are judged leniently (conformance drift only). The node under test always has an Ed25519 host id.",
    "DESIGN.md section 4 C03, section 6, section 9")

add("C19",
    "TLA+ trace-replay machine (one action per TraceEvent type) composed with an abstract router and model-checked for state recovery at every quiet state (TLC; seeded-defect configs must fail) + replay of real EventTracer streams by TLC against snapshot, wire, subscriber and queue-hook ground truth",
    "TLC exhaustively checks that replaying the events the router model emits the way the library's call sites do (JOIN then GRAFTs, LEAVE then PRUNEs, only ON_CLOSED_OUTBOUND_STREAM on disconnect, SEND/DROP after every queue push, PUBLISH/DELIVER incl. batches) rebuilds peer set, joined set, meshes, delivery/publication bags and per-turn RPC tallies at every quiet state; variants with D8 (Leave emits JOIN), no close event, no PRUNE on leave, double DELIVER in batches must fail. "
    "Real code: gossipsub, floodsub and randomsub nodes driven through TLC-generated stimulus sequences, targeted scripts (queue of one with gated writes, announce retries, batch publishing, oversized RPCs, fanout-only topics, validator rejections, blacklist, stream resets) and seeded walks; every step line carries the protobuf event stream, the in-loop snapshot, subscriber deliveries, frames on the wire and every rpcQueue push seen by the verif hook; JSON and protobuf file tracers are parsed back after Close. "
    "TLC replays the events line by line and checks P_C19_Alternate, Peers, Mesh, Deliver, Publish, Rpc and Files at each quiet line.",
    "Trusts: synctest quiescence (a step line is a quiet state); the verif-tagged read-only snapshot and queue-push hook; harness naming of messages by payload prefix. Per-step (not per-peer cumulative) RPC accounting because the hook cannot map a queue to a peer. RemoteTracer not exercised.",
    "DESIGN.md section 4 C19, section 9")
