"""C17R - stand-alone entry for the ROUTER part of C17 (see c17_router.py); the full check is c17.py."""
from .. import vlib
from .c17_router import run_router

LEVEL = "model_checking"


def run(ctx):
    ctx.pid = "C17"          # findings and evidence belong to C17
    part = run_router(ctx)
    cov = {"states": part["states"], "transitions": part["transitions"], "traces_validated_against_impl": part["traces"],
           "samples": part["samples"], "evaluations": part["evaluations"], "distinct_nontrivial": part["distinct_nontrivial"],
           "rule": part["rule"], "hits": part["hits"], "exhaustive": part["exhaustive"],
           "parts": {"router": {k: v for k, v in part.items() if k in ("mc", "cut_short", "trace_spec_selftest")}}}
    return vlib.finish(ctx, LEVEL, cov, part["assumptions"])
