"""C07 - mesh maintenance keeps every joined topic's mesh within its invariants.

spec/mesh: MeshProps (the predicates, written once), Mesh (implementation-shaped model of one topic:
heartbeat phases in code order, handleGraft/handlePrune, Join/Leave, stream death, control retry;
exhaustive MC over all pre-states built from peer classes, incl. configurations that MUST fail),
GenMesh (scenario generator), MeshTrace (the same predicates evaluated on step lines recorded from
the real router through harness/drivers/router)."""
import json, os, random, re, concurrent.futures as cf
from .. import vlib

LEVEL = "model_checking"
FAMILY = "mesh"
T = "T1"

# (D, Dlo, Dhi, Dscore, Dout) of DESIGN C07; (3,2,4,2,1) is rejected by GossipSubParams.validate
# (Dout < D/2) and is therefore only model-checked, never replayed.
MC_PARAMS = [(2, 1, 3, 1, 0), (3, 2, 4, 2, 1), (4, 3, 5, 2, 1), (0, 0, 0, 0, 0), (3, 2, 4, 4, 0)]


def mc_constants(par, np_, classes, events, hbs, drops=1, joined="{TRUE, FALSE}", init="classes", **sw):
    d, dlo, dhi, dscore, dout = par
    c = {"NP": np_, "D": d, "Dlo": dlo, "Dhi": dhi, "Dscore": dscore, "Dout": dout,
         "OppTicks": 2, "OppPeers": 1, "OppThr": 1,
         "MaxEvents": events, "MaxHb": hbs, "MaxDrops": drops,
         "InitMode": '"%s"' % init, "ClassMode": '"%s"' % classes, "InitJoined": joined,
         "HbFilterDirect": True, "CutAtGE": True, "SendsGraft": True, "BubbleToD": True, "FreshBackoff": True, "DownCleansFanout": True,
         "JoinFilterDirect": True, "GraftNeedsStream": False,          # D16 is repaired in /repo (5570549), D6 is not
         "AllowDirectInFanout": True, "AllowHalf": False}
    c.update(sw)
    return c


MC_INV = ["TypeOK", "P_C07_Shape", "P_C07_Connected"]
MC_PROPS = ["P_C07_NoNegative", "P_C07_Grow", "P_C07_Cut", "P_C07_Explained", "P_C07_Additions", "P_C07_Signalling"]


def mc_cfg(consts, only=None):
    if only in MC_INV:
        return vlib.cfg_text(constants=consts, invariants=[only], view="View")
    if only:
        return vlib.cfg_text(constants=consts, properties=[only], view="View")
    return vlib.cfg_text(constants=consts, invariants=MC_INV, properties=MC_PROPS, view="View")


def run_mc(ctx):
    """Model level. Returns (states, transitions, summary)."""
    jobs = []   # (name, consts, expect_fail or None, timeout, allow_timeout)
    for par in MC_PARAMS:
        name = "hb-%d%d%d%d%d" % par
        dhi = par[2]
        if not ctx.thorough:
            np_, cls = {0: (4, "tiny"), 3: (4, "tiny"), 4: (5, "micro"), 5: (5, "micro")}[dhi]
            jobs.append((name, mc_constants(par, np_, cls, 0, 1, joined="{TRUE}"), None, 600, True))
        else:
            np_, cls = {0: (5, "lite"), 3: (5, "full"), 4: (5, "lite"), 5: (6, "lite")}[dhi]
            jobs.append((name, mc_constants(par, np_, cls, 0, 1, joined="{TRUE}"), None, 1500, True))
    if ctx.thorough:
        jobs.append(("hb-42521", mc_constants((4, 2, 5, 2, 1), 6, "micro", 0, 1, joined="{TRUE}"), None, 1500, True))
    # Dout >= 2 (the outbound bubble-up needs it); model-only sets where validate-compatible ones are too big for TLC
    for par, np_ in ([((4, 3, 5, 1, 2), 6)] if not ctx.thorough else [((4, 3, 5, 1, 2), 6), ((4, 3, 6, 1, 2), 7), ((5, 3, 6, 2, 2), 7)]):
        jobs.append(("hb-%d%d%d%d%d" % par, mc_constants(par, np_, "dout", 0, 1, joined="{TRUE}", OppTicks=1), None, 1500, True))
    # every heartbeat an opportunistic tick, Dscore < D/2 (members the cut removes may score above the kept median)
    jobs.append(("hb-42511-opp", mc_constants((4, 2, 5, 1, 1), 6, "micro" if not ctx.thorough else "tiny", 0, 1, joined="{TRUE}", OppTicks=1, OppThr=2, OppPeers=2), None, 1500, True))
    # events: one (thorough: two) arbitrary event(s) and a heartbeat from every class state, joined or not
    if not ctx.thorough:
        jobs.append(("ev-21310", mc_constants((2, 1, 3, 1, 0), 3, "tiny", 1, 1), None, 600, True))
    else:
        jobs.append(("ev-21310", mc_constants((2, 1, 3, 1, 0), 4, "tiny", 1, 1, drops=2), None, 1500, True))
        jobs.append(("ev2-21310", mc_constants((2, 1, 3, 1, 0), 3, "tiny", 2, 2, drops=2), None, 1500, True))
        jobs.append(("ev-00000", mc_constants((0, 0, 0, 0, 0), 4, "tiny", 1, 1), None, 1500, True))
    # configurations that MUST fail (non-vacuity of the predicates; D6 and D16 as found in the code)
    jobs.append(("bug-nodirectfilter", mc_constants((2, 1, 3, 1, 0), 3, "tiny", 0, 1, joined="{TRUE}", HbFilterDirect=False), "P_C07_Additions", 300, False))
    jobs.append(("bug-cut-gt", mc_constants((2, 1, 3, 1, 0), 4, "tiny", 0, 1, joined="{TRUE}", CutAtGE=False), "P_C07_Cut", 300, False))
    jobs.append(("bug-nograft", mc_constants((2, 1, 3, 1, 0), 3, "tiny", 0, 1, joined="{TRUE}", SendsGraft=False), "P_C07_Signalling", 300, False))
    jobs.append(("d6-half-stream", mc_constants((2, 1, 3, 1, 0), 2, "tiny", 2, 0, joined="{TRUE}", AllowHalf=True), "P_C07_Connected", 300, False))
    jobs.append(("d16-direct-fanout", mc_constants((2, 1, 3, 1, 0), 2, "tiny", 2, 0, joined="{FALSE}", JoinFilterDirect=False), "P_C07_Additions", 300, False))
    jobs.append(("bug-stale-backoff-snapshot", mc_constants((4, 2, 5, 1, 1), 6, "tiny", 0, 1, joined="{TRUE}", FreshBackoff=False, OppTicks=1, OppThr=2, OppPeers=2), "P_C07_Cut", 300, False))
    jobs.append(("bug-fanout-keeps-departed", mc_constants((2, 1, 3, 1, 0), 2, "tiny", 2, 0, joined="{FALSE}", DownCleansFanout=False), "P_C07_Connected", 300, False))
    jobs.append(("bug-bubble-dscore", mc_constants((4, 3, 5, 1, 2), 6, "dout", 0, 1, joined="{TRUE}", BubbleToD=False, OppTicks=1), "P_C07_Cut", 300, False))
    jobs.append(("d6-fixed", mc_constants((2, 1, 3, 1, 0), 2 if not ctx.thorough else 3, "tiny", 2, 0, joined="{TRUE}", AllowHalf=True, GraftNeedsStream=True), None, 300, False))

    def one(job):
        name, consts, expect, timeout, allow_to = job
        return job, vlib.run_tlc(ctx, FAMILY, "Mesh", mc_cfg(consts, expect), timeout=timeout, name="mc-" + name, workers=2)

    states = transitions = 0
    summary = {}
    with cf.ThreadPoolExecutor(max_workers=4 if not ctx.thorough else 5) as ex:
        results = list(ex.map(one, jobs))
    for (name, consts, expect, timeout, allow_to), res in results:
        if expect is None:
            vlib.require_mc_ok(ctx, res, "Mesh " + name, allow_timeout=allow_to)
        else:
            vlib.require_mc_fails(ctx, res, "Mesh " + name, expect)
        states += res.distinct
        transitions += res.generated
        summary[name] = [res.distinct, res.generated, "fails " + expect if expect else ("timeout" if res.timed_out else "ok"), round(res.wall)]
        ctx.log("MC %s: %d distinct / %d generated, %s, %.0fs" % (name, res.distinct, res.generated, summary[name][2], res.wall))
    return states, transitions, summary



# ----------------------------------------------------------------------------- scenarios
# parameter sets replayed on the real router: only sets GossipSubParams.validate accepts
REPLAY_PARAMS = [(2, 1, 3, 1, 0), (4, 3, 5, 2, 1), (0, 0, 0, 0, 0), (3, 2, 4, 4, 0), (4, 2, 5, 2, 1), (4, 2, 4, 2, 1)]
REPLAY_PARAMS_THOROUGH = [(5, 3, 6, 3, 1), (4, 3, 5, 4, 1), (6, 4, 7, 2, 2)]
DEFAULT_PARAMS = (6, 5, 12, 4, 2)     # DefaultGossipSubParams


def valid_params(par):
    """GossipSubParams.validate (gossipsub.go:250-278); the driver would fail on anything else."""
    d, dlo, dhi, dscore, dout = par
    if dscore > dhi:
        return False
    if d == 0 and dlo == 0 and dhi == 0 and dout == 0:
        return True
    return dlo <= d <= dhi and dout < dlo and dout < d // 2


def base_cfg(par, n, opp=(2, 1, 1), **extra):
    d, dlo, dhi, dscore, dout = par
    c = {"score": True, "hosts": n + 2, "D": d, "Dlo": dlo, "Dhi": dhi, "Dscore": dscore, "Dout": dout,
         "oppTicks": opp[0], "oppPeers": opp[1], "thr": {"oppGraft": opp[2]}}
    c.update(extra)
    return c


def cls(conn="in", sc=0, direct=False, bo="none", sub=True, cap=True, member=False):
    return {"conn": conn, "sc": sc, "direct": direct, "bo": bo, "sub": sub, "cap": cap, "in": member}


def init_from_classes(classes, joined=True):
    n = len(classes)
    ini = {k: [c[k] for c in classes] for k in ("conn", "sc", "direct", "bo", "sub", "cap")}
    mem = [i + 1 for i, c in enumerate(classes) if c["in"]]
    ini["joined"] = joined
    ini["mesh"] = mem if joined else []
    ini["fanout"] = [] if joined else mem
    return ini


class Builder:
    """Turns (initial peer classes, abstract events) into actions of the router replay driver."""

    def __init__(self, par, rng, tag, opp=(2, 1, 1), **cfg_extra):
        self.par, self.rng, self.tag, self.opp, self.cfg_extra = par, rng, tag, opp, cfg_extra
        self.acts, self.fakes, self.score, self.nmsg = [], set(), {}, 0

    def name(self, i):
        return "p%d" % i

    def a(self, **kw):
        self.acts.append(kw)

    def set_score(self, p, v):
        if p in self.fakes and self.score.get(p, 0) != v:
            self.a(a="score", p=p, v=v)
            self.score[p] = v

    def peer(self, p, conn, cap=True, subs=True):
        proto = self.rng.choice(["v11", "v12", "v13", "v10", "v11", "v12"]) if cap else "flood"
        self.a(a="peer", p=p, proto=proto, dir=conn, subs=[T] if subs else [])
        self.fakes.add(p)

    def construct(self, ini):
        n = len(ini["conn"])
        P = [self.name(i + 1) for i in range(n)]
        at = lambda k, i: ini[k][i]
        live = [i for i in range(n) if at("conn", i) in ("in", "out")]
        members = set((ini["mesh"] if ini["joined"] else ini["fanout"]))
        members = [i for i in live if (i + 1) in members]
        for i in live:
            self.peer(P[i], at("conn", i), at("cap", i))
        expired = [i for i in live if at("bo", i) == "expired"]
        active = [i for i in live if at("bo", i) == "active"]
        if ini["joined"]:
            for i in live:
                self.set_score(P[i], -1)
            self.a(a="subscribe", t=T)                      # nobody is eligible: the mesh starts empty
            for i in expired:
                self.a(a="prune", p=P[i], t=T, bo=1)
            if expired:
                self.a(a="hb"); self.a(a="hb")
            self.a(a="hb")
            # members graft themselves: inbound connections first (refused once the mesh is at Dhi)
            for i in sorted(members, key=lambda i: at("conn", i) != "in"):
                self.set_score(P[i], 0)
                self.a(a="graft", p=P[i], t=T)
            for i in active:
                if i not in members:
                    self.a(a="prune", p=P[i], t=T)
        else:
            if expired or active:
                for i in live:
                    self.set_score(P[i], -1)
                self.a(a="subscribe", t=T)
                for i in expired:
                    self.a(a="prune", p=P[i], t=T, bo=1)
                for i in active:
                    self.a(a="prune", p=P[i], t=T, bo=60)
                self.a(a="cancel", t=T)
                if expired:
                    self.a(a="hb"); self.a(a="hb")
            for i in live:
                self.set_score(P[i], 0 if i in members else -5)    # publish threshold is -4
            self.a(a="hb")
            self.publish()
        for i in live:
            if at("direct", i):
                self.a(a="direct", p=P[i], on=True)
        for i in live:
            if not at("sub", i):
                self.a(a="sub", p=P[i], t=T, v=False)
        for i in live:
            self.set_score(P[i], at("sc", i))

    def publish(self):
        self.nmsg += 1
        self.a(a="publish", t=T, m="m%d" % self.nmsg)

    def event(self, e):
        k, p, x = e["a"], self.name(e.get("p", 0)), e.get("x", "")
        if k == "hb":
            self.a(a="hb")
        elif k == "join":
            self.a(a="subscribe", t=T)
        elif k == "leave":
            self.a(a="cancel", t=T)
        elif k == "publish":
            self.publish()
        elif k == "raw":
            if e["act"].get("p") is None or e["act"]["p"] in self.fakes:
                self.acts.append(dict(e["act"]))
        elif k == "up":
            if p in self.fakes:
                self.a(a="peer", p=p, dir=x[:-1], subs=[T] if x.endswith("+") else [])
            else:
                self.peer(p, x[:-1], True, x.endswith("+"))
                self.score[p] = 0
        elif p not in self.fakes:
            return
        elif k == "down":
            self.a(a="down" if x == "none" else "resetIn", p=p)
        elif k == "sub":
            self.a(a="sub", p=p, t=T, v=(x == "T"))
        elif k == "score":
            self.set_score(p, int(x))
        elif k == "direct":
            self.a(a="direct", p=p, on=(x == "T"))
        elif k == "graft":
            self.a(a="graft", p=p, t=T)
        elif k == "prune":
            act = {"a": "prune", "p": p, "t": T}
            r = self.rng.random()
            if r < 0.3:
                act["bo"] = 1
            elif r < 0.4:
                act["bo"] = 7
            self.acts.append(act)

    def scenario(self, ini, events):
        n = len(ini["conn"])
        self.construct(ini)
        for e in events:
            self.event(e)
        return {"cfg": base_cfg(self.par, n, self.opp, **self.cfg_extra), "acts": self.acts, "tag": self.tag}


def ev(a, p=0, x=""):
    return {"a": a, "p": p, "x": x}


def raw(**kw):
    return {"a": "raw", "p": 0, "act": kw}


HB = ev("hb")


def directed_scenarios(rng, thorough):
    """Scenarios that make the coverage obligations of DESIGN C07 certain, with the number of wanted
    peers above the number of eligible ones wherever a candidate filter is exercised (getPeers then
    returns EVERY peer that passes the filter, so a dropped filter shows deterministically)."""
    out = []

    def add(tag, par, classes, events, joined=True, opp=(2, 1, 1), **cfg_extra):
        order = list(range(len(classes)))
        rng.shuffle(order)                       # vary which fake peer plays which role
        inv = {old: new for new, old in enumerate(order)}
        cl = [classes[i] for i in order]
        evs = []
        for e in events:
            e = dict(e)
            if e.get("p"):
                e["p"] = inv[e["p"] - 1] + 1
            if e["a"] == "raw" and "p" in e["act"]:
                ren = lambda q: ("p%d" % (inv[int(q[1:]) - 1] + 1)) if re.fullmatch(r"p\d+", q) and int(q[1:]) <= len(classes) else q
                e["act"] = dict(e["act"], p=ren(e["act"]["p"]))
                if "px" in e["act"]:
                    e["act"]["px"] = [ren(q) for q in e["act"]["px"]]
            evs.append(e)
        out.append(Builder(par, rng, tag, opp, **cfg_extra).scenario(init_from_classes(cl, joined), evs))

    std = (4, 2, 5, 2, 1)
    # negative-score prune, then under-subscription graft with every kind of ineligible candidate around
    for par in [std, (4, 3, 5, 2, 1), (2, 1, 3, 1, 0), (3, 2, 4, 4, 0)]:
        add("neg-grow-filters", par,
            [cls("in", -1, member=True), cls("out", -1, member=True), cls("in", 0), cls("out", 2, direct=True), cls("out", 2, bo="active"),
             cls("out", -1), cls("out", 2, bo="expired"), cls("out", 1, cap=False), cls("out", 2, sub=False)],
            [HB, HB, ev("score", 6, "1"), HB, HB])
        add("grow-exact", par,
            [cls("in", 1, member=True)] + [cls(rng.choice(["in", "out"]), rng.choice([0, 1, 2])) for _ in range(6)],
            [HB, ev("prune", 1), HB, HB])
    # over-subscription: best scorers and the only outbound member must survive
    for par in [std, (4, 3, 5, 2, 1), (4, 2, 4, 2, 1)] + ([(5, 3, 6, 3, 1), (6, 4, 7, 2, 2)] if thorough else []):
        d, dlo, dhi, dscore, dout = par
        n = dhi + 2
        sc = [2] * dscore + [0] * (n - dscore)
        for variant in range(3):
            cl = [cls("in", sc[i], member=True) for i in range(n)]
            outs = rng.sample(range(dscore, n), 1 + variant)         # outbound members are low scorers
            for i in outs:
                cl[i]["conn"] = "out"
            add("cut-quality", par, cl + [cls("out", 2)], [HB, HB])
        add("cut-scores", par, [cls("out", s, member=True) for s in rng.sample([0, 1, 2, 3, 4, 5, 6, 7, 8], n)], [HB, HB])
    # outbound bubbling at its boundaries: the only outbound member sits right behind the selection (index D of D+1 members) ...
    for k in range(6):
        sc = rng.sample([3, 4, 5, 6, 7, 8], 3)
        add("cut-outbound-last", (4, 2, 5, 3, 1), [cls("in", s, member=True) for s in sc] + [cls("in", 1, member=True), cls("out", 0, member=True)], [HB, HB])
    # ... and D = Dhi = |mesh| with fewer than Dout outbound members, the best scorer among them (the scan of the selection must stop at D)
    add("cut-exactly-d", (6, 4, 6, 2, 2), [cls("out", 9, member=True)] + [cls("in", s, member=True) for s in (4, 1, 1, 1, 1)] + [cls("out", 0)], [HB, HB])
    add("cut-exactly-d", (6, 4, 6, 2, 2), [cls("out", 9, member=True), cls("out", 0, member=True)] + [cls("in", s, member=True) for s in (4, 2, 1, 1)], [HB, HB])
    add("cut-dscore-above-d", (3, 2, 4, 4, 0), [cls("out", s, member=True) for s in [5, 4, 3, 2, 1, 0]], [HB, HB])
    add("cut-dscore-above-d", (4, 3, 5, 4, 1), [cls("out", s, member=True) for s in [5, 4, 3, 2, 1, 0]] + [cls("in", 6, member=True)], [HB, HB])
    # the default parameters (D=6 Dlo=5 Dhi=12 Dscore=4 Dout=2) with 14 peers
    add("default-cut", DEFAULT_PARAMS,
        [cls("in", s, member=True) for s in rng.sample(range(0, 12), 10)] + [cls("out", 0, member=True), cls("out", 1, member=True), cls("out", 12, member=True), cls("out", 3)],
        [HB, HB, HB])
    add("default-grow", DEFAULT_PARAMS,
        [cls("in", 1, member=True), cls("out", -1, member=True), cls("in", 2, member=True)] + [cls(rng.choice(["in", "out"]), rng.choice([0, 1, 2])) for _ in range(7)] +
        [cls("out", 2, direct=True), cls("out", 2, bo="active"), cls("out", -1), cls("out", 1, cap=False)],
        [HB, HB, ev("prune", 1), ev("prune", 3), HB, HB])
    # outbound quota: enough members, none of them outbound, outbound candidates of every kind
    for par in [std, (4, 3, 5, 2, 1)]:
        add("quota", par,
            [cls("in", 1, member=True)] * par[1] + [cls("out", 0), cls("out", 2, direct=True), cls("out", 2, bo="active"), cls("out", -1), cls("in", 2)],
            [HB, HB])
    # opportunistic graft: median below the threshold, better candidates of every kind
    for par in [std, (2, 1, 3, 1, 0)]:
        add("opp", par,
            [cls("out", 0, member=True), cls("in", 0, member=True)] + ([cls("in", 1, member=True)] if par[0] > 2 else []) +
            [cls("out", 2), cls("in", 2, direct=True), cls("in", 2, bo="active"), cls("in", 0)],
            [HB, HB, HB, HB])
        add("opp-many", par,
            [cls("out", 0, member=True), cls("in", 0, member=True)] + [cls("out", 2), cls("in", 2), cls("in", 1), cls("in", 2, direct=True)],
            [HB, HB, HB], opp=(1, 3, 2))
    # GRAFT refused for each of the four reasons, accepted otherwise
    for par in [(2, 1, 3, 1, 0), std]:
        dhi = par[2]
        add("graft-refusals", par,
            [cls("in", 1, member=True)] * dhi + [cls("in", 1), cls("out", 1), cls("out", 1, direct=True), cls("out", 1, bo="active"), cls("out", -1), cls("out", 1, bo="expired")],
            [ev("graft", dhi + 1), ev("graft", dhi + 3), ev("graft", dhi + 4), ev("graft", dhi + 5), ev("graft", dhi + 6), ev("graft", dhi + 2),
             ev("graft", 1), HB, ev("graft", dhi + 1), HB])
    # Join promoting a fanout with a backed-off, a negative (and, D16, a direct) member; Leave; re-Join inside the unsubscribe backoff
    for par in [std, (2, 1, 3, 1, 0), (4, 3, 5, 2, 1)]:
        add("join-fanout", par,
            [cls("in", 1, member=True), cls("out", -1, member=True), cls("out", 1, bo="active", member=True), cls("in", 2, bo="expired", member=True),
             cls("out", 2), cls("out", 2, direct=True), cls("in", -1)],
            [ev("join"), HB, ev("leave"), ev("join"), HB, ev("leave"), HB, HB, HB, ev("join"), HB], joined=False)
        add("join-fanout-direct", par,
            [cls("in", 1, member=True), cls("out", 1, member=True), cls("out", 2), cls("in", 0)],
            [ev("direct", 2, "T"), ev("join"), HB, HB], joined=False)
        add("join-fresh", par,
            [cls("in", 1), cls("out", 0), cls("out", 2, direct=True), cls("out", 2, bo="active"), cls("in", -1), cls("out", 1, cap=False)],
            [ev("leave"), ev("join"), HB, ev("leave"), HB], joined=True)
    # a fanout member leaves (closed, blacklisted, our stream reset) and the topic is joined before / after the next heartbeat:
    # Join must not promote the departed peer
    for par in [std, (2, 1, 3, 1, 0), (4, 3, 5, 2, 1)]:
        fan = [cls("in", 1, member=True), cls("out", 1, member=True), cls("out", 2, member=True), cls("out", 0), cls("in", 0)]
        add("join-after-fanout-member-left", par, fan, [ev("down", 1, "none"), ev("join"), HB, HB], joined=False)
        add("join-after-fanout-member-left", par, fan, [ev("down", 2, "none"), ev("down", 3, "none"), ev("join"), HB, HB], joined=False)
        add("join-after-fanout-member-left", par, fan, [ev("down", 1, "none"), ev("publish"), ev("join"), HB], joined=False)
        add("join-after-fanout-member-left", par, fan, [ev("down", 3, "none"), HB, ev("join"), HB], joined=False)
        add("join-after-fanout-member-left", par, fan, [raw(a="blacklist", p="p2"), ev("join"), HB, HB], joined=False)
        add("join-after-fanout-member-left", par, fan, [raw(a="resetIn", p="p2"), raw(a="adv", ms=30), raw(a="resetIn", p="p2"), ev("join"), HB, HB], joined=False)
    # a mesh member PRUNEs us, with and without peer exchange, entitled to it or not (AcceptPXThreshold is 2): it is backed
    # off whatever became of its PX records; afterwards the mesh is below Dlo with the pruner as the only tempting candidate
    # (wanted > eligible: every peer passing the filter would be grafted), or not below Dlo; heartbeats inside the backoff
    for par in [std, (4, 3, 5, 2, 1), (2, 1, 3, 1, 0)]:
        dlo = par[1]
        pxs = [None, ["p3"], ["p3", "p4"], ["garbage-id", "p3"], ["p3", "p4", "p5", "x1", "x2"]]
        for below in (True, False):
            nmem = dlo if below else dlo + 2
            for sc_pruner in (0, 1, 3):
                for px in (pxs if (below and par == std) else [pxs[rng.randrange(1, len(pxs))]]):
                    classes = [cls(rng.choice(["in", "out"]), sc_pruner, member=True)] + [cls("in", 2, member=True) for _ in range(nmem - 1)]
                    while len(classes) < 3:
                        classes.append(cls("out", -1))
                    classes += [cls("out", -1), cls("out", 3, direct=True), cls("in", -1)]
                    act = {"a": "prune", "p": "p1", "t": T}
                    if px is not None:
                        act["px"] = px
                    bo = rng.choice([None, 3, 7])
                    if bo:
                        act["bo"] = bo
                    add("prune-with-px", par, classes, [raw(**act), HB, HB, ev("graft", 1), HB], joined=True)
    # departure of mesh members (connection closed), then the mesh recovers
    for par in [std, (2, 1, 3, 1, 0)]:
        add("departure", par,
            [cls("in", 1, member=True), cls("out", 1, member=True), cls("in", 0, member=True), cls("out", 0), cls("in", 2)],
            [ev("down", 1, "none"), ev("down", 2, "none"), HB, ev("up", 1, "out+"), HB, ev("down", 3, "none"), HB])
    # the all-zero bootstrapper set: only outbound GRAFTs are admitted, Join takes every eligible peer, every heartbeat empties the mesh
    add("allzero", (0, 0, 0, 0, 0),
        [cls("out", 1, member=True), cls("out", 0, member=True), cls("in", 1, member=True), cls("in", 2), cls("out", -1), cls("out", 2, direct=True)],
        [ev("graft", 4), HB, ev("graft", 1), ev("graft", 2), HB, HB, ev("leave"), HB, HB, HB, ev("join"), HB, HB])
    add("allzero-fanout", (0, 0, 0, 0, 0),
        [cls("out", 1, member=True), cls("in", 0, member=True), cls("in", 2), cls("out", -1)],
        [ev("join"), HB, HB], joined=False)
    # a GRAFT that is dropped on a full queue waits in gs.control and is retried by the next heartbeat's flush
    for par in [std, (2, 1, 3, 1, 0)]:
        for how in ("join", "hb"):
            evs = [raw(a="gate", p="p1", on=True), raw(a="subscribe", t="T2"), raw(a="subscribe", t="T3"), raw(a="cancel", t="T2"), raw(a="cancel", t="T3")]
            if how == "join":
                evs += [ev("join"), HB, raw(a="gate", p="p1", on=False), HB, HB]
                add("drop-retry-join", par, [cls("out", 1), cls("in", -1)], [ev("leave")] + evs, queue=2)
            else:
                evs += [ev("score", 1, "1"), HB, HB, raw(a="gate", p="p1", on=False), HB, HB]
                add("drop-retry-hb", par, [cls("out", -1), cls("in", -1)], evs, queue=2)
    # D6: our outbound stream to the peer is gone (reset twice: the second re-open waits 100 ms) while its stream to us lives
    for par in [std, (2, 1, 3, 1, 0)]:
        add("graft-without-outbound-stream", par,
            [cls("out", 1), cls("in", 1, member=True), cls("in", 0)],
            [raw(a="resetIn", p="p1"), raw(a="adv", ms=30), raw(a="resetIn", p="p1"), ev("graft", 1), HB, HB, ev("down", 1, "none"), HB])
    return out


DOUT2_PARAMS = [(8, 6, 12, 4, 3), (6, 4, 8, 2, 2), DEFAULT_PARAMS]


def cut_cycle_scenario(rng, par, cycles, equal_scores):
    """Dout >= 2: a mesh of mixed directions is driven to Dhi again and again (the members the heartbeat cut re-GRAFT once
    their 1 s backoff has elapsed), so that one scenario yields many over-subscription cuts with fresh random selections."""
    d, dlo, dhi, dscore, dout = par
    n = dhi + rng.choice([0, 1])
    n_out = rng.randint(dout + 1, min(n - 2, dout + 3))
    dirs = ["out"] * n_out + ["in"] * (n - n_out)
    rng.shuffle(dirs)
    sc = [0] * n if equal_scores else [rng.choice([0, 1, 2, 3, 4, 5]) for _ in range(n)]
    classes = [cls(dirs[i], sc[i], member=True) for i in range(n)]
    order = sorted(range(n), key=lambda i: dirs[i] != "in")       # inbound GRAFTs first: they are refused at Dhi
    evs = [HB]
    for c in range(cycles):
        evs.append(HB)                                            # the cut; then one idle heartbeat for the backoff
        evs.append(HB)
        if not equal_scores:
            for i in rng.sample(range(n), 3):
                evs.append(ev("score", i + 1, str(rng.choice([0, 1, 2, 3, 4, 5]))))
        for i in order:
            evs.append(ev("graft", i + 1))
    evs.append(HB)
    return Builder(par, rng, "cut-cycles-dout2", pruneBackoffS=1).scenario(init_from_classes(classes, True), evs)


FIRST_CUT_PARAMS = [(4, 2, 5, 1, 1), (4, 2, 5, 0, 1), (6, 4, 8, 2, 2), (6, 4, 7, 1, 2)]


def first_cut_scenario(rng, par, after_sweep):
    """The first over-subscription cut a topic ever sees (no backoff map for the topic yet; or, after_sweep, the map was
    emptied by clearBackoff at tick 15), with every heartbeat an opportunistic-graft tick, the median always below the
    threshold and Dscore below D/2, so that members the cut removes score above the median of the kept ones: the later
    graft steps of the same heartbeat must treat them as backed off."""
    d, dlo, dhi, dscore, dout = par
    n = dhi + rng.choice([1, 2])
    scores = rng.sample(range(1, 3 * n), n)
    n_in = rng.randint(max(0, n - 4), min(dhi, n - 1))           # inbound GRAFTs are admitted only below Dhi: none is refused
    dirs = ["in"] * n_in + ["out"] * (n - n_in)
    rng.shuffle(dirs)
    outsiders = [cls("out", 4 * n), cls("in", 0)] if rng.random() < 0.75 else [cls("in", 0)]
    b = Builder(par, rng, "first-cut-opportunistic", opp=(1, 4, 100))
    if not after_sweep:
        classes = [cls(dirs[i], scores[i], member=True) for i in range(n)] + outsiders
        return b.scenario(init_from_classes(classes, True), [HB, HB])
    first = d                                                    # D members to begin with: the heartbeats leave them alone
    order = sorted(range(n), key=lambda i: scores[i], reverse=True)
    early, late = order[:first], order[first:]
    classes = [cls(dirs[i], scores[i] if i in early else 0, member=(i in early)) for i in range(n)] + [cls("out", 0, bo="expired")]
    evs = [HB] * 16
    for i in sorted(late, key=lambda i: dirs[i] != "in"):
        evs += [ev("score", i + 1, str(scores[i])), ev("graft", i + 1)]
    evs += [HB, HB]
    return b.scenario(init_from_classes(classes, True), evs)


def two_topic_scenario(rng, par, deterministic):
    """Two joined topics and one heartbeat that grafts a peer in T1 (under-subscribed, the peer eligible) and prunes the
    same peer in T2 (over-subscribed, the peer among the excess): sendGraftPrune puts both into one RPC."""
    d, dlo, dhi, dscore, dout = par
    n = dhi + 1
    names = ["p%d" % (i + 1) for i in range(n)]
    rng.shuffle(names)
    both = names[:2] if deterministic else names[:rng.randint(2, n)]     # subscribed to T1 as well
    acts = []
    for i, q in enumerate(names):
        acts.append({"a": "peer", "p": q, "proto": rng.choice(["v11", "v12", "v13", "v10"]), "dir": "in" if i < dhi - 1 else "out",
                     "subs": ["T1", "T2"] if q in both else ["T2"]})
    for q in names:
        acts.append({"a": "score", "p": q, "v": -1})
    acts += [{"a": "subscribe", "t": "T1"}, {"a": "subscribe", "t": "T2"}, {"a": "hb"}]
    for i, q in enumerate(names):                                          # everybody joins the T2 mesh: |mesh| = Dhi + 1
        acts.append({"a": "score", "p": q, "v": (0 if q in both else 1 + i) if deterministic else rng.choice([0, 1, 2])})
        acts.append({"a": "graft", "p": q, "t": "T2"})
    acts += [{"a": "hb"}, {"a": "hb"}]
    if not deterministic:
        for k in range(3):                                                 # again: T1 members leave, T2 fills up
            for q in both:
                acts.append({"a": "prune", "p": q, "t": "T1", "bo": 1})
            acts += [{"a": "hb"}, {"a": "hb"}]
            for q in names:
                acts.append({"a": "graft", "p": q, "t": "T2"})
            acts += [{"a": "hb"}]
    cfg = base_cfg(par, n, pruneBackoffS=1)
    return {"cfg": cfg, "acts": acts, "tag": "two-topics-graft-and-prune"}


def py_random_scenario(rng, par, n, steps, tag):
    """Random classes and random events for peer counts the TLC generator does not reach (default parameters)."""
    d, dlo, dhi, dscore, dout = par
    classes = []
    for i in range(n):
        r = rng.random()
        member = r < 0.6
        c = cls(rng.choice(["in", "out"]), rng.choice([-1, 0, 0, 1, 1, 2, 3]), member=member)
        if not member:
            x = rng.random()
            if x < 0.12:
                c["direct"] = True
            elif x < 0.3:
                c["bo"] = rng.choice(["active", "expired"])
            elif x < 0.36:
                c["cap"] = False
            elif x < 0.42:
                c["sub"] = False
            elif x < 0.46:
                c["conn"] = "none"
        classes.append(c)
    evs = []
    up = {i + 1 for i, c in enumerate(classes) if c["conn"] != "none"}
    for s in range(steps):
        if s % 4 == 3:
            evs.append(HB)
            continue
        p = rng.randrange(1, n + 1)
        r = rng.random()
        if p not in up:
            evs.append(ev("up", p, rng.choice(["in", "out"]) + "+")); up.add(p)
        elif r < 0.25:
            evs.append(ev("graft", p))
        elif r < 0.4:
            evs.append(ev("prune", p))
        elif r < 0.7:
            evs.append(ev("score", p, str(rng.choice([-2, -1, 0, 1, 2, 3]))))
        elif r < 0.76:
            evs.append(ev("direct", p, rng.choice(["T", "F"])))
        elif r < 0.84:
            evs.append(ev("down", p, "none")); up.discard(p)
        elif r < 0.9:
            evs.append(ev("sub", p, rng.choice(["T", "F"])))
        elif r < 0.95:
            evs.append(ev("leave"))
        else:
            evs.append(ev("join"))
    return Builder(par, rng, tag, opp=(rng.choice([2, 3]), rng.choice([1, 2]), rng.choice([1, 2]))).scenario(init_from_classes(classes, True), evs)


def gen_scenarios(ctx):
    """TLC-generated scenarios (GenMesh, -simulate, seeded)."""
    pars = list(REPLAY_PARAMS) + (REPLAY_PARAMS_THOROUGH if ctx.thorough else [])
    per = 45 if not ctx.thorough else 180
    if not ctx.thorough:
        # every TLC start waits for a system-wide slot: four generator runs per quick run (the all-zero set always, the
        # others rotate with the seed; the directed families cover every set in every run)
        rest = [x for x in pars if x != (0, 0, 0, 0, 0)]
        k = ctx.seed % len(rest)
        pars = [(0, 0, 0, 0, 0)] + (rest[k:] + rest[:k])[:3]
    rng = random.Random(ctx.seed * 7919 + 1)
    jobs = []
    for par in pars:
        if not valid_params(par):
            raise vlib.Inconclusive("internal: parameter set %s is not accepted by validate" % (par,))
        np_ = min(8, max(4, par[2] + 2))
        consts = mc_constants(par, np_, "full", 100, 100, drops=0, init="empty", joined="{TRUE}")
        consts.update({"L": 9 if not ctx.thorough else 12, "HbEvery": 3})
        cfg = vlib.cfg_text(spec="GSpec", constants=consts, invariants=["Emit"])
        jobs.append((par, np_, cfg))

    def one(job):
        par, np_, cfg = job
        L = 9 if not ctx.thorough else 12
        return job, vlib.run_tlc(ctx, FAMILY, "GenMesh", cfg, mode="sim", simulate="num=%d" % per, depth=L + 3,
                                 timeout=600, name="gen-%d%d%d%d%d" % par, workers=1)

    scns, st, tr = [], 0, 0
    with cf.ThreadPoolExecutor(max_workers=4) as ex:
        results = list(ex.map(one, jobs))
    for (par, np_, cfg), g in results:
        got = g.printed("SCN")
        if not got:
            raise vlib.Inconclusive("GenMesh emitted nothing for %s (see %s/tlc.out)" % (par, g.dir))
        m = re.search(r"The number of states generated: (\d+)", g.out)
        n = int(m.group(1)) if m else len(got) * 10
        st += n; tr += n
        for s in got[:per]:
            scns.append(Builder(par, rng, "gen").scenario(s["init"], s["hist"]))
    return scns, st, tr


# ----------------------------------------------------------------------------- replay and trace validation
def read_trace(path):
    """NDJSON reader that tolerates a truncated last line (the driver may have died mid-write)."""
    out = []
    if not os.path.exists(path):
        return out
    with open(path) as f:
        for line in f:
            line = line.strip()
            if not line:
                continue
            try:
                out.append(json.loads(line))
            except ValueError:
                break
    return out


def go_parallel(n):
    """Concurrent go runs (vlib.run_go writes go.alt.mod once, atomically)."""
    return n


def replay(ctx, scns, name, shards=4):
    """Replays scenarios through TestRouterReplay in parallel shards; returns the step lines per scenario
    (global scenario index = position in scns). When the driver process dies in a scenario, the crash is
    examined (handle_crash) and the rest of the shard is replayed by a new process (at most 3 times)."""
    shards = max(1, min(shards, (len(scns) + 39) // 40))
    parts = [list(range(i, len(scns), shards)) for i in range(shards)]

    def one(k):
        todo, got, crashes, attempt = list(parts[k]), {}, [], 0
        while todo and attempt < 4:
            inp = os.path.join(ctx.work, "%s-in-%d-%d.ndjson" % (name, k, attempt))
            outp = os.path.join(ctx.work, "%s-out-%d-%d.ndjson" % (name, k, attempt))
            mark = os.path.join(ctx.work, "%s-marker-%d-%d" % (name, k, attempt))
            vlib.write_ndjson(inp, [{"cfg": scns[i]["cfg"], "acts": scns[i]["acts"]} for i in todo])
            r = vlib.run_go(ctx, "./drivers/router/", "^TestRouterReplay$", env={"VERIF_IN": inp, "VERIF_OUT": outp, "VERIF_MARKER": mark},
                            timeout=1500, name="%s-%d-%d" % (name, k, attempt))
            per = {}
            for ln in read_trace(outp):
                per.setdefault(ln["scn"], []).append(ln)
            if r["rc"] == 0:
                for local, ls in per.items():
                    got[todo[local]] = ls
                todo = []
                break
            crashed = int(open(mark).read()) if os.path.exists(mark) else -1
            crashes.append((todo[crashed] if 0 <= crashed < len(todo) else -1, r))
            for local, ls in per.items():
                if local < crashed:
                    got[todo[local]] = ls
            todo = todo[crashed + 1:] if crashed >= 0 else []
            attempt += 1
        return got, crashes

    res = {}
    with cf.ThreadPoolExecutor(max_workers=go_parallel(shards)) as ex:
        for got, crashes in ex.map(one, range(shards)):
            res.update(got)
            for g, r in crashes:
                handle_crash(ctx, scns, g, r, name)
    missing = [i for i in range(len(scns)) if i not in res]
    return res, missing


def handle_crash(ctx, scns, g, r, name):
    """The driver process died in scenario g. It is a violation only if the single scenario reproduces a panic in library code."""
    if g < 0:
        raise vlib.Inconclusive("driver %s failed outside a scenario (rc=%s, see %s)" % (name, r["rc"], r["log"]))
    inp = os.path.join(ctx.work, "%s-crash-%d.ndjson" % (name, g))
    outp = os.path.join(ctx.work, "%s-crash-%d-out.ndjson" % (name, g))
    vlib.write_ndjson(inp, [{"cfg": scns[g]["cfg"], "acts": scns[g]["acts"]}])
    r2 = vlib.run_go(ctx, "./drivers/router/", "^TestRouterReplay$", env={"VERIF_IN": inp, "VERIF_OUT": outp}, timeout=600, name="%s-crash-%d" % (name, g))
    out = r2["out"]
    m = re.search(r"^panic: (.*)$", out, re.M)
    in_lib = re.search(r"go-libp2p-pubsub(@[^/]*)?\.\(\*GossipSubRouter\)|/repo/gossipsub\.go|%s/gossipsub\.go" % re.escape(os.path.realpath(vlib.REPO)), out)
    if r2["rc"] != 0 and m and in_lib:
        where = re.findall(r"gossipsub\.go:\d+", out)
        vlib.add_violation(ctx, "P_C07_NoCrash", {"kind": "panic", "where": where[0] if where else "?", "tag": scns[g].get("tag")},
                           "the router panicked (%s) while maintaining the mesh in a %s scenario with parameters %s" %
                           (m.group(1)[:120], scns[g].get("tag"), {k: scns[g]["cfg"].get(k) for k in ("D", "Dlo", "Dhi", "Dscore", "Dout")}),
                           {"scenario": scns[g], "log_tail": out[-3000:]})
        return
    raise vlib.Inconclusive("driver %s died in scenario %d (%s) and the crash is not a reproducible library panic (see %s, %s)" %
                            (name, g, scns[g].get("tag"), r["log"], r2["log"]))


ST_KEYS = ("now", "router", "dead", "peers", "topics", "subs", "relays", "myTopics", "gsPeers", "direct", "mesh", "fanout", "lastpub",
           "control", "outbound", "backoff", "ticks", "scores", "scoresExact")


def slim(ln, g):
    """Only what MeshTrace reads (TLC spends most of its time parsing the file)."""
    def ctl(r):
        return {"graft": r["graft"], "prune": [{"topic": x["topic"], "backoff": x.get("backoff", 0), "npx": len(x.get("px", []))} for x in r["prune"]]}
    evs = []
    for e in ln["ev"]:
        if e["k"] in ("Up", "Down", "Join", "Leave", "Graft", "Prune"):
            evs.append({k: e[k] for k in ("k", "p", "topic", "t") if k in e})
        elif e["k"] == "Recv" or (e["k"] in ("Send", "Drop") and (e["rpc"]["graft"] or e["rpc"]["prune"])):
            evs.append({"k": e["k"], "p": e["p"], "t": e["t"], "rpc": ctl(e["rpc"])})
    out = {}
    for q, frames in ln["out"].items():
        fr = [ctl(f) for f in frames if f["graft"] or f["prune"]]
        if fr:
            out[q] = fr
    st = {k: ln["st"][k] for k in ST_KEYS if k in ln["st"]}
    if "peers" in st:
        st["peers"] = {q: {"q": v["q"]} for q, v in st["peers"].items()}
    return {"i": ln["i"], "scn": g, "act": ln["act"], "hb": ln["hb"], "ev": evs, "out": out, "st": st}


def validate(ctx, traces, name, chunk_lines=6000):
    """Runs MeshTrace over the traces (dict global scenario index -> lines). Returns (viols, covs, states)."""
    order = sorted(traces)
    chunks, cur, n = [], [], 0
    for g in order:
        ls = traces[g]
        if cur and n + len(ls) > chunk_lines:
            chunks.append(cur); cur, n = [], 0
        cur.append(g); n += len(ls)
    if cur:
        chunks.append(cur)

    def one(ci):
        path = os.path.join(ctx.work, "%s-tv-%d.ndjson" % (name, ci))
        rows = []
        for g in chunks[ci]:
            for ln in traces[g]:
                rows.append(slim(ln, g))
        vlib.write_ndjson(path, rows)
        res = vlib.run_tlc(ctx, FAMILY, "MeshTrace", "MeshTrace.cfg", mode="trace", files={"trace.ndjson": path},
                           timeout=900, name="%s-tv-%d" % (name, ci))
        if res.hw is None or res.hw[0] < res.hw[1] or not res.no_error:
            at = rows[min(res.hw[0], len(rows)) - 1] if res.hw else None
            raise vlib.Inconclusive("trace validation stopped early (%s) at scenario %s line %s: %s (see %s/tlc.out)" %
                                    (res.hw, at and at["scn"], at and at["i"], res.errors[:2], res.dir))
        return res.printed("VIOL"), res.printed("COV"), res.distinct

    viols, covs, states = [], [], 0
    with cf.ThreadPoolExecutor(max_workers=4) as ex:
        for v, c, s in ex.map(one, range(len(chunks))):
            viols += v; covs += c; states += s
    return viols, covs, states


def excerpt(st):
    keys = ("now", "ticks", "mesh", "fanout", "lastpub", "gsPeers", "outbound", "direct", "backoff", "scores", "topics", "subs", "relays", "control")
    return {k: st.get(k) for k in keys}


def record_violations(ctx, viols, traces, scns, source):
    seen = set()
    for v in viols:
        g, i = v["scn"], v["i"]
        key = (g, v["pred"], v["kind"], v["t"], v["p"])
        if key in seen:
            continue
        seen.add(key)
        lines = traces.get(g, [])
        line = next((ln for ln in lines if ln["i"] == i), None)
        prev = next((ln for ln in lines if ln["i"] == i - 1), None)
        sig = {"kind": v["kind"], "step": v["a"]}
        par = scns[g]["cfg"] if g < len(scns) else {}
        detail = "%s on topic %s%s at step %d (%s) of a %s scenario (D=%s Dlo=%s Dhi=%s Dscore=%s Dout=%s): mesh %s -> %s" % (
            v["kind"], v["t"], (" peer " + v["p"]) if v["p"] else "", i, json.dumps(line["act"]) if line else v["a"], source + "/" + str(scns[g].get("tag")),
            par.get("D"), par.get("Dlo"), par.get("Dhi"), par.get("Dscore"), par.get("Dout"),
            prev and prev["st"].get("mesh", {}).get(v["t"]), line and line["st"].get("mesh", {}).get(v["t"]))
        vlib.add_violation(ctx, v["pred"], sig, detail,
                           {"scenario": {"cfg": scns[g]["cfg"], "acts": scns[g]["acts"]}, "failing_step": i, "act": line and line["act"],
                            "events": line and [e for e in line["ev"] if e["k"] in ("Graft", "Prune", "Join", "Leave", "Up", "Down") or
                                                (e["k"] in ("Send", "Drop", "Recv") and (e["rpc"]["graft"] or e["rpc"]["prune"]))],
                            "pre": prev and excerpt(prev["st"]), "post": line and excerpt(line["st"])})


def run_walks(ctx):
    """Seeded random walks over the whole action alphabet (TestRouterWalk) under several parameter sets."""
    pars = [(4, 2, 5, 2, 1), (2, 1, 3, 1, 0), (4, 3, 5, 2, 1)] + ([(0, 0, 0, 0, 0), (3, 2, 4, 4, 0), (4, 2, 4, 2, 1)] if ctx.thorough else [])
    walks, steps = (6, 60) if not ctx.thorough else (50, 90)

    def one(k):
        par = pars[k]
        outp = os.path.join(ctx.work, "walk-out-%d.ndjson" % k)
        dump = os.path.join(ctx.work, "walk-scn-%d.ndjson" % k)
        cfg = base_cfg(par, 8)
        cfg.pop("hosts")
        r = vlib.run_go(ctx, "./drivers/router/", "^TestRouterWalk$",
                        env={"VERIF_OUT": outp, "VERIF_WALKS": walks, "VERIF_STEPS": steps, "VERIF_CFG": json.dumps(cfg),
                             "VERIF_DUMP_SCN": dump, "VERIF_SEED": ctx.seed * 100 + k}, timeout=1500, name="walk-%d" % k)
        return k, r, outp, dump

    traces, scns = {}, []
    with cf.ThreadPoolExecutor(max_workers=go_parallel(3)) as ex:
        results = list(ex.map(one, range(len(pars))))
    for k, r, outp, dump in results:
        if r["rc"] != 0 or not os.path.exists(outp):
            raise vlib.Inconclusive("walk driver failed (rc=%s, see %s)" % (r["rc"], r["log"]))
        dumped = vlib.read_ndjson(dump) if os.path.exists(dump) else []
        per = {}
        for ln in read_trace(outp):
            per.setdefault(ln["scn"], []).append(ln)
        for local in sorted(per):
            g = len(scns)
            s = dumped[local] if local < len(dumped) else {"cfg": base_cfg(pars[k], 8), "acts": []}
            scns.append({"cfg": s.get("cfg", s.get("Cfg")), "acts": s.get("acts", s.get("Acts")), "tag": "walk"})
            traces[g] = per[local]
    return traces, scns


def param_domain(ctx):
    """GossipSubParams.validate on a grid vs MeshProps!ValidParams (judged by MeshParams.tla). Returns
    (sets the code accepts although the model calls them invalid, number of sets asked, states)."""
    outp = os.path.join(ctx.work, "params.ndjson")
    r = vlib.run_go(ctx, "./drivers/c07/", "^TestC07Validate$", env={"VERIF_OUT": outp, "VERIF_GRID": 5 if not ctx.thorough else 7}, timeout=600, name="validate")
    if r["rc"] != 0 or not os.path.exists(outp):
        raise vlib.Inconclusive("validate driver failed (rc=%s, see %s)" % (r["rc"], r["log"]))
    res = vlib.run_tlc(ctx, FAMILY, "MeshParams", "MeshParams.cfg", mode="trace", files={"params.ndjson": outp}, timeout=600, name="params")
    done = res.printed_raw("CHECKED")
    if not done or not res.no_error:
        raise vlib.Inconclusive("MeshParams did not finish (see %s/tlc.out)" % res.dir)
    key = lambda x: (x["D"], x["Dlo"], x["Dhi"], x["Dscore"], x["Dout"])
    accepts = sorted({key(x) for x in res.printed("ACCEPTS")})
    rejects = sorted({key(x) for x in res.printed("REJECTS")})
    need = set(REPLAY_PARAMS) | (set(REPLAY_PARAMS_THOROUGH) if ctx.thorough else set())
    if set(rejects) & need:
        raise vlib.Inconclusive("GossipSubParams.validate rejects parameter sets the check replays: %s" % sorted(set(rejects) & need))
    if rejects:
        ctx.notes.append("validate rejects %d parameter set(s) of the grid that the model considers valid, e.g. %s" % (len(rejects), rejects[:3]))
    if accepts:
        ctx.notes.append("validate accepts %d parameter set(s) of the grid outside the model's domain, e.g. %s; mesh scenarios are replayed under them" % (len(accepts), accepts[:3]))
    return accepts, int(done[-1]), res.distinct


def stress_scenarios(rng, par, tag):
    """Mesh sizes around every threshold of an (unusual) parameter set, all members outbound so that every GRAFT is admitted."""
    d, dlo, dhi, dscore, dout = par
    out = []
    top = min(max(d, dhi, dscore, dlo) + 1, 9)
    for m in sorted({x for x in (dlo - 1, dlo, d - 1, d, dhi - 1, dhi, dhi + 1, dscore - 1, dscore, top) if 0 <= x <= top}):
        classes = [cls("out", rng.choice([0, 1, 2, 3]), member=True) for _ in range(m)] + [cls("out", 1), cls("in", 2)]
        out.append(Builder(par, rng, tag).scenario(init_from_classes(classes, True), [HB, HB, ev("score", 1, "-1"), HB, HB]))
    return out


OBLIGATIONS = {
    "hb-neg": "heartbeat pruned a negatively scored member",
    "hb-grow": "heartbeat grafted because the mesh was below Dlo",
    "hb-cut": "heartbeat cut an over-subscribed mesh",
    "hb-quota": "heartbeat grafted for the outbound quota",
    "hb-opp": "heartbeat grafted opportunistically",
    "graft-refused-direct": "GRAFT from a direct peer refused",
    "graft-refused-backoff": "GRAFT from a backed-off peer refused",
    "graft-refused-negative": "GRAFT from a negatively scored peer refused",
    "graft-refused-dhi": "GRAFT from an inbound peer refused at Dhi",
    "graft-accepted": "GRAFT admitted",
    "join-fanout-backedoff": "Join promoting a fanout with a backed-off member",
    "join-fanout-negative": "Join promoting a fanout with a negative member",
    "leave-nonempty": "Leave with mesh members",
    "member-departed": "a mesh member's stream closed",
    "hb-allzero": "heartbeat under the all-zero parameter set",
    "graft-dropped": "GRAFT dropped on a full queue and parked for retry",
    "graft-retried": "parked GRAFT re-sent by a heartbeat",
    "hb-graft-and-prune-same-peer": "one heartbeat grafted a peer in one topic and pruned it in another",
    "join-fanout-after-member-left": "Join promoted a fanout set after a member of it had left (no heartbeat in between)",
    "hb-below-dlo-px-pruner-backed-off": "a heartbeat with the mesh below Dlo inside the backoff of a peer whose PRUNE carried PX while it scored below AcceptPXThreshold",
    "hb-below-dlo-pruner-backed-off": "a heartbeat with the mesh below Dlo while a peer that pruned us is backed off (by the events) and otherwise eligible",
}
# obligations with a minimum count: (tag, quick, thorough, what)
OBLIGATION_COUNTS = [
    ("hb-cut-then-add-no-backoff-map", 6, 25, "heartbeats that cut a mesh and then grafted in the same topic while the topic had no backoff map when they began"),
    ("hb-cut-dout2", 150, 500, "over-subscription cuts under Dout >= 2"),
    ("hb-cut-outbound-quota-binding", 40, 160, "cuts under Dout >= 2 that kept exactly Dout of more outbound members next to inbound ones (fewer than Dout in the selection, others rotated in)"),
]


def run(ctx):
    if os.environ.get("VERIF_C07_SKIP_MC"):        # debugging aid only (mutation loops); never set by registered commands
        states, transitions, mc = 1, 1, {"skipped": True}
        ctx.notes.append("model checking stage skipped (VERIF_C07_SKIP_MC)")
    else:
        states, transitions, mc = run_mc(ctx)
    rng = random.Random(ctx.seed)
    scns = directed_scenarios(rng, ctx.thorough)
    # Dout >= 2: many over-subscribed meshes of mixed direction, equal and distinct scores (the outbound bubble-up loops)
    for par in DOUT2_PARAMS:
        for k in range(10 if not ctx.thorough else 30):
            scns.append(cut_cycle_scenario(rng, par, 10, equal_scores=(k % 2 == 0)))
    # the first cut of a topic (no backoff map yet) in a heartbeat that also grafts opportunistically
    for k in range(24 if not ctx.thorough else 100):
        scns.append(first_cut_scenario(rng, FIRST_CUT_PARAMS[k % len(FIRST_CUT_PARAMS)], after_sweep=(k % 8 == 7)))
    # two joined topics: the same peer grafted in one and pruned in the other by one heartbeat
    for par in [(4, 2, 5, 4, 0), (3, 2, 4, 3, 0)]:
        scns.append(two_topic_scenario(rng, par, True))       # D = Dscore: the cut keeps exactly the best, the outcome is certain
    for k in range(6 if not ctx.thorough else 30):
        scns.append(two_topic_scenario(rng, rng.choice([(4, 2, 5, 2, 1), (4, 3, 5, 2, 1), (2, 1, 3, 1, 0), (6, 4, 8, 2, 2)]), False))
    n_dir = len(scns)
    gen, gst, gtr = gen_scenarios(ctx)
    scns += gen
    states += gst; transitions += gtr
    if ctx.thorough:
        for k in range(60):
            scns.append(py_random_scenario(rng, DEFAULT_PARAMS, 14, 40, "default-params"))
        for k in range(120):
            par = rng.choice(REPLAY_PARAMS + REPLAY_PARAMS_THOROUGH)
            scns.append(py_random_scenario(rng, par, min(9, par[2] + 3), 32, "random"))
    else:
        for k in range(4):
            scns.append(py_random_scenario(rng, DEFAULT_PARAMS, 14, 24, "default-params"))
    accepts, grid, pst = param_domain(ctx)
    states += pst; transitions += pst
    # the property is quantified over every set the code accepts: sets outside the model's domain are exercised too
    pick = sorted(accepts, key=lambda a: (sum(a), a))[:3] + (rng.sample(accepts, min(len(accepts), 5)) if accepts else [])
    for par in dict.fromkeys(pick):
        scns += stress_scenarios(rng, par, "accepted-by-validate-only")
    for s in scns:
        c = s["cfg"]
        if s["tag"] != "accepted-by-validate-only" and not valid_params((c["D"], c["Dlo"], c["Dhi"], c["Dscore"], c["Dout"])):
            raise vlib.Inconclusive("internal: scenario with parameters validate rejects: %s" % c)
    ctx.log("scenarios: %d directed, %d generated by TLC, %d random" % (n_dir, len(gen), len(scns) - n_dir - len(gen)))
    traces, missing = replay(ctx, scns, "replay", shards=4 if not ctx.thorough else 6)
    if missing and not ctx.violations:
        raise vlib.Inconclusive("replay produced no trace for scenarios %s" % missing[:10])
    wtraces, wscns = run_walks(ctx)
    off = len(scns)
    for g, ls in wtraces.items():
        traces[off + g] = ls
    scns += wscns
    nlines = sum(len(v) for v in traces.values())
    ctx.log("replayed %d scenarios (%d walks), %d step lines" % (len(traces), len(wscns), nlines))
    viols, covs, tst = validate(ctx, traces, "all")
    states += tst
    record_violations(ctx, viols, traces, scns, "replay")

    hits, distinct = {}, set()
    by_line = {}
    for c in covs:
        hits[c["tag"]] = hits.get(c["tag"], 0) + 1
        by_line.setdefault((c["scn"], c["i"]), set()).add(c["tag"])
    idx = {g: {ln["i"]: ln for ln in ls} for g, ls in traces.items()}
    samples = []
    for (g, i), tags in by_line.items():
        tags = tags - {"hb"}
        if not tags:
            continue
        ln, pv = idx[g][i], idx[g].get(i - 1)
        c = scns[g]["cfg"]
        key = json.dumps([[c.get(k) for k in ("D", "Dlo", "Dhi", "Dscore", "Dout")], ln["act"].get("a"), sorted(tags),
                          pv and pv["st"].get("mesh"), ln["st"].get("mesh"), pv and sorted(pv["st"].get("scores", {}).items())], sort_keys=True)
        distinct.add(key)
        if len(samples) < 4 and ("hb-cut" in tags or "hb-grow" in tags or "join-fanout" in tags):
            samples.append({"scenario_tag": scns[g].get("tag"), "params": [c.get(k) for k in ("D", "Dlo", "Dhi", "Dscore", "Dout")], "step": ln["act"],
                            "coverage": sorted(tags), "mesh_before": pv and pv["st"].get("mesh"), "mesh_after": ln["st"].get("mesh"),
                            "scores": pv and pv["st"].get("scores"), "events": [e for e in ln["ev"] if e["k"] in ("Graft", "Prune")]})
    missing_ob = [k for k in OBLIGATIONS if not hits.get(k)]
    missing_ob = [OBLIGATIONS[k] for k in missing_ob]
    for tag, nq, nt, what in OBLIGATION_COUNTS:
        need = nt if ctx.thorough else nq
        if hits.get(tag, 0) < need:
            missing_ob.append("%s (%d < %d)" % (what, hits.get(tag, 0), need))
    if missing_ob and not ctx.violations:
        raise vlib.Inconclusive("coverage obligation not met on the real router: %s" % "; ".join(missing_ob))
    if hits.get("hb-mixed", 0) > hits.get("hb", 1) // 5:
        ctx.notes.append("%d heartbeat lines could not be judged exactly (heartbeat mixed with other events)" % hits.get("hb-mixed", 0))
    cov = {"states": states, "transitions": transitions, "traces_validated_against_impl": len(traces),
           "samples": samples, "evaluations": nlines - len(traces), "distinct_nontrivial": len(distinct),
           "rule": "evaluation = one step line of the real router judged by MeshTrace (every predicate, every topic); non-trivial = the step "
                   "changed or tested the mesh (a heartbeat phase with effect, GRAFT admitted/refused, Join/Leave, departure, retry); distinct by "
                   "(parameters, action, coverage tags, mesh before/after, scores)",
           "exhaustive": False, "coverage_hits": hits, "mc": mc, "validate_grid": {"sets_asked": grid, "accepted_outside_model_domain": len(accepts)},
           "scenarios": {"directed": n_dir, "tlc_generated": len(gen), "random": len(scns) - n_dir - len(gen) - len(wscns), "walks": len(wscns)}}
    return vlib.finish(ctx, LEVEL, cov, [
        "scores seen by a heartbeat are those of the snapshot before it (application score only; penalties carry weight 0; no decay within a scenario)",
        "a backoff entry that had expired by the end of the step is treated as 'may or may not block' (the code blocks on mere presence for its own grafts and on time for remote GRAFTs)",
        "heartbeat lines that also contain stream events are judged for the state invariants only",
        "the all-zero and Dscore+Dout>D parameter sets are judged for everything but the keep-best/keep-outbound clause, as the property is only jointly satisfiable when Dscore+Dout<=D"])
