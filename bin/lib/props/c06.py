"""C06 - every forwarded copy goes to exactly the peers the router rules require.

spec/publish: PublishRules (the predicates, written once over a view of one publish/forward step),
Publish (implementation-shaped model of rpcs / getFanoutPeersForPublishing / heartbeat fanout
maintenance / floodsub and randomsub Publish / local-only), MCPublish (exhaustive configurations,
incl. configurations that MUST fail), GenPublish (scenario generator), PublishTrace (trace
specification over the common step-line format of harness/world).

MC -> Gen (TLC, BFS families + seeded -simulate) -> replay through harness/drivers/router
(TestRouterReplay; batch publishing through harness/drivers/c06; plus TestRouterWalk and seeded floodsub/randomsub walks) -> PublishTrace judges
every step in which the real node accepted a message -> vlib.finish."""
import concurrent.futures as cf
import json, os, random, re, threading, time
from .. import vlib

LEVEL = "model_checking"
FAMILY = "publish"
TOPIC = "T1"

# ----------------------------------------------------------------------------- TLC configurations

BASE = {
    "PeerSeq": "<- Seq3", "ProtoOf": "<- ProtoMixed", "Router": '= "gossipsub"', "D": "= 2", "Dlo": "= 1",
    "FanoutTTL": "= 2", "IDWTTL": "= 2", "Thr": "<- MCThr", "ScoreVals": "<- MCScores3", "FloodPublish": "= FALSE",
    "RsSize": "= 10", "MaxMsgs": "= 1", "MaxHist": "= 1", "MaxDirect": "= 1", "MaxUnwanted": "= 1", "IdwAhead": "= 1", "IdwPerHb": "= 2",
    # the model follows the REPAIRED code (/repo 5ab6a16 = D21, 74d77d0 = D22): no early return when topics[t] is absent,
    # fanout members re-checked against topics[t], nothing tolerated; the as-found variants are MUST-FAIL configurations
    # ... and publishMessageBatch must skip local-only messages like publishMessage does (BatchLocalSkipped; as found it does not)
    "ExcludeSource": "= TRUE", "EarlyReturn": "= FALSE", "FanoutUnfiltered": "= FALSE", "BatchLocalSkipped": "= TRUE", "Tolerated": "= {}",
}
GEN = {"Prep": "= TRUE", "PrepTp": "<- PrepTpAll", "PrepJoined": "<- BoolBoth", "PrepMesh": "= TRUE",
       "Alphabet": "<- AlphaAll", "MaxOther": "= 0", "MaxDyn": "= 1", "Tolerated": "= {}", "MaxHist": "= 100"}
PROPS = ["P_C06_Never", "P_C06_Direct", "P_C06_Flood", "P_C06_Mesh", "P_C06_Fanout", "P_C06_FanoutStable",
         "P_C06_FloodPublish", "P_C06_Floodsub", "P_C06_Randomsub"]


def cfg(spec, over=None, gen=False, view=False):
    c = dict(BASE)
    if gen:
        c.update(GEN)
    c.update(over or {})
    lines = ["SPECIFICATION " + spec, "CONSTANTS"] + ["  %s %s" % (k, v) for k, v in c.items()]
    if gen:
        lines.append("INVARIANT Emit")
    else:
        lines.append("INVARIANTS TypeOK " + " ".join(PROPS))
    if view:
        lines.append("VIEW MView")
    lines.append("CHECK_DEADLOCK FALSE")
    return "\n".join(lines) + "\n"


FLOODSUB = {"Router": '= "floodsub"', "ProtoOf": "<- ProtoFlood"}
RANDOMSUB = {"Router": '= "randomsub"', "ProtoOf": "<- ProtoRandom", "PeerSeq": "<- Seq9"}


def model_checking(ctx):
    """Exhaustive model level. Returns (states, transitions, summary)."""
    T = ctx.thorough
    jobs = [
        # every state x every origin, gossipsub (flood publish off / on)
        ("all-gs", "SpecAll", {"ScoreVals": "<- MCScores3" if T else "<- MCScores2"}, False, "ok", 4),
        ("all-gs-flood", "SpecAll", {"ScoreVals": "<- MCScores2", "FloodPublish": "= TRUE"}, False, "ok", 4),
        ("all-floodsub", "SpecAll", dict(FLOODSUB, PeerSeq="<- Seq4"), False, "ok", 1),
        ("all-randomsub", "SpecAll", dict(RANDOMSUB, PeerSeq="<- Seq8"), False, "ok", 2),
        # histories from the empty state (fanout life cycle, reachability)
        ("hist-gs", "Spec", {"MaxMsgs": "= 3" if T else "= 2", "MaxHist": "= 7" if T else "= 6"}, True, "ok", 4),
        # MUST fail: the `pid == from` test dropped
        ("bug-source", "SpecAll", {"ScoreVals": "<- MCScores2", "ExcludeSource": "= FALSE"}, False, "P_C06_Never", 2),
        ("bug-source-floodsub", "SpecAll", dict(FLOODSUB, ExcludeSource="= FALSE"), False, "P_C06_Never", 1),
        # MUST fail: the code as found before the two repairs, one at a time (D22: stale fanout member served; D21: early return)
        ("asfound-fanout-unfiltered", "SpecAll", {"ScoreVals": "<- MCScores2", "FanoutUnfiltered": "= TRUE"}, False, "P_C06_Never", 2),
        ("asfound-early-return", "SpecAll", {"ScoreVals": "<- MCScores2", "EarlyReturn": "= TRUE"}, False, "P_C06_Mesh", 2),
        # MUST fail: publishMessageBatch handing local-only messages of a batch to the router (code as found)
        ("asfound-batch-local", "SpecAll", {"ScoreVals": "<- MCScores2", "BatchLocalSkipped": "= FALSE"}, False, "P_C06_Never", 2),
    ]
    if T:
        jobs.insert(1, ("all-gs-4peers", "SpecAll", {"PeerSeq": "<- Seq4", "ScoreVals": "<- MCScores2"}, False, "ok", 4))

    def one(j):
        name, spec, over, view, expect, workers = j
        r = vlib.run_tlc(ctx, FAMILY, "MCPublish", cfg(spec, over, view=view), timeout=2400,
                         workers=workers, name="mc-" + name, heap="6g")
        return j, r

    states = transitions = 0
    summary = {}
    with cf.ThreadPoolExecutor(max_workers=3 if T else 4) as ex:
        for (name, spec, over, view, expect, _), r in ex.map(one, jobs):
            if expect == "ok":
                vlib.require_mc_ok(ctx, r, "MCPublish " + name, allow_timeout=(name == "all-gs-4peers"))
                states += r.distinct
                transitions += r.generated
                summary[name] = [r.distinct, r.generated]
            else:
                vlib.require_mc_fails(ctx, r, "MCPublish " + name, expect)
                summary[name] = "fails %s as required" % expect
            ctx.log("mc %-20s %s (%d distinct, %.0fs)" % (name, "ok" if expect == "ok" else "fails " + expect, r.distinct, r.wall))
    return states, transitions, summary


# ----------------------------------------------------------------------------- scenario generation

def gen_families(ctx):
    """(name, router, flood, cfg overrides, mode, quota) ; quota = scenarios replayed (stratified by tag)."""
    T = ctx.thorough
    q = (lambda a, b: b if T else a)
    g4 = {"PeerSeq": "<- Seq4"}
    fam = [
        # every prepared state (topic membership x joined x mesh subset) + one message of every origin
        ("oneshot4", "gossipsub", False, dict(g4, Alphabet="<- AlphaMsg"), "bfs", q(300, 3000)),
        # flood publishing: every prepared state + at most one score / direct / subscription change + one own message
        ("flood4", "gossipsub", True, dict(g4, Alphabet="<- AlphaFlood", FloodPublish="= TRUE", PrepMesh="= FALSE", MaxOther="= 2",
                                           MaxDyn="= 3", PrepTp="<- PrepTpBig", ScoreVals="<- MCScores2"), "bfs", q(120, 1500)),
        # direct peers: made direct, scored down, grafted (refused) in any order, then one message
        ("direct3", "gossipsub", False, dict(Alphabet="<- AlphaDirect", PrepMesh="= FALSE", PrepJoined="<- OnlyTrue", PrepTp="<- PrepTpBig",
                                             ScoreVals="<- MCScoresLow", MaxOther="= 2", MaxDyn="= 3"), "bfs", q(100, 1500)),
        # the same prepared states on a flood-publishing node (forwarded messages must still follow the mesh rule)
        ("oneshot4-flood", "gossipsub", True, dict(g4, Alphabet="<- AlphaMsg", FloodPublish="= TRUE"), "bfs", q(120, 1500)),
        # batch publishing: every prepared state + one batch of three messages, each local-only or not (replayed by drivers/c06)
        ("batch4", "gossipsub", False, dict(g4, Alphabet="<- AlphaBatch", MaxMsgs="= 3", MaxDyn="= 3"), "bfs", q(150, 1500)),
        # IDONTWANT life cycle: one member sends up to three successive IDONTWANT RPCs (other / same ids, across a heartbeat,
        # beyond the per-heartbeat budget), then the announced messages arrive from another peer or are published (mesh and fanout)
        ("idw3", "gossipsub", False, dict(PrepTp="<- PrepTpFull", Alphabet="<- AlphaIdw", MaxOther="= 3", MaxMsgs="= 2", MaxDyn="= 5",
                                          IdwAhead="= 2"), "bfs", q(300, 2500)),
        # 3 peers: every prepared state + any one stimulus + one message
        ("prestep3", "gossipsub", False, dict({"MaxMsgs": "= 1", "MaxOther": "= 1", "MaxDyn": "= 2", "Alphabet": "<- AlphaAll"},
                                              **({} if T else {"PrepTp": "<- PrepTpBig"})), "bfs", q(400, 3000)),
        # fanout life cycle: not joined, publishes and heartbeats with at most one disturbance
        ("fanout4", "gossipsub", False, dict(g4, PrepTp="<- PrepTpBig", PrepJoined="<- OnlyFalse", PrepMesh="= FALSE",
                                             Alphabet="<- AlphaFanout", MaxOther="= 1", MaxMsgs="= 3", MaxDyn=q("= 5", "= 6"),
                                             ScoreVals="<- MCScores2"), "bfs", q(350, 4000)),
        ("floodsub3", "floodsub", False, dict(FLOODSUB, Alphabet="<- AlphaPlain", PrepMesh="= FALSE", MaxOther="= 1",
                                              MaxMsgs=q("= 1", "= 2"), MaxDyn=q("= 2", "= 3")), "bfs", q(100, 1500)),
        ("randomsub9", "randomsub", False, dict(RANDOMSUB, Alphabet="<- AlphaPlain", PrepTp="<- PrepTpPrefix", PrepMesh="= FALSE",
                                                PrepJoined="<- OnlyTrue", MaxOther=q("= 0", "= 1"), MaxMsgs="= 1", MaxDyn=q("= 1", "= 2")), "bfs", q(100, 1200)),
        # long seeded random histories from the empty state
        ("sim4", "gossipsub", False, dict(g4, Prep="= FALSE", Alphabet="<- AlphaSim", MaxOther="= 100", MaxMsgs="= 5", MaxDyn="= 16", MaxDirect="= 1",
                                          MaxUnwanted="= 2", IdwAhead="= 3"), "sim", q(150, 2000)),
        ("sim4-flood", "gossipsub", True, dict(g4, Prep="= FALSE", MaxOther="= 100", MaxMsgs="= 5", MaxDyn="= 14",
                                               FloodPublish="= TRUE"), "sim", q(50, 600)),
    ]
    return fam


def generate(ctx):
    fams = gen_families(ctx)

    def one(f):
        name, router, flood, over, mode, quota = f
        if mode == "bfs":
            r = vlib.run_tlc(ctx, FAMILY, "GenPublish", cfg("GenSpec", over, gen=True), timeout=900, workers=2,
                             name="gen-" + name, heap="4g")
        else:
            r = vlib.run_tlc(ctx, FAMILY, "GenPublish", cfg("GenSpec", over, gen=True), mode="sim", timeout=900, workers=1,
                             simulate="num=%d" % max(40, quota // 8), depth=40, name="gen-" + name, heap="2g")
        return f, r

    out, states, transitions = [], 0, 0
    with cf.ThreadPoolExecutor(max_workers=4) as ex:
        for (name, router, flood, over, mode, quota), r in ex.map(one, fams):
            if r.timed_out or r.violated or (mode == "bfs" and not r.no_error) or (r.errors and mode == "bfs"):
                raise vlib.Inconclusive("GenPublish %s failed: %s (see %s/tlc.out)" % (name, (r.violated or r.errors)[:2], r.dir))
            got = r.printed("SCN")
            if not got:
                raise vlib.Inconclusive("generator %s emitted nothing (see %s/tlc.out)" % (name, r.dir))
            states += r.distinct
            transitions += r.generated
            # dedupe, stratified seeded sample: every model-predicted tag keeps at least `per_tag` scenarios
            seen, uniq = set(), []
            for s in got:
                k = json.dumps(s["acts"], sort_keys=True)
                if k not in seen:
                    seen.add(k)
                    uniq.append(s)
            uniq.sort(key=lambda s: json.dumps(s["acts"], sort_keys=True))
            rng = random.Random(ctx.seed * 1000003 + len(name))
            rng.shuffle(uniq)
            exhaustive = len(uniq) <= quota
            if not exhaustive:
                per_tag = max(6, quota // 40)
                pick, cnt = [], {}
                rest = []
                for s in uniq:
                    if any(cnt.get(t, 0) < per_tag for t in s["tags"]):
                        pick.append(s)
                        for t in s["tags"]:
                            cnt[t] = cnt.get(t, 0) + 1
                    else:
                        rest.append(s)
                pick += rest[:max(0, quota - len(pick))]
                uniq = pick
            ctx.log("gen %-15s %6d emitted, %5d replayed (exhaustive=%s)" % (name, len(got), len(uniq), exhaustive))
            out.append({"name": name, "router": router, "flood": flood, "scns": uniq, "emitted": len(got), "exhaustive": exhaustive and mode == "bfs"})
    return out, states, transitions


# ----------------------------------------------------------------------------- model history -> harness scenario

GS_CFG = {"score": True, "D": 2, "Dlo": 1, "Dhi": 4, "Dscore": 1, "Dout": 0, "oppTicks": 1000000, "fanoutTTLS": 2}
OUTSIDER = "px"


VARIANT_KEYS = ("rsa", "withKey", "unk", "noseqno", "nofrom", "unsigned")


def pick_variant(rng, outsider_author, lax=False):
    """Field variant of a remote message (see harness/drivers/c06): which optional protobuf fields the message carries.
    The forwarded copy must be field for field what was received whatever they are. An RSA identity replaces the
    outsider author only (the model's author classes stay as they are)."""
    r, v = rng.random(), {}
    if lax and r < 0.45:
        v = rng.choice([{"unsigned": True}, {"nofrom": True}, {"noseqno": True}, {"unsigned": True, "unk": True},
                        {"unsigned": True, "noseqno": True}, {"unsigned": True, "size": 3000}])
    elif r < 0.35:
        v = {}
    elif r < 0.55:
        v = {"rsa": rng.choice([1, 2])} if outsider_author else {"withKey": True}
    elif r < 0.68:
        v = {"withKey": True}
    elif r < 0.78:
        v = {"unk": True}
    elif r < 0.86:
        v = {"size": 3000}
    elif r < 0.93:
        v = {"withKey": True, "unk": True}
    else:
        v = dict({"rsa": rng.choice([1, 2])} if outsider_author else {"withKey": True}, size=3000, unk=True)
    return v


def to_scenario(acts, router, flood, rng=None):
    """Translate the model's history records [a, p, q, v, b] into world actions. Returns None when the history
    cannot be expressed (an IDONTWANT for a message whose author does not exist yet). With rng, every remote
    message gets a seeded field variant."""
    gossip = router == "gossipsub"
    variants = {}

    def variant(a):
        if rng is None:
            return {}
        if a["v"] not in variants:
            variants[a["v"]] = pick_variant(rng, a["q"] == OUTSIDER)
        return variants[a["v"]]

    npeers = len({a["p"] for a in acts if a["a"] == "peer"})
    c = dict(GS_CFG, flood=flood) if gossip else {"router": router}
    c["hosts"] = npeers + 3
    out = []
    need_px = any(a["a"] == "msg" and a["q"] == OUTSIDER for a in acts) or (gossip and any(a["a"] == "idontwant" for a in acts))
    if need_px:
        out.append({"a": "peer", "p": OUTSIDER, "proto": {"gossipsub": "v11", "floodsub": "flood", "randomsub": "random"}[router],
                    "dir": "in", "subs": []})
        if gossip:
            out.append({"a": "score", "p": OUTSIDER, "v": -7})        # below graylist: its RPCs are ignored
    created = {OUTSIDER} if need_px else set()
    fwd = {a["v"]: a for a in acts if a["a"] == "msg"}
    made = set()
    prev_batch = False
    for ai, a in enumerate(acts):
        k, p = a["a"], a["p"]
        in_batch, prev_batch = prev_batch, (k == "publish" and a["q"] == "batch")   # in_batch: the previous action was a batch member
        if k == "peer":
            idx = int(p[1:]) if p[1:].isdigit() else 1
            out.append({"a": "peer", "p": p, "proto": a["q"], "dir": "in" if idx % 2 else "out", "subs": [TOPIC] if a["b"] else []})
            created.add(p)
        elif k == "sub":
            out.append({"a": "sub", "p": p, "t": TOPIC, "v": a["b"]})
        elif k == "graft":
            out.append({"a": "graft", "p": p, "t": TOPIC})
        elif k == "score":
            out.append({"a": "score", "p": p, "v": a["v"]})
        elif k == "direct":
            out.append({"a": "direct", "p": p, "on": True})
        elif k == "idontwant":
            name = "m%d" % a["v"]
            f = fwd.get(a["v"])
            if f is not None and name not in made:
                # the message must exist (so that its real id is known) without the node having accepted it:
                # the graylisted outsider sends it first and the node ignores that RPC
                if f["q"] not in created:
                    return None
                pre = dict({"a": "msg", "p": OUTSIDER, "t": TOPIC, "m": name}, **variant(f))
                if f["q"] != OUTSIDER:
                    pre["author"] = f["q"]
                out.append(pre)
                made.add(name)
            if f is None and any(b["a"] == "publish" and b["v"] == a["v"] for b in acts[ai + 1:]):
                # a message the node itself will publish: the driver predicts its id (the k-th publication from now)
                nxt = sum(1 for b in acts[ai + 1:] if b["a"] == "publish" and b["v"] <= a["v"])
                out.append({"a": "idontwant", "p": p, "ids": [name], "own": True, "next": [nxt]})
            else:
                out.append({"a": "idontwant", "p": p, "ids": [name]})
        elif k == "down":
            out.append({"a": "down", "p": p})
        elif k == "subscribe":
            out.append({"a": "subscribe", "t": TOPIC})
        elif k == "hb":
            out.append({"a": "hb"})
        elif k == "publish" and a["q"] == "batch":
            # consecutive batch publications of the history are ONE Topic.AddToBatch... + PublishBatch call
            e = {"m": "m%d" % a["v"]}
            if a["b"]:
                e["localOnly"] = True
            if in_batch and out and out[-1]["a"] == "batch":
                out[-1]["msgs"].append(e)
            else:
                out.append({"a": "batch", "t": TOPIC, "msgs": [e]})
        elif k == "publish":
            x = {"a": "publish", "t": TOPIC, "m": "m%d" % a["v"]}
            if a["b"]:
                x["localOnly"] = True
            out.append(x)
        elif k == "msg":
            x = dict({"a": "msg", "p": p, "t": TOPIC, "m": "m%d" % a["v"]}, **variant(a))
            if a["q"] != p:
                if a["q"] not in created:
                    return None
                if "rsa" not in x:          # an RSA identity stands in for the outsider author
                    x["author"] = a["q"]
            out.append(x)
        else:
            raise vlib.Inconclusive("unknown model action %r" % (a,))
    return {"cfg": c, "acts": out}


def plain_walk(rng, router, steps):
    """Seeded random scenario for the floodsub / randomsub node (TestRouterWalk's alphabet is gossipsub's)."""
    if router == "floodsub":
        n = rng.randint(3, 6)
        protos = ["flood"] * n
    else:
        n = rng.randint(4, 11)
        protos = [("flood" if rng.random() < 0.2 else "random") for _ in range(n)]
    topics = ["T1", "T2"]
    peers = ["p%d" % (i + 1) for i in range(n)]
    acts = []
    for p, pr in zip(peers, protos):
        acts.append({"a": "peer", "p": p, "proto": pr, "dir": rng.choice(["in", "out"]),
                     "subs": [t for t in topics if rng.random() < (0.85 if t == "T1" else 0.4)]})
    acts.append({"a": "subscribe", "t": "T1"})
    msgs, nm, up = [], 0, set(peers)
    lax = rng.random() < 0.3
    while len(acts) < steps:
        r = rng.random()
        p = rng.choice(peers)
        if r < 0.30 and up:
            nm += 1
            src = rng.choice(sorted(up))
            a = {"a": "msg", "p": src, "t": rng.choice(topics) if rng.random() < 0.25 else "T1", "m": "m%d" % nm}
            a.update(pick_variant(rng, rng.random() < 0.4, lax))
            if rng.random() < 0.5 and "rsa" not in a:
                a["author"] = rng.choice(peers)
            msgs.append(a)
        elif r < 0.38 and msgs and up:
            a = dict(rng.choice(msgs))
            a["p"] = rng.choice(sorted(up))
            a.pop("author", None)
        elif r < 0.58:
            nm += 1
            a = {"a": "publish", "t": rng.choice(topics) if rng.random() < 0.25 else "T1", "m": "m%d" % nm}
            if rng.random() < 0.2:
                a["localOnly"] = True
        elif r < 0.74 and p in up:
            a = {"a": "sub", "p": p, "t": rng.choice(topics), "v": rng.random() < 0.6}
        elif r < 0.80:
            a = {"a": "subscribe", "t": rng.choice(topics)}
        elif r < 0.84:
            a = {"a": "cancel", "t": rng.choice(topics)}
        elif r < 0.90 and p in up and len(up) > 2:
            a = {"a": "down", "p": p}
            up.discard(p)
        elif r < 0.96 and p not in up:
            a = {"a": "peer", "p": p, "dir": rng.choice(["in", "out"]), "subs": [t for t in topics if rng.random() < 0.7]}
            up.add(p)
        else:
            continue
        acts.append(a)
    return {"cfg": dict({"router": router, "hosts": n + 2}, **({"sign": "lax"} if lax else {})), "acts": acts}


def gs_walk(rng, steps):
    """Seeded random gossipsub scenario whose remote messages carry field variants (RSA authors, attached keys,
    unknown fields, large payloads; unsigned / from-less / seqno-less messages under the lax policy)."""
    n = rng.randint(3, 6)
    peers = ["p%d" % (i + 1) for i in range(n)]
    lax = rng.random() < 0.3
    acts = []
    if rng.random() < 0.7:
        acts.append({"a": "subscribe", "t": "T1"})
    for p in peers:
        acts.append({"a": "peer", "p": p, "proto": rng.choice(["v10", "v11", "v12", "v13", "flood"]), "dir": rng.choice(["in", "out"]),
                     "subs": ["T1"] if rng.random() < 0.8 else []})
    msgs, nm, up = [], 0, set(peers)
    while len(acts) < steps:
        r, p = rng.random(), rng.choice(peers)
        if r < 0.30 and up:
            nm += 1
            a = {"a": "msg", "p": rng.choice(sorted(up)), "t": "T1", "m": "m%d" % nm}
            a.update(pick_variant(rng, rng.random() < 0.4, lax))
            if rng.random() < 0.4 and "rsa" not in a:
                a["author"] = rng.choice(peers)
            msgs.append(a)
        elif r < 0.36 and msgs and up:
            a = dict(rng.choice(msgs))
            a["p"] = rng.choice(sorted(up))
            a.pop("author", None)
        elif r < 0.46:
            nm += 1
            a = {"a": "publish", "t": "T1", "m": "m%d" % nm}
            if rng.random() < 0.15:
                a["localOnly"] = True
        elif r < 0.58 and p in up:
            a = {"a": "graft", "p": p, "t": "T1"}
        elif r < 0.64 and p in up:
            a = {"a": "sub", "p": p, "t": "T1", "v": rng.random() < 0.6}
        elif r < 0.72 and p in up:
            a = {"a": "score", "p": p, "v": rng.choice([-5, -4, -1, 0, 0, 2])}
        elif r < 0.80:
            a = {"a": "hb"}
        elif r < 0.85:
            a = {"a": rng.choice(["subscribe", "subscribe", "cancel"]), "t": "T1"}
        elif r < 0.88 and p in up:
            a = {"a": "direct", "p": p, "on": True}
        elif r < 0.92 and p in up and len(up) > 2:
            a = {"a": "down", "p": p}
            up.discard(p)
        elif r < 0.96 and p not in up:
            a = {"a": "peer", "p": p, "dir": rng.choice(["in", "out"]), "subs": ["T1"]}
            up.add(p)
        else:
            continue
        acts.append(a)
    c = dict(GS_CFG, flood=rng.random() < 0.25, hosts=n + 2)
    if lax:
        c["sign"] = "lax"
    return {"cfg": c, "acts": acts}


# ----------------------------------------------------------------------------- replay and trace validation

DRV_ROUTER = ("./drivers/router/", "^TestRouterReplay$")
DRV_C06 = ("./drivers/c06/", "^TestC06Replay$")
_go_gate, _go_last = threading.Lock(), [0.0]


def run_go(ctx, *a, **kw):
    """vlib.run_go; against a scratch worktree (VERIF_REPO) vlib rewrites one shared go.alt.mod per call, so
    concurrent starts are spaced out."""
    if os.path.realpath(vlib.REPO) != "/repo":
        with _go_gate:
            wait = _go_last[0] + 1.5 - time.time()
            if wait > 0:
                time.sleep(wait)
            _go_last[0] = time.time()
    return vlib.run_go(ctx, *a, **kw)


def split_by_scn(lines):
    scns, cur = [], None
    for ln in lines:
        if ln["act"]["a"] == "reset":
            cur = [ln]
            scns.append(cur)
        elif cur is not None:
            cur.append(ln)
    return scns


def replay(ctx, name, scenarios):
    """Replay scenario files through TestRouterReplay in a few parallel processes. Returns the traces (list of line lists)."""
    nproc = 1 if len(scenarios) < 300 else (4 if ctx.thorough else 3)
    parts = [scenarios[i::nproc] for i in range(nproc)]
    # batch publishing, message field variants and the lax policy are not in the common alphabet: the C06 driver (same interpreter)
    drv = DRV_C06 if any("sign" in s["cfg"] or any(a["a"] == "batch" or a.get("own") or any(k in a for k in VARIANT_KEYS) for a in s["acts"])
                         for s in scenarios) else DRV_ROUTER

    def one(k):
        inp = os.path.join(ctx.work, "scn-%s-%d.ndjson" % (name, k))
        outp = os.path.join(ctx.work, "trace-%s-%d.ndjson" % (name, k))
        mark = os.path.join(ctx.work, "marker-%s-%d" % (name, k))
        vlib.write_ndjson(inp, parts[k])
        r = run_go(ctx, drv[0], drv[1], env={"VERIF_IN": inp, "VERIF_OUT": outp, "VERIF_MARKER": mark},
                        timeout=1500, name="replay-%s-%d" % (name, k))
        return k, inp, outp, mark, r

    traces = []
    with cf.ThreadPoolExecutor(max_workers=nproc) as ex:
        for k, inp, outp, mark, r in ex.map(one, range(nproc)):
            if r["rc"] != 0:
                crash_or_inconclusive(ctx, "replay %s/%d" % (name, k), r, inp, mark, drv)
            if not os.path.exists(outp) or os.path.getsize(outp) == 0:
                raise vlib.Inconclusive("driver produced no trace for %s (rc=%s, see %s)" % (name, r["rc"], r["log"]))
            s = split_by_scn(vlib.read_ndjson(outp))
            if r["rc"] == 0 and len(s) != len(parts[k]):
                raise vlib.Inconclusive("driver replayed %d of %d scenarios of %s (see %s)" % (len(s), len(parts[k]), name, r["log"]))
            traces += s
    for gi, t in enumerate(traces):       # the parts number their scenarios independently
        for ln in t:
            ln["scn"] = gi
    return traces


def crash_or_inconclusive(ctx, what, r, inp, mark, drv=None):
    """A dead driver is a violation only if the single scenario reproduces a panic inside the library."""
    idx = None
    try:
        idx = int(open(mark).read().strip())
    except Exception:
        pass
    if idx is not None and "panic:" in r["out"]:
        outp = os.path.join(ctx.work, "crash-%d.ndjson" % idx)
        drv = drv or DRV_ROUTER
        r2 = run_go(ctx, drv[0], drv[1],
                         env={"VERIF_IN": inp, "VERIF_OUT": outp, "VERIF_ONLY": idx}, timeout=300, name="crash-%d" % idx)
        lib = re.search(r"go-libp2p-pubsub(@[^/]*)?/|%s/" % re.escape(os.path.realpath(vlib.REPO)), r2["out"])
        if r2["rc"] != 0 and "panic:" in r2["out"] and lib:
            scn = vlib.read_ndjson(inp)[idx]
            m = re.search(r"panic: (.*)", r2["out"])
            vlib.add_violation(ctx, "P_C06_Never", {"kind": "panic", "where": (m.group(1) if m else "")[:80]},
                               "the node panicked while routing (scenario %d of %s): %s" % (idx, what, m.group(1) if m else "?"),
                               {"scenario": scn})
            return
    raise vlib.Inconclusive("driver failed during %s (rc=%s, see %s)" % (what, r["rc"], r["log"]))


def validate(ctx, named_traces, lines_per_chunk=2500):
    """Walk the traces of several batches [(name, traces)] with PublishTrace, all chunks in one pool.
    Returns {name: (viols, steps, states)}."""
    chunks = []
    for name, traces in named_traces:
        cur, n, k = [], 0, 0
        for t in traces:
            cur.append(t)
            n += len(t)
            if n >= lines_per_chunk:
                chunks.append((name, k, cur))
                cur, n, k = [], 0, k + 1
        if cur:
            chunks.append((name, k, cur))

    def one(c):
        name, k, trs = c
        path = os.path.join(ctx.work, "tv-%s-%d.ndjson" % (name, k))
        vlib.write_ndjson(path, [ln for t in trs for ln in t])
        r = vlib.run_tlc(ctx, FAMILY, "PublishTrace", "PublishTrace.cfg", mode="trace", files={"trace.ndjson": path},
                         timeout=1800, name="tv-%s-%d" % (name, k), heap="3g")
        if r.hw is None or r.hw[0] < r.hw[1] or r.timed_out:
            raise vlib.Inconclusive("trace validation of %s chunk %d did not walk the whole file: hw=%s errors=%s (see %s/tlc.out)" %
                                    (name, k, r.hw, r.errors[:2], r.dir))
        viols, steps = r.printed("VIOL"), r.printed("STEP")
        if len(viols) != len(r.printed_raw("VIOL")) or len(steps) != len(r.printed_raw("STEP")):
            raise vlib.Inconclusive("unparsable VIOL/STEP output in %s/tlc.out" % r.dir)
        by_scn = {t[0]["scn"]: t for t in trs}
        for x in viols:
            x["trace"] = by_scn.get(x["at"]["scn"])
            x["source"] = name
        for x in steps:
            x["source"] = name
        return name, viols, steps, r.distinct

    res = {name: ([], [], 0) for name, _ in named_traces}
    with cf.ThreadPoolExecutor(max_workers=max(2, min(vlib.NCPU // 2, 8))) as ex:
        for name, v, st, n in ex.map(one, chunks):
            a, b, c = res[name]
            res[name] = (a + v, b + st, c + n)
    return res


def scenario_of(trace, upto):
    """The replayable scenario (cfg + acts) recorded in a trace, up to step `upto`."""
    c = dict(trace[0]["act"].get("cfg", {}))
    for k, d in (("fanoutTTLMs", "fanoutTTLS"), ("pruneBackoffMs", "pruneBackoffS"), ("unsubBackoffMs", "unsubBackoffS"), ("graftFloodMs", "graftFloodS")):
        if k in c:
            c[d] = c.pop(k) // 1000
    c.pop("hbMs", None)
    names = {ln["act"].get("p") for ln in trace if ln["act"].get("p")}
    c["hosts"] = len(names) + 3
    acts, iv = [], trace[0]["act"].get("cfg", {}).get("hbMs", 1000)
    for prev, ln in zip(trace, trace[1:]):
        if ln["i"] > upto:
            break
        # heartbeat steps the interpreter inserted itself (stimulus too close to the next heartbeat) are not part of the input
        if ln["act"]["a"] == "hb" and c.get("router", "gossipsub") == "gossipsub" and (prev["t"] - 100) % iv > iv - 150:
            continue
        acts.append(ln["act"])
    return {"cfg": c, "acts": acts}


REQUIRED = [  # DESIGN C06 obligations, each on at least one validated step of the real code
    "fwd-src-ne-author", "author-is-mesh-peer", "source-is-mesh-peer", "floodsub-peer-at-threshold", "floodsub-peer-below-threshold",
    "direct-not-in-mesh", "mesh-peer-idontwant", "idontwant-in-earlier-rpc", "floodsub-or-direct-peer-idontwant", "fanout-select-needs-peer-at-threshold", "non-mesh-gossipsub-peer-skipped", "fanout-select", "fanout-select-more-than-D",
    "fanout-reuse", "fanout-reuse-with-alternatives", "fanout-reuse-after-member-removed", "fanout-member-removed", "fanout-expiry",
    "fanout-kept-past-first-ttl", "fanout-member-at-threshold", "fanout-select-skips-direct", "flood-publish", "flood-publish-below-threshold", "flood-publish-direct-below-threshold", "direct-below-threshold", "forward-under-flood-publish", "local-only-with-topic-peers", "batch-publish", "batch-local-only-with-topic-peers",
    # P_C06_Copy: forwarded copies of messages with every optional field combination were compared with what was received
    "forwarded-copy-with-key-gossipsub", "forwarded-copy-with-key-floodsub", "forwarded-copy-with-key-randomsub",
    "forwarded-copy-rsa-author", "forwarded-copy-unknown-field", "forwarded-copy-large", "forwarded-copy-unsigned",
    "forwarded-copy-no-from", "forwarded-copy-no-seqno",
    "randomsub-above-D", "randomsub-below-D", "floodsub-router", "connected-peer-not-in-topic"]


def run(ctx):
    samples = []
    if ctx.replay:
        payload = json.load(open(ctx.replay))
        scn = (payload.get("replay") or {}).get("scenario") or payload.get("scenario")
        if not scn:
            raise vlib.Inconclusive("replay file has no scenario")
        traces = replay(ctx, "replay", [scn])
        viols, steps, states = validate(ctx, [("replay", traces)])["replay"]
        report(ctx, viols)
        return vlib.finish(ctx, LEVEL, {"states": max(states, 1), "transitions": max(states, 1), "traces_validated_against_impl": len(traces),
                                        "samples": [{"replayed": ctx.replay, "steps_judged": len(steps)}], "evaluations": len(steps),
                                        "distinct_nontrivial": len(steps), "rule": "single replayed scenario"}, ["replay of one scenario"])

    # 1. model level and 2. scenario generation (TLC), side by side
    with cf.ThreadPoolExecutor(max_workers=2) as ex:
        f_mc, f_gen = ex.submit(model_checking, ctx), ex.submit(generate, ctx)
        states, transitions, mc = f_mc.result()
        fams, gs, gt = f_gen.result()
    states += gs
    transitions += gt

    # 3. replay on the real node
    all_viols, all_steps, ntraces, dropped = [], [], 0, 0
    batches = []
    vrng = random.Random(ctx.seed * 7919 + 13)
    for f in fams:
        scns = []
        for s in f["scns"]:
            x = to_scenario(s["acts"], f["router"], f["flood"], vrng)
            if x is None:
                dropped += 1
            else:
                scns.append(x)
        batches.append((f["name"], scns))
    # seeded walks: floodsub and randomsub (python), gossipsub (TestRouterWalk, two configurations)
    rng = random.Random(ctx.seed)
    nw = 120 if ctx.thorough else 25
    batches.append(("walk-floodsub", [plain_walk(rng, "floodsub", 45) for _ in range(nw)]))
    batches.append(("walk-randomsub", [plain_walk(rng, "randomsub", 50) for _ in range(nw)]))
    batches.append(("walk-gs-fields", [gs_walk(rng, 45) for _ in range(nw)]))
    walks = [("walk-gs-small", dict(GS_CFG), 150 if ctx.thorough else 30, 70),
             ("walk-gs-default", {"score": True}, 100 if ctx.thorough else 20, 70)]

    def do_walk(w):
        name, wcfg, nwalks, steps = w
        outp = os.path.join(ctx.work, "trace-%s.ndjson" % name)
        mark = os.path.join(ctx.work, "marker-%s" % name)
        dump = os.path.join(ctx.work, "scn-%s.ndjson" % name)
        r = run_go(ctx, "./drivers/router/", "^TestRouterWalk$",
                        env={"VERIF_OUT": outp, "VERIF_WALKS": nwalks, "VERIF_STEPS": steps, "VERIF_CFG": json.dumps(wcfg),
                             "VERIF_MARKER": mark, "VERIF_DUMP_SCN": dump}, timeout=1500, name=name)
        if r["rc"] != 0:
            crash_or_inconclusive(ctx, name, r, dump, mark)
        if not os.path.exists(outp) or os.path.getsize(outp) == 0:
            raise vlib.Inconclusive("walk %s produced no trace (see %s)" % (name, r["log"]))
        return name, split_by_scn(vlib.read_ndjson(outp))

    with cf.ThreadPoolExecutor(max_workers=4) as ex:
        futs = [ex.submit(lambda b=b: (b[0], replay(ctx, b[0], b[1]))) for b in batches] + [ex.submit(do_walk, w) for w in walks]
        named = [fu.result() for fu in futs]
    ctx.log("replayed %d scenarios (%d step lines) on the real node" % (sum(len(t) for _, t in named), sum(len(x) for _, t in named for x in t)))

    # 4. validate with the trace specification
    res = validate(ctx, named)
    for name, tr in named:
        viols, steps, st = res[name]
        ntraces += len(tr)
        states += st
        all_viols += viols
        all_steps += steps
        judged = [s for s in steps if s["kind"] in ("pub", "fwd")]
        ctx.log("%-16s %5d scenarios, %6d lines, %5d publish/forward steps judged, %d failures" %
                (name, len(tr), sum(len(t) for t in tr), len(judged), len(viols)))
        if tr:
            t = tr[len(tr) // 2]
            j = next((s for s in judged if s["at"]["scn"] == t[0]["scn"]), None)
            samples.append({"source": name, "scenario": scenario_of(t, 10 ** 9)["acts"][:14], "a_judged_step": j})

    report(ctx, all_viols)

    # coverage obligations on real validated steps
    hits = {}
    for s in all_steps:
        for t in s["tags"]:
            hits[t] = hits.get(t, 0) + 1
    missing = [t for t in REQUIRED if not hits.get(t)]
    judged = [s for s in all_steps if s["kind"] in ("pub", "fwd")]
    skipped = sum(1 for s in all_steps if s["kind"] == "skipped")
    if skipped * 20 > max(1, len(judged)):
        ctx.notes.append("%d accepting steps were not judged (several messages or a heartbeat in the step)" % skipped)
    if missing and not ctx.violations:
        raise vlib.Inconclusive("coverage obligation not met on real steps: %s" % missing)
    nontrivial = {json.dumps([s["sig"], sorted(s["tags"])], sort_keys=True) for s in judged
                  if s["sig"]["nR"] > 0 or s["sig"]["excl"] > 0 or s["sig"]["local"] or s["sig"]["nunw"] > 0}
    cov = {"states": states, "transitions": transitions, "traces_validated_against_impl": ntraces, "samples": samples[:6],
           "evaluations": len(judged), "distinct_nontrivial": len(nontrivial),
           "rule": "evaluation = one step of the real node that accepted a message, judged by PublishTrace with the previous line's snapshot as pre-state; "
                   "distinct by (router, own/forwarded, source=author, local, flood publish, joined, sizes of topic/mesh/fanout/direct/floodsub/unwanted sets, "
                   "number of recipients and exclusions, coverage tags); non-trivial = at least one recipient, exclusion, IDONTWANT or a local-only publication",
           "exhaustive": False, "obligation_hits": {t: hits.get(t, 0) for t in REQUIRED}, "other_hits": {t: n for t, n in hits.items() if t not in REQUIRED},
           "heartbeat_steps_judged": sum(1 for s in all_steps if s["kind"] == "hb"), "steps_skipped": skipped,
           "generated": {f["name"]: {"emitted": f["emitted"], "replayed": len(f["scns"]), "all_replayed": f["exhaustive"]} for f in fams},
           "histories_not_expressible": dropped, "mc": mc}
    return vlib.finish(ctx, LEVEL, cov, [
        "pre-state of a step = snapshot of the previous step line (taken inside the event loop; no stimulus or timer lies between)",
        "score = application score set by the scenario (all other score weights 0), so snapshot scores are exact integers",
        "'known in the topic' = topics[t] or mesh[t]; the mesh clause does not apply to the node's own messages under flood publishing (P_C06_FloodPublish is exact there)",
        "a recipient without outbound queue is exempt; a Drop event satisfies an obligation",
        "randomsub size estimate is the harness constant 10 (target max(6, ceil(sqrt 10)) = 6)",
        "lastpub of the fanout is this check's own monitor (time of the last observed publish that reached the fanout code path)",
        "partial messages are off"])


def report(ctx, viols):
    for v in viols:
        more = v.get("more", {})
        sig = {"kind": v["kind"], "router": more.get("router", "gossipsub")}
        tr = v.get("trace")
        payload = None
        if tr:
            payload = {"scenario": scenario_of(tr, v["at"]["i"]), "failing_step": v["at"], "observed": more,
                       "line": next((ln for ln in tr if ln["i"] == v["at"]["i"]), None)}
        vlib.add_violation(ctx, v["pred"], sig,
                           "%s at step %d (%s) of a %s scenario: %s" % (v["kind"], v["at"]["i"], v["at"]["act"], v.get("source"),
                                                                         json.dumps({k: more[k] for k in more if k in ("m", "topic", "src", "author", "R", "wire", "tp", "mesh", "fanout", "fanoutPost", "direct", "unwanted", "msgs", "peers", "lastpub", "now")}, sort_keys=True)),
                           payload)
