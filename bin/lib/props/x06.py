"""X06 - the discovery pipeline (discovery.go): advertising follows the subscription / relay reference counts and
the TTLs the service returns, searches are issued exactly for starved joined topics (one in flight per topic), found
peers are dialled through the backoff connector, Publish with WithReadiness is gated by the router's readiness,
EnoughPeers is the documented relation, nothing happens without discovery, shutdown ends everything.

spec/discovery: Discovery.tla (properties X06.a-h, implementation-shaped model, exhaustive MC + must-fail
configurations), DiscoveryMeaning.tla (pure operators), GenDiscovery.tla (scenario generator), DiscoveryTrace.tla
(trace specification: a monitor folded over the calls a scriptable mock discovery service, the readiness function, the
publish callers and the host wrapper recorded on the REAL node, with virtual time stamps).
harness/drivers/x06: one real node (gossipsub / floodsub / randomsub) under testing/synctest.

  1. MC   exhaustive: P_X06_* hold on the model of the repaired code; every seeded deviation (and the code as found:
          DevIgnoreBootstrapResult) violates its property.
  2. Gen  TLC emits every stimulus sequence of a bounded length from six initial situations (BFS) and random walks
          (-simulate); directed scenarios (below) discharge the coverage obligations.
  3. Go   replay on the real node, shards in parallel; a line per step.
  4. TV   TLC runs DiscoveryTrace over the projected lines and prints every failing predicate instance.
"""
import concurrent.futures as cf
import json, os, random, signal, subprocess, time
from .. import vlib

LEVEL = "model_checking"
FAMILY = "discovery"
TOPICS = ["t1", "t2"]
DEVS = ["DevStopIgnoresRelay", "DevNoCancel", "DevNoAdvGuard", "DevNoDedup", "DevNoOngoingDelete", "DevPollIgnoresEnough",
        "DevIgnoreBootstrapResult", "DevUnbufferedDone", "DevBareSend", "DevRetryZero", "SvcZeroTTL"]
# deviation -> (parts, MaxRef, kind, property that must fail)
MUST_FAIL = {
    "DevStopIgnoresRelay": ('{"adv"}', 1, "inv", "P_X06_a"), "DevNoCancel": ('{"adv"}', 1, "inv", "P_X06_a"),
    "DevNoAdvGuard": ('{"adv"}', 2, "inv", "P_X06_a"), "DevNoDedup": ('{"api"}', 1, "inv", "P_X06_c1"),
    "DevNoOngoingDelete": ('{"poll"}', 1, "prop", "P_X06_c3"), "DevPollIgnoresEnough": ('{"poll"}', 1, "inv", "P_X06_c2"),
    "DevIgnoreBootstrapResult": ('{"boot"}', 1, "inv", "P_X06_e1"), "DevUnbufferedDone": ('{"poll"}', 1, "prop", "P_X06_h"),
    "DevBareSend": ('{"api"}', 1, "prop", "P_X06_h"), "DevRetryZero": ('{"adv"}', 1, "inv", "P_X06_b"),
    "SvcZeroTTL": ('{"adv"}', 1, "inv", "P_X06_b")}
INVS = ["TypeOK", "P_X06_a", "P_X06_b", "P_X06_c1", "P_X06_c2", "P_X06_e1"]
LIVE = ["P_X06_a_exit", "P_X06_c3", "P_X06_c3b", "P_X06_e2", "P_X06_h"]
T1, T2 = '{"t1"}', '{"t1", "t2"}'
STALL = 150


def consts(topics, parts, maxref=1, qcap=2, callers='{"b1"}', dev=None):
    c = {"Topics": topics, "MaxRef": maxref, "QCap": qcap, "Callers": callers, "Parts": parts}
    for d in DEVS:
        c[d] = d == dev
    return c


# ------------------------------------------------------------------------------------------------ directed scenarios
def A(kind, **kw):
    d = {"a": kind}
    d.update(kw)
    return d


SUB1, SUB2, CAN1, CAN2 = A("subscribe", t="t1"), A("subscribe", t="t2"), A("cancel", t="t1"), A("cancel", t="t2")
REL1, UNR1, JOIN1, CLOSE1 = A("relay", t="t1"), A("unrelay", t="t1"), A("join", t="t1"), A("closeTopic", t="t1")
FOUNDP = ["p5", "p6", "self"]


def EL(s):
    return A("elapse", s=s)


def SVCA(**kw):
    return A("svc", adv=kw)


def SVCF(mode, peers=None):
    f = {"mode": mode}
    if peers is not None:
        f["peers"] = peers
    return A("svc", find=f)


def PUB(m, t="t1", n=1, to=0):
    return A("pub", t=t, m=m, n=n, to=to)


def PEERS(n, t="t1"):
    return A("peers", t=t, n=n)


def directed():
    """Hand-written scenarios: each coverage obligation is met by at least one of them whatever the seed."""
    D = []

    def add(name, acts, **cfg):
        c = {"router": "gossipsub", "npeers": 6}
        c.update(cfg)
        D.append({"src": "directed:" + name, "cfg": c, "acts": acts})

    # reference counts: subscription and relay keep each other's advertisement alive; re-subscribe starts a new advertiser
    add("refcount", [SUB1, REL1, CAN1, EL(1), SUB1, UNR1, EL(1), SUB1, CAN1, CAN1, EL(1), REL1, REL1, UNR1, UNR1, EL(1), SUB1, SUB2, CAN1, EL(4), CAN2])
    add("refcount-flood", [REL1, SUB1, UNR1, CAN1, SUB1, EL(4), CLOSE1, CAN1, CLOSE1, EL(2)], router="floodsub", opts=True)
    add("refcount-random", [SUB1, SUB1, CAN1, EL(2), CAN1, REL1, EL(4), UNR1], router="randomsub")
    # re-advertise at the TTL, another TTL, error with a TTL, error without (2 minutes)
    add("ttl", [SUB1, EL(4), SVCA(ttl=1507), EL(5), SVCA(err=True, errttl=2007), EL(5), SVCA(ttl=3007), EL(4), CAN1, EL(4)], opts=True)
    add("retry", [PEERS(2), SVCA(err=True), SUB1, EL(3), SVCA(ttl=3007), EL(118), EL(4), CAN1], router="floodsub")
    # a held Advertise call: cancelled while the service holds it; released
    add("adv-hold", [SVCA(hold=True), SUB1, EL(1), CAN1, EL(1), SUB1, EL(1), A("release", what="adv"), EL(1), SVCA(ttl=1507), EL(3)])
    # polls: starved topic searched every interval, not when it has enough peers, not after Close, joined-only topics too
    add("poll-flood", [JOIN1, EL(2), PEERS(5), EL(2), PEERS(4), EL(2), CLOSE1, EL(2)], router="floodsub")
    add("poll-random", [SUB1, EL(2), PEERS(6), EL(2), PEERS(2), EL(2)], router="randomsub")
    add("poll-gossip", [SUB1, EL(1), PEERS(2), EL(3), PEERS(0), EL(2), CAN1, EL(1), CLOSE1, EL(2)])
    add("poll-gossip-floodpeers", [JOIN1, EL(1), PEERS(2), EL(2), PEERS(1), EL(2), SUB1, EL(2)], pproto="flood")
    # the second clauses of the relations: a mesh beyond Dhi (GRAFTs from six peers), six randomsub peers, mixed protocols
    add("enough-dhi", [SUB1, PEERS(6), EL(1)] + [A("graft", p="p%d" % i, t="t1") for i in (1, 2, 3, 4, 5, 6)] + [EL(2)])
    add("enough-random-mixed", [SUB1, PEERS(2), EL(1), PEERS(4), EL(1), PEERS(6), EL(2), PEERS(3), EL(1)], router="randomsub", pproto="mixed")
    add("enough-random-flood", [JOIN1, PEERS(5), EL(1), PEERS(6), EL(2)], router="randomsub", pproto="flood")
    add("enough-gossip-mixed", [SUB1, PEERS(1), EL(1), PEERS(2), EL(2), PEERS(4), EL(2), PEERS(0), EL(1)], pproto="mixed")
    add("enough-flood-seven", [SUB1, PEERS(4), EL(1), PEERS(5), EL(1), PEERS(6), EL(1)], router="floodsub", npeers=7)
    add("poll-grid", [SUB1, EL(5), REL1, EL(3)], poll0=1300, pollIv=2000, router="floodsub")
    # searches: held until the 10 s context ends, failing, released; de-duplication against Subscribe / Relay / Bootstrap
    add("find-hold", [SVCF("hold"), SUB1, REL1, EL(2), PUB("a1", n=1), EL(9), EL(3), A("release", what="find"), EL(2), SVCF("empty"), EL(2), A("cancelpub", m="a1")])
    add("find-err", [SVCF("err"), SUB1, PUB("a1", n=1), EL(2), SVCF("empty"), PEERS(2), EL(2)], router="floodsub")
    # found peers are dialled once per backoff; the node itself never; the found peer announces itself
    add("dial", [SVCF("peers", FOUNDP), SUB1, EL(3), A("found", p="p5", subs=["t1", "t2"]), EL(9), EL(11), SUB2, EL(2)])
    add("dial-custom", [SVCF("peers", FOUNDP), JOIN1, EL(7), SUB1, EL(3)], conn="custom", router="floodsub", opts=True)
    # readiness: ready at once, ready later, context deadline, cancel, shutdown with a publish pending
    add("ready-now", [PEERS(1), SUB1, PUB("a1", n=1), EL(1), PUB("a2", n=2, to=1250), EL(2), PEERS(2), PUB("a3", n=2), EL(1)], router="floodsub")
    add("ready-later", [JOIN1, PUB("a1", n=2), EL(1), PEERS(1), EL(1), PEERS(2), EL(2)], router="floodsub", opts=True)
    add("ready-gossip", [SUB1, PUB("a1", n=1), EL(1), PEERS(1), EL(2), PUB("a2", n=3, to=2750), EL(3)])
    add("ready-random", [SUB1, PUB("a1", n=2), EL(1), PEERS(2), EL(2)], router="randomsub")
    add("ready-cancel", [JOIN1, PUB("a1", n=1), EL(1), A("cancelpub", m="a1"), EL(1), PUB("a2", n=1, to=2750), EL(3)], router="floodsub")
    add("ready-shutdown", [SVCF("hold"), SUB1, REL1, PUB("a1", n=1), PUB("a2", t="t2", n=1), EL(1)])
    # no discovery configured: nothing runs, readiness polls every 200 ms
    add("nodisc", [SUB1, REL1, PUB("a1", n=1), EL(1), PEERS(1), EL(1), PUB("a2", n=2, to=1250), EL(2), CAN1, UNR1], router="floodsub", nodisc=True)
    add("nodisc-gossip", [SUB1, PUB("a1", n=2, to=2750), EL(1), PEERS(2), EL(2), PUB("a2", n=4), EL(1), A("cancelpub", m="a2"), EL(1)], nodisc=True)
    return D


# ------------------------------------------------------------------------------------------------ TLC: MC + generation
def tlc_jobs(ctx, acc):
    th = ctx.thorough
    jobs = {
        "mc-adv": dict(mod="Discovery", cfg=vlib.cfg_text(constants=consts(T2, '{"adv"}', maxref=2), invariants=INVS,
                                                         properties=["P_X06_a_exit", "P_X06_h"]), timeout=900),
        "mc-disc": dict(mod="Discovery", cfg=vlib.cfg_text(constants=consts(T1, '{"poll", "api"}'), invariants=INVS), timeout=900),
        "mc-poll": dict(mod="Discovery", cfg=vlib.cfg_text(constants=consts(T1, '{"poll"}'), invariants=INVS,
                                                          properties=["P_X06_c3", "P_X06_c3b", "P_X06_h"]), timeout=900),
        "mc-api": dict(mod="Discovery", cfg=vlib.cfg_text(constants=consts(T1, '{"api"}'), invariants=INVS, properties=["P_X06_c3b", "P_X06_h"]), timeout=900),
        "mc-boot": dict(mod="Discovery", cfg=vlib.cfg_text(constants=consts(T1, '{"boot"}'), invariants=INVS,
                                                          properties=["P_X06_e2", "P_X06_h", "P_X06_c3b"]), timeout=900),
        "mc-bootpoll": dict(mod="Discovery", cfg=vlib.cfg_text(constants=consts(T1, '{"boot", "poll"}'), invariants=INVS), timeout=900),
    }
    if th:
        jobs["mc-disc-live"] = dict(mod="Discovery", cfg=vlib.cfg_text(constants=consts(T1, '{"poll", "api"}'), invariants=INVS,
                                                                      properties=["P_X06_c3", "P_X06_c3b", "P_X06_h"]), timeout=1500)
        # (liveness over two topics / two callers does not finish in the budget: safety only there)
        jobs["mc-poll2"] = dict(mod="Discovery", cfg=vlib.cfg_text(constants=consts(T2, '{"poll"}'), invariants=INVS), timeout=1500)
        jobs["mc-bootpoll-live"] = dict(mod="Discovery", cfg=vlib.cfg_text(constants=consts(T1, '{"boot", "poll"}'), invariants=INVS,
                                                                          properties=["P_X06_c3", "P_X06_e2", "P_X06_h"]), timeout=1500)
        jobs["mc-boot2"] = dict(mod="Discovery", cfg=vlib.cfg_text(constants=consts(T2, '{"boot"}', callers='{"b1", "b2"}'), invariants=INVS), timeout=1500)
        jobs["mc-api2"] = dict(mod="Discovery", cfg=vlib.cfg_text(constants=consts(T2, '{"api"}', qcap=1), invariants=INVS, properties=["P_X06_h", "P_X06_c3b"]), timeout=1500)
    for d, (parts, mr, kind, prop) in MUST_FAIL.items():
        jobs["mc-" + d] = dict(mod="Discovery", timeout=600, cfg=vlib.cfg_text(
            constants=consts(T1, parts, maxref=mr, dev=d), invariants=[prop] if kind == "inv" else [], properties=[prop] if kind == "prop" else []))

    def gen(preludes, maxlen, topics=T2):
        return {"Topics": topics, "MaxRef": 2, "PeerCounts": "{0, 1, 2, 6}", "MaxPub": 2, "Preludes": preludes, "MaxLen": maxlen}
    jobs["gen-bfs"] = dict(mod="GenDiscovery", cfg=vlib.cfg_text(constants=gen("{0, 1, 2, 3, 4, 5}", 2), invariants=["Emit"]), timeout=900, heap="4g", workers=1)
    if th:
        jobs["gen-deep"] = dict(mod="GenDiscovery", cfg=vlib.cfg_text(constants=gen("{1, 2, 3, 5}", 3, T1), invariants=["Emit"]), timeout=900, heap="6g")
    jobs["gen-walks"] = dict(mod="GenDiscovery", cfg=vlib.cfg_text(constants=gen("{0}", 12), invariants=["Emit"]), mode="sim",
                             simulate="num=%d" % (3000 if th else 300), depth=14, timeout=600, workers=1, heap="4g")
    if os.environ.get("VERIF_X06_SKIP_MC"):      # development aid only (mutation trials)
        jobs = {k: v for k, v in jobs.items() if k.startswith("gen-")}

    def one(name):
        j = dict(jobs[name])
        # the must-fail configurations stop after a few states and the quick configurations are small: one TLC worker each,
        # four jobs at a time (at most 4 TLC worker threads at quick, 8 at thorough)
        j.setdefault("workers", 1 if (name[3:] in MUST_FAIL or not th) else 2)
        return name, vlib.run_tlc(ctx, FAMILY, j.pop("mod"), j.pop("cfg"), name=name, **j)

    with cf.ThreadPoolExecutor(max_workers=4) as ex:
        res = dict(ex.map(one, sorted(jobs, key=lambda n: (not n.startswith("gen-"), n[3:] in MUST_FAIL, n))))
    for n, r in res.items():
        if n.startswith("gen-"):
            continue
        d = n[3:]
        if d in MUST_FAIL:
            vlib.require_mc_fails(ctx, r, "Discovery with %s" % d, MUST_FAIL[d][3])
            acc["mc"]["%s_fails_%s" % (d, MUST_FAIL[d][3])] = True
        else:
            vlib.require_mc_ok(ctx, r, "Discovery %s" % n, allow_timeout=n in ("mc-disc-live", "mc-poll2", "mc-bootpoll-live", "mc-boot2", "mc-api2"))
            acc["mc"][n] = [r.distinct, r.generated]
    pools = {}
    for n, r in res.items():
        if not n.startswith("gen-"):
            continue
        if r.timed_out or r.violated or (r.errors and n != "gen-walks") or (n != "gen-walks" and not r.no_error):
            raise vlib.Inconclusive("generator %s failed: %s (see %s/tlc.out)" % (n, r.errors[:2], r.dir))
        seen, got = set(), {}
        for s in r.printed("SCN"):
            k = json.dumps(s["evs"], sort_keys=True)
            if k not in seen:
                seen.add(k)
                got.setdefault("%s%d" % (n, s["pre"]) if n != "gen-walks" else n, []).append(s["evs"])
        if not got:
            raise vlib.Inconclusive("generator %s emitted nothing (see %s/tlc.out)" % (n, r.dir))
        for pn, pool in got.items():
            pool.sort(key=lambda evs: json.dumps(evs, sort_keys=True))   # TLC's print order depends on its worker threads
            pools[pn] = pool
    for r in res.values():
        acc["states"] += r.distinct
        acc["transitions"] += r.generated
    acc["gen"] = {n: len(p) for n, p in pools.items()}
    return pools


ROUTERS = ["gossipsub", "floodsub", "gossipsub", "randomsub", "floodsub"]
ADV = {"ok": {"ttl": 3007}, "ok2": {"ttl": 1507}, "err": {"err": True}, "errttl": {"err": True, "errttl": 2007}, "hold": {"hold": True}}


def to_scenario(evs, k, src):
    """Generator history -> driver scenario; router, options, connector, poll grid and peer protocol vary with k."""
    cfg = {"router": ROUTERS[k % len(ROUTERS)], "npeers": 6, "opts": k % 2 == 1}
    if k % 5 == 3:
        cfg["conn"] = "custom"
    if k % 7 == 4:
        cfg["poll0"], cfg["pollIv"] = 1300, 2000
    if cfg["router"] == "gossipsub" and k % 3 == 0:
        cfg["pproto"] = "flood"
    if cfg["router"] != "floodsub" and k % 4 == 1:
        cfg["pproto"] = "mixed"
    if k % 11 == 6:
        cfg["nodisc"] = True
    acts = []
    for e in evs:
        a = e["a"]
        if a in ("subscribe", "cancel", "relay", "unrelay", "join", "closeTopic"):
            acts.append(A(a, t=e["t"]))
        elif a == "peers":
            acts.append(PEERS(e["n"], e["t"]))
        elif a == "svcadv":
            acts.append(A("svc", adv=dict(ADV[e["mode"]])))
        elif a == "svcfind":
            acts.append(SVCF(e["mode"], FOUNDP if e["mode"] == "peers" else None))
        elif a == "release":
            acts.append(A("release", what=e["mode"]))
        elif a == "pub":
            acts.append(PUB(e["m"], e["t"], e["n"], e["to"]))
        elif a == "cancelpub":
            acts.append(A("cancelpub", m=e["m"]))
        elif a == "found":
            acts.append(A("found", p="p5", subs=list(TOPICS)))
        elif a == "elapse":
            acts.append(EL(e["s"]))
        else:
            raise vlib.Inconclusive("unknown generator stimulus %r" % a)
    return {"src": src, "cfg": cfg, "acts": acts}


def build_scenarios(ctx, pools):
    rng = random.Random(ctx.seed)
    th = ctx.thorough
    scns = directed()
    exhaustive = {}
    for n in sorted(pools):
        lim = (1500 if th else 110) if n.startswith("gen-bfs") else (700 if th else 0) if n.startswith("gen-deep") else (1500 if th else 150)
        pool = list(pools[n])
        exhaustive[n] = len(pool) <= lim
        if not exhaustive[n]:
            rng.shuffle(pool)
            pool = pool[:lim]
        for i, evs in enumerate(pool):
            scns.append(to_scenario(evs, i + ctx.seed, n))
    for i, s in enumerate(scns):
        s["id"] = i
    return scns, exhaustive


# ------------------------------------------------------------------------------------------------ replay
def build_driver(ctx):
    binp = os.path.join(ctx.work, "x06.test")
    r = vlib.run_go(ctx, "./drivers/x06/", "^TestX06Replay$", extra=["-c", "-o", binp], timeout=900, name="build")
    if r["rc"] != 0 or not os.path.exists(binp):
        raise vlib.Inconclusive("cannot build the X06 driver (see %s)" % r["log"])
    return binp


def run_shard(ctx, binp, scn_file, i, n, only=None, skip=(), tag=""):
    outp = os.path.join(ctx.work, "trace-%d%s.ndjson" % (i, tag))
    mark = os.path.join(ctx.work, "marker-%d%s" % (i, tag))
    env = dict(os.environ)
    env.update({"VERIF_IN": scn_file, "VERIF_OUT": outp, "VERIF_SHARD": str(i), "VERIF_SHARDS": str(n), "VERIF_MARKER": mark,
                "VERIF_SEED": str(ctx.seed), "VERIF_TIER": ctx.tier, "VERIF_SKIPIDS": ",".join(str(x) for x in skip)})
    if only is not None:
        env["VERIF_ONLY"] = str(only)
    log = os.path.join(ctx.work, "go-shard-%d%s.log" % (i, tag))
    stalled = False
    with open(log, "w") as lf:
        p = subprocess.Popen([binp, "-test.run", "^TestX06Replay$", "-test.timeout", "1500s"], cwd=ctx.work, env=env,
                             stdout=lf, stderr=subprocess.STDOUT)
        # watchdog: a driver that writes nothing (trace, marker) for STALL seconds is wedged (e.g. a goroutine parked on a mutex
        # inside the bubble stops virtual time for good): stop it with a goroutine dump; the caller replays the scenario alone
        last, sizes, t0 = time.time(), None, time.time()
        while True:
            try:
                p.wait(timeout=2)
                break
            except subprocess.TimeoutExpired:
                pass
            cur = tuple((os.path.getsize(f), os.path.getmtime(f)) if os.path.exists(f) else (0, 0) for f in (outp, mark))
            if cur != sizes:
                sizes, last = cur, time.time()
            if time.time() - last > STALL or time.time() - t0 > 1600:
                stalled = True
                p.send_signal(signal.SIGQUIT)
                try:
                    p.wait(timeout=20)
                except subprocess.TimeoutExpired:
                    p.kill()
                    p.wait()
                break
        rc = p.returncode if not stalled else -9
    return {"rc": rc, "out": open(log, errors="replace").read(), "trace": outp, "marker": mark, "log": log, "stalled": stalled}


def replay(ctx, binp, scns):
    scn_file = os.path.join(ctx.work, "scenarios.ndjson")
    vlib.write_ndjson(scn_file, scns)
    n = max(1, min(vlib.NCPU, 6 if ctx.thorough else 4, len(scns) // 40 + 1))

    def shard(i):
        skip, dead, traces = [], [], []
        for attempt in range(8):
            r = run_shard(ctx, binp, scn_file, i, n, skip=skip, tag="" if not attempt else "-r%d" % attempt)
            traces.append(r["trace"])
            if r["rc"] == 0:
                return traces, dead
            sid = open(r["marker"]).read().strip() if os.path.exists(r["marker"]) else ""
            if not sid.isdigit():
                raise vlib.Inconclusive("X06 driver shard %d died before its first scenario (see %s)" % (i, r["log"]))
            # a dead driver is a violation only if the scenario, replayed alone, panics in library code
            again = run_shard(ctx, binp, scn_file, i, n, only=int(sid), tag="-only%s" % sid)
            tail = again["out"].split("panic:")[1][:3000] if "panic:" in again["out"] else ""
            lib_panic = again["rc"] != 0 and "go-libp2p-pubsub" in tail and "deadlock: main bubble" not in tail
            if again.get("stalled"):
                raise vlib.Inconclusive("X06 driver wedges in scenario %s replayed alone (no output for %d s, goroutine dump in %s)" % (sid, STALL, again["log"]))
            dead.append((int(sid), lib_panic, again["log"] if again["rc"] != 0 else r["log"], again["rc"] == 0))
            if again["rc"] == 0:
                traces.append(again["trace"])
            skip.append(int(sid))
            # scenarios of this shard that were complete before the crash are kept; the rest is replayed
            done = set()
            for tp in traces:
                if os.path.exists(tp):
                    for raw in open(tp):
                        if '"fin":true' in raw:
                            try:
                                done.add(json.loads(raw)["scn"])
                            except ValueError:
                                pass
            skip = sorted(set(skip) | done)
        raise vlib.Inconclusive("X06 driver shard %d keeps dying (see %s)" % (i, r["log"]))

    with cf.ThreadPoolExecutor(max_workers=n) as ex:
        res = list(ex.map(shard, range(n)))
    return [p for ps, _ in res for p in ps], [d for _, ds in res for d in ds]


# ------------------------------------------------------------------------------------------------ projection for TLC
EVDEF = {"k": "", "t": 0, "id": 0, "g": 0, "ns": "", "ttl": 0, "err": "", "dl": 0, "olim": 0, "ottl": 0, "peers": [], "m": "", "res": False,
         "direct": False, "p": "", "addrs": 0, "self": False, "kind": "", "a": ""}


def ev(e):
    o = dict(EVDEF)
    for k in EVDEF:
        if k in e:
            o[k] = e[k]
    if isinstance(o["err"], bool):
        o["err"] = "x" if o["err"] else ""
    en = e.get("en") or {}
    o["en"] = {t: list(en.get(t) or [False] * 8) for t in TOPICS}
    return o


def slim(row):
    a = row["act"]
    if a.get("a") == "reset":
        c = a["cfg"]
        return {"a": "reset", "scn": row["scn"], "i": 0, "t": row["t"], "disc": c["disc"], "opts": c["opts"], "custom": c["conn"] == "custom" and c["disc"],
                "poll0": c["poll0"], "pollIv": c["pollIv"], "backoffMs": c["backoffMs"], "fixed": c["fixed"], "router": c["router"],
                "Dlo": c["Dlo"], "Dhi": c["Dhi"], "RandomSubD": c["RandomSubD"], "FloodSize": c["FloodSize"], "optLimit": c["optLimit"],
                "optTTL": c["optTTL"]}
    x, st = row["x"], row["st"]
    protos = dict(st.get("gsPeers") or {})
    protos.update(st.get("rsPeers") or {})
    tps = st.get("topics") or {}
    facts = [{"t": t, "has": t in tps, "subs": [[p, protos.get(p, "")] for p in tps.get(t, [])], "mesh": list((st.get("mesh") or {}).get(t, []))}
             for t in TOPICS]
    if (a.get("t") or "t1") not in TOPICS:
        raise vlib.Inconclusive("stimulus outside the universe of the trace specification: %s" % json.dumps(a))
    return {"a": a.get("a", ""), "scn": row["scn"], "i": row["i"], "t": row["t"], "tp": a.get("t") or "", "m": a.get("m") or "",
            "n": int(a.get("n") or 0), "to": int(a.get("to") or 0), "dv": [ev(e) for e in x["dv"]], "alive": x["alive"], "pend": x["pend"],
            "census": x["census"], "dead": bool(st.get("dead")), "facts": facts, "fin": bool(a.get("fin", False))}


TRACE_CFG = vlib.cfg_text(spec="TraceSpec", constants={"Topics": T2}, constraint="HW", postcondition="Accepted")


def run_tv(ctx, name, path):
    res = vlib.run_tlc(ctx, FAMILY, "DiscoveryTrace", TRACE_CFG, mode="trace", files={"trace.ndjson": path}, timeout=1200, name=name, heap="4g")
    if res.hw is None or res.hw[0] < res.hw[1] or res.violated or res.timed_out:
        raise vlib.Inconclusive("trace validation did not consume its input (hw=%s errors=%s, see %s/tlc.out)" % (res.hw, res.errors[:2], res.dir))
    return res.printed("VIOL"), res.printed("DRIFT"), res.distinct


# ------------------------------------------------------------------------------------------------ coverage obligations
OBLIGATIONS = ["adv_started_by_subscribe", "adv_started_by_relay", "adv_cancelled_by_cancel", "adv_cancelled_by_unrelay", "adv_kept_by_relay",
               "adv_kept_by_subscription", "second_subscription_no_new_advertiser", "resubscribe_new_advertiser", "readvertise_at_ttl",
               "readvertise_two_ttls", "readvertise_after_error_ttl", "readvertise_after_retry_interval", "adv_cancelled_in_held_call",
               "adv_two_topics", "options_configured", "options_absent",
               "find_by_poll", "find_by_subscribe", "find_by_relay", "find_by_bootstrap", "request_while_in_flight", "poll_skipped_enough_peers",
               "poll_skipped_after_close", "poll_joined_only_topic", "poll_other_grid", "find_held_to_timeout", "find_released", "find_failed",
               "find_two_topics_at_once",
               "dial_first", "dial_suppressed_in_backoff", "dial_after_backoff", "self_returned", "custom_connector", "found_peer_announced",
               "pub_ready_at_call", "pub_ready_later", "pub_deadline_before_ready", "pub_cancelled_before_ready", "pub_pending_at_shutdown", "pub_nodisc_ready_later",
               "pub_nodisc_deadline", "pub_dedup_cadence", "pub_search_cadence",
               "enough_flood", "enough_random", "enough_gossip_mesh", "enough_gossip_floodpeers", "not_enough_sampled", "suggested_size_differs",
               "gossip_dhi_clause_decisive", "random_rs_clause_decisive", "random_flood_peers_decisive", "gossip_mixed_protocols", "subscribe_search_already_in_flight",
               "nodisc_scenario", "shutdown_cancels_advertiser", "shutdown_ends_search", "router_gossipsub", "router_floodsub", "router_randomsub"]


def obligations(scn, rows, ob):
    def hit(k):
        ob[k] = ob.get(k, 0) + 1
    cfg = rows[0]["act"]["cfg"]
    disc = cfg["disc"]
    hit("router_" + cfg["router"])
    if not disc:
        hit("nodisc_scenario")
    if cfg["conn"] == "custom" and any(e["k"] == "factory" for r in rows[1:] for e in r["x"]["dv"]):
        hit("custom_connector")
    if (cfg["poll0"], cfg["pollIv"]) != (300, 1000) and disc:
        hit("poll_other_grid")
    subs, relays, joined = {}, {}, set()
    gtopic, gcalls, live_g = {}, {}, {}      # advertiser -> topic / its calls [(start, ret, ttl, err)] / cancelled at
    inflight, last_find_start, dial_hist = {}, {}, {}
    pubs = {}
    shut = False
    on_grid = lambda t: disc and t >= cfg["poll0"] and (t - cfg["poll0"]) % cfg["pollIv"] == 0
    for ln in rows[1:]:
        a = ln["act"]
        kind, t = a.get("a"), a.get("t")
        en = None
        stim_seen = False
        for e in ln["x"]["dv"]:
            k = e["k"]
            if k == "stim":
                stim_seen = True
                t0 = e["t"]
                was = subs.get(t, 0) + relays.get(t, 0) > 0
                if kind in ("subscribe", "relay") and disc and any(tp == t for tp, s, dl in inflight.values()):
                    hit("subscribe_search_already_in_flight")
                if kind == "subscribe":
                    subs[t] = subs.get(t, 0) + 1
                    joined.add(t)
                    if was:
                        hit("second_subscription_no_new_advertiser")
                elif kind == "relay":
                    relays[t] = relays.get(t, 0) + 1
                    joined.add(t)
                elif kind == "cancel" and subs.get(t, 0) > 0:
                    subs[t] -= 1
                    if subs[t] == 0 and relays.get(t, 0) > 0 and disc:
                        hit("adv_kept_by_relay")
                elif kind == "unrelay" and relays.get(t, 0) > 0:
                    relays[t] -= 1
                    if relays[t] == 0 and subs.get(t, 0) > 0 and disc:
                        hit("adv_kept_by_subscription")
                elif kind in ("join", "pub"):
                    joined.add(t)
                    if kind == "pub":
                        pubs[a["m"]] = {"t": t, "start": t0, "evals": [], "to": a.get("to", 0)}
                elif kind == "closeTopic" and subs.get(t, 0) + relays.get(t, 0) == 0 and not any(p["t"] == t and "ret" not in p for p in pubs.values()):
                    joined.discard(t)
                elif kind in ("end", "shutdown"):
                    shut = True
                    if any(c is None for c in live_g.values()):
                        hit("shutdown_cancels_advertiser")
                    if inflight:
                        hit("shutdown_ends_search")
                    if any("ret" not in p for p in pubs.values()):
                        hit("pub_pending_at_shutdown")
                elif kind == "found" and disc:
                    hit("found_peer_announced")
            elif k == "adv":
                g = e["g"]
                tp = e["ns"].split(":", 1)[-1]
                if g not in gtopic:
                    gtopic[g] = tp
                    live_g[g] = None
                    if stim_seen and kind in ("subscribe", "relay"):
                        hit("adv_started_by_" + kind)
                    if sum(1 for x in gtopic.values() if x == tp) > 1:
                        hit("resubscribe_new_advertiser")
                    if len({gtopic[x] for x, c in live_g.items() if c is None}) > 1:
                        hit("adv_two_topics")
                gcalls.setdefault(g, []).append([e["t"], None, 0, ""])
                hit("options_configured" if e["ottl"] else "options_absent")
                prev = gcalls[g][-2] if len(gcalls[g]) > 1 else None
                if prev and prev[1] is not None:
                    if prev[3] == "" and e["t"] == prev[1] + prev[2]:
                        hit("readvertise_at_ttl")
                        if len({c[2] for c in gcalls[g] if c[1] is not None and c[3] == ""}) > 1:
                            hit("readvertise_two_ttls")
                    if prev[3] != "" and prev[2] > 0 and e["t"] == prev[1] + prev[2]:
                        hit("readvertise_after_error_ttl")
                    if prev[3] != "" and prev[2] == 0 and e["t"] == prev[1] + 120000:
                        hit("readvertise_after_retry_interval")
            elif k == "advret":
                c = gcalls.get(e["g"], [[0, None, 0, ""]])[-1]
                c[1], c[2], c[3] = e["t"], e["ttl"], e["err"]
            elif k == "advctx":
                g = e["g"]
                live_g[g] = e["t"]
                if stim_seen and kind in ("cancel", "unrelay"):
                    hit("adv_cancelled_by_" + kind)
                    c = gcalls[g][-1] if gcalls.get(g) else None
                    if c and (c[1] is None or (c[1] == e["t"] and c[3] == "canceled")):
                        hit("adv_cancelled_in_held_call")
            elif k == "sample":
                en = e["en"]
                for tp, l in en.items():
                    if l[0]:
                        hit({"floodsub": "enough_flood", "randomsub": "enough_random"}.get(cfg["router"], "enough_gossip_mesh" if cfg["pproto"] != "flood" else "enough_gossip_floodpeers"))
                    else:
                        hit("not_enough_sampled")
                    if len(set(l)) > 1:
                        hit("suggested_size_differs")
                if e["kind"] == "pre" and on_grid(e["t"] + 100):
                    ln.setdefault("_pre", {})[e["t"] + 100] = (en, set(joined))
            elif k == "find" and False:
                pass
            elif k == "find":
                tp = e["ns"].split(":", 1)[-1]
                if any(s == e["t"] for s in last_find_start.values()) and last_find_start.get(tp) != e["t"]:
                    hit("find_two_topics_at_once")
                inflight[e["id"]] = (tp, e["t"], e["dl"])
                last_find_start[tp] = e["t"]
                if on_grid(e["t"]):
                    hit("find_by_poll")
                    if subs.get(tp, 0) + relays.get(tp, 0) == 0:
                        hit("poll_joined_only_topic")
                elif stim_seen and e["t"] == t0 and kind in ("subscribe", "relay") and tp == t:
                    hit("find_by_" + kind)
                elif any(p["t"] == tp and p["evals"] and p["evals"][-1] == (e["t"], False) for p in pubs.values()):
                    hit("find_by_bootstrap")
                if e["mode"] == "err":
                    hit("find_failed")
                for p in e["peers"]:
                    if p == "self":
                        hit("self_returned")
                    elif p in dial_hist and e["t"] < dial_hist[p][-1] + cfg["backoffMs"]:
                        hit("dial_suppressed_in_backoff")
            elif k == "findend":
                if e["id"] in inflight:
                    tp, s, dl = inflight.pop(e["id"])
                    if e["t"] == dl + 3:
                        hit("find_held_to_timeout")
                    elif stim_seen and kind == "release" and e["t"] == t0:
                        hit("find_released")
                    for p in pubs.values():
                        if p.get("wait") == e["id"]:
                            p["wake"] = e["t"] + 100
            elif k == "dial":
                h = dial_hist.setdefault(e["p"], [])
                hit("dial_after_backoff" if h else "dial_first")
                h.append(e["t"])
            elif k == "ready" and e["m"] in pubs:
                p = pubs[e["m"]]
                if p["evals"] and disc:
                    if e["t"] == p["evals"][-1][0] + 100:
                        hit("pub_dedup_cadence")
                    elif p.get("wake") == e["t"]:
                        hit("pub_search_cadence")
                p["evals"].append((e["t"], e["res"]))
                p.pop("wake", None)
                p["wait"] = None
                if not e["res"]:
                    fl = [i for i, (tp, s, dl) in inflight.items() if tp == p["t"]]
                    if fl and disc:
                        hit("request_while_in_flight")
                    p["wait"] = "next"
            elif k == "pubret" and e["m"] in pubs:
                p = pubs[e["m"]]
                p["ret"] = e["err"]
                if e["err"] == "" and p["evals"] and p["evals"][-1][1]:
                    if len(p["evals"]) == 1:
                        hit("pub_ready_at_call")
                    else:
                        hit("pub_ready_later" if disc else "pub_nodisc_ready_later")
                # (with the finding X06-F1 present the outcome of a publish whose context ended is a coin flip: the obligation is
                # that the situation arose, whatever the node did)
                unready = not (p["evals"] and p["evals"][-1][1])
                if unready and p["to"] and e["t"] == p["start"] + p["to"]:
                    hit("pub_deadline_before_ready" if disc else "pub_nodisc_deadline")
                if unready and stim_seen and kind == "cancelpub" and a.get("m") == e["m"] and e["t"] == t0:
                    hit("pub_cancelled_before_ready")
            if k == "find":
                for p in pubs.values():
                    if p.get("wait") == "next" and p["t"] == e["ns"].split(":", 1)[-1] and p["evals"] and p["evals"][-1][0] == e["t"]:
                        p["wait"] = e["id"]
        # which clause of the relation decided (router snapshot of the quiescent point against the end sample)
        st = ln["st"]
        if en is not None and not st.get("dead"):
            protos = dict(st.get("gsPeers") or {})
            protos.update(st.get("rsPeers") or {})
            for tp in TOPICS:
                ps = (st.get("topics") or {}).get(tp) or []
                me = len((st.get("mesh") or {}).get(tp) or [])
                fs = sum(1 for p in ps if not protos.get(p, "").startswith("/meshsub/"))
                fl = sum(1 for p in ps if protos.get(p) == "/floodsub/1.0.0")
                rs = sum(1 for p in ps if protos.get(p) == "/randomsub/1.0.0")
                for n in range(1, 8):
                    if cfg["router"] == "gossipsub" and en[tp][n] and fs + me < n and me >= cfg["Dhi"]:
                        hit("gossip_dhi_clause_decisive")
                    if cfg["router"] == "randomsub" and en[tp][n] and fl + rs < n and rs >= cfg["RandomSubD"]:
                        hit("random_rs_clause_decisive")
                    if cfg["router"] == "randomsub" and en[tp][n] and fl > 0 and rs < n <= fl + rs:
                        hit("random_flood_peers_decisive")
                if cfg["router"] == "gossipsub" and 0 < fs < len(ps):
                    hit("gossip_mixed_protocols")
        # polls of this line that found a joined topic with enough peers / a closed topic
        for tau, (enp, jn) in (ln.get("_pre") or {}).items():
            for tp in TOPICS:
                if tp in jn and enp[tp][0]:
                    hit("poll_skipped_enough_peers")
                if tp not in jn and any(r["act"].get("a") == "closeTopic" and r["act"].get("t") == tp for r in rows[1:] if r["i"] < ln["i"]):
                    hit("poll_skipped_after_close")
        ln.pop("_pre", None)


# ------------------------------------------------------------------------------------------------ the check
WHAT = {"P_X06_a": "advertising does not follow the subscription / relay reference counts",
        "P_X06_b": "Advertise call off its schedule (TTL / retry interval), wrong namespace or options",
        "P_X06_c": "FindPeers call not justified, duplicated, missing for a starved topic, or wrong namespace / options / deadline",
        "P_X06_d": "found peers and dials do not match the backoff connector's law",
        "P_X06_e": "Publish with WithReadiness: message published / call returned against the readiness rule",
        "P_X06_f": "EnoughPeers / MinTopicSize differ from the documented relation",
        "P_X06_g": "discovery activity although no discovery is configured",
        "P_X06_h": "something of the pipeline survives the shutdown of the node"}


def run(ctx):
    acc = {"states": 0, "transitions": 0, "mc": {}, "gen": {}}
    if ctx.replay:
        payload = json.load(open(ctx.replay))
        scn = (payload.get("replay") or {}).get("scenario")
        if not scn:
            raise vlib.Inconclusive("replay file has no scenario")
        scns, exhaustive = [scn], {}
    else:
        pools = tlc_jobs(ctx, acc)
        scns, exhaustive = build_scenarios(ctx, pools)
    ctx.log("replaying %d scenarios on the real node" % len(scns))
    binp = build_driver(ctx)
    paths, dead = replay(ctx, binp, scns)
    by_id = {s["id"]: s for s in scns}

    ob, complete, slims, samples, nlines, raw_index, bubble = {}, set(), [], [], 0, {}, {}
    for path in paths:
        cur = []

        def flush():
            if not cur:
                return
            sid = cur[0]["scn"]
            body = [r for r in cur if r.get("i", 0) >= 0]
            if body and body[0]["act"].get("a") == "reset" and body[-1]["act"].get("fin") and sid not in complete:
                complete.add(sid)
                obligations(by_id[sid], body, ob)
                slims.append([slim(r) for r in body])
                raw_index[sid] = [{"i": r["i"], "t": r["t"], "act": r["act"], "x": r.get("x")} for r in body[1:]]
            for r in cur:
                if r.get("i") == -1:
                    bubble[sid] = r["act"].get("what", "")
        if not os.path.exists(path):
            continue
        with open(path) as f:
            for raw in f:
                try:
                    row = json.loads(raw)
                except ValueError:
                    continue
                if cur and row["scn"] != cur[0]["scn"]:
                    flush()
                    cur = []
                cur.append(row)
                nlines += 1
            flush()
    ctx.log("recorded %d lines of %d complete scenarios; validating with TLC" % (nlines, len(complete)))

    jobs = []
    per = 250
    for ci in range(0, len(slims), per):
        path = os.path.join(ctx.work, "tv-%d.ndjson" % ci)
        vlib.write_ndjson(path, [r for s in slims[ci:ci + per] for r in s])
        jobs.append(("tv-%d" % ci, path))
    viols, drifts = [], []
    with cf.ThreadPoolExecutor(max_workers=4) as ex:
        for v, d, st in ex.map(lambda j: run_tv(ctx, *j), jobs):
            viols += v
            drifts += d
            acc["states"] += st
    acc["transitions"] += nlines

    per_sig = {}
    for v in viols:
        scn = by_id[v["scn"]]
        sig = {"kind": v["kind"]}
        key = (v["pred"], json.dumps(sig, sort_keys=True))
        per_sig[key] = per_sig.get(key, 0) + 1
        if per_sig[key] <= 2:
            rows = raw_index.get(v["scn"], [])
            bad = next((r for r in rows if r["i"] == v["i"]), None)
            detail = "%s: %s (topic %r, %r, at %s ms, observed %s, expected %s); scenario %s (%s, %s) step %d %s" % (
                WHAT.get(v["pred"], v["pred"]), v["kind"], v["tp"], v["who"], v["at"], v["obs"], v["exp"], v["scn"], scn["src"],
                json.dumps(scn["cfg"], sort_keys=True), v["i"], json.dumps(bad["act"]) if bad else "?")
            vlib.add_violation(ctx, v["pred"], sig, detail, {"scenario": scn, "failing_line": v["i"], "lines": rows})
        else:
            ctx.violations.append({"pred": v["pred"], "sig": sig, "detail": "", "replay": ""})
    for sid, lib_panic, log, alone_ok in dead:
        if lib_panic:
            vlib.add_violation(ctx, "P_X06_h", {"kind": "panic"}, "the node panics while replaying scenario %s (%s; see %s)" %
                               (sid, by_id[sid]["src"], log), {"scenario": by_id[sid]})
    for sid, what in bubble.items():
        # goroutines of the node were still blocked when the scenario's bubble ended (after shutdown and 1.2 s): the census of
        # the last line has reported them (P_X06_h); the note tells where to look
        ctx.notes.append("scenario %s (%s) ended with blocked goroutines: %s" % (sid, by_id[sid]["src"], what[:120]))
    drift_kinds = {}
    for d in drifts:
        drift_kinds[d["kind"]] = drift_kinds.get(d["kind"], 0) + 1
    if drift_kinds:
        ctx.notes.append("MODEL-DRIFT (no verdict): %s" % json.dumps(drift_kinds, sort_keys=True))

    known = vlib.load_findings(ctx.pid)
    new = [v for v in ctx.violations if not any(vlib.sig_matches(f, v) for f in known)]
    missing = sorted(s["id"] for s in scns if s["id"] not in complete)
    if not new:
        if missing:
            raise vlib.Inconclusive("%d scenarios were not replayed to the end (e.g. %s; driver died in %s)" %
                                    (len(missing), missing[:5], [(d[0], d[2]) for d in dead][:3]))
        if drift_kinds.get("pending-set"):
            raise vlib.Inconclusive("the monitor lost track of the publish calls: %s" % drift_kinds)
        unmet = [] if ctx.replay else [k for k in OBLIGATIONS if not ob.get(k)]
        if unmet:
            raise vlib.Inconclusive("coverage obligations not met: %s" % unmet)
    elif dead or missing:
        ctx.notes.append("%d scenarios were not replayed to the end; the verdict rests on the others" % len(missing))

    nontrivial = set()
    for s in scns:
        if s["id"] in complete and any(a["a"] in ("subscribe", "relay", "pub") for a in s["acts"]) and len(s["acts"]) >= 2:
            nontrivial.add(json.dumps([s["cfg"], s["acts"]], sort_keys=True))
    if raw_index:
        sid = min(raw_index)
        samples.append({"scenario": by_id[sid], "trace": [{"i": r["i"], "act": r["act"], "dv": [e for e in r["x"]["dv"] if e["k"] != "sample"][:12],
                                                          "census": r["x"]["census"], "alive": r["x"]["alive"]} for r in raw_index[sid][:6]]})
    nev = sum(len(r["x"]["dv"]) for rows in raw_index.values() for r in rows)
    cov = {"states": acc["states"], "transitions": acc["transitions"], "traces_validated_against_impl": len(complete),
           "samples": samples, "evaluations": nev + nlines, "distinct_nontrivial": len(nontrivial),
           "rule": "one evaluation = one recorded event (service call, return, context end, readiness evaluation, dial, sample, publish return) or one "
                   "quiescent point judged by DiscoveryTrace; a scenario is non-trivial if it has at least two stimuli, one of them a Subscribe, Relay "
                   "or Publish with readiness, and distinct by (configuration, stimuli)",
           "exhaustive": bool(exhaustive) and all(v for n, v in exhaustive.items() if n.startswith("gen-bfs")),
           "exhaustive_note": "BFS pools replayed completely: %s (otherwise a seeded sample); walks are always a seeded sample" % exhaustive,
           "obligations": {k: ob.get(k, 0) for k in OBLIGATIONS},
           "violating_instances": {"%s %s" % k: n for k, n in sorted(per_sig.items())},
           "mc": acc["mc"], "gen": acc["gen"], "model_drift": drift_kinds, "scenarios": len(scns), "events": nev}
    return vlib.finish(ctx, LEVEL, cov, [
        "the discovery service is a scriptable mock (answers Advertise after 13 ms, closes a FindPeers channel after 217 ms, held calls end at release or 3 ms "
        "after their context ends); it honours the contract the pipeline relies on: a TTL > 0 with a nil error, and the channel is closed at the latest when "
        "the search context ends (a service that returns (0, nil) makes Advertise spin, one that never closes the channel blocks the topic's searches for ever: "
        "model configurations SvcZeroTTL / the handleDiscovery abstraction)",
        "virtual time (testing/synctest): gossipsub heartbeat at 100, EnoughPeers sample at 200, discovery poll at poll0 (300) and stimuli at 500 (mod 1000 ms), TTLs of "
        "x007 ms, so that no timer of the mechanism shares an instant with a stimulus; an Advertise at the very instant of its cancellation would be reported as a note",
        "EnoughPeers(t, 0..4) is read inside the event loop 100 ms before every poll instant and at every quiescent point (VerifEval, build tag verif); reference counts, "
        "joined topics and publish calls are taken from the stimuli, service calls from the mock, dials from the host wrapper, goroutines from runtime.Stack",
        "the backoff connector's law is taken from go-libp2p (first two backoffs exactly the minimum of 10 s, later ones at least that); peers are returned with "
        "the found peer's real addresses",
        "Publish whose context ended (or node shut down) before the router was ready publishes all the same about every second time (finding X06-F1, Topic.validate "
        "drops the result of Bootstrap): reported as a known finding, every other failure of X06.e is a violation"])
