"""X05 - batch publishing (extension family; spec/batch).

MessageBatch / Topic.AddToBatch / PubSub.PublishBatch / publishMessageBatch /
GossipSubRouter.PublishBatch / RoundRobinMessageIDScheduler.

spec/batch: Batch (the properties X05.a-h and the relations they are made of), Scheduler (model of the
round-robin scheduler, one action per loop iteration), BatchPipe + MCBatchPipe (lock-grain model of the
pipeline goroutines -> batch -> channel -> event loop -> router -> queues), GenSched / GenBatch (scenario
generators), SchedTrace / BatchTrace (trace specifications).

MC (incl. configurations that MUST fail) -> Gen (TLC: BFS up to a bound + seeded -simulate) -> replay on the
REAL code by harness/drivers/x05 (TestX05Sched: the real scheduler alone; TestX05Node: a real node in
harness/world with fake peers, gated writers, recording strategies, concurrent callers; the concurrent
scenarios once more under the race detector) -> SchedTrace / BatchTrace judge every recorded step -> vlib.finish."""
import concurrent.futures as cf
import json, os, random, re, threading, time
from .. import vlib

LEVEL = "model_checking"
FAMILY = "batch"

# ----------------------------------------------------------------------------- model checking

SCHED_BASE = {"Peers": '{"p1", "p2"}', "Msgs": '{"m1", "m2"}', "MaxAdds": 4, "MaxAlls": 2, "MaxBreaks": 1, "SchedBug": '"none"'}
SCHED_INVS = ["TypeOK", "P_X05_RoundRobin", "P_X05_SchedFifo", "P_X05_SchedExact"]
PIPE_BASE = {"Adders": "<- MCAdders", "Plan": "<- MCPlan", "Kind": "<- MCKind", "NPub": "= 2", "Peers": "<- MCPeers", "Recip": "<- MCRecip",
             "Cap": "= 1", "Locked": "= TRUE", "TakeClears": "= TRUE", "SkipLocal": "= TRUE", "PipeBug": '= "none"'}
PIPE_ONE = {"Adders": "<- MCAdders1", "Plan": "<- MCPlan1", "Kind": "<- MCKind1", "Recip": "<- MCRecip1", "Cap": "= 2", "NPub": "= 1"}
PIPE_INVS = ["TypeOK", "P_X05_Admit", "P_X05_Once", "P_X05_Local", "P_X05_Equiv", "P_X05_Account", "P_X05_Strategy", "P_X05_RoundRobin"]


def sched_cfg(over=None, invs=SCHED_INVS, live=False):
    c = dict(SCHED_BASE)
    c.update(over or {})
    lines = ["SPECIFICATION " + ("FairSpec" if live else "Spec"), "CONSTANTS"] + ["  %s = %s" % kv for kv in c.items()]
    lines += ["INVARIANT " + i for i in invs]
    if live:
        lines.append("PROPERTY P_X05_SchedTerminates")
    lines.append("CHECK_DEADLOCK FALSE")
    return "\n".join(lines) + "\n"


def pipe_cfg(over=None, invs=PIPE_INVS):
    c = dict(PIPE_BASE)
    c.update(over or {})
    lines = ["SPECIFICATION Spec", "CONSTANTS"] + ["  %s %s" % kv for kv in c.items()] + ["INVARIANT " + i for i in invs]
    lines.append("CHECK_DEADLOCK FALSE")
    return "\n".join(lines) + "\n"


def model_checking(ctx):
    T = ctx.thorough
    if os.environ.get("VERIF_X05_DEV") == "nomc":      # development only (mutation trials): skip the model level
        return 1, 1, {"skipped": "VERIF_X05_DEV=nomc"}
    jobs = [
        # (name, module, cfg text, expectation, workers)
        ("sched", "Scheduler", sched_cfg({"Msgs": '{"m1", "m2", "m3"}', "MaxAdds": 4 if T else 3}, live=True), "ok", 4 if T else 2),
        # MUST fail: one seeded defect per scheduler property
        ("sched-bug-lifo", "Scheduler", sched_cfg({"SchedBug": '"lifo"'}, ["P_X05_SchedFifo"]), "P_X05_SchedFifo", 1),
        ("sched-bug-drain", "Scheduler", sched_cfg({"SchedBug": '"drain"'}, ["P_X05_RoundRobin"]), "P_X05_RoundRobin", 1),
        ("sched-bug-droplast", "Scheduler", sched_cfg({"SchedBug": '"droplast"'}, ["P_X05_SchedExact"]), "P_X05_SchedExact", 1),
        ("sched-bug-dup", "Scheduler", sched_cfg({"SchedBug": '"dup"'}, ["P_X05_SchedExact"]), "P_X05_SchedExact", 1),
        ("sched-bug-wrongpeer", "Scheduler", sched_cfg({"SchedBug": '"wrongpeer"'}, ["P_X05_SchedExact"]), "P_X05_SchedExact", 1),
        # the pipeline: two goroutines adding concurrently, two PublishBatch calls, two peers, queue capacity 1
        ("pipe", "MCBatchPipe", pipe_cfg(), "ok", 2),
        ("pipe-one-batch", "MCBatchPipe", pipe_cfg(PIPE_ONE), "ok", 2),
        # MUST fail: add/take without the mutex; take that does not reset; D26 as found; admission, routing, accounting, ordering defects
        ("pipe-bug-nolock", "MCBatchPipe", pipe_cfg({"Locked": "= FALSE"}, ["P_X05_Once"]), "P_X05_Once", 1),
        ("pipe-bug-take-keeps", "MCBatchPipe", pipe_cfg({"TakeClears": "= FALSE"}, ["P_X05_Once"]), "P_X05_Once", 1),
        ("pipe-asfound-local-routed", "MCBatchPipe", pipe_cfg({"SkipLocal": "= FALSE"}, ["P_X05_Local"]), "P_X05_Local", 1),
        ("pipe-bug-deliver-on-add", "MCBatchPipe", pipe_cfg({"PipeBug": '= "deliveronadd"'}, ["P_X05_Local"]), "P_X05_Local", 1),
        ("pipe-bug-add-rejected", "MCBatchPipe", pipe_cfg({"PipeBug": '= "addrejected"'}, ["P_X05_Admit"]), "P_X05_Admit", 1),
        ("pipe-bug-add-dup", "MCBatchPipe", pipe_cfg({"PipeBug": '= "adddup"'}, ["P_X05_Admit"]), "P_X05_Admit", 1),
        ("pipe-bug-skip-first", "MCBatchPipe", pipe_cfg({"PipeBug": '= "skipfirst"'}, ["P_X05_Equiv"]), "P_X05_Equiv", 1),
        ("pipe-bug-silent-drop", "MCBatchPipe", pipe_cfg({"PipeBug": '= "silentdrop"'}, ["P_X05_Equiv"]), "P_X05_Equiv", 1),
        ("pipe-bug-early-drop", "MCBatchPipe", pipe_cfg({"PipeBug": '= "earlydrop"'}, ["P_X05_Account"]), "P_X05_Account", 1),
        ("pipe-bug-reorder", "MCBatchPipe", pipe_cfg({"PipeBug": '= "reorder"'}, ["P_X05_Strategy"]), "P_X05_Strategy", 1),
        ("pipe-bug-not-rr", "MCBatchPipe", pipe_cfg(dict(PIPE_ONE, PipeBug='= "notrr"'), ["P_X05_RoundRobin"]), "P_X05_RoundRobin", 1),
    ]

    def one(j):
        name, module, cfg, expect, workers = j
        return j, vlib.run_tlc(ctx, FAMILY, module, cfg, timeout=1500, workers=workers, name="mc-" + name, heap="3g")

    states = transitions = 0
    summary = {}
    with cf.ThreadPoolExecutor(max_workers=4) as ex:
        for (name, module, cfg, expect, _), r in ex.map(one, jobs):
            if expect == "ok":
                vlib.require_mc_ok(ctx, r, "%s %s" % (module, name))
                states += r.distinct
                transitions += r.generated
                summary[name] = [r.distinct, r.generated]
            else:
                vlib.require_mc_fails(ctx, r, "%s %s" % (module, name), expect)
                summary[name] = "fails %s as required" % expect
            ctx.log("mc %-26s %s (%d distinct, %.0fs)" % (name, "ok" if expect == "ok" else "fails " + expect, r.distinct, r.wall))
    return states, transitions, summary


# ----------------------------------------------------------------------------- generation

def gen_cfg(consts):
    return "SPECIFICATION Spec\nCONSTANTS\n" + "".join("  %s = %s\n" % kv for kv in consts.items()) + "INVARIANT Emit\nCHECK_DEADLOCK FALSE\n"


def run_gen(ctx, module, name, consts, sim=None, depth=None):
    if sim:
        r = vlib.run_tlc(ctx, FAMILY, module, gen_cfg(consts), mode="sim", timeout=600, workers=1, simulate="num=%d" % sim, depth=depth,
                         name="gen-" + name, heap="2g")
        bad = r.timed_out or r.violated
    else:
        r = vlib.run_tlc(ctx, FAMILY, module, gen_cfg(consts), timeout=900, workers=2, name="gen-" + name, heap="4g")
        bad = r.timed_out or r.violated or not r.no_error
    if bad:
        raise vlib.Inconclusive("%s %s failed: %s (see %s/tlc.out)" % (module, name, (r.violated or r.errors)[:2], r.dir))
    got = r.printed("SCN")
    if not got:
        raise vlib.Inconclusive("generator %s emitted nothing (see %s/tlc.out)" % (name, r.dir))
    seen, uniq = set(), []
    for s in got:
        k = json.dumps(s, sort_keys=True)
        if k not in seen:
            seen.add(k)
            uniq.append((k, s))
    uniq.sort(key=lambda x: x[0])          # TLC prints in worker order: sort before any seeded choice
    return [s for _, s in uniq], r


def stratified(rng, scns, tags_of, quota, per_tag):
    """Seeded sample in which every tag keeps at least per_tag scenarios."""
    scns = list(scns)
    rng.shuffle(scns)
    if len(scns) <= quota:
        return scns, True
    pick, rest, cnt = [], [], {}
    for s in scns:
        tg = tags_of(s)
        if any(cnt.get(t, 0) < per_tag for t in tg):
            pick.append(s)
            for t in tg:
                cnt[t] = cnt.get(t, 0) + 1
        else:
            rest.append(s)
    pick += rest[:max(0, quota - len(pick))]
    return pick, False


def sched_tags(s):
    ops = s["ops"]
    adds = [(o["p"], o["m"]) for o in ops if o["op"] == "add"]
    t = set()
    if any(o["op"] == "all" and o["k"] > 0 for o in ops):
        t.add("partial")
    if len(set(adds)) < len(adds):
        t.add("samepair")
    per = {}
    for p, m in adds:
        per[m] = per.get(m, 0) + 1
    if len(per) >= 2 and len(set(per.values())) >= 2:
        t.add("unequal")
    if len(per) >= 3:
        t.add("3msgs")
    seen_all = False
    for o in ops:
        if o["op"] == "all":
            seen_all = True
        elif seen_all:
            t.add("reuse")
    return t or {"plain"}


def gen_sched(ctx):
    T = ctx.thorough
    fams, states, transitions, meta = [], 0, 0, {}
    small = {"Peers": '{"p1", "p2"}', "Msgs": '{"m1", "m2", "m3"}', "MaxPartial": 1}
    plan = [("L3", dict(small, L=3), None), ("L4", dict(small, L=4), None)]
    if T:
        plan += [("L2", dict(small, L=2), None), ("L5", dict(small, L=5), None)]
    big = {"Peers": '{"p1", "p2", "p3", "p4"}', "Msgs": '{"m1", "m2", "m3", "m4"}', "MaxPartial": 1}
    if T:
        plan.append(("sim12", dict(big, L=12), 400))
    plan.append(("sim20", dict(dict(big, Peers='{"p1", "p2", "p3", "p4", "p5", "p6"}'), L=20), 200 if T else 40))

    def one(p):
        name, consts, sim = p
        return p, run_gen(ctx, "GenSched", "sched-" + name, consts, sim=sim, depth=consts["L"] + 1 if sim else None)

    rng = random.Random(ctx.seed * 7919 + 5)
    with cf.ThreadPoolExecutor(max_workers=3) as ex:
        for (name, consts, sim), (scns, r) in ex.map(one, plan):
            states += r.distinct
            transitions += r.generated
            quota = (60000 if T else 700) if not sim else (1500 if T else 120)
            pick, exhaustive = stratified(rng, scns, sched_tags, quota, 40)
            meta[name] = {"emitted": len(scns), "replayed": len(pick), "all_replayed": exhaustive and not sim}
            fams += pick
            ctx.log("gen sched %-6s %6d emitted, %6d replayed" % (name, len(scns), len(pick)))
    return fams, states, transitions, meta


KINDS_ALL = '{"ok", "local", "reject", "ignore", "dup"}'


def batch_tags(s):
    acts = s["acts"]
    t = set()
    cont = {}
    published = set()
    for i, a in enumerate(acts):
        if a["a"] == "add":
            t.add("kind-" + a["kind"])
            if a["kind"] in ("ok", "local"):
                cont.setdefault(a["b"], []).append(a)
        elif a["a"] == "pub":
            t.add("strat-" + a["strat"])
            c = cont.get(a["b"], [])
            if not c:
                t.add("pub-empty")
                if a["b"] in published:
                    t.add("republish")
            if len(c) >= 3:
                t.add("batch3")
            if len({x["t"] for x in c if x["kind"] == "ok"}) >= 2:
                t.add("mixed-topics")
            if any(x["kind"] == "local" for x in c) and any(x["kind"] == "ok" for x in c):
                t.add("local-and-routed")
            if any(b["a"] == "single" for b in acts[:i]):
                t.add("single-before-pub")
            if any(b["a"] == "single" for b in acts[i + 1:]):
                t.add("single-after-pub")
            if a["strat"] != "badopt":
                cont[a["b"]] = []
                published.add(a["b"])
    if len({a["b"] for a in acts if a["a"] == "add"}) >= 2:
        t.add("two-batches")
    return t or {"plain"}


def gen_batch(ctx):
    T = ctx.thorough
    one_b = {"Batches": '{"b1"}', "Topics": '{"T1", "T2"}', "Kinds": KINDS_ALL}
    plan = [
        ("L4", dict(one_b, MaxOps=4, MaxAdds=3, MaxPubs=2, MaxSingles=1, Strats='{"default", "rr"}'), None, 200 if T else 70),
        ("L5", dict(one_b, MaxOps=5, MaxAdds=4, MaxPubs=2, MaxSingles=1, Strats='{"default", "rr", "lifo", "badopt"}'), None, 1000 if T else 130),
        ("sim8", {"Batches": '{"b1", "b2"}', "Topics": '{"T1", "T2"}', "Kinds": KINDS_ALL, "MaxOps": 8, "MaxAdds": 6, "MaxPubs": 3,
                  "MaxSingles": 2, "Strats": '{"default", "rr", "lifo", "badopt"}'}, 2000 if T else 500, 800 if T else 120),
    ]
    if not T:
        plan[1] = ("L5", dict(one_b, MaxOps=5, MaxAdds=4, MaxPubs=1, MaxSingles=1, Kinds='{"ok", "local", "reject", "dup"}',
                              Strats='{"default", "rr", "lifo"}'), None, 130)

    def one(p):
        name, consts, sim, quota = p
        return p, run_gen(ctx, "GenBatch", "batch-" + name, consts, sim=sim, depth=consts["MaxOps"] + 1 if sim else None)

    rng = random.Random(ctx.seed * 104729 + 11)
    out, states, transitions, meta = [], 0, 0, {}
    with cf.ThreadPoolExecutor(max_workers=3) as ex:
        for (name, consts, sim, quota), (scns, r) in ex.map(one, plan):
            states += r.distinct
            transitions += r.generated
            pick, exhaustive = stratified(rng, scns, batch_tags, quota, max(8, quota // 15))
            meta[name] = {"emitted": len(scns), "replayed": len(pick), "all_replayed": exhaustive and not sim}
            out += pick
            ctx.log("gen batch %-6s %6d emitted, %6d replayed" % (name, len(scns), len(pick)))
    return out, states, transitions, meta


# ----------------------------------------------------------------------------- environments (harness side)

PEERS = [  # name, protocol, direction, subscriptions
    ("p1", "v12", "in", ["T1", "T2"]),
    ("p2", "v11", "out", ["T1"]),
    ("p3", "v12", "in", ["T1"]),
    ("p4", "flood", "out", ["T1", "T2"]),
    ("p5", "v12", "in", []),
    ("p6", "v10", "out", ["T2"]),
]


def environments():
    envs = []
    for joined in ([], ["T1"], ["T1", "T2"]):
        for flood in (False, True):
            for gate, queue in (([], 32), (["p1"], 3), (["p1", "p4"], 2), ([], 2), (["p1"], 1)):
                for D in (2, 4):
                    if flood and D == 2 and joined:
                        continue
                    envs.append({"joined": joined, "flood": flood, "gate": gate, "queue": queue, "D": D, "low": len(envs) % 3 == 1})
    return envs


def preamble(env):
    acts = [{"a": "peer", "p": n, "proto": pr, "dir": d, "subs": subs} for n, pr, d, subs in PEERS]
    if env["low"]:
        acts.append({"a": "score", "p": "p3", "v": -5})      # below the publish threshold (-4)
    for t in env["joined"]:
        acts.append({"a": "subscribe", "t": t})
    acts.append({"a": "hb"})
    for p in env["gate"]:
        acts.append({"a": "gate", "p": p, "on": True})
    return acts


def env_cfg(env):
    D = env["D"]
    return {"hosts": len(PEERS) + 3, "queue": env["queue"], "flood": env["flood"], "score": True, "D": D, "Dlo": 1 if D == 2 else 2,
            "Dhi": 3 if D == 2 else 5, "Dscore": 1, "Dout": 0, "Dlazy": 1, "topics": ["T1", "T2"]}


def to_scenario(prog, env):
    acts = preamble(env)
    cont = {}
    for a in prog["acts"]:
        if a["a"] == "add":
            acts.append({"a": "add", "b": a["b"], "t": a["t"], "m": a["m"], "kind": a["kind"]})
            cont[a["b"]] = True
        elif a["a"] == "pub":
            acts.append({"a": "pub", "b": a["b"], "strat": a["strat"]})
            if a["strat"] != "badopt":
                cont[a["b"]] = False
        elif a["a"] == "single":
            acts.append({"a": "publish", "t": a["t"], "m": a["m"]})
        else:
            raise vlib.Inconclusive("unknown model action %r" % (a,))
    for b in sorted(cont):                       # every batch is published before the end (X05.h: nothing stays behind)
        if cont[b]:
            acts.append({"a": "pub", "b": b, "strat": "default"})
    acts.append({"a": "flush", "final": True})
    return {"cfg": env_cfg(env), "acts": acts, "env": env}


def conc_scenarios(rng, n):
    """Concurrent callers: g goroutines x k AddToBatch calls each, PublishBatch calls at the same moments."""
    out = []
    envs = [e for e in environments() if e["queue"] >= 32 and e["joined"] == ["T1"] and not e["flood"] and e["D"] == 4]
    for i in range(n):
        env = dict(envs[i % len(envs)], low=False)
        acts = preamble(env)
        nm = 0
        for rnd in range(rng.randint(2, 4)):
            g, k = rng.randint(2, 4), rng.randint(1, 4)
            lists = []
            for _ in range(g):
                lists.append(["c%d" % (nm + j + 1) for j in range(k)])
                nm += k
            if rng.random() < 0.3:
                acts.append({"a": "add", "b": "b1", "t": "T1", "m": "c%d" % (nm + 1), "kind": "ok"})
                nm += 1
            acts.append({"a": "conc", "b": "b1", "t": "T1", "ms": lists, "pubs": rng.randint(0, k)})
            if rng.random() < 0.5:
                acts.append({"a": "pub", "b": "b1", "strat": rng.choice(["default", "rr"])})
        acts.append({"a": "pub", "b": "b1", "strat": "default"})
        acts.append({"a": "flush", "final": True})
        out.append({"cfg": env_cfg(env), "acts": acts, "env": env})
    return out


def plain_router_scenarios():
    """A router that is no BatchPublisher (floodsub, randomsub): PublishBatch must fail and publish nothing."""
    out = []
    for router, proto in (("floodsub", "flood"), ("randomsub", "random")):
        acts = [{"a": "peer", "p": "p1", "proto": proto, "dir": "in", "subs": ["T1"]},
                {"a": "peer", "p": "p2", "proto": "flood", "dir": "out", "subs": ["T1"]},
                {"a": "subscribe", "t": "T1"},
                {"a": "add", "b": "b1", "t": "T1", "m": "m1", "kind": "ok"},
                {"a": "add", "b": "b1", "t": "T1", "m": "m2", "kind": "local"},
                {"a": "pub", "b": "b1", "strat": "default"},
                {"a": "pub", "b": "b1", "strat": "rr"},
                {"a": "publish", "t": "T1", "m": "m3"},
                {"a": "flush", "final": False}]
        out.append({"cfg": {"router": router, "hosts": 5, "topics": ["T1"]}, "acts": acts, "env": {"router": router}})
    return out


# ----------------------------------------------------------------------------- replay

DRV = "./drivers/x05/"
_go_gate, _go_last = threading.Lock(), [0.0]


def run_go(ctx, *a, **kw):
    if os.path.realpath(vlib.REPO) != "/repo":
        with _go_gate:
            wait = _go_last[0] + 1.5 - time.time()
            if wait > 0:
                time.sleep(wait)
            _go_last[0] = time.time()
    return vlib.run_go(ctx, *a, **kw)


def replay_sched(ctx, scns, reps):
    inp = os.path.join(ctx.work, "scn-sched.ndjson")
    outp = os.path.join(ctx.work, "trace-sched.ndjson")
    vlib.write_ndjson(inp, scns)
    r = run_go(ctx, DRV, "^TestX05Sched$", env={"VERIF_IN": inp, "VERIF_OUT": outp, "VERIF_REPS": reps}, timeout=1200, name="sched")
    if r["rc"] != 0:
        if "panic:" in r["out"] and re.search(r"messagebatch\.go", r["out"]):
            m = re.search(r"panic: (.*)", r["out"])
            vlib.add_violation(ctx, "P_X05_SchedExact", {"kind": "panic", "level": "sched"},
                               "the scheduler panicked: %s" % (m.group(1) if m else "?"), {"log": r["log"]})
            return []
        raise vlib.Inconclusive("scheduler driver failed (rc=%s, see %s)" % (r["rc"], r["log"]))
    if not os.path.exists(outp) or os.path.getsize(outp) == 0:
        raise vlib.Inconclusive("scheduler driver produced no trace (see %s)" % r["log"])
    traces, cur = [], None
    with open(outp) as f:
        for line in f:
            ln = json.loads(line)
            if ln["e"] == "reset":
                cur = [ln]
                traces.append(cur)
            else:
                cur.append(ln)
    if len(traces) != len(scns) * reps:
        raise vlib.Inconclusive("scheduler driver replayed %d of %d scenario runs" % (len(traces), len(scns) * reps))
    return traces


def split_by_scn(lines):
    scns, cur = [], None
    for ln in lines:
        if ln["act"]["a"] == "reset":
            cur = [ln]
            scns.append(cur)
        elif cur is not None:
            cur.append(ln)
    return scns


def replay_node(ctx, name, scenarios, race=False):
    nproc = 1 if len(scenarios) < 60 else (4 if ctx.thorough else 3)
    parts = [scenarios[i::nproc] for i in range(nproc)]

    def one(k):
        inp = os.path.join(ctx.work, "scn-%s-%d.ndjson" % (name, k))
        outp = os.path.join(ctx.work, "trace-%s-%d.ndjson" % (name, k))
        mark = os.path.join(ctx.work, "marker-%s-%d" % (name, k))
        vlib.write_ndjson(inp, parts[k])
        r = run_go(ctx, DRV, "^TestX05Node$", env={"VERIF_IN": inp, "VERIF_OUT": outp, "VERIF_MARKER": mark},
                   timeout=1500 if ctx.thorough else 600, name="node-%s-%d" % (name, k), extra=["-race"] if race else [])
        return k, inp, outp, mark, r

    traces, logs = [], []
    with cf.ThreadPoolExecutor(max_workers=nproc) as ex:
        for k, inp, outp, mark, r in ex.map(one, range(nproc)):
            logs.append(r)
            if race:
                continue
            if r["rc"] != 0:
                crash_or_inconclusive(ctx, "%s/%d" % (name, k), r, inp, mark)
                continue
            if not os.path.exists(outp) or os.path.getsize(outp) == 0:
                raise vlib.Inconclusive("node driver produced no trace for %s (rc=%s, see %s)" % (name, r["rc"], r["log"]))
            s = split_by_scn(vlib.read_ndjson(outp))
            if len(s) != len(parts[k]):
                raise vlib.Inconclusive("node driver replayed %d of %d scenarios of %s (see %s)" % (len(s), len(parts[k]), name, r["log"]))
            for t, scn in zip(s, parts[k]):
                t[0]["_scenario"] = scn
            traces += s
    for gi, t in enumerate(traces):
        for ln in t:
            ln["scn"] = gi
    return traces, logs


def crash_or_inconclusive(ctx, what, r, inp, mark):
    """A dead driver is a violation only if the single scenario reproduces a panic inside the library."""
    idx = None
    try:
        idx = int(open(mark).read().strip())
    except Exception:
        pass
    if idx is not None and "panic:" in r["out"]:
        outp = os.path.join(ctx.work, "crash-%d.ndjson" % idx)
        r2 = run_go(ctx, DRV, "^TestX05Node$", env={"VERIF_IN": inp, "VERIF_OUT": outp, "VERIF_ONLY": idx}, timeout=300, name="crash-%d" % idx)
        lib = re.search(r"go-libp2p-pubsub(@[^/]*)?/|%s/" % re.escape(os.path.realpath(vlib.REPO)), r2["out"])
        if r2["rc"] != 0 and "panic:" in r2["out"] and lib:
            scn = vlib.read_ndjson(inp)[idx]
            m = re.search(r"panic: (.*)", r2["out"])
            vlib.add_violation(ctx, "P_X05_Once", {"kind": "panic", "level": "node", "where": (m.group(1) if m else "")[:80]},
                               "the node panicked while publishing a batch (scenario %d of %s): %s" % (idx, what, m.group(1) if m else "?"),
                               {"scenario": scn})
            return
    if "test timed out" in r["out"] or "deadlock" in r["out"]:
        # a call that never returns is an observation of the real code, but only if it reproduces alone
        if idx is not None:
            outp = os.path.join(ctx.work, "hang-%d.ndjson" % idx)
            r2 = run_go(ctx, DRV, "^TestX05Node$", env={"VERIF_IN": inp, "VERIF_OUT": outp, "VERIF_ONLY": idx}, timeout=120, name="hang-%d" % idx)
            if r2["rc"] != 0 and ("test timed out" in r2["out"] or "deadlock" in r2["out"]) and re.search(r"AddToBatch|PublishBatch", r2["out"]):
                vlib.add_violation(ctx, "P_X05_Once", {"kind": "call-never-returns", "level": "node"},
                                   "AddToBatch / PublishBatch did not return (scenario %d of %s)" % (idx, what),
                                   {"scenario": vlib.read_ndjson(inp)[idx]})
                return
    raise vlib.Inconclusive("driver failed during %s (rc=%s, see %s)" % (what, r["rc"], r["log"]))


def race_reports(ctx, logs):
    """Data races the race detector saw on the MessageBatch itself (X05.h: safe for concurrent callers)."""
    n_runs, built = 0, False
    for r in logs:
        out = r["out"]
        if "[build failed]" in out or "-race is only supported" in out or "requires cgo" in out:
            continue
        built = True
        n_runs += 1
        for rep in out.split("WARNING: DATA RACE")[1:]:
            rep = rep.split("==================")[0]
            # only accesses made by MessageBatch's own methods count (the scheduler's iterator frames of the same
            # file are on every stack below PublishBatch)
            fn = re.findall(r"\(\*MessageBatch\)\.(\w+)\(\)", rep)
            if fn:
                vlib.add_violation(ctx, "P_X05_Once", {"kind": "data-race-on-batch", "level": "node", "fn": sorted(set(fn))[:3]},
                                   "the race detector reports unsynchronised access to a MessageBatch shared by concurrent AddToBatch / PublishBatch callers: "
                                   + " / ".join(sorted(set(fn))), {"report": rep[:3000]})
                break
    if not built:
        ctx.notes.append("race-detector build not available here: the concurrent scenarios ran without it")
    return n_runs


# ----------------------------------------------------------------------------- trace validation

ST_KEYS = ("peers", "topics", "subs", "mesh", "fanout", "scores", "direct")     # what BatchTrace reads of a snapshot


def tlc_walk(ctx, module, name, k, lines):
    path = os.path.join(ctx.work, "tv-%s-%d.ndjson" % (name, k))
    with open(path, "w") as f:
        for ln in lines:
            if "st" in ln:
                ln = {a: b for a, b in ln.items() if a not in ("_scenario", "conn")}
                ln["st"] = {a: b for a, b in ln["st"].items() if a in ST_KEYS}
            f.write(json.dumps(ln, separators=(",", ":")) + "\n")
    r = vlib.run_tlc(ctx, FAMILY, module, module + ".cfg", mode="trace", files={"trace.ndjson": path}, timeout=1800,
                     name="tv-%s-%d" % (name, k), heap="3g")
    if r.hw is None or r.hw[0] < r.hw[1] or r.timed_out:
        raise vlib.Inconclusive("trace validation of %s chunk %d did not walk the whole file: hw=%s errors=%s (see %s/tlc.out)" %
                                (name, k, r.hw, r.errors[:2], r.dir))
    viols, steps = r.printed("VIOL"), r.printed("STEP")
    if len(viols) != len(r.printed_raw("VIOL")) or len(steps) != len(r.printed_raw("STEP")):
        raise vlib.Inconclusive("unparsable VIOL/STEP output in %s/tlc.out" % r.dir)
    return viols, steps, r.distinct


def validate(ctx, module, name, traces, lines_per_chunk):
    chunks, cur, n = [], [], 0
    for t in traces:
        cur.append(t)
        n += len(t)
        if n >= lines_per_chunk:
            chunks.append(cur)
            cur, n = [], 0
    if cur:
        chunks.append(cur)

    def one(kc):
        k, trs = kc
        v, s, st = tlc_walk(ctx, module, name, k, [ln for t in trs for ln in t])
        by = {t[0]["scn"]: t for t in trs}
        for x in v:
            x["trace"] = by.get(x["at"]["scn"])
        return v, s, st

    viols, steps, states = [], [], 0
    with cf.ThreadPoolExecutor(max_workers=4 if not ctx.thorough else 6) as ex:
        for v, s, st in ex.map(one, list(enumerate(chunks))):
            viols += v
            steps += s
            states += st
    return viols, steps, states


def short(x, n=700):
    s = json.dumps(x, sort_keys=True, default=str)
    return s if len(s) <= n else s[:n] + "..."


def report_sched(ctx, viols):
    for v in viols:
        tr = v.get("trace")
        vlib.add_violation(ctx, v["pred"], {"kind": v["kind"], "level": "sched"},
                           "%s: the real RoundRobinMessageIDScheduler, scenario run %d line %d: %s" %
                           (v["kind"], v["at"]["scn"], v["at"]["line"], short(v["more"])),
                           {"driver": "TestX05Sched", "history": tr})


def report_node(ctx, viols):
    for v in viols:
        tr = v.get("trace")
        payload = None
        if tr:
            payload = {"driver": "TestX05Node", "scenario": tr[0].get("_scenario"), "failing_step": v["at"],
                       "line": next(({k: b for k, b in ln.items() if k not in ("st", "_scenario")} for ln in tr if ln["i"] == v["at"]["i"]), None)}
        vlib.add_violation(ctx, v["pred"], {"kind": v["kind"], "level": "node"},
                           "%s at step %d (%s) of an in-node scenario: %s" % (v["kind"], v["at"]["i"], v["at"]["act"], short(v["more"])), payload)


REQUIRED_SCHED = ["full", "partial", "empty-iteration", "multi-round", "unequal-lists", "same-pair-twice", "reuse-after-iteration", "three-peers"]
REQUIRED_NODE = ["add-ok", "add-local", "add-reject", "add-dup", "add-known-id", "batch-of-3-or-more", "batch-mixed-topics",
                 "pub-default", "pub-rr", "pub-lifo", "pub-empty", "pub-republish", "pub-with-local-only", "pub-local-only-with-topic-peers",
                 "pub-mixed-topics", "pub-multi-round", "pub-unequal-lists", "pub-with-drop", "pub-with-subscriber",
                 "equiv-within-batch", "equiv-batch-after-single", "equiv-single-after-batch", "fanout-selected-by-batch", "flood-publish",
                 "mesh-publish", "strategy-recorded", "option-error", "router-unsupported", "gated-peer-drained-in-order",
                 "conc", "conc-with-publish", "conc-publish-took-part", "conc-3-goroutines"]


def run(ctx):
    T = ctx.thorough
    if ctx.replay:
        payload = json.load(open(ctx.replay))
        scn = (payload.get("replay") or {}).get("scenario")
        if not scn:
            raise vlib.Inconclusive("replay file has no in-node scenario")
        traces, _ = replay_node(ctx, "replay", [scn])
        viols, steps, states = validate(ctx, "BatchTrace", "replay", traces, 10 ** 9)
        report_node(ctx, viols)
        return vlib.finish(ctx, LEVEL, {"states": max(states, 1), "transitions": max(states, 1), "traces_validated_against_impl": len(traces),
                                        "samples": [{"replayed": ctx.replay, "steps_judged": len(steps)}], "evaluations": len(steps),
                                        "distinct_nontrivial": len(steps), "rule": "single replayed scenario"}, ["replay of one scenario"])

    # 1. model level, 2. generation (TLC), side by side
    with cf.ThreadPoolExecutor(max_workers=3) as ex:
        f_mc, f_gs, f_gb = ex.submit(model_checking, ctx), ex.submit(gen_sched, ctx), ex.submit(gen_batch, ctx)
        states, transitions, mc = f_mc.result()
        sched_scns, s1, t1, sched_meta = f_gs.result()
        progs, s2, t2, batch_meta = f_gb.result()
    states += s1 + s2
    transitions += t1 + t2

    # 3. replay on the real code
    reps = 3
    rng = random.Random(ctx.seed * 31 + 17)
    envs = environments()
    rng.shuffle(envs)
    tight = [e for e in envs if e["gate"] and e["queue"] <= 3]
    node_scns = []
    for i, p in enumerate(progs):
        # batches of several routed messages go to an environment with gated writers and small queues more often (drops)
        big = batch_tags(p) & {"batch3", "mixed-topics", "single-before-pub"}
        env = tight[i % len(tight)] if big and rng.random() < 0.5 else envs[i % len(envs)]
        node_scns.append(to_scenario(p, env))
    conc = conc_scenarios(rng, 60 if T else 14)
    plain = plain_router_scenarios()
    with cf.ThreadPoolExecutor(max_workers=4) as ex:
        f_s = ex.submit(replay_sched, ctx, sched_scns, reps)
        f_n = ex.submit(replay_node, ctx, "gen", node_scns)
        f_c = ex.submit(replay_node, ctx, "conc", conc + plain)
        f_r = ex.submit(replay_node, ctx, "race", conc[:20 if T else 8], True)
        sched_traces = f_s.result()
        node_traces, _ = f_n.result()
        conc_traces, _ = f_c.result()
        _, race_logs = f_r.result()
    race_runs = race_reports(ctx, race_logs)
    ctx.log("replayed %d scheduler runs, %d + %d in-node scenarios (%d step lines), %d race-detector runs" %
            (len(sched_traces), len(node_traces), len(conc_traces), sum(len(t) for t in node_traces + conc_traces), race_runs))

    # 4. trace validation
    for gi, t in enumerate(sched_traces):
        t[0]["scn"] = gi
    sv, ss, st1 = validate(ctx, "SchedTrace", "sched", sched_traces, 120000 if T else 60000)
    for gi, t in enumerate(conc_traces):
        for ln in t:
            ln["scn"] = len(node_traces) + gi
    nv, ns, st2 = validate(ctx, "BatchTrace", "node", node_traces + conc_traces, 7000 if T else 3500)
    states += st1 + st2
    report_sched(ctx, sv)
    report_node(ctx, nv)

    # coverage obligations on real steps
    hits = {}
    for s in ss + ns:
        for t in s["tags"]:
            hits[t] = hits.get(t, 0) + 1
    missing = [t for t in REQUIRED_SCHED + REQUIRED_NODE if not hits.get(t)]
    if missing and not ctx.violations:
        raise vlib.Inconclusive("coverage obligation not met on real steps: %s" % missing)

    sched_nontrivial = {json.dumps([s["sig"], sorted(s["tags"])], sort_keys=True) for s in ss if s["sig"]["n"] >= 2}
    node_judged = [s for s in ns if s["kind"] in ("pub", "add", "single", "conc", "puberr")]
    node_nontrivial = {json.dumps([s["kind"], s["sig"], sorted(s["tags"])], sort_keys=True) for s in node_judged
                       if s["kind"] in ("pub", "conc") and (s["sig"].get("pushes", 0) > 0 or s["sig"].get("n", 0) > 0)}
    samples = []
    if sched_traces:
        samples.append({"driver": "TestX05Sched", "history": sched_traces[len(sched_traces) // 2][:12]})
    if node_traces:
        t = node_traces[len(node_traces) // 2]
        samples.append({"driver": "TestX05Node", "scenario": t[0].get("_scenario", {}).get("acts"),
                        "a_judged_step": next((s for s in ns if s["at"]["scn"] == t[0]["scn"] and s["kind"] == "pub"), None)})
    cov = {"states": states, "transitions": transitions,
           "traces_validated_against_impl": len(sched_traces) + len(node_traces) + len(conc_traces),
           "samples": samples, "evaluations": len(ss) + len(node_judged),
           "distinct_nontrivial": len(sched_nontrivial) + len(node_nontrivial),
           "rule": "evaluation = one iteration of the real scheduler's All() judged by SchedTrace, or one step of the real node (AddToBatch, PublishBatch, "
                   "individual publish, concurrent callers) judged by BatchTrace; distinct by (sizes, coverage tags); non-trivial = an iteration yielding "
                   "at least two RPCs, or a PublishBatch / concurrent step with at least one message",
           "exhaustive": False, "obligation_hits": {t: hits.get(t, 0) for t in REQUIRED_SCHED + REQUIRED_NODE},
           "other_hits": {t: n for t, n in hits.items() if t not in REQUIRED_SCHED + REQUIRED_NODE},
           "scheduler": {"scenario_runs": len(sched_traces), "iterations_judged": len(ss), "repeats_per_scenario": reps, "generated": sched_meta},
           "node": {"scenarios": len(node_traces), "concurrent_scenarios": len(conc), "plain_router_scenarios": len(plain),
                    "steps_judged": len(node_judged), "race_detector_runs": race_runs, "generated": batch_meta},
           "mc": mc}
    return vlib.finish(ctx, LEVEL, cov, [
        "message ids are the harness names (WithMessageIdFn): two publications of one name are duplicates of each other",
        "recipients of a message = peers with a SendRPC or DropRPC trace carrying it (a drop counts: the router selected the peer)",
        "equivalence is judged against a twin: an individual Publish on the same topic in the same routing state (mesh, fanout, topic peers, "
        "scores, direct peers, queues as snapshotted inside the event loop), and between the messages of one topic inside one batch",
        "an iteration of All() that the consumer breaks off leaves the element it stopped at in doubt (accepted again exactly once, first for its message)",
        "Go randomises map iteration: every scheduler scenario is replayed several times; the specification allows every order inside a round",
        "DropRPC only when the queue is full is judged as: drops to a peer <= pushes to it minus the free slots of the previous snapshot (the writer may only make more room)",
        "concurrent AddToBatch / PublishBatch callers are made to collide by a barrier inside the topic validator; the same scenarios run once more under the race detector",
        "after shutdown PublishBatch returns: property C14, not repeated here"])
