"""C18 - the peer-event stream of a topic reproduces the topic's peer set.

spec/eventlog: EventLogOps (meaning of the coalescing log + the predicates), EventLog (mutex-grain model,
exhaustive MC incl. configurations that MUST fail), GenEventLog (scenario generator driving that model at the
grain the harness can force), EventLogTrace (replay of real traces, predicates evaluated on what real handlers
returned).  Driver: harness/drivers/c18 (real gossipsub/floodsub node, fake peers, consumer goroutines)."""
import concurrent.futures as cf
import glob, json, os, random, re, signal, subprocess, time
from .. import vlib

LEVEL = "model_checking"
FAMILY = "eventlog"
C18 = {"P_C18_Replay", "P_C18_Alternate", "P_C18_Elide", "P_C18_NoLostWake", "P_C18_CancelReturns",
       "P_C18_Replay_ListPeers", "P_C18_UnexpectedError"}
DRIFT = {"GroundTruth"}


def S(a, p="", h="", c="", m="", ops=None):
    d = {"a": a, "p": p, "h": h, "c": c, "m": m}
    if ops is not None:
        d["ops"] = ops
    return d


def forced_scenarios():
    """Schedules written by hand after the counterexamples of the must-fail configurations (so that the
    lines a saboteur would touch are exercised in EVERY run, whatever the sampling does)."""
    H1 = {"c1": "h1", "c2": "h1"}
    call = lambda c, m="step", h="h1": S("call", h=h, c=c, m=m)
    F = {
        # MCEventLogNoRearm: two consumers about to wait, two events arrive, both are released
        "rearm2": [S("newh", h="h1"), call("c1"), call("c2"), S("join", "p1"), S("join", "p2"), S("go", c="c1"), S("go", c="c2")],
        "rearm3": [S("newh", h="h1"), call("c1"), call("c2"), S("join", "p1"), S("join", "p2"), S("join", "p3"),
                   S("go", c="c1"), S("go", c="c2"), call("c1")],
        "rearm-leave": [S("join", "p1"), S("join", "p2"), S("newh", h="h1"), call("c1", "free"), call("c1", "free"), call("c1"), call("c2"),
                        S("leave", "p1", m="down"), S("leave", "p2", m="unsub"), S("go", c="c2"), S("go", c="c1")],
        # MCEventLogNoSignal: the insert signal arrives while the consumer is between unlock and select
        "signal-parked": [S("newh", h="h1"), call("c1"), S("join", "p1"), S("go", c="c1")],
        "signal-blocked": [S("newh", h="h1"), call("c1", "free"), S("join", "p1"), call("c1", "free"), S("leave", "p1", m="unsub")],
        "concurrent-free": [S("newh", h="h1"), call("c1", "free"), call("c2", "free"),
                            S("multi", ops=[{"p": "p1", "v": True}, {"p": "p2", "v": True}])],
        # MCEventLogCoalesceEq: bursts before consumption
        "burst-jlj": [S("newh", h="h1"), S("join", "p1"), S("leave", "p1", m="unsub"), S("join", "p1"), call("c1", "free"), call("c1", "free"), S("cancel", c="c1")],
        "burst-jl": [S("newh", h="h1"), S("join", "p1"), S("leave", "p1", m="down"), call("c1", "free")],
        "burst-lj": [S("join", "p1"), S("newh", h="h1"), call("c1", "free"), S("leave", "p1", m="closeOut"), S("join", "p1"), call("c1", "free")],
        "seed-leave": [S("join", "p1"), S("join", "p2"), S("newh", h="h1"), S("leave", "p1", m="unsub"), call("c1", "free"), call("c1", "free")],
        "flap-waiting": [S("join", "p1"), S("newh", h="h1"), call("c1", "free"), call("c1", "free"), call("c2", "free"), S("flap", "p1"), S("flap", "p2")],
        # MCEventLogJoinAlways / leave-when-absent: no event without a membership change
        "resub": [S("newh", h="h1"), S("join", "p1"), call("c1", "free"), S("resub", "p1"), call("c1", "free")],
        "reunsub": [S("join", "p2"), S("newh", h="h1"), call("c1", "free"), S("reunsub", "p1"), call("c1", "free")],
        # leave on disconnect / closed stream
        "down": [S("newh", h="h1"), S("join", "p1"), call("c1", "free"), S("leave", "p1", m="down"), call("c1", "free"), S("join", "p1"), call("c1", "free")],
        "closeOut": [S("newh", h="h1"), S("join", "p1"), call("c1", "free"), S("leave", "p1", m="closeOut"), call("c1", "free")],
        "resetOut": [S("newh", h="h1"), S("join", "p1"), call("c1", "free"), S("leave", "p1", m="resetOut"), call("c1", "free")],
        # a call whose context is already cancelled while events are pending: it may return the event or the context
        # error, but it must not swallow the event
        "cancelled-pending": [S("newh", h="h1"), S("join", "p1"), S("cancel", c="c1"), call("c1", "free"), S("leave", "p1", m="unsub"),
                              call("c2", "free"), call("c2", "free")],
        "cancelled-pending2": [S("newh", h="h1"), S("join", "p1"), S("join", "p2"), S("cancel", c="c1"), call("c1", "step"), call("c1", "free"),
                               call("c2", "free")],
        # handler cancel: nothing after it, the other handler is not disturbed
        "cancelh": [S("newh", h="h1"), S("newh", h="h2"), S("join", "p1"), S("cancelh", h="h1"), S("join", "p2"),
                    call("c1", "free"), call("c1", "free"), call("c2", "free", "h2"), call("c2", "free", "h2"), call("c2", "free", "h2")],
    }
    # handler creation racing with a membership change (the event loop is parked, both are submitted, the loop's select
    # orders them at random): repeated, with both submission orders, so that both orders of processing are observed
    R = {
        "race-join": lambda first: [S("newh", h="h1"), call("c1", "free"), S("racenewh", "p1", h="h2", c=first),
                                    call("c2", "free", "h2"), call("c2", "free", "h2")],
        "race-unsub": lambda first: [S("join", "p1"), S("join", "p2"), S("newh", h="h1"), S("racenewh", "p1", h="h2", m="unsub", c=first),
                                     call("c2", "free", "h2"), call("c2", "free", "h2"), call("c2", "free", "h2")],
        "race-close": lambda first: [S("join", "p1"), S("racenewh", "p1", h="h2", m="closeOut", c=first),
                                     call("c2", "free", "h2"), call("c2", "free", "h2"), S("join", "p1"), call("c2", "free", "h2")],
        "race-join-seeded": lambda first: [S("join", "p2"), S("racenewh", "p1", h="h2", c=first), call("c2", "step", "h2"), call("c2", "step", "h2"),
                                           call("c2", "step", "h2"), S("leave", "p1", m="down"), S("go", c="c2")],
    }
    out = []
    for name, steps in F.items():
        for router in ("gossipsub", "floodsub"):
            for nut_sub in (False, True):
                out.append({"name": "forced:" + name, "cfg": {"router": router, "npeers": 4, "nutSub": nut_sub},
                            "handlerOf": H1, "steps": steps})
    for name, mk in R.items():
        for router in ("gossipsub", "floodsub"):
            for nut_sub in (False, True):
                for rep in range(4):
                    out.append({"name": "forced:" + name, "cfg": {"router": router, "npeers": 4, "nutSub": nut_sub},
                                "handlerOf": {"c1": "h1", "c2": "h2"}, "steps": mk(("change", "handler")[rep % 2])})
    return out


def random_scenario(rng, nsteps, npeers=4, nh=3):
    """Long seeded random sequence: 4 peers, 3 handlers, 5 consumers."""
    peers = ["p%d" % (i + 1) for i in range(npeers)]
    cons = {"c1": "h1", "c2": "h1", "c3": "h2", "c4": "h2", "c5": "h3"}
    member = {p: False for p in peers}
    made, dead, cancelled_ctx = [], set(), set()
    steps = []
    while len(steps) < nsteps:
        x = rng.random()
        if len(made) < nh and (not made or x < 0.04):
            h = "h%d" % (len(made) + 1)
            made.append(h)
            if rng.random() < 0.5:
                p = rng.choice(peers)
                steps.append(S("racenewh", p, h=h))
                member[p] = not member[p]
            else:
                steps.append(S("newh", h=h))
        elif x < 0.40:
            p = rng.choice(peers)
            if member[p]:
                steps.append(S("leave", p))
            else:
                steps.append(S("join", p))
            member[p] = not member[p]
        elif x < 0.45:
            p = rng.choice(peers)
            steps.append(S("resub" if member[p] else "reunsub", p))
        elif x < 0.50:
            steps.append(S("flap", rng.choice(peers)))
        elif x < 0.57:
            ps = rng.sample(peers, 2)
            ops = []
            for p in ps:
                v = rng.random() < 0.7 and not member[p] or (member[p] and rng.random() < 0.2)
                ops.append({"p": p, "v": bool(v)})
                member[p] = bool(v)
            steps.append(S("multi", ops=ops))
        elif x < 0.87:
            c = rng.choice(sorted(cons))
            if cons[c] in made:
                steps.append(S("call", h=cons[c], c=c, m="step" if rng.random() < 0.4 else "free"))
        elif x < 0.96:
            steps.append(S("go", c=rng.choice(sorted(cons))))
        elif x < 0.975 and len(cancelled_ctx) < 2:
            c = rng.choice(sorted(cons))
            cancelled_ctx.add(c)
            steps.append(S("cancel", c=c))
        elif x < 0.985 and made and len(dead) < 1:
            h = rng.choice(made)
            if h not in dead:
                dead.add(h)
                steps.append(S("cancelh", h=h))
    return {"name": "random", "cfg": {"router": rng.choice(["gossipsub", "floodsub"]), "npeers": npeers, "nutSub": rng.random() < 0.5},
            "handlerOf": cons, "steps": steps}


def gen_cfg(L, extras, two_handlers, maxraw, lmin=None):
    g = "G2" if two_handlers else "G"
    return vlib.cfg_text(spec="GSpec", constants={
        "Peers": "Peers <- GPeers", "Handlers": "Handlers <- %sHandlers" % g, "Consumers": "Consumers <- %sConsumers" % g,
        "HandlerOf": "HandlerOf <- %sHandlerOf" % g, "MaxRaw": maxraw, "MaxCalls": "MaxCalls <- %sMaxCalls" % g,
        "CtxCancellable": "CtxCancellable <- %sCtx" % g, "HCancellable": "HCancellable <- %sHandlers" % g,
        "Mon": False, "History": False, "Rearm": True, "CoalesceOnEqual": False, "SignalOnInsert": True,
        "FirstSighting": True, "SeedAtomic": True, "RegisterInThunk": True, "L": L, "Lmin": lmin or L, "Extras": extras}, invariants=["Emit"])


def model_check(ctx):
    """Exhaustive MC of the mutex-grain model + the configurations that must fail. All runs in parallel."""
    ok = [("MCEventLog", 8), ("MCEventLogHistQ", 2), ("MCEventLogLiveQ", 2)]
    if ctx.thorough:
        ok += [("MCEventLogHist", 2), ("MCEventLog2H", 8), ("MCEventLogLive", 2)]
    bad = {"MCEventLogNoRearm": {"P_C18_NoLostWake"}, "MCEventLogNoRearmInv": {"P_C18_WakePending"},
           "MCEventLogNoSignal": {"P_C18_NoLostWake"},
           "MCEventLogCoalesceEq": {"M_C18_Replay", "M_C18_Alternate", "M_C18_Elide"},
           "MCEventLogJoinAlways": {"M_C18_Replay", "M_C18_Alternate", "M_C18_Elide"},
           "MCEventLogSeedLate": {"M_C18_Replay", "M_C18_Alternate", "M_C18_Elide"},
           "MCEventLogRegLate": {"M_C18_Replay", "M_C18_Alternate", "M_C18_Elide"}}
    if not ctx.thorough:    # the safety form of the re-arm variant and the late-seeding variant only at the thorough tier
        bad = {n: v for n, v in bad.items() if n not in ("MCEventLogNoRearmInv", "MCEventLogSeedLate")}
    jobs = [(n, w) for n, w in ok] + [(n, 1) for n in bad]
    res = {}
    # at most 2 JVMs with at most 2 workers each (the rest of the pipeline runs next to them: never more than ~4 TLC workers)
    with cf.ThreadPoolExecutor(max_workers=2) as ex:
        futs = {ex.submit(vlib.run_tlc, ctx, FAMILY, "MCEventLog", n + ".cfg", workers=min(w, 2), timeout=1500, name=n): n for n, w in jobs}
        for f in cf.as_completed(futs):
            res[futs[f]] = f.result()
    states = transitions = 0
    summary = {}
    for n, _ in ok:
        vlib.require_mc_ok(ctx, res[n], n, allow_timeout=(n == "MCEventLog2H"))
        states += res[n].distinct
        transitions += res[n].generated
        summary[n] = [res[n].distinct, res[n].generated]
    for n, want in bad.items():
        got = set(res[n].violated)
        if not (got & want):
            raise vlib.Inconclusive("%s: expected one of %s to be violated (non-vacuity), got %s" % (n, sorted(want), sorted(got)))
        summary[n] = "fails " + ",".join(sorted(got & want))
    return states, transitions, summary


def generate(ctx):
    rng = random.Random(ctx.seed)
    states = transitions = 0
    scns, info = [], {}

    def take(res, what):
        nonlocal states, transitions
        vlib.require_mc_ok(ctx, res, what)
        got = res.printed("SCN")
        if not got:
            raise vlib.Inconclusive("generator %s emitted nothing" % what)
        states += res.distinct
        transitions += res.generated
        seen, uniq = set(), []
        for s in got:
            k = json.dumps(s, sort_keys=True)
            if k not in seen:
                seen.add(k)
                uniq.append(s)
        return uniq

    # exhaustive for short sequences (2 peers, 1 handler, 2 consumers in step mode): one BFS run emits every scenario of
    # Lmin..L steps; per length either all of them are replayed or a seeded sample
    caps = {5: 2500, 6: 350} if not ctx.thorough else {6: 100000, 7: 5000}
    lo, hi = min(caps), max(caps)
    g = vlib.run_tlc(ctx, FAMILY, "MCGenEventLog", gen_cfg(hi, False, False, 6, lmin=lo), timeout=900, name="gen-L%d-%d" % (lo, hi), workers=2, heap="6g")
    allgen = [s for s in take(g, "GenEventLog L=%d..%d" % (lo, hi)) if any(x["a"] == "newh" for x in s["steps"])]
    exhaustive = {}
    for L, cap in sorted(caps.items()):
        u = sorted((s for s in allgen if len(s["steps"]) == L), key=lambda s: json.dumps(s, sort_keys=True))
        exhaustive[L] = len(u) <= cap
        if len(u) > cap:
            rng.shuffle(u)
            u = u[:cap]
        info["L%d" % L] = len(u)
        for s in u:
            s["name"] = "gen:L%d" % L
        scns += u
    # random longer ones with the extras (free-mode calls, resub/reunsub/flap), 2 handlers, 3 consumers
    n_sim = 150 if not ctx.thorough else 3000
    g = vlib.run_tlc(ctx, FAMILY, "MCGenEventLog", gen_cfg(14, True, True, 12), mode="sim", simulate="num=%d" % n_sim, depth=300,
                     workers=1, timeout=900, name="gen-sim")
    u = sorted(take(g, "GenEventLog simulate"), key=lambda s: json.dumps(s, sort_keys=True))
    cap = 250 if not ctx.thorough else 3000
    if len(u) > cap:
        rng.shuffle(u)
        u = u[:cap]
    info["sim14"] = len(u)
    for s in u:
        s["name"] = "gen:sim"
    scns += u
    for s in scns:
        s["cfg"] = {"router": rng.choice(["gossipsub", "floodsub", "floodsub"]), "npeers": 4, "nutSub": rng.random() < 0.3}
    forced = forced_scenarios()
    info["forced"] = len(forced)
    n_rand, n_len = (6, 120) if not ctx.thorough else (60, 200)
    rnd = [random_scenario(rng, n_len) for _ in range(n_rand)]
    info["random%d" % n_len] = len(rnd)
    # scenarios with the same configuration share a node under test: keep them together
    allscn = forced + scns + rnd
    allscn.sort(key=lambda s: json.dumps(s["cfg"], sort_keys=True))
    return allscn, states, transitions, info, exhaustive


def make_jobs(scns, batch=40):
    """Consecutive scenarios with the same configuration share a node under test: half-open index ranges."""
    jobs, i = [], 0
    key = lambda s: json.dumps(s["cfg"], sort_keys=True)
    while i < len(scns):
        j = i + 1
        while j < len(scns) and j - i < batch and key(scns[j]) == key(scns[i]):
            j += 1
        jobs.append([i, j])
        i = j
    return jobs


def job_done(outdir, jb):
    """A job's file is complete iff the end line of its last scenario is in it."""
    path = os.path.join(outdir, "job-%d.ndjson" % jb[0])
    try:
        with open(path, "rb") as f:
            f.seek(max(0, os.path.getsize(path) - 400))
            tail = f.read().decode(errors="replace")
    except OSError:
        return False
    last = tail.rstrip("\n").rsplit("\n", 1)[-1]
    try:
        d = json.loads(last)
    except Exception:
        return False
    return d.get("e") == "end" and d.get("scn") == jb[1] - 1


def run_proc(ctx, binp, scn_file, outdir, jobs, tag, stall, deadline):
    """One driver process over the given jobs, supervised: it is killed when its marker (rewritten at the start of every
    scenario, a few ms to a few hundred ms each) has not changed for `stall` seconds or the stage deadline has passed."""
    jf = os.path.join(ctx.work, "jobs-%s.json" % tag)
    with open(jf, "w") as f:
        json.dump(jobs, f)
    mark = os.path.join(ctx.work, "marker-%s" % tag)
    if os.path.exists(mark):
        os.remove(mark)
    log = os.path.join(ctx.work, "go-replay-%s.log" % tag)
    env = dict(os.environ)
    env.update({"VERIF_IN": scn_file, "VERIF_OUTDIR": outdir, "VERIF_JOBS": jf, "VERIF_MARKER": mark, "VERIF_SEED": str(ctx.seed),
                "VERIF_TIER": ctx.tier, "GOMAXPROCS": "4"})
    killed = None
    with open(log, "w") as lf:
        p = subprocess.Popen([binp, "-test.run", "^TestC18Replay$", "-test.timeout", "%ds" % max(60, int(deadline - time.time()) + 30)],
                             cwd=ctx.work, env=env, stdout=lf, stderr=subprocess.STDOUT)
        seen, last_change = None, time.time()
        while p.poll() is None:
            time.sleep(0.5)
            try:
                m = os.stat(mark).st_mtime_ns
            except OSError:
                m = None
            now = time.time()
            if m != seen:
                seen, last_change = m, now
            if now - last_change > stall or now > deadline:
                killed = "no progress for %d s" % int(now - last_change) if now <= deadline else "stage deadline"
                p.send_signal(signal.SIGQUIT)      # the Go runtime dumps all goroutines
                try:
                    p.wait(timeout=10)
                except subprocess.TimeoutExpired:
                    p.kill()
                    p.wait()
                lf.write("\nc18.py: stopped the driver: %s\n" % killed)
                break
    at = open(mark).read().strip() if os.path.exists(mark) else ""
    return {"rc": p.returncode, "killed": killed, "at": int(at) if at.isdigit() else None, "log": log}


def build_driver(ctx):
    binp = os.path.join(ctx.work, "c18.test")
    b = vlib.run_go(ctx, "./drivers/c18/", "^TestC18Replay$", extra=["-c", "-o", binp], timeout=600, name="build")
    if b["rc"] != 0 or not os.path.exists(binp):
        raise vlib.Inconclusive("cannot build the C18 driver (see %s)" % b["log"])
    return binp


def run_driver(ctx, scns, binp=None):
    """Replays the scenarios on the real code. Returns {scenario index: lines} for the scenarios that were recorded completely.
    The stage is bounded (quick 300 s, thorough 1500 s, then Inconclusive); a process that dies or stops making progress (marker
    unchanged for 60/120 s) is stopped with SIGQUIT (goroutine dump in its log), attributed to the job it was in, and the remaining
    jobs are resumed in a new process with that job last. A second failure in the same job is Inconclusive, unless the process
    panicked in library code and the scenario, replayed alone, panics again (then P_C18_NoPanic)."""
    scn_file = os.path.join(ctx.work, "scenarios.ndjson")
    vlib.write_ndjson(scn_file, scns)
    binp = binp or build_driver(ctx)
    outdir = ctx.sub("jobs")
    jobs = make_jobs(scns)
    budget = 300 if not ctx.thorough else 1500
    stall = int(os.environ.get("VERIF_C18_STALL", 60 if not ctx.thorough else 120))
    deadline = time.time() + budget
    nsh = max(1, min(4, vlib.NCPU // 2, len(scns) // 2500 + 1))
    strikes, abandoned, events = {}, [], []

    def shard(k):
        mine = [jb for i, jb in enumerate(jobs) if i % nsh == k]
        attempt = 0
        while mine and time.time() < deadline:
            attempt += 1
            r = run_proc(ctx, binp, scn_file, outdir, mine, "s%d-a%d" % (k, attempt), stall, deadline)
            mine = [jb for jb in mine if not job_done(outdir, jb)]
            if r["rc"] == 0 and not r["killed"]:
                if mine:
                    raise vlib.Inconclusive("driver exited cleanly but %d job(s) are incomplete (see %s)" % (len(mine), r["log"]))
                break
            cul = next((jb for jb in mine if r["at"] is not None and jb[0] <= r["at"] < jb[1]), mine[0] if mine else None)
            events.append((r, cul))
            if cul is not None:
                strikes[cul[0]] = strikes.get(cul[0], 0) + 1
                if strikes[cul[0]] >= 2:
                    abandoned.append(cul)
                    mine = [jb for jb in mine if jb != cul]
                else:       # try it again, last
                    mine = [jb for jb in mine if jb != cul] + [cul]
            if attempt >= 6:
                break
        return mine

    with cf.ThreadPoolExecutor(max_workers=nsh) as ex:
        left = [jb for rest in ex.map(shard, range(nsh)) for jb in rest]
    for r, cul in events:
        out = open(r["log"], errors="replace").read()
        m = re.search(r"^panic: (.*)", out, re.M)
        lib = re.search(r"go-libp2p-pubsub[^\n]*\.go:\d+|/repo/[^\n]*\.go:\d+", out.split("panic:", 1)[1][:3000]) if m else None
        if m and lib and r["at"] is not None and not r["killed"]:
            # a panic in library code: is it the scenario's doing? replay it alone
            one = run_proc(ctx, binp, scn_file, ctx.sub("jobs-one"), [[r["at"], r["at"] + 1]], "one-%d" % r["at"], stall, time.time() + 120)
            out1 = open(one["log"], errors="replace").read()
            if one["rc"] != 0 and re.search(r"^panic: ", out1, re.M) and re.search(r"go-libp2p-pubsub[^\n]*\.go:\d+|/repo/[^\n]*\.go:\d+", out1):
                vlib.add_violation(ctx, "P_C18_NoPanic", {"panic": m.group(1)[:120]},
                                   "the library panics while replaying scenario %d: %s" % (r["at"], m.group(1)[:200]),
                                   {"scenario": scns[r["at"]], "log": one["log"]})
                continue
        ctx.notes.append("the driver %s in scenario %s (job %s, see %s); the job was %s" % (
            "was stopped (%s)" % r["killed"] if r["killed"] else "died (rc=%s)" % r["rc"], r["at"], cul, r["log"],
            "abandoned after two attempts" if cul in abandoned else "replayed in a new process"))
    if abandoned and not ctx.violations:
        # twice in the same job: not a one-off of the runtime or the box. Never green, never a violation by itself.
        raise vlib.Inconclusive("the driver died or stopped making progress twice in the same job(s) %s (logs: %s/go-replay-*.log)" % (abandoned[:3], ctx.work))
    if left and not ctx.violations:
        raise vlib.Inconclusive("the replay stage did not finish within %d s: %d job(s) left (logs: %s/go-replay-*.log)" % (budget, len(left), ctx.work))
    by = {}
    for jb in jobs:
        if jb in abandoned:
            continue
        for l in vlib.read_ndjson(os.path.join(outdir, "job-%d.ndjson" % jb[0])):
            if l.get("e") not in (None, "setup", "setup-failed"):
                by.setdefault(l["scn"], []).append(l)
    return {i: ls for i, ls in by.items() if ls and ls[0]["e"] == "reset" and ls[-1]["e"] == "end"}


def coverage(traces, names):
    """Coverage obligations, counted on validated real traces."""
    hits = {k: 0 for k in ("seeded_handler", "elision_pair", "burst_jlj", "concurrent_calls", "cancelled_call", "handler_cancel",
                           "resub_no_join", "reunsub_no_leave", "disconnect_leave", "closed_stream_leave", "rearm_two_parked",
                           "signal_while_parked", "ret_join", "ret_leave", "blocked_call", "free_concurrent_wake", "flap", "cancelled_ctx_gets_event",
                           "handler_created_just_before_change", "handler_created_just_after_change")}
    for sc in traces:
        mem, live, handlers = set(sc[0].get("mem", [])), set(), set()
        pend = {}           # peer -> number of membership changes since the last consumption (while a handler is live)
        open_calls, parked_prev, dead_ctx = {}, set(), set()
        win, armed, armed_rets = None, set(), 0      # window with >= 2 calls parked on one handler
        last_stim = None
        for e in sc[1:]:
            k = e["e"]
            if k == "newh":
                if mem:
                    hits["seeded_handler"] += 1
                live.add(e["h"]); handlers.add(e["h"])
            elif k == "cancelh":
                hits["handler_cancel"] += 1
                live.discard(e["h"])
            elif k == "stim":
                last_stim = e
                if e["a"] == "flap":
                    hits["flap"] += 1
            elif k == "step":
                new = set(e["mem"])
                changed = new ^ mem
                if last_stim is not None and live:
                    a = last_stim["a"]
                    if a == "resub" and not changed:
                        hits["resub_no_join"] += 1
                    if a == "reunsub" and not changed:
                        hits["reunsub_no_leave"] += 1
                    if a == "down" and changed:
                        hits["disconnect_leave"] += 1
                    if a in ("closeOut", "resetOut") and changed:
                        hits["closed_stream_leave"] += 1
                if live:
                    for p in changed:
                        pend[p] = pend.get(p, 0) + 1
                        if pend[p] == 2:
                            hits["elision_pair"] += 1
                        if pend[p] == 3:
                            hits["burst_jlj"] += 1
                    if changed and win is not None:
                        win["peers"] |= changed
                        if len(win["peers"]) >= 2:
                            armed |= win["ids"]
                    if changed and len(parked_prev) >= 1:
                        hits["signal_while_parked"] += 1
                mem = new
                last_stim = None
            elif k == "raceorder":
                hits["handler_created_just_before_change" if e["order"] == "handler-first" else "handler_created_just_after_change"] += 1
            elif k == "cancel":
                dead_ctx.add(e["ctx"])
            elif k == "call":
                open_calls[e["id"]] = dict(e, precancelled=e["ctx"] in dead_ctx)
            elif k == "ret":
                c = open_calls.pop(e["id"], None)
                if e["k"] == "J":
                    hits["ret_join"] += 1
                if e["k"] == "L":
                    hits["ret_leave"] += 1
                if e["k"] in ("J", "L"):
                    pend[e["p"]] = 0
                    if c is not None and c["precancelled"]:
                        hits["cancelled_ctx_gets_event"] += 1
                    if e["id"] in armed:
                        armed_rets += 1
                        if armed_rets == 2:
                            hits["rearm_two_parked"] += 1
                if e["k"] == "ctx" and c is not None and not c["c"].startswith("dh"):
                    hits["cancelled_call"] += 1
            elif k == "quiet":
                if len(e["blocked"]) + len(e["parked"]) >= 2:
                    hits["concurrent_calls"] += 1
                if e["blocked"]:
                    hits["blocked_call"] += 1
                if len(e["blocked"]) >= 2:
                    hits["free_concurrent_wake"] += 1
                same_h = {}
                for i in e["parked"]:
                    if i in open_calls and open_calls[i]["h"] in live:
                        same_h.setdefault(open_calls[i]["h"], set()).add(i)
                grp = max(same_h.values(), key=len) if same_h else set()
                if len(grp) >= 2:
                    if win is None:
                        win = {"ids": set(grp), "peers": set()}
                elif win is not None:
                    win = None
                parked_prev = set(e["parked"])
    return hits


def run(ctx):
    dev = os.environ.get("C18_DEV_SCENARIOS")   # developer aid only: reuse a scenario file, skip MC and Gen
    if dev:
        states, transitions, mc = 1, 1, {"skipped": True}
        scns, st, tr, info, exhaustive = vlib.read_ndjson(dev), 0, 0, {"reused": dev}, {}
        ctx.notes.append("C18_DEV_SCENARIOS set: model checking and generation were skipped")
    else:
        # the model checking runs do not depend on /repo nor on the scenarios: they proceed in the background while the scenarios
        # are generated, replayed and validated; their result is required before the verdict
        states = transitions = 0
        bg = cf.ThreadPoolExecutor(max_workers=2)
        mc_f = bg.submit(model_check, ctx)
        build_f = bg.submit(build_driver, ctx)
        scns, st, tr, info, exhaustive = generate(ctx)
    states += st
    transitions += tr
    ctx.log("scenarios: %s" % info)
    by = run_driver(ctx, scns, build_f.result() if not dev else None)
    lost = [i for i in range(len(scns)) if i not in by]
    if lost:
        ctx.notes.append("%d scenario(s) were not recorded (driver died or was stopped there twice), e.g. %s" % (len(lost), lost[:5]))
        if len(lost) > max(45, len(scns) // 50) and not ctx.violations:
            raise vlib.Inconclusive("the driver could not record %d of %d scenarios" % (len(lost), len(scns)))
    keep = sorted(by)
    scns = [scns[i] for i in keep]
    skips = sum(1 for i in keep for l in by[i] if l["e"] == "skip")
    traces = [[l for l in by[i] if l["e"] != "skip"] for i in keep]     # raceorder lines are informational: coverage only
    lines = [l for t in traces for l in t]
    if not traces:
        raise vlib.Inconclusive("the driver recorded nothing")
    # scenarios the HARNESS could not carry out (a reconnect of a fake peer failed) are not judged
    aborted = [i for i, sc in enumerate(traces) if any(e["e"] == "abort" for e in sc)]
    if aborted:
        ctx.notes.append("%d scenario(s) abandoned by the harness (e.g. %s)" % (len(aborted), [e for e in traces[aborted[0]] if e["e"] == "abort"][0]["why"][:160]))
        if len(aborted) > max(5, len(traces) // 50):
            raise vlib.Inconclusive("the harness abandoned %d scenarios" % len(aborted))
        keep2 = [i for i in range(len(traces)) if i not in set(aborted)]
        traces, scns = [traces[i] for i in keep2], [scns[i] for i in keep2]
    ctx.log("driver: %d scenarios, %d lines, %d skipped steps" % (len(traces), len(lines), skips))

    tv_in = [[l for l in sc if l["e"] != "raceorder"] for sc in traces]
    # trace validation, at most 2 TLC processes (1 worker each) at a time: groups of two chunks
    chunk = 1300 if not ctx.thorough else 850
    rej, acc, tv_states = [], 0, 0
    for g0 in range(0, len(tv_in), 2 * chunk):
        r1, a1, s1 = vlib.validate_by_cursor(ctx, FAMILY, "EventLogTrace", "EventLogTrace.cfg", tv_in[g0:g0 + 2 * chunk], chunk=chunk,
                                             max_rejects=4, timeout=1200, name="tv-g%d" % g0)
        rej += [(i + g0, k, inv) for (i, k, inv) in r1]
        acc += a1
        tv_states += s1
    states += tv_states
    if not dev:
        s2, t2, mc = mc_f.result()          # raises Inconclusive if the model level is not as it must be
        states += s2
        transitions += t2
        ctx.log("model checking done: %s" % mc)
    # VIOL lines printed by the trace spec: (scn, offset) -> predicate names
    viol = {}
    for f in glob.glob(os.path.join(ctx.work, "tlc*-tv-*", "tlc.out")):
        for m in re.finditer(r'^<<"VIOL", "(.*)">>$', open(f).read(), re.M):
            try:
                d = json.loads(m.group(1).replace('\\"', '"').replace("\\\\", "\\"))
            except Exception:
                continue
            viol.setdefault((d["scn"], d["k"]), set()).update(d["preds"])
    info_seen = {}
    for f in glob.glob(os.path.join(ctx.work, "tlc*-tv-*", "tlc.out")):
        for m in re.finditer(r'^<<"INFO", "(.*)">>$', open(f).read(), re.M):
            try:
                d = json.loads(m.group(1).replace('\\"', '"').replace("\\\\", "\\"))
            except Exception:
                continue
            for wname in d["what"]:
                info_seen.setdefault(wname, set()).add((d["scn"], d["k"]))
    for wname, where in sorted(info_seen.items()):
        ctx.notes.append("%s at %d step lines (e.g. scenario %s line %s): second ground truth / handler count differs from the first"
                         % (wname, len(where), *sorted(where)[0]))
    drift, rejected_idx = 0, set()
    for (i, k, inv) in rej:
        sc = tv_in[i]
        rejected_idx.add(i)
        bad = sc[k] if k < len(sc) else None
        names = set(viol.get((sc[0]["scn"], k), set()))
        src = scns[i]
        if {"P_C18_NoLostWake", "P_C18_Replay"} <= names:
            # a consumer is blocked although the model has events pending for its handler. Labelling only: if a later
            # call (the epilogue drains every handler) still gets an event out of the real log it was a lost wake-up,
            # otherwise the event never reached the log
            later = any(e["e"] == "ret" and e["k"] in ("J", "L") for e in sc[k + 1:])
            names -= {"P_C18_Replay", "P_C18_Replay_ListPeers"} if later else {"P_C18_NoLostWake"}
        if names & C18:
            for n in sorted(names & C18):
                pred = "P_C18_Replay" if n == "P_C18_Replay_ListPeers" else n
                sig = {"pred": n, "line": bad.get("e") if bad else None, "kind": src.get("name", "")}
                vlib.add_violation(ctx, pred, sig,
                                   "%s fails at line %d of scenario %s (%s): %s" % (n, k, sc[0]["scn"], src.get("name"), json.dumps(bad)),
                                   {"scenario": src, "trace": sc, "failing_line": k})
        elif names & DRIFT:
            drift += 1
            ctx.notes.append("MODEL-DRIFT: scenario %s (%s): %s at line %d: %s" % (sc[0]["scn"], src.get("name"), sorted(names), k, json.dumps(bad)[:200]))
        elif bad is not None and bad.get("e") == "ret" and isinstance(bad.get("id"), int) and bad.get("k") in ("J", "L", "ctx", "err") \
                and any(e["e"] == "call" and e["id"] == bad["id"] for e in sc[:k]):
            # a well-formed observation of the real code (a call that was started returned this) which no linearisation of the
            # specification explains: that contradicts the property, it is not a failure of the machinery
            pred = "P_C18_Elide" if bad["k"] in ("J", "L") else "P_C18_UnexpectedError"
            vlib.add_violation(ctx, pred, {"pred": pred, "line": "ret", "kind": src.get("name", ""), "unexplained": True},
                               "NextPeerEvent returned %s which is not a pending event of its handler under any linearisation: "
                               "line %d of scenario %s (%s)" % (json.dumps(bad), k, sc[0]["scn"], src.get("name")),
                               {"scenario": src, "trace": sc, "failing_line": k})
        else:
            raise vlib.Inconclusive("malformed trace: line not explainable and no predicate named (spec/harness bug?): scenario %s (%s) line %d: %s"
                                    % (sc[0]["scn"], src.get("name"), k, json.dumps(bad)[:300]))
    if drift > max(3, len(traces) // 20):
        raise vlib.Inconclusive("membership ground truth disagrees with the stimulus model in %d scenarios" % drift)

    good = [sc for i, sc in enumerate(traces) if i not in rejected_idx]
    hits = coverage(good, None)
    need = ["seeded_handler", "elision_pair", "burst_jlj", "concurrent_calls", "cancelled_call", "handler_cancel", "resub_no_join",
            "reunsub_no_leave", "disconnect_leave", "closed_stream_leave", "rearm_two_parked", "signal_while_parked",
            "ret_join", "ret_leave", "blocked_call", "flap", "cancelled_ctx_gets_event",
            "handler_created_just_before_change", "handler_created_just_after_change"]
    missing = [n for n in need if not hits.get(n)]
    if missing and not ctx.violations:
        raise vlib.Inconclusive("coverage obligation not met: never observed on a validated trace: %s" % missing)

    sigs, nontrivial, evals = set(), set(), 0
    for sc in good:
        evals += sum(1 for e in sc if e["e"] == "quiet")
        key = json.dumps([[e.get(f) for f in ("e", "a", "h", "c", "mode", "k", "p", "ops", "blocked", "parked")] for e in sc], sort_keys=True)
        sigs.add(key)
        if any(e["e"] == "ret" and e["k"] in ("J", "L") for e in sc) and any(e["e"] == "quiet" and (e["blocked"] or e["parked"]) for e in sc):
            nontrivial.add(key)
    samples = []
    for name in ("forced:rearm2", "gen:L6", "gen:L7", "random"):
        for i, s in enumerate(scns):
            if s.get("name") == name and i not in rejected_idx:
                samples.append({"scenario": name, "trace": traces[i][:24]})
                break
    cov = {"states": states, "transitions": transitions, "traces_validated_against_impl": len(good), "samples": samples,
           "evaluations": evals, "distinct_nontrivial": len(nontrivial),
           "rule": "evaluation = one quiet line of a real trace (P_C18_Replay on handlers with real evidence of an empty log, P_C18_Alternate, "
                   "blocked-only-if-log-empty, cancelled-call-returns) on top of every ret line being a pending event of the model log; "
                   "distinct by the full observable trace; non-trivial = at least one event returned and at least one call blocked or parked; "
                   "exhaustive = every scenario of the shortest generated length (2 peers, 1 handler, 2 consumers) was replayed, longer ones are sampled by seed",
           "exhaustive": bool(exhaustive) and exhaustive[min(exhaustive)],
           "exhaustive_by_length": {"L%d" % L: v for L, v in exhaustive.items()}, "scenarios": info, "coverage_hits": hits, "mc": mc,
           "skipped_steps": skips, "model_drift": drift}
    return vlib.finish(ctx, LEVEL, cov, [
        "raw Join/Leave events are derived from the subscription options put on the wire by the rule 'Join iff not a member, Leave iff a member' "
        "and the resulting membership is compared with topics[T] and Topic.ListPeers() after every stimulus",
        "consumers are scheduled through a context whose Done() parks the caller: the only forced schedule point is between the unlock "
        "after an empty pull and the select; the remaining interleavings are the Go scheduler's (covered exhaustively by the model only)",
        "a handler that was cancelled is only required not to deliver events produced after the cancel",
        "a call whose context is cancelled may return the context error whatever the log holds (checking the context first is allowed) "
        "but must not consume an event when it does; only a call seen blocked in the select counts as evidence of a drained handler",
        "sync.Mutex, capacity-1 channel and select behave as modelled"])
