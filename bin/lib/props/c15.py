"""C15 - the per-peer outbound queue is a linearizable bounded two-class FIFO.

spec/rpcqueue: RpcQueueSeq (sequential meaning), RpcQueue (lock/cond grain model, refinement and
liveness), GenRpcQueueSeq (scenario generator), RpcQueueTrace (linearisation of real histories)."""
import json, os, random
from .. import vlib

LEVEL = "model_checking"
FAMILY = "rpcqueue"


def run(ctx):
    samples, states, transitions = [], 0, 0
    # 1. model level: the lock-grain model of the (repaired) code refines the sequential spec and is live
    mc = vlib.run_tlc(ctx, FAMILY, "MCRpcQueue", "MCRpcQueue.cfg", timeout=600, name="mc")
    vlib.require_mc_ok(ctx, mc, "MCRpcQueue (BroadcastUnderLock=TRUE)")
    states += mc.distinct; transitions += mc.generated
    # non-vacuity: with the AfterFunc broadcast outside the lock (the code as found, D11) liveness must fail
    bug = vlib.run_tlc(ctx, FAMILY, "MCRpcQueue", "MCRpcQueueBug.cfg", timeout=600, name="mc-bug")
    vlib.require_mc_fails(ctx, bug, "MCRpcQueue (BroadcastUnderLock=FALSE)", "P_C15_CancelledPopReturns")
    if ctx.thorough:
        mc2 = vlib.run_tlc(ctx, FAMILY, "MCRpcQueue", "MCRpcQueue2.cfg", timeout=1500, name="mc2", workers=vlib.NCPU)
        vlib.require_mc_ok(ctx, mc2, "MCRpcQueue2 (cap 2, 3 pushers)", allow_timeout=True)
        states += mc2.distinct; transitions += mc2.generated

    # 2. generate sequential scenarios with TLC
    plan = [(1, 4), (2, 4), (1, 5)] if not ctx.thorough else [(1, 5), (2, 5), (3, 5), (1, 6), (2, 6)]
    scns = []
    for cap, L in plan:
        cfg = vlib.cfg_text(constants={"Cap": cap, "L": L, "MaxBlocked": 2}, invariants=["Emit"])
        g = vlib.run_tlc(ctx, FAMILY, "GenRpcQueueSeq", cfg, timeout=900, name="gen-c%d-l%d" % (cap, L), heap="8g")
        vlib.require_mc_ok(ctx, g, "GenRpcQueueSeq cap=%d L=%d" % (cap, L))
        got = g.printed("SCN")
        if not got:
            raise vlib.Inconclusive("generator emitted nothing")
        scns += got
        states += g.distinct; transitions += g.generated
    # dedupe, cap the volume for the quick tier by seeded sampling
    seen, uniq = set(), []
    for s in scns:
        k = json.dumps(s, sort_keys=True)
        if k not in seen:
            seen.add(k); uniq.append(s)
    limit = 12000 if not ctx.thorough else 150000
    exhaustive = len(uniq) <= limit
    if not exhaustive:
        random.Random(ctx.seed).shuffle(uniq)
        uniq = uniq[:limit]
    scn_file = os.path.join(ctx.work, "scenarios.ndjson")
    vlib.write_ndjson(scn_file, uniq)
    ctx.log("generated %d sequential scenarios (exhaustive=%s)" % (len(uniq), exhaustive))

    # 3. replay on the real queue; 4. validate by TLC
    traces = []
    for test, need_in in (("TestC15Seq", True), ("TestC15Forced", False), ("TestC15Stress", False), ("TestC15Node", False)):
        outp = os.path.join(ctx.work, test + ".ndjson")
        env = {"VERIF_OUT": outp, "VERIF_SINK": os.path.join(ctx.work, test + ".sink.ndjson")}
        if need_in:
            env["VERIF_IN"] = scn_file
        r = vlib.run_go(ctx, "./drivers/c15/", "^%s$" % test, env=env, timeout=1500)
        if not os.path.exists(outp) or os.path.getsize(outp) == 0:
            raise vlib.Inconclusive("driver %s produced no trace (rc=%s, see %s)" % (test, r["rc"], r["log"]))
        if r["rc"] != 0:
            raise vlib.Inconclusive("driver %s failed (rc=%s, see %s)" % (test, r["rc"], r["log"]))
        lines = [l for l in vlib.read_ndjson(outp) if l.get("e") != "quiet-soft"]
        s = vlib.split_scenarios(lines)
        traces.append((test, s))
        ctx.log("%s: %d scenarios, %d events" % (test, len(s), len(lines)))

    total, nontrivial, hits = 0, set(), {}
    for test, s in traces:
        rej, acc, st = vlib.validate_by_cursor(ctx, FAMILY, "RpcQueueTrace", "RpcQueueTrace.cfg", s,
                                               chunk=1500 if test == "TestC15Seq" else 400, name="tv-" + test)
        states += st
        total += len(s)
        for sc in s:
            kinds = tuple(sorted({e.get("res") for e in sc if e.get("e") == "ret"} |
                                 {"blocked" for e in sc if e.get("e") == "quiet" and e["blocked"]}))
            if len(kinds) >= 2:
                nontrivial.add(json.dumps([e for e in sc if e.get("e") in ("call", "cancel")], sort_keys=True))
            for e in sc:
                if e.get("e") == "ret":
                    key = "item" if str(e["res"]).startswith("i") else e["res"]
                    hits[key] = hits.get(key, 0) + 1
        if s:
            samples.append({"driver": test, "trace": s[len(s) // 2][:14]})
        for (i, k, inv) in rej:
            sc = s[i]
            bad = sc[k] if k < len(sc) else None
            lost = bool(bad and bad.get("e") == "quiet" and any(
                e.get("e") == "cancel" for e in sc[:k]) and bad["blocked"])
            pred = "P_C15_Progress" if bad and bad.get("e") == "quiet" else "P_C15_Linearizable"
            sig = {"driver": test, "line": bad.get("e") if bad else None,
                   "kind": "pop-blocked-after-cancel" if lost else ("blocked-set" if pred == "P_C15_Progress" else "result"),
                   "forced": test == "TestC15Forced"}
            vlib.add_violation(ctx, pred, sig,
                               "history not explainable by the sequential queue at line %d of a %s scenario: %s" % (k, test, json.dumps(bad)),
                               {"driver": test, "scenario": sc, "failing_line": k})
    # coverage obligations (DESIGN C15): every result kind observed on the real queue
    need = ["ok", "full", "pushclosed", "closed", "cancelled", "item"]
    missing = [n for n in need if not hits.get(n)]
    if missing and not ctx.violations:
        raise vlib.Inconclusive("coverage obligation not met: results never observed: %s" % missing)
    cov = {"states": states, "transitions": transitions, "traces_validated_against_impl": total,
           "samples": samples, "evaluations": total, "distinct_nontrivial": len(nontrivial),
           "rule": "scenario = operation sequence emitted by GenRpcQueueSeq (all sequences up to the bound; sampled by seed above %d) "
                   "or forced/stress history; non-trivial = at least two different result kinds or a blocked call; distinct by call sequence" % limit,
           "exhaustive": exhaustive, "result_hits": hits,
           "mc": {"MCRpcQueue": [mc.distinct, mc.generated], "bug_config_fails_liveness": True}}
    return vlib.finish(ctx, LEVEL, cov, [
        "sync.Mutex / sync.Cond / context.AfterFunc behave as modelled (Wait atomically enqueues and unlocks; Signal wakes one waiter)",
        "forced interleaving relies on 2 ms of real time for the AfterFunc goroutine to run while Pop is parked",
        "stress histories sample the runtime's schedules; the model covers all of them",
        "in-node part (TestC15Node): pushes are taken from the library's SendRPC/DropRPC trace calls at the push site, pops from frame arrival at a fake peer; pop k is assumed called after pop k-1 returned (the writer loop is sequential)"])
