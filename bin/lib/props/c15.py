"""C15 - the per-peer outbound queue is a linearizable bounded two-class FIFO.

spec/rpcqueue: RpcQueueSeq (sequential meaning), RpcQueue (lock/cond grain model, refinement and
liveness, single-line-slip variants that must fail), GenRpcQueueSeq (scenario generator: sequences and
bursts), RpcQueueTrace (linearisation of real histories)."""
import json, os, random
import concurrent.futures as cf
from .. import vlib

LEVEL = "model_checking"
FAMILY = "rpcqueue"

ALL_PROPS = ["P_C15_Refines", "P_C15_Results", "P_C15_CancelledPopReturns", "P_C15_CloseReleasesAll",
             "P_C15_BlockedPushResumes", "P_C15_BlockedPopResumes"]
# small configurations of MCRpcQueue.tla: name -> (Cap, has pushers, has poppers)
SMALL = {"SP1": (1, False, True), "SP2": (1, False, True), "SU1": (1, True, False), "SU3": (1, True, False),
         "SB1": (2, True, True), "SPP": (2, True, True), "SA2": (1, True, True), "SUP": (1, True, True),
         "SCL": (2, True, True)}
# single-line slips of rpc_queue.go (RpcQueue.tla, Variant): (variant, small configuration, CanClose, I(nvariant) or
# P(roperty), what must fail, which real-code scenario exposes it). "none" must pass on the same configuration.
MUST_FAIL = [
    ("afterfunc-signal", "SP2", False, "P", "P_C15_CancelledPopReturns", "Seq: pop(1), pop(2), cancel(2) (seeded a1)"),
    ("push-if", "SA2", False, "I", "P_C15_Bounded", "Burst: blocked pusher, [pop, push] (seeded a2); Park push: pop1, push"),
    ("popsig-transition", "SB1", False, "P", "P_C15_BlockedPushResumes", "Burst: cap 2 full, two blocked pushers, [pop, pop] (seeded b1)"),
    ("pushsig-transition", "SPP", False, "P", "P_C15_BlockedPopResumes", "Burst: cap 2 empty, two blocked pops, [push, push]"),
    ("popsig-none", "SUP", False, "P", "P_C15_BlockedPushResumes", "Seq: blocked pusher, pop"),
    ("pushsig-none", "SUP", False, "P", "P_C15_BlockedPopResumes", "Seq: blocked pop, push"),
    ("popsig-data", "SUP", False, "P", "P_C15_BlockedPushResumes", "Seq: blocked pusher, pop"),
    ("pushsig-space", "SUP", False, "P", "P_C15_BlockedPopResumes", "Seq: blocked pop, push"),
    ("close-nolock", "SP1", True, "P", "P_C15_CloseReleasesAll", "Park/Forced pop: close while Pop is between check and wait (seeded b2)"),
    ("close-nolock", "SU1", True, "P", "P_C15_CloseReleasesAll", "Park/Forced push: close while a blocking push is between check and wait (seeded b2)"),
    ("close-signal", "SP2", True, "P", "P_C15_CloseReleasesAll", "Seq: two blocked pops, close"),
    ("close-signal", "SU3", True, "P", "P_C15_CloseReleasesAll", "Seq: two blocked pushers, close"),
    ("close-nodata", "SP1", True, "P", "P_C15_CloseReleasesAll", "Seq: blocked pop, close"),
    ("close-nospace", "SU1", True, "P", "P_C15_CloseReleasesAll", "Seq: blocked pusher, close"),
    ("pop-norecheck", "SP1", True, "P", "P_C15_CloseReleasesAll", "Seq: blocked pop, close"),
    ("push-norecheck", "SU1", True, "P", "P_C15_CloseReleasesAll", "Seq: blocked pusher, close"),
    ("pop-if", "SP2", False, "P", "P_C15_Results", "Seq: pop(1), pop(2), cancel(2); Burst: blocked pop, [push, pop]"),
    ("pop-ctxonce", "SP2", False, "P", "P_C15_CancelledPopReturns", "Seq: blocked pop, cancel"),
    ("pop-normalfirst", "SCL", False, "P", "P_C15_Results", "Seq: push, urgent push, pop"),
    ("len-normalonly", "SCL", False, "I", "P_C15_Bounded", "Seq: cap 1, urgent push twice"),
]


def small_cfg(variant, cfg, canclose, kind=None, prop=None):
    cap, has_u, has_p = SMALL[cfg]
    consts = {"Cap": cap}
    for k in ("Pushers", "Poppers", "Script", "NPops", "CanCancel"):
        consts[k] = "%s <- %s%s" % (k, cfg, k)
    consts.update({"CanClose": canclose, "BroadcastUnderLock": True, "Variant": '"%s"' % variant})
    if variant == "none":
        # a property quantified over an empty set of processes is a tautology, which TLC refuses
        props = [p for p in ALL_PROPS if not ((p == "P_C15_BlockedPushResumes" and not has_u) or
                                              (p in ("P_C15_BlockedPopResumes", "P_C15_CancelledPopReturns") and not has_p))]
        return vlib.cfg_text(constants=consts, invariants=["TypeOK", "P_C15_Bounded", "WaitSetsSound"], properties=props)
    if kind == "I":
        return vlib.cfg_text(constants=consts, invariants=[prop])
    return vlib.cfg_text(constants=consts, properties=[prop])


def model_level(ctx):
    """Everything that is TLC on models alone (no real code): exhaustive MC of the model of the code as it stands,
    the configurations that must fail, the scenario generators. Run concurrently."""
    jobs = {}   # name -> (callable)
    jobs["mc"] = lambda: vlib.run_tlc(ctx, FAMILY, "MCRpcQueue", "MCRpcQueue.cfg", timeout=600, name="mc", workers=4)
    jobs["mc-bug"] = lambda: vlib.run_tlc(ctx, FAMILY, "MCRpcQueue", "MCRpcQueueBug.cfg", timeout=600, name="mc-bug", workers=2)
    if ctx.thorough:
        jobs["mc2"] = lambda: vlib.run_tlc(ctx, FAMILY, "MCRpcQueue", "MCRpcQueue2.cfg", timeout=1200, name="mc2", workers=6)
    base = sorted({(c, cc) for (_, c, cc, _, _, _) in MUST_FAIL})
    for (c, cc) in base:
        jobs["ok-%s-%s" % (c, cc)] = (lambda c=c, cc=cc: vlib.run_tlc(
            ctx, FAMILY, "MCRpcQueue", small_cfg("none", c, cc), timeout=300, name="ok-%s-%d" % (c, cc), workers=2))
    for (v, c, cc, kind, prop, _) in MUST_FAIL:
        jobs["mf-%s-%s" % (v, c)] = (lambda v=v, c=c, cc=cc, kind=kind, prop=prop: vlib.run_tlc(
            ctx, FAMILY, "MCRpcQueue", small_cfg(v, c, cc, kind, prop), timeout=300, name="mf-%s-%s" % (v, c), workers=2))
    # generators: plain sequences (one operation at a time) and sequences with bursts
    if not ctx.thorough:
        plan = [(1, 4), (2, 4), (1, 5)]
        bplan = [(1, 4, (0, 1)), (2, 4, (0, 2)), (3, 4, (0, 3))]
    else:
        plan = [(1, 5), (2, 5), (3, 5), (1, 6), (2, 6)]
        bplan = [(1, 5, (0, 1)), (2, 5, (0, 2)), (3, 5, (3,)), (2, 6, (2,))]
    for cap, L in plan:
        cfg = vlib.cfg_text(constants={"Cap": cap, "L": L, "MaxBlocked": 2, "MaxBurst": 1, "Fills": {0}}, invariants=["Emit"])
        jobs["gen-c%d-l%d" % (cap, L)] = (lambda cfg=cfg, cap=cap, L=L: vlib.run_tlc(
            ctx, FAMILY, "GenRpcQueueSeq", cfg, timeout=900, name="gen-c%d-l%d" % (cap, L), heap="8g", workers=4))
    for cap, L, fills in bplan:
        cfg = vlib.cfg_text(constants={"Cap": cap, "L": L, "MaxBlocked": 2, "MaxBurst": 3, "Fills": set(fills)}, invariants=["Emit"])
        jobs["bgen-c%d-l%d" % (cap, L)] = (lambda cfg=cfg, cap=cap, L=L: vlib.run_tlc(
            ctx, FAMILY, "GenRpcQueueSeq", cfg, timeout=900, name="bgen-c%d-l%d" % (cap, L), heap="8g", workers=4))
    res = {}
    with cf.ThreadPoolExecutor(max_workers=8) as ex:
        futs = {ex.submit(f): k for k, f in jobs.items()}
        for fu in cf.as_completed(futs):
            res[futs[fu]] = fu.result()
    return res, base, plan, bplan


def dedupe(scns):
    """Scenarios printed by the generator, deduplicated by input (tags of duplicates are merged)."""
    by = {}
    for s in scns:
        k = json.dumps([s["cap"], s.get("fill", 0), s["ops"]], sort_keys=True)
        if k in by:
            by[k]["tags"] = sorted(set(by[k]["tags"]) | set(s.get("tags", [])))
        else:
            s["tags"] = sorted(s.get("tags", []))
            by[k] = s
    return [by[k] for k in sorted(by)]


def burst_obligations(sc):
    """Which burst obligations a recorded scenario really met: the operations ran back to back (no line of another
    goroutine between them) while enough calls were blocked."""
    got = set()
    cap = sc[0].get("cap", 1)
    out_push, out_pop, calls = set(), set(), {}
    seq = [e for e in sc if e.get("e") in ("call", "ret", "quiet")]
    for i, e in enumerate(seq):
        if e["e"] == "call":
            calls[e["id"]] = e
            # a pair of calls, each returning on the very next line, with nothing in between
            if i + 3 < len(seq) and seq[i + 1]["e"] == "ret" and seq[i + 1]["id"] == e["id"] and \
               seq[i + 2]["e"] == "call" and seq[i + 3]["e"] == "ret" and seq[i + 3]["id"] == seq[i + 2]["id"]:
                a, ra, b, rb = e, seq[i + 1]["res"], seq[i + 2], seq[i + 3]["res"]
                item = lambda r: str(r).startswith("i")
                if a["op"] == "pop" and b["op"] == "pop" and item(ra) and item(rb) and len(out_push) >= 2 and cap >= 2:
                    got.add("burst-pop-pop-2-blocked-pushers")
                if a["op"] == "push" and b["op"] == "push" and ra == "ok" and rb == "ok" and len(out_pop) >= 2 and cap >= 2:
                    got.add("burst-push-push-2-blocked-pops")
                if a["op"] == "pop" and b["op"] == "push" and item(ra) and rb == "ok" and len(out_push) >= 1:
                    got.add("burst-pop-push-blocked-pusher")
                if a["op"] == "push" and b["op"] == "pop" and ra == "ok" and item(rb) and len(out_pop) >= 1:
                    got.add("burst-push-pop-blocked-pop")
        elif e["e"] == "quiet":
            # who is blocked at quiescence stays "outstanding" for the operations that follow
            out_push = {i_ for i_ in e["blocked"] if calls.get(i_, {}).get("op") == "push"}
            out_pop = {i_ for i_ in e["blocked"] if calls.get(i_, {}).get("op") == "pop"}
        elif e["e"] == "ret":
            out_push.discard(e["id"]); out_pop.discard(e["id"])
    return got


def park_obligations(sc):
    """Which calls were made while a call was parked at a schedule point (between the notes parked and release)."""
    got, hook = set(), None
    for e in sc:
        if e.get("e") == "note" and e.get("k") == "parked":
            hook = "pop" if e["hook"].startswith("rpcqueue.pop") else "push"
        elif e.get("e") == "note" and e.get("k") == "release":
            hook = None
        elif hook and e.get("e") == "call" and e.get("op") in ("close", "pop", "push"):
            got.add("%s-while-%s-parked" % (e["op"], hook))
        elif hook and e.get("e") == "cancel":
            got.add("cancel-while-%s-parked" % hook)
    return got


def run(ctx):
    samples, states, transitions = [], 0, 0
    # 1. model level
    res, base, plan, bplan = model_level(ctx)
    mc = res["mc"]
    vlib.require_mc_ok(ctx, mc, "MCRpcQueue (the code as it stands)")
    states += mc.distinct; transitions += mc.generated
    # non-vacuity: with the AfterFunc broadcast outside the lock (the code as found, D11) liveness must fail
    vlib.require_mc_fails(ctx, res["mc-bug"], "MCRpcQueue (BroadcastUnderLock=FALSE)", "P_C15_CancelledPopReturns")
    # every single-line slip fails its property on a small configuration on which the code as it stands passes
    for (c, cc) in base:
        r = res["ok-%s-%s" % (c, cc)]
        vlib.require_mc_ok(ctx, r, "MCRpcQueue %s (Variant none)" % c)
        states += r.distinct; transitions += r.generated
    for (v, c, cc, kind, prop, _) in MUST_FAIL:
        vlib.require_mc_fails(ctx, res["mf-%s-%s" % (v, c)], "MCRpcQueue %s (Variant %s)" % (c, v), prop)
    if ctx.thorough:
        mc2 = res["mc2"]
        vlib.require_mc_ok(ctx, mc2, "MCRpcQueue2 (cap 2, 3 pushers)", allow_timeout=True)
        states += mc2.distinct; transitions += mc2.generated

    # 2. scenarios generated by TLC
    def collect(prefix, pl):
        nonlocal states, transitions
        got = []
        for item in pl:
            cap, L = item[0], item[1]
            g = res["%s-c%d-l%d" % (prefix, cap, L)]
            vlib.require_mc_ok(ctx, g, "GenRpcQueueSeq %s cap=%d L=%d" % (prefix, cap, L))
            s = g.printed("SCN")
            if not s:
                raise vlib.Inconclusive("generator %s cap=%d L=%d emitted nothing" % (prefix, cap, L))
            got += s
            states += g.distinct; transitions += g.generated
        return dedupe(got)
    uniq = collect("gen", plan)
    limit = 12000 if not ctx.thorough else 100000
    exhaustive = len(uniq) <= limit
    if not exhaustive:
        random.Random(ctx.seed).shuffle(uniq)
        uniq = uniq[:limit]
    scn_file = os.path.join(ctx.work, "scenarios.ndjson")
    vlib.write_ndjson(scn_file, uniq)
    # bursts: everything the model tags as one of the wake-up patterns is kept, the rest is sampled by seed
    bursts = collect("bgen", bplan)
    blimit = 12000 if not ctx.thorough else 50000
    bexhaustive = len(bursts) <= blimit
    if not bexhaustive:
        rnd = random.Random(ctx.seed)
        tagged = [s for s in bursts if s["tags"]]
        rest = [s for s in bursts if not s["tags"]]
        rnd.shuffle(tagged); rnd.shuffle(rest)
        tagged = tagged[:blimit // 2]
        bursts = tagged + rest[:blimit - len(tagged)]
    burst_file = os.path.join(ctx.work, "bursts.ndjson")
    vlib.write_ndjson(burst_file, bursts)
    ctx.log("generated %d sequential scenarios (exhaustive=%s), %d with bursts (exhaustive=%s, %d tagged)" % (
        len(uniq), exhaustive, len(bursts), bexhaustive, sum(1 for s in bursts if s["tags"])))

    # 3. replay on the real queue
    traces, dead, notes = [], [], {}
    for test, inp in (("TestC15Seq", scn_file), ("TestC15Burst", burst_file), ("TestC15Park", None), ("TestC15Forced", None),
                      ("TestC15Stress", None), ("TestC15Node", None)):
        outp = os.path.join(ctx.work, test + ".ndjson")
        env = {"VERIF_OUT": outp, "VERIF_SINK": os.path.join(ctx.work, test + ".sink.ndjson")}
        if inp:
            env["VERIF_IN"] = inp
        r = vlib.run_go(ctx, "./drivers/c15/", "^%s$" % test, env=env, timeout=1500)
        if not os.path.exists(outp) or os.path.getsize(outp) == 0:
            dead.append("driver %s produced no trace (rc=%s, see %s)" % (test, r["rc"], r["log"]))
            continue
        if r["rc"] != 0:
            # A driver stops when calls stay blocked whatever it tries (it cannot leave its synctest bubble then); what it
            # recorded up to there is judged like any other trace, and only if that shows nothing is the run inconclusive.
            dead.append("driver %s failed (rc=%s, see %s)" % (test, r["rc"], r["log"]))
        try:
            raw = vlib.read_ndjson(outp)
        except ValueError:
            with open(outp) as f:
                good = []
                for line in f:
                    try:
                        good.append(json.loads(line))
                    except ValueError:
                        break
            raw = good
        full = vlib.split_scenarios(raw)
        for e in raw:
            if e.get("e") == "note" and e.get("k") == "nohook":
                notes[e["hook"]] = notes.get(e["hook"], 0) + 1
        s = [[l for l in sc if l.get("e") not in ("quiet-soft", "note")] for sc in full]
        lines = [l for sc in s for l in sc]
        traces.append((test, s, full))
        ctx.log("%s: %d scenarios, %d events" % (test, len(s), len(lines)))

    # 4. validate by TLC
    total, nontrivial, hits, obl = 0, set(), {}, {}
    for test, s, full in traces:
        full_of = {id(a): b for a, b in zip(s, full)}     # the scenario with its note lines
        rej, acc, st = vlib.validate_by_cursor(ctx, FAMILY, "RpcQueueTrace", "RpcQueueTrace.cfg", s,
                                               chunk=1500 if test in ("TestC15Seq", "TestC15Burst") else 400, name="tv-" + test)
        states += st
        total += len(s)
        for sc in s:
            kinds = tuple(sorted({e.get("res") for e in sc if e.get("e") == "ret"} |
                                 {"blocked" for e in sc if e.get("e") == "quiet" and e["blocked"]}))
            if len(kinds) >= 2:
                nontrivial.add(json.dumps([e for e in sc if e.get("e") in ("call", "cancel")], sort_keys=True))
            for e in sc:
                if e.get("e") == "ret":
                    key = "item" if str(e["res"]).startswith("i") else e["res"]
                    hits[key] = hits.get(key, 0) + 1
        if test == "TestC15Burst":
            for sc in s:
                for o in burst_obligations(sc):
                    obl[o] = obl.get(o, 0) + 1
        if test in ("TestC15Park", "TestC15Forced"):
            for sc in full:
                for o in park_obligations(sc):
                    obl[o] = obl.get(o, 0) + 1
        if s:
            samples.append({"driver": test, "trace": s[len(s) // 2][:14]})
        for (i, k, inv) in rej:
            sc = s[i]
            bad = sc[k] if k < len(sc) else None
            cancelled = {e["ctx"] for e in sc[:k] if e.get("e") == "cancel"}
            lost = bool(bad and bad.get("e") == "quiet" and any(
                e.get("e") == "call" and e.get("op") == "pop" and e["id"] in bad["blocked"] and e["ctx"] in cancelled for e in sc[:k]))
            pred = "P_C15_Progress" if bad and bad.get("e") == "quiet" else "P_C15_Linearizable"
            sig = {"driver": test, "line": bad.get("e") if bad else None,
                   "kind": "pop-blocked-after-cancel" if lost else ("blocked-set" if pred == "P_C15_Progress" else "result"),
                   "forced": test in ("TestC15Forced", "TestC15Park")}
            parked = [e["hook"] for e in full_of.get(id(sc), []) if e.get("e") == "note" and e.get("k") == "parked"]
            if parked:
                sig["parked"] = parked[0]
            vlib.add_violation(ctx, pred, sig,
                               "history not explainable by the sequential queue at line %d of a %s scenario: %s" % (k, test, json.dumps(bad)),
                               {"driver": test, "scenario": sc, "failing_line": k})
    if dead and not ctx.violations:
        raise vlib.Inconclusive("; ".join(dead))
    for d in dead:
        ctx.notes.append(d + " - its trace up to there was judged")
    # coverage obligations (DESIGN C15): every result kind observed on the real queue; the wake-up patterns really ran
    need = ["ok", "full", "pushclosed", "closed", "cancelled", "item"]
    missing = [n for n in need if not hits.get(n)]
    need_obl = ["burst-pop-pop-2-blocked-pushers", "burst-push-push-2-blocked-pops", "burst-pop-push-blocked-pusher",
                "burst-push-pop-blocked-pop",
                "close-while-pop-parked", "cancel-while-pop-parked", "push-while-pop-parked",
                "close-while-push-parked", "pop-while-push-parked", "push-while-push-parked"]
    missing += [n for n in need_obl if not obl.get(n)]
    if missing and not ctx.violations:
        why = ""
        if notes:
            why = " (schedule point(s) %s never fire in this tree: the hook line is missing)" % sorted(notes)
        raise vlib.Inconclusive("coverage obligation not met: never observed: %s%s" % (missing, why))
    cov = {"states": states, "transitions": transitions, "traces_validated_against_impl": total,
           "samples": samples, "evaluations": total, "distinct_nontrivial": len(nontrivial),
           "rule": "scenario = operation sequence emitted by GenRpcQueueSeq (all sequences up to the bound, with and without bursts; "
                   "sampled by seed above %d / %d) or forced/parked/stress history; non-trivial = at least two different result kinds "
                   "or a blocked call; distinct by call sequence" % (limit, blimit),
           "exhaustive": exhaustive and bexhaustive, "result_hits": hits, "obligation_hits": obl,
           "mc": {"MCRpcQueue": [mc.distinct, mc.generated], "bug_config_fails_liveness": True,
                  "must_fail_variants": ["%s on %s: %s" % (v, c, p) for (v, c, _, _, p, _) in MUST_FAIL]}}
    return vlib.finish(ctx, LEVEL, cov, [
        "sync.Mutex / sync.Cond / context.AfterFunc behave as modelled (Wait atomically enqueues and unlocks; Signal wakes one waiter)",
        "bursts and parked scenarios rely on GOMAXPROCS(1): a goroutine runs until it blocks, a signalled waiter is only made runnable "
        "(a burst the runtime preempts all the same is still judged, it just does not count for the coverage obligation)",
        "real-time forced interleavings rely on 1-2 ms of real time for the other goroutines to reach the mutex while a call is parked",
        "stress histories sample the runtime's schedules; the model covers all of them",
        "in-node part (TestC15Node): pushes are taken from the library's SendRPC/DropRPC trace calls at the push site, pops from frame arrival at a fake peer; pop k is assumed called after pop k-1 returned (the writer loop is sequential)"])
