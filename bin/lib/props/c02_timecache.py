"""C02, container part: the seen-message time cache (timecache/*.go) alone.

"An ID stays remembered for at least the configured TTL (counted from its first sighting under the
first-seen strategy, from its latest sighting under last-seen) and is eventually forgotten once the TTL
plus one sweep interval has passed without qualifying activity"; Add returns true iff the id was absent.

spec/timecache: TimeCache (model + P_C02_Remembered / P_C02_Forgotten / P_C02_AddNewIffAbsent),
MCTimeCache (exhaustive, plus three seeded variants that MUST fail), GenTimeCache (operation sequences),
TimeCacheTrace (validation of the answers of the real cache).  Driver: harness/drivers/c02cache.

run_timecache(ctx) performs MC -> Gen -> Go replay -> TLC trace validation, records violations with
vlib.add_violation, raises vlib.Inconclusive for machinery problems and returns the evidence dict of this
part (it does not call vlib.finish)."""
import json, random

from .. import vlib
from . import _cachecommon as cc

FAMILY = "timecache"
DRIVER_PKG = "./drivers/c02cache/"
PREDICATES = ["P_C02_Remembered", "P_C02_Forgotten", "P_C02_AddNewIffAbsent", "P_C02_ModelAgreement"]
# seeded model variants: (Bug constant, property TLC must report) - non-vacuity of the properties
VARIANTS = [("sweep_le", "P_C02_Remembered"), ("has_norefresh", "P_C02_Remembered"), ("first_add_refresh", "P_C02_Forgotten")]

ASSUMPTIONS = [
    "timecache: time is the testing/synctest virtual clock; one tick = unit_s virtual seconds, the sweep interval is the package constant 60 s",
    "timecache: an operation at a sweep instant is ordered after the sweep (forced with synctest.Wait); operations that race with the sweeper at the same instant are not judged",
    "timecache: single caller (the cache's own locking is not the subject; concurrent callers are covered by the in-node part of C02)",
]


def _mc_cfg(ids, strategies, ttl, sweep, horizon, bug="none"):
    return vlib.cfg_text(spec="MCSpec",
                         constants={"Ids": set('"%s"' % i for i in ids), "Bug": '"%s"' % bug,
                                    "Strategies": set('"%s"' % s for s in strategies),
                                    "TTL": ttl, "Sweep": sweep, "Horizon": horizon},
                         invariants=["TypeOK", "P_C02_Remembered", "P_C02_Forgotten"],
                         properties=["P_C02_AddNewIffAbsent"])


def _shadow(ops, strategy, ttl, sweep, bug):
    """Presence answers of a seeded VARIANT of the cache for one operation sequence. Used only to decide
    which recorded scenarios tell the real code from that variant (coverage obligations), never for a verdict."""
    exp, now, res = {}, 0, []
    for o in ops:
        if o["op"] == "adv":
            for _ in range(o["n"]):
                now += 1
                if now % sweep == 0:
                    for k in [k for k, e in exp.items() if (e <= now if bug == "sweep_le" else e < now)]:
                        del exp[k]
        elif o["op"] == "add":
            present = o["id"] in exp
            res.append(present)
            if not present or strategy == "last" or bug == "first_add_refresh":
                exp[o["id"]] = now + ttl
        else:
            present = o["id"] in exp
            res.append(present)
            if present and strategy == "last" and bug != "has_norefresh":
                exp[o["id"]] = now + ttl
    return res


SELFTEST = [
    {"e": "reset", "scn": 1, "strategy": "first", "ttl": 2, "sweep": 3, "unit_ms": 20000, "half": False},
    {"e": "add", "id": "a", "r": True}, {"e": "has", "id": "a", "r": False},
    {"e": "reset", "scn": 2, "strategy": "first", "ttl": 2, "sweep": 3, "unit_ms": 20000, "half": False},
    {"e": "add", "id": "a", "r": True}] + [{"e": "tick", "t": 20000 * k} for k in range(1, 7)] + [
    {"e": "has", "id": "a", "r": True},
    {"e": "reset", "scn": 3, "strategy": "last", "ttl": 2, "sweep": 3, "unit_ms": 20000, "half": True},
    {"e": "add", "id": "a", "r": True}, {"e": "tick", "t": 30000}, {"e": "has", "id": "a", "r": True},
    {"e": "tick", "t": 50000}, {"e": "tick", "t": 70000}, {"e": "has", "id": "a", "r": True},
]
SELFTEST_EXPECT = [(1, "P_C02_Remembered"), (1, "P_C02_AddNewIffAbsent"), (1, "P_C02_ModelAgreement"),
                   (2, "P_C02_Forgotten"), (2, "P_C02_ModelAgreement")]


def run_timecache(ctx):
    T = ctx.thorough
    v0 = len(ctx.violations)
    states = transitions = 0

    # ------------------------------------------------------------------ 1. model checking
    mc_plan = [("ab-2-3", ["a", "b"], 2, 3, 10)]
    if T:
        mc_plan += [("abc-2-3", ["a", "b", "c"], 2, 3, 9), ("ab-4-3", ["a", "b"], 4, 3, 14), ("ab-1-2", ["a", "b"], 1, 2, 9),
                    ("ab-3-4", ["a", "b"], 3, 4, 13), ("ab-2-1", ["a", "b"], 2, 1, 8)]
    jobs = []
    for nm, ids, ttl, sw, hz in mc_plan:
        jobs.append((nm, None, lambda nm=nm, ids=ids, ttl=ttl, sw=sw, hz=hz: vlib.run_tlc(
            ctx, FAMILY, "MCTimeCache", _mc_cfg(ids, ["first", "last"], ttl, sw, hz), timeout=900, name="mc-" + nm, workers=4)))
    for bug, prop in VARIANTS:
        jobs.append((bug, prop, lambda bug=bug: vlib.run_tlc(
            ctx, FAMILY, "MCTimeCache", _mc_cfg(["a", "b"], ["first", "last"], 2, 3, 10, bug), timeout=300, name="mc-bug-" + bug, workers=2)))
    jobs.append(("selftest", "selftest", lambda: cc.selftest(ctx, FAMILY, "TimeCacheTrace", "TimeCacheTrace.cfg",
                                                             SELFTEST, SELFTEST_EXPECT, "tv-selftest")))
    mc_info = {}
    for (nm, prop, _), res in zip(jobs, cc.run_parallel([j[2] for j in jobs], workers=4)):
        if prop == "selftest":
            states += res
        elif prop is None:
            vlib.require_mc_ok(ctx, res, "MCTimeCache %s" % nm)
            states += res.distinct; transitions += res.generated
            mc_info[nm] = [res.distinct, res.generated]
        else:
            vlib.require_mc_fails(ctx, res, "MCTimeCache with seeded variant %s" % nm, prop)
    ctx.log("timecache: model checked %s; seeded variants %s fail as required" % (mc_info, [b for b, _ in VARIANTS]))

    # ------------------------------------------------------------------ 2. scenarios
    L = 6 if T else 5

    def gen_exh(l):
        g = vlib.run_tlc(ctx, FAMILY, "GenTimeCache",
                         vlib.cfg_text(constants={"NIds": 2, "L": l, "Horizon": 10, "MaxAdv": 3}, invariants=["Emit"]),
                         timeout=900, name="gen-L%d" % l, heap="8g", workers=4)
        vlib.require_mc_ok(ctx, g, "GenTimeCache L=%d" % l)
        got = cc.canonical([s["ops"] for s in g.printed("SCN")])
        if not got:
            raise vlib.Inconclusive("GenTimeCache L=%d emitted nothing" % l)
        return got, g.distinct, g.generated
    exh, st, tr = gen_exh(L)
    states += st; transitions += tr
    exh5 = exh
    if T:
        exh5, st, tr = gen_exh(5)       # the other TTL / sweep ratios use the shorter set
        states += st; transitions += tr
    deep = []
    for nm, nids, dl, hz, num in ([("deep", 2, 14, 18, 100)] if not T else [("deep", 2, 14, 18, 1000), ("deep3", 3, 18, 24, 500)]):
        s = vlib.run_tlc(ctx, FAMILY, "GenTimeCache",
                         vlib.cfg_text(constants={"NIds": nids, "L": dl, "Horizon": hz, "MaxAdv": 3}, invariants=["Emit"]),
                         mode="sim", simulate="num=%d" % num, depth=dl + 2, workers=1, timeout=600, name="gen-" + nm)
        vlib.require_mc_ok(ctx, s, "GenTimeCache -simulate %s" % nm)
        deep += [x["ops"] for x in s.printed("SCN")]
        transitions += s.generated
    deep = cc.canonical(deep)
    long7 = []
    if T:
        g7 = vlib.run_tlc(ctx, FAMILY, "GenTimeCache",
                          vlib.cfg_text(constants={"NIds": 2, "L": 7, "Horizon": 10, "MaxAdv": 3}, invariants=["Emit"]),
                          timeout=900, name="gen-L7", heap="8g")
        vlib.require_mc_ok(ctx, g7, "GenTimeCache L=7")
        long7 = cc.canonical([s["ops"] for s in g7.printed("SCN")])
        states += g7.distinct; transitions += g7.generated
        random.Random(ctx.seed).shuffle(long7)
        long7 = long7[:20000]

    rng = random.Random(ctx.seed)
    scns = []

    def put(ops, strategy, unit_s, ttl, half):
        scns.append({"scn": len(scns), "strategy": strategy, "unit_s": unit_s, "ttl": ttl, "half": half, "ops": ops})

    # the configuration of DESIGN C02: tick 20 s, TTL 40 s (2 ticks), sweep 60 s (3 ticks): every sequence,
    # both strategies, operations at the tick instants (so an expiry can coincide with a sweep) and at mid-tick
    for st in ("first", "last"):
        for ops in exh:
            put(ops, st, 20, 2, False)
        for ops in (exh if T else rng.sample(exh, min(len(exh), 1500))):
            put(ops, st, 20, 2, True)
        for ops in deep + long7:
            put(ops, st, 20, 2, rng.random() < 0.3)
    # other TTL / sweep ratios (unit_s, ttl): sweep = 60 / unit_s ticks
    others = [(30, 1), (20, 4), (15, 3), (60, 2)] + ([(20, 1), (20, 3), (10, 5), (30, 3), (12, 2)] if T else [])
    for unit_s, ttl in others:
        pool = exh5 if T else rng.sample(exh5, min(len(exh5), 400))
        for ops in pool + rng.sample(deep, min(len(deep), 400 if T else 50)):
            for st in ("first", "last"):
                put(ops, st, unit_s, ttl, False)
    ctx.log("timecache: %d operation sequences of length %d (all, canonical) + %d random deep + %d sampled of length 7 -> %d scenarios" %
            (len(exh), L, len(deep), len(long7), len(scns)))

    # ------------------------------------------------------------------ 3. replay on the real cache
    traces, gr = cc.replay(ctx, DRIVER_PKG, "TestC02Cache", scns, "timecache")
    nlines = sum(len(t) for t in traces)
    ctx.log("timecache: replayed on the real cache in %.0fs: %d trace lines" % (gr["wall"], nlines))

    # ------------------------------------------------------------------ 4. TLC validates the recorded answers
    viols, st, _ = cc.validate_print(ctx, FAMILY, "TimeCacheTrace", "TimeCacheTrace.cfg", traces, "tv-timecache")
    states += st; transitions += st
    ctx.log("timecache: TLC validated the recorded answers: %d predicate failures" % len(viols))
    by_sig = {}
    for v in viols:
        sc = scns[v["scn"]]
        sig = {"part": "timecache", "strategy": v["strategy"], "op": v["op"],
               "real_present": v["real_present"], "model_present": v["model_present"]}
        k = (v["pred"], json.dumps(sig, sort_keys=True))
        if k not in by_sig or len(sc["ops"]) < len(scns[by_sig[k][0]["scn"]]["ops"]):
            by_sig[k] = (v, sig)
    for (pred, _), (v, sig) in sorted(by_sig.items()):
        sc, tr = scns[v["scn"]], traces[v["scn"]]
        k = v["line"]
        detail = ("timecache %s-seen, ttl=%d ticks, sweep=%d ticks: %s(%s) at tick %d answered present=%s; model says present=%s; "
                  "qualifying instant=%s; scenario %s" %
                  (v["strategy"], v["ttl"], v["sweep"], v["op"], v["id"], v["now"], v["real_present"], v["model_present"],
                   v["q"] if v["q"] >= 0 else "none", json.dumps(sc["ops"])))
        vlib.add_violation(ctx, pred, sig, detail, {"driver": "TestC02Cache", "scenario": sc, "trace": tr, "viol": v})
    if viols:
        ctx.log("timecache: %d predicate failures in %d scenarios (%d distinct signatures)" %
                (len(viols), len({v["scn"] for v in viols}), len(by_sig)))

    # ------------------------------------------------------------------ 5. coverage, obligations, evidence
    hits = {"add_new": 0, "add_old": 0, "has_true": 0, "has_false": 0, "tick": 0, "sweep_instants": 0,
            "readd_after_expiry_new": 0, "present_at_exact_ttl_on_sweep_instant": 0, "present_past_ttl_unswept": 0}
    tells = {b: 0 for b, _ in VARIANTS}
    nontrivial = set()
    evaluations = 0
    for sc, tr in zip(scns, traces):
        sweep, ttl = tr[0]["sweep"], sc["ttl"]
        now, added, kinds, real = 0, {}, set(), []
        for ln in tr[1:]:
            e = ln["e"]
            if e == "tick":
                now += 1
                hits["tick"] += 1
                if now % sweep == 0:
                    hits["sweep_instants"] += 1
                continue
            evaluations += len(PREDICATES)
            present = ln["r"] if e == "has" else not ln["r"]
            real.append(present)
            kind = {("add", True): "add_new", ("add", False): "add_old", ("has", True): "has_true", ("has", False): "has_false"}[(e, ln["r"])]
            hits[kind] += 1
            kinds.add(kind)
            i = ln["id"]
            if kind == "add_new" and i in added:
                hits["readd_after_expiry_new"] += 1
            if present and i in added and sc["strategy"] == "first":
                if now == added[i] + ttl and now % sweep == 0 and not sc["half"]:
                    hits["present_at_exact_ttl_on_sweep_instant"] += 1
                if now > added[i] + ttl:
                    hits["present_past_ttl_unswept"] += 1
            if kind == "add_new":
                added[i] = now
        for b in tells:
            if not sc["half"] or b != "sweep_le":
                if _shadow(sc["ops"], sc["strategy"], ttl, sweep, b) != real:
                    tells[b] += 1
        if len(kinds) >= 2 and now > 0:
            nontrivial.add(json.dumps([sc["strategy"], sc["unit_s"], ttl, sc["half"], sc["ops"]]))
    hits["scenarios_telling_real_from_variant"] = tells
    if len(ctx.violations) == v0:
        missing = [k for k in ("add_new", "add_old", "has_true", "has_false", "readd_after_expiry_new",
                               "present_at_exact_ttl_on_sweep_instant", "present_past_ttl_unswept") if not hits[k]]
        missing += ["no recorded scenario distinguishes the real cache from variant " + b for b, n in tells.items() if not n]
        if missing:
            raise vlib.Inconclusive("timecache coverage obligations not met: %s" % missing)

    def compact(i):
        return {"scenario": {k: scns[i][k] for k in ("strategy", "unit_s", "ttl", "half")},
                "trace": [[l["e"], l["id"], l["r"]] if l["e"] in ("add", "has") else [l["e"], l.get("t", 0)] for l in traces[i][1:]]}
    pick = [i for i, s in enumerate(scns) if s["strategy"] == "last" and _shadow(s["ops"], "last", s["ttl"], traces[i][0]["sweep"], "has_norefresh")
            != _shadow(s["ops"], "last", s["ttl"], traces[i][0]["sweep"], "none")][:1]
    pick += [i for i, s in enumerate(scns) if s["strategy"] == "first" and len(s["ops"]) > 8][:1]
    return {
        "part": "timecache",
        "states": states, "transitions": transitions, "traces": len(traces),
        "samples": [compact(i) for i in (pick or [len(scns) // 2])],
        "evaluations": evaluations, "distinct_nontrivial": len(nontrivial),
        "rule": "timecache: scenario = (strategy, tick length, TTL, offset, operation sequence); sequences = ALL canonical sequences of %d "
                "add/has/advance operations on 2 ids emitted by GenTimeCache (both strategies, tick-aligned; mid-tick: all at thorough, seeded sample at quick) "
                "plus seeded random deep ones and other TTL/sweep ratios (all at thorough, seeded sample at quick); evaluations = %d predicates per recorded add/has answer; non-trivial = at least two "
                "different answer kinds and at least one time advance; distinct by the whole scenario" % (L, len(PREDICATES)),
        "exhaustive": True, "hits": hits, "mc": mc_info, "trace_lines": nlines,
        "seeded_model_variants_fail": [b for b, _ in VARIANTS],
        "assumptions": ASSUMPTIONS,
    }
