"""X10 - extension family: resource bounds and timing of the validation pipeline (validation.go).

spec/valbounds: ValBounds (properties X10.a-g + lock-/channel-grain model, exhaustive MC incl. 14 seeded model defects that MUST
fail and a liveness configuration), GenValBounds (scenario generator under the quiescent-step discipline of the gated harness),
ValBoundsTrace (monitor over what the REAL node did: in-flight counts recomputed from validator enter/exit events and tracer
events, compared with the configured capacities and with the real semaphores read at quiescence).
harness/drivers/x10: real node + wire-level fake peers, gated validators, virtual time (testing/synctest)."""
import concurrent.futures as cf
import json, os, random, re, subprocess

from .. import vlib

LEVEL = "model_checking"
FAMILY = "valbounds"
PKG = "./drivers/x10/"
A, R, I = 0, 1, 2
TMO = 17000            # ms; one `adv` = 10 s: a deadline passes during the second adv after the call

PREDS = ["P_X10a_ValidatorBound", "P_X10a_GlobalBound", "P_X10a_WorkerBound", "P_X10a_QueueBound",
         "P_X10b_QueueFullExact", "P_X10b_ThrottleExact", "P_X10c_Conserve",
         "P_X10d_Account", "P_X10d_NoSilentLoss", "P_X10d_Seen", "P_X10d_Cause", "P_X10d_NoPenalty",
         "P_X10e_Deadline", "P_X10e_Fires", "P_X10e_NoAbandon", "P_X10e_CancelOnReject",
         "P_X10f_LoopLive", "P_X10f_WorkConserving", "P_X10f_LocalUnaffected",
         "P_X10g_Registration", "P_X10g_Applicable", "P_X10g_Options"]

ASSUMPTIONS = [
    "x10: validators are harness functions that block on gates, so the node is quiescent between stimuli; inside one step (two workers, a burst) "
    "the trace specification over-approximates who may hold a token, between steps the counts are exact; the exhaustive model covers the interleavings",
    "x10: the state of the real semaphores (len of validateQ / validateThrottle / each validator's throttle) and the goroutine counts are read by "
    "reflection / one stack dump at quiescence; they are observations of the real node, the in-flight counts they are compared with come from events",
    "x10: every message is signed (all copies pass through the pipeline); scenarios are shorter than the seen-cache TTL (120 s)",
    "x10: after a topic's validator was (un)registered a scenario only sends ids on that topic that were not sent before (so the validators "
    "captured for a message are those registered when its first copy arrived)",
    "x10: penalties are read as the invalid-message-delivery counters of the gossipsub score (scenarios run on floodsub have none)",
]


# =============================================================================================== model checking

def _q(xs):
    return "{" + ", ".join('"%s"' % x for x in xs) + "}"


INVS = ["TypeOK", "P_X10a_Bounds", "P_X10b_Exact", "P_X10c_Conserve", "P_X10c_Idle", "P_X10d_Account", "P_X10d_SeenRule",
        "P_X10e_Ctx", "P_X10e_NoAbandon", "P_X10f_LoopLive", "P_X10f_WorkConserving", "P_X10g_Applicable"]


def _mc_cfg(ids, t2, space, nv, maxw=1, copies=1, burst=1, verdicts=("A", "R", "I"), tick=0, sendcap=1, bug="none",
            blockers=(), local=(), spec="Spec", props=(), invs=INVS):
    consts = {"Ids": _q(ids), "T2Ids": _q(t2), "Blockers": _q(blockers), "LocalIds": _q(local), "NV": nv, "MaxW": maxw,
              "MaxCopies": copies, "MaxBurst": burst, "Verdicts": _q(verdicts), "MaxTick": tick, "SendCap": sendcap,
              "CfgSpace": "CfgSpace <- " + space, "Bug": '"%s"' % bug}
    return vlib.cfg_text(spec=spec, constants=consts, invariants=list(invs), properties=list(props))


BUGS = [  # (bug, configuration space, properties of which one must fail, needs copies)
    ("leakOnIgnore", "CfgBug", ["P_X10c_Conserve", "P_X10c_Idle"], 1),
    ("vBeforeG", "CfgBugV", ["P_X10c_Conserve", "P_X10c_Idle", "P_X10b_Exact"], 1),
    ("qHigh", "CfgBug", ["P_X10a_Bounds"], 1), ("gHigh", "CfgBug", ["P_X10a_Bounds"], 1), ("vHigh", "CfgBugV", ["P_X10a_Bounds"], 1),
    ("qLow", "CfgBug", ["P_X10b_Exact"], 1), ("gLow", "CfgBug", ["P_X10b_Exact"], 1), ("vLow", "CfgBugV", ["P_X10b_Exact"], 1),
    ("noCancel", "CfgBug", ["P_X10e_Ctx"], 1),
    ("blockingPush", "CfgBug", ["P_X10f_LoopLive"], 1),
    ("syncAsync", "CfgBug", ["P_X10f_WorkConserving"], 1),
    ("seenOnQfull", "CfgBug", ["P_X10d_SeenRule", "P_X10d_Account"], 2),
    ("releaseAtTimeout", "CfgBug", ["P_X10c_Conserve", "P_X10a_Bounds"], 1),
    ("abandonAtTimeout", "CfgBug", ["P_X10e_Ctx", "P_X10e_NoAbandon"], 1),
]


def mc_plan(thorough):
    """(name, cfg text, expected violated (None = must pass), timeout, allow_timeout, workers)"""
    M3, M2 = ["m1", "m2", "n1"], ["m1", "n1"]
    plan = [
        ("async", _mc_cfg(M3, ["n1"], "CfgAsync2", 2, burst=2), None, 600, False, 1),
        ("async-copies", _mc_cfg(M2, ["n1"], "CfgAsync2", 2, copies=2), None, 600, False, 1),
        ("inline", _mc_cfg(M3, ["n1"], "CfgInline2", 2, maxw=2), None, 600, False, 1),
        ("timeouts", _mc_cfg(M2, ["n1"], "CfgTime2", 2, tick=3), None, 600, False, 1),
        ("multi", _mc_cfg(M2, ["n1"], "CfgMulti3", 3, maxw=2), None, 600, False, 1),
        ("multi-timeouts", _mc_cfg(["m1", "m2"], [], "CfgMultiT3", 3, verdicts=("A", "R"), tick=2), None, 600, False, 1),
        ("registration", _mc_cfg(["m1", "m2"], [], "CfgReg3", 3), None, 600, False, 1),
        ("blockers", _mc_cfg(["m1", "m2"], [], "CfgInline2", 2, maxw=2, verdicts=("A", "R"), blockers=["b1"]), None, 600, False, 1),
        ("local", _mc_cfg(M2, ["n1"], "CfgTime2", 2, tick=3, sendcap=2, local=["l1"]), None, 600, False, 1),
        ("liveness", _mc_cfg(M2, ["n1"], "CfgTime2", 2, verdicts=("A", "R"), tick=3, spec="FairSpec", props=["P_X10e_Live"], invs=[]),
         None, 600, False, 1),
        ("bug-noCancel-liveness", _mc_cfg(M2, ["n1"], "CfgTime2", 2, verdicts=("A", "R"), tick=3, bug="noCancel", spec="FairSpec",
                                          props=["P_X10e_Live"], invs=[]), ["P_X10e_Live"], 600, False, 1),
    ]
    for bug, space, expect, copies in BUGS:
        plan.append(("bug-" + bug, _mc_cfg(M3 if copies == 1 else M2, ["n1"], space, 2, copies=copies, tick=3, bug=bug), expect, 600, False, 1))
    if thorough:
        plan += [
            ("async-3x2", _mc_cfg(M3, ["n1"], "CfgAsync2", 2, copies=2), None, 1200, True, 4),
            ("multi-3", _mc_cfg(M3, ["n1"], "CfgMulti3", 3, maxw=2), None, 1200, True, 4),
            ("multi-timeouts-3", _mc_cfg(["m1", "m2"], [], "CfgMultiT3", 3, tick=3), None, 900, True, 2),
            ("timeouts-copies", _mc_cfg(M2, ["n1"], "CfgTime2", 2, copies=2, tick=3), None, 900, True, 1),
            ("registration-3", _mc_cfg(M3, ["n1"], "CfgReg3", 3), None, 900, True, 1),
            ("blockers-copies", _mc_cfg(["m1", "m2"], [], "CfgInline2", 2, maxw=2, copies=2, verdicts=("A", "R"), blockers=["b1"]), None, 900, True, 1),
        ]
    return plan


def run_mc(ctx, thorough, pool):
    futs = []
    for name, cfg, expect, to, allow, workers in mc_plan(thorough):
        futs.append((name, expect, allow, pool.submit(vlib.run_tlc, ctx, FAMILY, "MCValBounds", cfg, timeout=to, name="mc-" + name, workers=workers)))
    return futs


def join_mc(ctx, futs):
    states = transitions = 0
    info = {}
    for name, expect, allow, f in futs:
        res = f.result()
        if expect is None:
            vlib.require_mc_ok(ctx, res, "MCValBounds " + name, allow_timeout=allow)
            dist, gen = res.distinct, res.generated
            if res.timed_out:
                pr = re.findall(r"Progress\(\d+\) at [^:]+:\d+:\d+: ([\d,]+) states generated \([\d,]+ s/min\), ([\d,]+) distinct states found", res.out)
                if pr:
                    gen, dist = int(pr[-1][0].replace(",", "")), int(pr[-1][1].replace(",", ""))
            states += dist
            transitions += gen
            info[name] = [dist, gen] + (["explored before the time limit, no violation"] if res.timed_out else [])
        else:
            if not set(expect) & set(res.violated):
                raise vlib.Inconclusive("MCValBounds %s: expected one of %s to be violated (non-vacuity), got %s (see %s/tlc.out)" %
                                        (name, expect, res.violated, res.dir))
            info[name] = "fails %s as required" % res.violated[0]
    return states, transitions, info


# =============================================================================================== scenarios

def V(v, top, inl=False, thr=1, tmo=False, deaf=False):
    return {"v": v, "top": top, "inl": inl, "thr": thr, "tmo": TMO if tmo else 0, "deaf": deaf}


def mkcfg(qcap, nw, gthr, vals, tv=I, router="floodsub", drain=I):
    return {"qcap": qcap, "nw": nw, "gthr": gthr, "vals": vals, "tv": tv, "router": router, "drain": drain}


def msg(p, m): return {"a": "msg", "p": p, "m": m}
def burst(p, *ms): return {"a": "burst", "p": p, "ms": list(ms)}
def rel(v, m, r, loc=False): return {"a": "rel", "v": v, "m": m, "r": r, "loc": loc}
def adv(): return {"a": "adv"}
def block(m): return {"a": "block", "m": m}
def unblock(m): return {"a": "unblock", "m": m}
def unreg(t): return {"a": "unreg", "t": t}
def reg(t, v): return {"a": "reg", "t": t, "v": v}
def pub(m): return {"a": "pub", "m": m}
PARK, UNPARK = {"a": "park"}, {"a": "unpark"}


def directed(thorough):
    """Hand-written schedules: the boundary of every bound (k-th served, (k+1)-th dropped, capacity fully usable again after every
    kind of ending), and one per coverage obligation.  (name, cfg, acts)"""
    D = []
    add = lambda n, c, a: D.append((n, c, a))
    # ---- queue and workers (inline validators occupy the workers)
    for nw in (1, 2):
        for qcap in (1, 2, 3):
            c = mkcfg(qcap, nw, 2, [V(2, "T1", inl=True), V(3, "T2", inl=True)])
            names = ["m%d" % i for i in range(1, nw + qcap + 4)]
            acts = [msg("p1", names[i]) for i in range(nw)]                       # the workers
            acts += [msg("p1", names[nw + i]) for i in range(qcap)]               # the queue, exactly full
            over = names[nw + qcap]
            acts += [msg("p2", over), msg("p1", over)]                            # (k+1)-th: dropped, twice
            acts += [rel(2, names[0], A)]                                         # one worker moves on: one slot
            acts += [msg("p2", names[nw + qcap + 1]), msg("p2", names[nw + qcap + 2])]   # k-th again served, then dropped
            acts += [rel(2, names[i], (A, R, I)[i % 3]) for i in range(1, nw + qcap + 1)]
            acts += [rel(2, names[nw + qcap + 1], A)]
            acts += [msg("p2", over), rel(2, over, A), msg("p1", over)]           # the queue-full drop left no seen mark: validated now; then duplicate
            add("queue_boundary_w%d_q%d" % (nw, qcap), c, acts)
    # ---- global throttle
    for gthr in (1, 2, 3):
        c = mkcfg(2, 1, gthr, [V(2, "T1", thr=4), V(3, "T2", thr=4)])
        names = (["m%d" % i for i in range(1, 6)], ["n%d" % i for i in range(1, 6)])
        seq = [names[i % 2][i // 2] for i in range(gthr + 3)]
        vof = lambda m: 3 if m.startswith("n") else 2
        acts = [msg("p1", m) for m in seq[:gthr]]                                 # exactly gthr in flight
        acts += [msg("p2", seq[gthr]), msg("p1", seq[gthr])]                      # (k+1)-th throttled; its resend is a duplicate (marked seen)
        acts += [rel(vof(seq[0]), seq[0], R)]                                     # a token comes back
        acts += [msg("p1", seq[gthr + 1]), msg("p1", seq[gthr + 2])]              # served, then throttled
        acts += [rel(vof(m), m, (A, I)[i % 2]) for i, m in enumerate(seq[1:gthr])] + [rel(vof(seq[gthr + 1]), seq[gthr + 1], A)]
        add("global_boundary_g%d" % gthr, c, acts)
    # ---- one validator's own throttle (single-validator path), the other topic is not affected
    for thr in (1, 2):
        c = mkcfg(2, 1, 4, [V(2, "T1", thr=thr), V(3, "T2", thr=2)], router="gossipsub")
        ms = ["m%d" % i for i in range(1, thr + 4)]
        acts = [msg("p1", m) for m in ms[:thr]] + [msg("p2", ms[thr]), msg("p1", "n1"), msg("p1", "n2"), msg("p2", ms[thr])]
        acts += [rel(2, ms[0], I), msg("p1", ms[thr + 1]), msg("p1", ms[thr + 2]), msg("p2", "n3")]
        acts += [rel(2, m, A) for m in ms[1:thr]] + [rel(2, ms[thr + 1], R), rel(3, "n1", A), rel(3, "n2", R)]
        add("validator_boundary_t%d" % thr, c, acts)
    # ---- default + topic validators (validateTopic's multi-validator path)
    multi = [V(1, "D", thr=2), V(2, "T1", thr=1), V(3, "T2", thr=2)]
    add("multi_throttled_plus_accept", mkcfg(2, 1, 4, multi),
        [msg("p1", "m1"), msg("p1", "n1"), msg("p2", "n2"), msg("p1", "m2"), rel(3, "n2", A), msg("p1", "n2"),
         rel(1, "m1", A), rel(2, "m1", A), rel(1, "n1", I), rel(3, "n1", A), msg("p1", "m3"), msg("p2", "n3"), rel(1, "m3", A), rel(2, "m3", A),
         rel(1, "n3", A), rel(3, "n3", A)])
    add("multi_reject_cancels_sibling", mkcfg(2, 1, 4, multi, router="gossipsub"),
        [msg("p1", "m1"), msg("p2", "m1"), rel(1, "m1", R), msg("p1", "m2"), rel(1, "m2", A), rel(2, "m2", R), msg("p1", "m3"), rel(2, "m3", A), rel(1, "m3", A)])
    deafm = [V(1, "D", thr=2), V(2, "T1", thr=1, deaf=True), V(3, "T2", thr=2)]
    add("multi_orphan_keeps_validator_token", mkcfg(2, 1, 1, deafm),
        [msg("p1", "m1"), rel(1, "m1", R), msg("p1", "m2"), msg("p1", "n1"), rel(1, "m2", A), msg("p1", "n1"), rel(1, "n1", A), rel(3, "n1", A), msg("p2", "m3"),
         rel(1, "m3", I), rel(2, "m1", A), msg("p1", "m4"), rel(1, "m4", A), rel(2, "m4", A)])
    add("multi_reject_cancels_sibling_with_timeout", mkcfg(2, 1, 2, [V(1, "D", thr=2, tmo=True, deaf=True), V(2, "T1", thr=2), V(3, "T2", thr=1, tmo=True)]),
        [msg("p1", "m1"), msg("p1", "n1"), rel(2, "m1", R), rel(1, "n1", R), msg("p1", "m2"), rel(1, "m1", A), rel(1, "m2", A), rel(2, "m2", A)])
    add("multi_inline_ignore_then_async", mkcfg(2, 1, 1, [V(1, "D", inl=True), V(2, "T1", thr=1), V(3, "T2", thr=1)]),
        [msg("p1", "m1"), rel(1, "m1", I), msg("p1", "n1"), rel(1, "n1", A), rel(2, "m1", A), msg("p1", "n2"), rel(1, "n2", I), rel(3, "n2", R),
         msg("p1", "m2"), rel(1, "m2", R), msg("p1", "m3"), rel(1, "m3", A), rel(2, "m3", A)])
    # ---- timeouts
    for tv in (I, A, R):
        tc = mkcfg(2, 1, 2, [V(2, "T1", thr=1, tmo=True), V(3, "T2", inl=True, tmo=True)], tv=tv, router="gossipsub" if tv == R else "floodsub")
        add("timeout_async_and_inline_tv%d" % tv, tc,
            [msg("p1", "m1"), msg("p1", "n1"), msg("p1", "n2"), adv(), msg("p2", "m2"), adv(), adv(), msg("p1", "m3"), rel(2, "m3", A), adv()])
    add("timeout_not_before", mkcfg(2, 1, 2, [V(2, "T1", thr=1, tmo=True), V(3, "T2", inl=True, tmo=True)]),
        [msg("p1", "m1"), msg("p1", "n1"), adv(), rel(2, "m1", A), rel(3, "n1", A), msg("p1", "m2"), adv(), rel(2, "m2", R)])
    add("timeout_deaf_late_accept", mkcfg(2, 1, 1, [V(2, "T1", thr=1, tmo=True, deaf=True), V(3, "T2", thr=1)]),
        [msg("p1", "m1"), adv(), adv(), msg("p1", "m2"), msg("p1", "n1"), adv(), rel(2, "m1", A), msg("p1", "m3"), rel(2, "m3", A)])
    add("timeout_deaf_inline_holds_worker", mkcfg(1, 1, 1, [V(2, "T1", inl=True, tmo=True, deaf=True), V(3, "T2", thr=1)]),
        [msg("p1", "m1"), msg("p1", "n1"), adv(), adv(), msg("p1", "n2"), rel(2, "m1", R), rel(3, "n1", A)])
    add("timeout_multi", mkcfg(2, 1, 2, [V(1, "D", thr=2, tmo=True), V(2, "T1", thr=2), V(3, "T2", thr=2, tmo=True, deaf=True)]),
        [msg("p1", "m1"), msg("p1", "n1"), adv(), adv(), rel(2, "m1", A), msg("p1", "m2"), rel(3, "n1", A), rel(1, "m2", A), rel(2, "m2", A)])
    add("no_timeout_no_deadline", mkcfg(2, 1, 2, [V(2, "T1", thr=1), V(3, "T2", inl=True)]),
        [msg("p1", "m1"), msg("p1", "n1"), adv(), adv(), adv(), rel(2, "m1", A), rel(3, "n1", A)])
    # ---- registration through the event loop
    rc = mkcfg(2, 1, 3, [V(2, "T1", thr=1), V(3, "T2", thr=1), V(4, "-", thr=1)])
    add("unregister_in_flight", rc,
        [msg("p1", "m1"), unreg("T1"), unreg("T1"), msg("p1", "m2"), reg("T1", 4), reg("T1", 4), msg("p1", "m3"), msg("p1", "m4"),
         rel(2, "m1", A), rel(4, "m3", I), msg("p1", "m5"), rel(4, "m5", A), reg("T2", 4), unreg("T2"), msg("p2", "n1")])
    add("unregister_while_queued", mkcfg(2, 1, 2, [V(2, "T1", inl=True), V(3, "T2", thr=1), V(4, "-", inl=True)]),
        [msg("p1", "m1"), msg("p1", "m2"), unreg("T1"), reg("T1", 4), msg("p1", "m3"), rel(2, "m1", A), rel(2, "m2", R), rel(4, "m3", A)])
    # ---- blockers: the workers are parked, the queue fills, then the requests meet the throttles back to back
    add("blockers_then_throttle", mkcfg(2, 1, 1, [V(2, "T1", thr=1), V(3, "T2", thr=1)]),
        [block("b1"), msg("p1", "m1"), msg("p1", "n1"), msg("p1", "m2"), unblock("b1"), rel(2, "m1", A), msg("p1", "m2"), rel(2, "m2", A)])
    add("blockers_two_workers", mkcfg(2, 2, 2, [V(2, "T1", thr=1), V(3, "T2", thr=1)]),
        [block("b1"), block("b2"), msg("p1", "m1"), msg("p1", "n1"), msg("p1", "n2"), unblock("b1"), unblock("b2"), rel(2, "m1", R), rel(3, "n1", A)])
    # ---- bursts: one RPC with many messages (the loop races with the workers inside the step)
    bm = ["m1", "n1", "m2", "n2", "m3", "n3", "m4", "n4"]
    add("burst_async", mkcfg(2, 2, 2, [V(2, "T1", thr=2), V(3, "T2", thr=1)]),
        [burst("p1", *bm), burst("p2", *bm[:4]), rel(2, "m1", A), rel(3, "n1", A), burst("p1", "m5", "m6", "n5")])
    add("burst_inline", mkcfg(2, 2, 2, [V(2, "T1", inl=True), V(3, "T2", inl=True)]),
        [burst("p1", *bm), burst("p2", "m1", "m1", "n9"), rel(2, "m1", A), rel(3, "n1", R)])
    add("burst_same_message_twice", mkcfg(3, 1, 2, [V(2, "T1", thr=2), V(3, "T2", inl=True)]),
        [burst("p1", "m1", "m1", "m2", "m2"), rel(2, "m1", A), rel(2, "m2", R)])
    # ---- a backlog towards the event loop (sendMsg holds 32): finished validations wait, holding their token, and lose nothing
    n = 36
    bc = mkcfg(4, 2, n + 2, [V(2, "T1", thr=n + 2), V(3, "T2", inl=True)])
    acts = [msg("p1", "m%d" % i) for i in range(1, n + 1)] + [msg("p1", "n1"), msg("p1", "n2"), PARK]
    acts += [rel(2, "m%d" % i, A) for i in range(1, n + 1)] + [rel(3, "n1", A), rel(3, "n2", A), UNPARK, msg("p1", "m99"), rel(2, "m99", A)]
    add("backlog_to_event_loop", bc, acts)
    # ---- local publishes take neither queue slot nor token
    lc = mkcfg(1, 1, 1, [V(1, "D", thr=1), V(2, "T1", inl=True), V(3, "T2", thr=1)])
    add("local_publish_when_saturated", lc,
        [msg("p1", "m1"), msg("p1", "m2"), msg("p1", "m3"), pub("l1"), rel(1, "l1", A, True), rel(2, "l1", A, True), pub("l2"), rel(1, "l2", R, True),
         rel(2, "m1", A), rel(1, "m1", A), rel(2, "m2", A), rel(1, "m2", A)])
    # ---- slow leak: many times the capacity through every kind of ending, then the boundary again
    for router in ("floodsub", "gossipsub"):
        cc = mkcfg(2, 1, 2, [V(1, "D", thr=2, tmo=True), V(2, "T1", thr=2), V(3, "T2", thr=1)], router=router)
        acts, k = [], 0
        rounds = 6 if not thorough else 14
        for rd in range(rounds):
            a, b = "m%d" % (2 * rd + 1), "m%d" % (2 * rd + 2)
            x = "n%d" % (rd + 1)
            kind = rd % 6
            acts += [msg("p1", a), msg("p1", b), msg("p2", x)]          # a, b hold the two global tokens; x is throttled by the global throttle
            if kind == 0:
                acts += [rel(1, a, A), rel(2, a, A), rel(1, b, A), rel(2, b, A)]
            elif kind == 1:
                acts += [rel(1, a, R), rel(2, b, R), rel(1, b, A)]
            elif kind == 2:
                acts += [rel(1, a, I), rel(2, a, A), rel(2, b, I), rel(1, b, I)]
            elif kind == 3:
                acts += [adv(), adv(), rel(2, a, A), rel(2, b, R)]
            elif kind == 4:
                acts += [rel(2, a, 7), rel(1, a, A), rel(1, b, -3), rel(2, b, A)]
            else:
                acts += [rel(2, a, R), rel(2, b, A), rel(1, b, R)]
        z = 2 * rounds + 1
        acts += [msg("p1", "m%d" % z), msg("p1", "n90"), msg("p1", "m%d" % (z + 1)), rel(1, "m%d" % z, A), rel(2, "m%d" % z, A), rel(1, "n90", A), rel(3, "n90", A)]
        add("churn_" + router, cc, acts)
    return D


def gen_cfg_records(rng, n):
    """Configurations handed to GenValBounds: (qcap, nw, gthr, top[4], inl, thr[4], tmo, deaf, tv)."""
    must = [
        (2, 1, 2, ("-", "T1", "T2", "-"), (), (1, 1, 2, 1), (), (), "I"),
        (1, 2, 2, ("-", "T1", "T2", "-"), (3,), (1, 2, 1, 1), (), (), "I"),
        (2, 1, 2, ("D", "T1", "T2", "-"), (), (2, 1, 1, 2), (2,), (), "I"),
        (1, 1, 1, ("D", "T1", "T2", "-"), (1,), (1, 1, 1, 1), (1,), (), "A"),
        (2, 2, 3, ("D", "T1", "T2", "-"), (3,), (2, 2, 1, 1), (1, 3), (3,), "R"),
        (2, 1, 1, ("-", "T1", "T2", "-"), (2,), (1, 1, 1, 2), (2,), (2,), "I"),
        (1, 1, 2, ("-", "T1", "T2", "-"), (), (1, 1, 1, 1), (2, 3), (2,), "I"),
    ]
    out, seen = [], set()
    for m in must:
        seen.add(m)
        out.append(m)
    while len(out) < n:
        dflt = rng.random() < 0.4
        top = ("D" if dflt else "-", "T1", "T2" if rng.random() < 0.9 else "-", "-")
        live = [i + 1 for i, t in enumerate(top) if t != "-"] + [4]
        inl = tuple(v for v in live if rng.random() < 0.3)
        tmo = tuple(v for v in live if rng.random() < 0.3)
        deaf = tuple(v for v in tmo if rng.random() < 0.4)
        c = (rng.choice([1, 2, 2]), rng.choice([1, 1, 2]), rng.choice([1, 2, 2, 3]), top, inl,
             tuple(rng.choice([1, 1, 2]) for _ in range(4)), tmo, deaf, rng.choice(["I", "I", "A", "R"]))
        if c not in seen:
            seen.add(c)
            out.append(c)
    return out


def _tset(xs):
    return "{" + ", ".join(str(x) for x in xs) + "}"


def gen_module(cfgs, bursts):
    recs = []
    for q, w, g, top, inl, thr, tmo, deaf, tv in cfgs:
        recs.append('[qcap |-> %d, nw |-> %d, gthr |-> %d, top |-> <<%s>>, inl |-> %s, thr |-> <<%s>>, tmo |-> %s, deaf |-> %s, tv |-> "%s"]' %
                    (q, w, g, ", ".join('"%s"' % t for t in top), _tset(inl), ", ".join(str(x) for x in thr), _tset(tmo), _tset(deaf), tv))
    bs = ", ".join("<<" + ", ".join('"%s"' % m for m in b) + ">>" for b in bursts)
    return ("---- MODULE GenRun ----\nEXTENDS GenValBounds\nGenCfgs == {\n  " + ",\n  ".join(recs) + " }\nGenBursts == {" + bs + "}\n====\n")


GEN_BURSTS = [("m1", "m2"), ("m1", "n1", "m2"), ("n1", "n2", "m3"), ("m2", "m2"), ("m3", "n2", "n1", "m1")]


def run_gen(ctx, rng, cfgs, name, walks=None, L=12, min_emit=4, ids=("m1", "m2", "m3", "n1", "n2"), t2=("n1", "n2"), blockers=("b1", "b2"),
            local=(), maxw=2, copies=2, verdicts=("A", "R", "I"), tick=4, bursts=GEN_BURSTS, timeout=900):
    consts = {"Ids": _q(ids), "T2Ids": _q(t2), "Blockers": _q(blockers), "LocalIds": _q(local), "NV": 4, "MaxW": maxw, "MaxCopies": copies,
              "MaxBurst": 4, "Verdicts": _q(verdicts), "MaxTick": tick, "SendCap": 8, "CfgSpace": "CfgSpace <- GenCfgs", "Bug": '"none"',
              "L": L, "MinEmit": min_emit, "Bursts": "Bursts <- GenBursts"}
    cfg = vlib.cfg_text(init="GInit", next_="GNext", constants=consts, invariants=["Emit", "GenOK"])
    files = {"GenRun.tla": gen_module(cfgs, bursts)}
    if walks:
        g = vlib.run_tlc(ctx, FAMILY, "GenRun", cfg, mode="sim", simulate="num=%d" % walks, depth=12 * L + 20, workers=1, timeout=timeout, name=name, files=files)
    else:
        g = vlib.run_tlc(ctx, FAMILY, "GenRun", cfg, workers=2 if ctx.thorough else 1, timeout=timeout, name=name, files=files, heap="6g")
    if g.timed_out or g.violated or g.errors:
        raise vlib.Inconclusive("GenValBounds %s failed: violated=%s errors=%s (see %s/tlc.out)" % (name, g.violated, g.errors[:2], g.dir))
    return g.printed("SCN"), g.generated, g.distinct


def from_model(s, rng):
    c = s["cfg"]
    vals = [V(x["v"], x["top"], x["inl"], x["thr"], x["tmo"], x["deaf"]) for x in c["vals"]]
    cfg = mkcfg(c["qcap"], c["nw"], c["gthr"], vals, tv=c["tv"], router=rng.choice(["floodsub", "floodsub", "gossipsub"]), drain=rng.choice([A, I, R]))
    return cfg, [dict(a) for a in s["acts"]]


def classify(s):
    e = s["exp"]
    kinds = sorted({a["a"] for a in s["acts"]})
    fins = sorted({f for v in e["fin"].values() for f in v})
    c = s["cfg"]
    shape = (c["qcap"], c["nw"], c["gthr"], sum(1 for v in c["vals"] if v["inl"]), sum(1 for v in c["vals"] if v["tmo"]), sum(1 for v in c["vals"] if v["top"] == "D"))
    return json.dumps([kinds, fins, e["drops"], any(e["qf"].values()), any(e["dup"].values()), bool(e["racy"]), shape])


def select(scns, rng, limit):
    seen, classes = set(), {}
    for s in scns:
        k = json.dumps([s["cfg"], s["acts"]], sort_keys=True)
        if k in seen:
            continue
        seen.add(k)
        classes.setdefault(classify(s), []).append(s)
    for l in classes.values():
        l.sort(key=lambda s: json.dumps([s["cfg"], s["acts"]], sort_keys=True))
        rng.shuffle(l)
        l.sort(key=lambda s: -len(s["acts"]))
    out, keys = [], sorted(classes)
    rng.shuffle(keys)
    while len(out) < limit and keys:
        for k in list(keys):
            if classes[k]:
                out.append(classes[k].pop(0))
                if len(out) >= limit:
                    break
            else:
                keys.remove(k)
    return out, len(seen), len(classes)


# =============================================================================================== replay

def build_driver(ctx):
    binp = os.path.join(ctx.work, "x10.test")
    r = vlib.run_go(ctx, PKG, "^TestX10", extra=["-c", "-o", binp], timeout=900, name="build")
    if r["rc"] != 0 or not os.path.exists(binp):
        raise vlib.Inconclusive("cannot build the X10 driver (see %s)" % r["log"])
    return binp


def run_bin(ctx, binp, test, env, tag, timeout=1500):
    e = dict(os.environ)
    e.update({"VERIF_SEED": str(ctx.seed), "VERIF_TIER": ctx.tier})
    e.update({k: str(v) for k, v in env.items()})
    log = os.path.join(ctx.work, "go-%s.log" % tag)
    with open(log, "w") as lf:
        try:
            p = subprocess.run([binp, "-test.run", "^%s$" % test, "-test.timeout", "%ds" % timeout], cwd=ctx.work, env=e,
                               stdout=lf, stderr=subprocess.STDOUT, timeout=timeout + 60)
            rc = p.returncode
        except subprocess.TimeoutExpired:
            rc = -9
    return {"rc": rc, "out": open(log, errors="replace").read(), "log": log}


def replay(ctx, binp, scns):
    scn_file = os.path.join(ctx.work, "scenarios.ndjson")
    vlib.write_ndjson(scn_file, [{"name": s["name"], "cfg": s["cfg"], "acts": s["acts"]} for s in scns])
    n = max(1, min(vlib.NCPU, 6 if ctx.thorough else 4, len(scns) // 40 + 1))

    def shard(i):
        skip, dead = [], []
        for attempt in range(6):
            tag = "shard-%d%s" % (i, "" if not attempt else "-r%d" % attempt)
            outp = os.path.join(ctx.work, "trace-%s.ndjson" % tag)
            mark = os.path.join(ctx.work, "marker-%d" % i)
            r = run_bin(ctx, binp, "TestX10Replay", {"VERIF_IN": scn_file, "VERIF_OUT": outp, "VERIF_SHARD": i, "VERIF_SHARDS": n,
                                                      "VERIF_MARKER": mark, "VERIF_SKIPIDS": ",".join(str(x) for x in skip)}, tag)
            if r["rc"] == 0:
                return [outp] + [d[3] for d in dead if d[3]], dead
            sid = open(mark).read().strip() if os.path.exists(mark) else ""
            if not sid.isdigit():
                raise vlib.Inconclusive("X10 driver shard %d died outside a scenario (rc=%s, see %s)" % (i, r["rc"], r["log"]))
            # a dead driver is a violation only if the scenario, replayed alone, panics in library code
            one = os.path.join(ctx.work, "trace-only-%s.ndjson" % sid)
            again = run_bin(ctx, binp, "TestX10Replay", {"VERIF_IN": scn_file, "VERIF_OUT": one, "VERIF_ONLY": sid, "VERIF_MARKER": mark + ".one"}, "only-%s" % sid)
            tail = again["out"].split("panic:")[1][:1500] if "panic:" in again["out"] else ""
            lib_panic = again["rc"] != 0 and bool(tail) and "go-libp2p-pubsub" in tail and "verifharness/drivers" not in tail.split("goroutine")[0]
            dead.append((int(sid), lib_panic, again["log"] if again["rc"] != 0 else r["log"], one if again["rc"] == 0 else None, tail[:200]))
            skip.append(int(sid))
            # keep what the shard recorded so far (complete scenarios only) and go on after the dead one
            os.replace(outp, outp + ".partial")
        raise vlib.Inconclusive("X10 driver shard %d keeps dying (see %s)" % (i, r["log"]))

    with cf.ThreadPoolExecutor(max_workers=n) as ex:
        res = list(ex.map(shard, range(n)))
    files = [p for ps, _ in res for p in ps]
    dead = [d for _, ds in res for d in ds]
    # partial files of shards that died are not used: the scenarios before the dead one are replayed again by the retry
    by_scn = {}
    for p in files:
        for ln in vlib.read_ndjson(p):
            by_scn.setdefault(ln["scn"], []).append(ln)
    return by_scn, dead


# =============================================================================================== trace validation

def validate(ctx, traces, name, lines_per_chunk=4000, timeout=900):
    chunks, cur, n = [], [], 0
    for tr in traces:
        cur.append(tr)
        n += len(tr)
        if n >= lines_per_chunk:
            chunks.append(cur)
            cur, n = [], 0
    if cur:
        chunks.append(cur)

    def one(ci, chunk):
        path = os.path.join(ctx.work, "%s-chunk-%d.ndjson" % (name, ci))
        vlib.write_ndjson(path, [ln for tr in chunk for ln in tr])
        res = vlib.run_tlc(ctx, FAMILY, "ValBoundsTrace", "ValBoundsTrace.cfg", mode="trace", files={"trace.ndjson": path},
                           timeout=timeout, name="%s-%d" % (name, ci))
        if res.timed_out:
            raise vlib.Inconclusive("%s: trace validation timed out (see %s/tlc.out)" % (name, res.dir))
        if res.hw is None:
            raise vlib.Inconclusive("%s: trace validation produced no verdict (see %s/tlc.out): %s" % (name, res.dir, res.errors[:2]))
        hw, end = res.hw
        if hw < end:
            raise vlib.Inconclusive("%s: trace line %d of %s cannot be read by ValBoundsTrace (malformed trace): %s" % (name, hw, path, res.errors[:2]))
        return res.printed("VIOL"), res.distinct

    viols, states = [], 0
    with cf.ThreadPoolExecutor(max_workers=max(1, min(vlib.NCPU // 2, 4, len(chunks)))) as ex:
        for v, st in ex.map(lambda a: one(*a), list(enumerate(chunks))):
            viols += v
            states += st
    return viols, states


# ---- self-test of the trace specification (non-vacuity): hand-written observations that break each predicate

def _e(k, m, s, g, t=1000, **kw):
    d = {"k": k, "m": m, "tp": "B" if m.startswith("b") else ("T2" if m.startswith("n") else "T1"), "p": "p1", "why": "", "v": 0, "r": -1,
         "loc": False, "dl": -1, "how": "", "s": s, "g": g, "t": t}
    d.update(kw)
    return d


def _x(q=0, g=0, vt=(-1, 0, 0), wk=1, jobs=None, ping=True, parked=False, pen=()):
    return {"q": q, "g": g, "vt": list(vt), "wk": wk, "jobs": g if jobs is None else jobs, "ping": ping, "parked": parked, "pen": list(pen)}


def _ln(scn, i, a, ev, x, t=None, act=None):
    return {"scn": scn, "i": i, "t": t if t is not None else 1000 + 15 * i, "a": a, "act": act or {"a": a}, "ev": ev, "x": x}


def _reset(scn, qcap=1, nw=1, gthr=1, vals=None, **kw):
    vals = vals if vals is not None else [V(2, "T1", thr=1), V(3, "T2", inl=True)]
    c = {"qcap": qcap, "nw": nw, "gthr": gthr, "nv": 3, "router": "floodsub", "tv": 2, "sendCap": 32, "qcapReal": qcap, "gthrReal": gthr, "nwReal": nw, "wk": nw,
         "vals": [dict(v, cap=v["thr"]) for v in vals]}
    c.update(kw)
    return {"scn": scn, "i": 0, "t": 1000, "a": "reset", "name": "selftest", "cfg": c}


def selftest(ctx):
    T, want = [], set()
    # 1: a correct run: m1 async accepted, m2 throttled at the boundary, n1 inline, n2 queued, n3 queue-full
    T += [_reset(1),
          _ln(1, 1, "msg", [_e("Arr", "m1", 1, 1), _e("Val", "m1", 1, 2), _e("Enter", "m1", 1, 3, v=2)], _x(g=1, vt=(-1, 1, 0))),
          _ln(1, 2, "msg", [_e("Arr", "m2", 2, 4), _e("Val", "m2", 2, 5), _e("Rej", "m2", 2, 6, why="T")], _x(g=1, vt=(-1, 1, 0))),
          _ln(1, 3, "msg", [_e("Arr", "n1", 3, 7), _e("Val", "n1", 3, 8), _e("Enter", "n1", 3, 9, v=3)], _x(g=1, vt=(-1, 1, 0))),
          _ln(1, 4, "msg", [_e("Arr", "n2", 4, 10)], _x(q=1, g=1, vt=(-1, 1, 0))),
          _ln(1, 5, "msg", [_e("Arr", "n3", 5, 11), _e("Rej", "n3", 5, 12, why="Q")], _x(q=1, g=1, vt=(-1, 1, 0))),
          _ln(1, 6, "rel", [_e("Exit", "m1", 6, 13, v=2, r=0, how="gate"), _e("Dlv", "m1", 6, 14), _e("Dl", "m1", 6, 15)], _x(q=1)),
          _ln(1, 7, "rel", [_e("Exit", "n1", 7, 16, v=3, r=1, how="gate"), _e("Rej", "n1", 7, 17, why="R"), _e("Val", "n2", 7, 18), _e("Enter", "n2", 7, 19, v=3)], _x()),
          _ln(1, 8, "drain", [_e("Exit", "n2", 8, 20, v=3, r=2, how="gate"), _e("Rej", "n2", 8, 21, why="I")], _x()),
          _ln(1, 9, "end", [], _x())]
    # 2: validator bound exceeded + global bound exceeded; 3: throttled below capacity; 4: queue-full below capacity
    T += [_reset(2),
          _ln(2, 1, "msg", [_e("Arr", "m1", 1, 1), _e("Val", "m1", 1, 2), _e("Enter", "m1", 1, 3, v=2)], _x(g=1, vt=(-1, 1, 0))),
          _ln(2, 2, "msg", [_e("Arr", "m2", 2, 4), _e("Val", "m2", 2, 5), _e("Enter", "m2", 2, 6, v=2)], _x(g=2, vt=(-1, 2, 0)))]
    want |= {(2, "P_X10a_ValidatorBound"), (2, "P_X10a_GlobalBound")}
    T += [_reset(3, gthr=2, vals=[V(2, "T1", thr=2), V(3, "T2", inl=True)]),
          _ln(3, 1, "msg", [_e("Arr", "m1", 1, 1), _e("Val", "m1", 1, 2), _e("Enter", "m1", 1, 3, v=2)], _x(g=1, vt=(-1, 1, 0))),
          _ln(3, 2, "msg", [_e("Arr", "m2", 2, 4), _e("Val", "m2", 2, 5), _e("Rej", "m2", 2, 6, why="T"), _e("Ctx", "m1", 2, 7, v=2, how="cancel")],
              _x(g=1, vt=(-1, 1, 0)))]
    want |= {(3, "P_X10b_ThrottleExact"), (3, "P_X10e_Deadline")}
    T += [_reset(4, qcap=2),
          _ln(4, 1, "msg", [_e("Arr", "n1", 1, 1), _e("Val", "n1", 1, 2), _e("Enter", "n1", 1, 3, v=3)], _x()),
          _ln(4, 2, "msg", [_e("Arr", "n2", 2, 4)], _x(q=1)),
          _ln(4, 3, "msg", [_e("Arr", "n3", 3, 5), _e("Rej", "n3", 3, 6, why="Q")], _x(q=1))]
    want |= {(4, "P_X10b_QueueFullExact")}
    # 5: token leak (global stays 1 after the job ended); 6: queue bound + worker bound; 7: silent loss
    T += [_reset(5),
          _ln(5, 1, "msg", [_e("Arr", "m1", 1, 1), _e("Val", "m1", 1, 2), _e("Enter", "m1", 1, 3, v=2)], _x(g=1, vt=(-1, 1, 0))),
          _ln(5, 2, "rel", [_e("Exit", "m1", 2, 4, v=2, r=2, how="gate"), _e("Rej", "m1", 2, 5, why="I")], _x(g=1, jobs=0, vt=(-1, 1, 0)))]
    want |= {(5, "P_X10c_Conserve")}
    T += [_reset(6),
          _ln(6, 1, "msg", [_e("Arr", "n1", 1, 1), _e("Val", "n1", 1, 2), _e("Enter", "n1", 1, 3, v=3)], _x()),
          _ln(6, 2, "msg", [_e("Arr", "n2", 2, 4), _e("Val", "n2", 2, 5), _e("Enter", "n2", 2, 6, v=3)], _x()),
          _ln(6, 3, "msg", [_e("Arr", "n3", 3, 7)], _x(q=1)),
          _ln(6, 4, "msg", [_e("Arr", "n4", 4, 8)], _x(q=2))]
    want |= {(6, "P_X10a_WorkerBound"), (6, "P_X10a_QueueBound")}
    T += [_reset(7),
          _ln(7, 1, "msg", [_e("Arr", "n1", 1, 1)], _x(q=0))]
    want |= {(7, "P_X10d_NoSilentLoss"), (7, "P_X10f_WorkConserving")}
    # 8: deadline at the wrong instant, context without the configured deadline, spurious cancel, outcome while the validator runs, timeout not fired
    tv = [V(2, "T1", thr=2, tmo=True), V(3, "T2", inl=True)]
    T += [_reset(8, gthr=2, vals=tv),
          _ln(8, 1, "msg", [_e("Arr", "m1", 1, 1), _e("Val", "m1", 1, 2), _e("Enter", "m1", 1, 3, v=2, dl=9000, t=1000)], _x(g=1, vt=(-1, 1, 0))),
          _ln(8, 2, "adv", [_e("Ctx", "m1", 2, 4, v=2, how="deadline", t=10000)], _x(g=1, vt=(-1, 1, 0)), t=11000),
          _ln(8, 3, "msg", [_e("Arr", "m2", 3, 5), _e("Val", "m2", 3, 6), _e("Enter", "m2", 3, 7, v=2, dl=TMO, t=11100), _e("Rej", "m2", 3, 9, why="I", t=11100)], _x(g=1, vt=(-1, 2, 0)), t=11200),
          _ln(8, 4, "adv", [], _x(g=1, vt=(-1, 2, 0)), t=40000)]
    want |= {(8, "P_X10e_Deadline"), (8, "P_X10e_NoAbandon"), (8, "P_X10e_Fires")}
    # 9: accounting: delivered twice, duplicate of something never validated, wrong cause, penalty for a throttled message, event loop dead
    T += [_reset(9, gthr=2, router="gossipsub"),
          _ln(9, 1, "msg", [_e("Arr", "m1", 1, 1), _e("Val", "m1", 1, 2), _e("Enter", "m1", 1, 3, v=2)], _x(g=1, vt=(-1, 1, 0), pen=[{"p": "p1", "n": 0}])),
          _ln(9, 2, "msg", [_e("Arr", "m2", 2, 4), _e("Val", "m2", 2, 5), _e("Rej", "m2", 2, 6, why="T")], _x(g=1, vt=(-1, 1, 0), pen=[{"p": "p1", "n": 1}])),
          _ln(9, 3, "msg", [_e("Arr", "m3", 3, 7), _e("Dup", "m3", 3, 8)], _x(g=1, vt=(-1, 1, 0), pen=[{"p": "p1", "n": 1}])),
          _ln(9, 4, "rel", [_e("Exit", "m1", 4, 9, v=2, r=2, how="gate"), _e("Dlv", "m1", 4, 10), _e("Dl", "m1", 4, 11)], _x(pen=[{"p": "p1", "n": 1}])),
          _ln(9, 5, "msg", [_e("Arr", "n4", 5, 12), _e("Val", "n4", 5, 13), _e("Enter", "n4", 5, 14, v=3)], _x(pen=[{"p": "p1", "n": 1}])),
          _ln(9, 6, "rel", [_e("Exit", "n4", 6, 15, v=3, r=0, how="gate"), _e("Dlv", "n4", 6, 16), _e("Dl", "n4", 6, 17), _e("Dlv", "n4", 6, 18), _e("Dl", "n4", 6, 19)],
              _x(pen=[{"p": "p1", "n": 1}])),
          _ln(9, 7, "end", [], _x(pen=[{"p": "p1", "n": 1}]))]
    want |= {(9, "P_X10d_NoPenalty"), (9, "P_X10d_Seen"), (9, "P_X10d_Account"), (9, "P_X10d_Cause")}
    T += [_reset(10),
          _ln(10, 1, "msg", [_e("Arr", "m1", 1, 1)], _x(ping=False)),
          _ln(10, 2, "abort", [], _x(ping=False))]
    want |= {(10, "P_X10f_LoopLive")}
    # 11: registration results; validator of the other topic; options
    T += [_reset(11),
          _ln(11, 1, "reg", [], _x(), act={"a": "reg", "top": "T1", "v": 4, "err": "", "ret": True}),
          _ln(11, 2, "unreg", [], _x(), act={"a": "unreg", "top": "T1", "v": 0, "err": "", "ret": True}),
          _ln(11, 3, "unreg", [], _x(), act={"a": "unreg", "top": "T1", "v": 0, "err": "", "ret": True}),
          _ln(11, 4, "msg", [_e("Arr", "m1", 4, 1), _e("Val", "m1", 4, 2), _e("Enter", "m1", 4, 3, v=3)], _x()),
          _ln(11, 5, "rel", [_e("Exit", "m1", 5, 4, v=3, r=0, how="gate"), _e("Dlv", "m1", 5, 5), _e("Dl", "m1", 5, 6)], _x()),
          _ln(11, 6, "end", [], _x())]
    want |= {(11, "P_X10g_Registration"), (11, "P_X10g_Applicable")}
    mv = [V(1, "D", thr=2, deaf=True), V(2, "T1", thr=1), V(3, "T2", inl=True)]
    T += [_reset(15, gthr=2, vals=mv),
          _ln(15, 1, "msg", [_e("Arr", "m1", 1, 1), _e("Val", "m1", 1, 2), _e("Enter", "m1", 1, 3, v=1), _e("Enter", "m1", 1, 4, v=2)], _x(g=1, vt=(1, 1, 0))),
          _ln(15, 2, "rel", [_e("Exit", "m1", 2, 5, v=2, r=1, how="gate"), _e("Rej", "m1", 2, 6, why="R")], _x(g=0, vt=(1, 0, 0)))]
    want |= {(15, "P_X10e_CancelOnReject")}
    T += [{"a": "opt", "scn": 12, "opt": "queue", "n": 0, "err": "", "panic": "", "got": 0},
          {"a": "opt", "scn": 13, "opt": "workers", "n": 3, "err": "", "panic": "", "got": 3},
          {"a": "opt", "scn": 14, "opt": "vconc", "n": 0, "err": "", "panic": "", "got": 5}]
    want |= {(12, "P_X10g_Options"), (14, "P_X10g_Options")}
    for to in (300, 900):      # (a loaded box: one more try with a longer limit)
        res = vlib.run_tlc(ctx, FAMILY, "ValBoundsTrace", "ValBoundsTrace.cfg", mode="trace",
                           files={"trace.ndjson": "".join(json.dumps(l) + "\n" for l in T)}, timeout=to, name="tv-selftest")
        if res.hw is not None:
            break
    got = {(v["scn"], v["pred"]) for v in res.printed("VIOL")}
    if res.hw is None or res.hw[0] < res.hw[1] or got != want:
        raise vlib.Inconclusive("ValBoundsTrace self-test: missing %s, unexpected %s (hw=%s, see %s/tlc.out)" %
                                (sorted(want - got), sorted(got - want), res.hw, res.dir))
    return res.distinct


# =============================================================================================== coverage (python mirror, never a verdict)

OBLIGATIONS = [
    "queue_full_exactly_at_capacity", "queue_slot_reused_after_take", "global_throttle_exactly_at_capacity", "global_token_reused",
    "validator_throttle_exactly_at_capacity_single", "validator_throttle_exactly_at_capacity_multi", "validator_token_reused",
    "all_workers_inside_inline_validators", "other_topic_served_while_validator_saturated",
    "ended_accept", "ended_reject", "ended_ignore", "ended_throttled_by_validator", "ended_by_deadline", "ended_by_cancel", "ended_out_of_range",
    "deadline_async", "deadline_inline", "deadline_ignored_late_verdict_counts", "no_deadline_without_option", "orphan_holds_validator_token",
    "sibling_with_timeout_cancelled_on_reject",
    "queue_full_resend_validated", "throttled_resend_duplicate", "unregistered_while_running", "unregistered_while_queued", "new_validator_used",
    "registration_errors", "burst", "backlog_event_loop_parked", "local_publish_while_saturated", "churn_many_times_capacity",
    "penalty_counters_observed", "two_workers_concurrent",
]


def coverage_hits(s, tr, hits):
    cfg = s["cfg"]
    vc = {v["v"]: v for v in cfg["vals"]}
    asyncv = {v for v, c in vc.items() if not c["inl"]}
    def hit(k, n=1):
        hits[k] = hits.get(k, 0) + n
    open_inv, final, validated, qf_ids, thr_ids = {}, {}, set(), set(), set()
    qocc, ntaken = 0, 0
    regd = {t: next((v for v, c in vc.items() if c["top"] == t), 0) for t in ("T1", "T2")}
    removed = set()
    for ln in tr[1:]:
        solo = ln["a"] == "msg"
        q0 = qocc
        holders0 = {m for (v, m, loc) in open_inv if v in asyncv and not loc and m not in final}
        vopen0, open0, final0, regd_before = {}, set(open_inv), dict(final), dict(regd)
        for (v, m, loc) in open_inv:
            if not loc and v in asyncv:
                vopen0[v] = vopen0.get(v, 0) + 1
        if ln["a"] == "unreg" and ln["act"].get("err") == "" and ln["act"].get("ret"):
            v = regd.get(ln["act"]["top"], 0)
            if any(k[0] == v for k in open_inv):
                hit("unregistered_while_running")
            if q0 > 0:
                hit("unregistered_while_queued")
            removed.add(v)
            regd[ln["act"]["top"]] = 0
        if ln["a"] == "reg" and ln["act"].get("err") == "" and ln["act"].get("ret"):
            regd[ln["act"]["top"]] = ln["act"]["v"]
        if ln["a"] in ("reg", "unreg") and ln["act"].get("err"):
            hit("registration_errors")
        if ln["a"] == "burst":
            hit("burst")
        if ln["x"].get("parked") and ln["x"]["g"] > 0 and not any(1 for k in open_inv if k[0] in asyncv):
            hit("backlog_event_loop_parked")
        if ln["x"].get("pen"):
            hit("penalty_counters_observed")
        for e in ln["ev"]:
            k, m, v = e["k"], e["m"], e["v"]
            if k == "Arr":
                qocc += 1
            elif k in ("Dup", "Val") or (k == "Rej" and e["why"] in ("Q", "S")):
                if not e["loc"]:
                    qocc -= 1
            if k == "Val":
                validated.add(m)
                if m in qf_ids:
                    hit("queue_full_resend_validated")
                if solo and q0 == 0 and ntaken:
                    pass
            if k == "Dup" and m in thr_ids:
                hit("throttled_resend_duplicate")
            if k == "Rej" and e["why"] == "Q":
                qf_ids.add(m)
                if solo and q0 == cfg["qcap"]:
                    hit("queue_full_exactly_at_capacity")
            if k == "Rej" and e["why"] == "T" and not e["loc"]:
                thr_ids.add(m)
                final[m] = "T"
            if k == "Enter":
                open_inv[(v, m, e["loc"])] = e
                if e["loc"]:
                    if q0 >= cfg["qcap"] or len(holders0) >= cfg["gthr"]:
                        hit("local_publish_while_saturated")
                    continue
                if v in removed:
                    pass
                if v in asyncv:
                    if solo and len(holders0) == cfg["gthr"] - 1:
                        hit("global_token_reused" if ntaken >= cfg["gthr"] else "global_kth_served")
                    if solo and vopen0.get(v, 0) == vc[v]["thr"] - 1 and ntaken >= vc[v]["thr"]:
                        hit("validator_token_reused")
                    ntaken += 1
                    if v == regd.get("T2" if m.startswith("n") else "T1") and v == 4:
                        hit("new_validator_used")
                    other = [x for x in asyncv if x != v and vopen0.get(x, 0) >= vc[x]["thr"] and vc[x]["top"] in ("T1", "T2")]
                    if other:
                        hit("other_topic_served_while_validator_saturated")
                else:
                    inl_open = sum(1 for (vv, mm, ll) in open_inv if vv not in asyncv and not ll)
                    if inl_open == cfg["nw"]:
                        hit("all_workers_inside_inline_validators")
                    if inl_open >= 2:
                        hit("two_workers_concurrent")
                    if v == 4:
                        hit("new_validator_used")
                if e["dl"] < 0 and ln["a"] != "adv":
                    pass
            if k == "Ctx":
                if e["how"] == "deadline":
                    hit("deadline_async" if v in asyncv else "deadline_inline")
                if e["how"] == "cancel":
                    hit("ended_by_cancel")
                    if vc[v]["tmo"]:
                        hit("sibling_with_timeout_cancelled_on_reject")
            if k == "Exit":
                ent = open_inv.pop((v, m, e["loc"]), None)
                if e["loc"]:
                    continue
                if e["how"] == "deadline":
                    hit("ended_by_deadline")
                if e["how"] == "gate" and ent is not None and vc[v]["tmo"] and e["t"] > ent["t"] + vc[v]["tmo"]:
                    hit("deadline_ignored_late_verdict_counts")
                if e["how"] == "gate" and ent is not None and not vc[v]["tmo"] and e["t"] > ent["t"] + 2 * TMO - 5000:
                    hit("no_deadline_without_option")
                if e["r"] not in (0, 1, 2) and v in asyncv:
                    hit("ended_out_of_range")
            if k == "Dlv" and not e["loc"]:
                final[m] = "A"
                if any(x in asyncv for x in vc):
                    hit("ended_accept")
            if k == "Rej" and e["why"] in ("R", "I") and not e["loc"]:
                final[m] = e["why"]
                hit("ended_reject" if e["why"] == "R" else "ended_ignore")
        if solo and ln["ev"] and len(ln["ev"]) == 1 and ln["ev"][0]["k"] == "Arr" and q0 == cfg["qcap"] - 1 and qf_ids:
            hit("queue_slot_reused_after_take")
        if solo:
            # the throttle decision for the message of this step is taken in this step (the outcome may be traced later)
            m = ln["act"]["m"]
            if any(e["k"] == "Val" and e["m"] == m for e in ln["ev"]):
                top_v = regd_before["T2" if m.startswith("n") else "T1"]
                appl = [x for x, c in vc.items() if c["top"] == "D"] + ([top_v] if top_v else [])
                av = [x for x in appl if x in asyncv]
                ent = {e["v"] for e in ln["ev"] if e["k"] == "Enter" and e["m"] == m and not e["loc"]}
                inl_pending = any(x not in asyncv and (x, m, False) in open_inv for x in appl)
                rejT = any(e["k"] == "Rej" and e["m"] == m and e["why"] == "T" for e in ln["ev"])
                skipped = [x for x in av if x not in ent]
                if av and not inl_pending and skipped and (rejT or ent & set(av)):
                    exhausted = [x for x in skipped if vopen0.get(x, 0) == vc[x]["thr"]]
                    if not (ent & set(av)) and len(holders0) == cfg["gthr"] and not exhausted:
                        hit("global_throttle_exactly_at_capacity")
                    if len(holders0) < cfg["gthr"] and exhausted:
                        hit("validator_throttle_exactly_at_capacity_single" if len(av) == 1 else "validator_throttle_exactly_at_capacity_multi")
                        hit("ended_throttled_by_validator")
                        if any(all(mm in final0 for (vv, mm, ll) in open0 if vv == x and not ll) for x in exhausted):
                            hit("orphan_holds_validator_token")
    if s["name"].startswith("churn") and ntaken >= 4 * cfg["gthr"]:
        hit("churn_many_times_capacity")


# =============================================================================================== the check

def run(ctx):
    T = ctx.thorough
    rng = random.Random(ctx.seed * 7919 + 10)
    pool = cf.ThreadPoolExecutor(max_workers=4)
    dev_skip_mc = os.environ.get("VERIF_X10_DEV_SKIP_MC") == "1"      # development aid only (never set by a registered command)
    mc_futs = run_mc(ctx, T, pool) if not dev_skip_mc else []
    build_fut = pool.submit(build_driver, ctx)
    st_self = selftest(ctx)

    # ---- scenarios: exhaustive for a tiny universe, seeded simulation for the large one, directed boundary schedules
    # (every stimulus sequence up to the bound is replayed: 1 configuration x length 3 at quick, 2 x length 4 at thorough)
    tiny = [(1, 1, 1, ("-", "T1", "T2", "-"), (3,), (1, 1, 1, 1), (), (), "I"),
            (1, 1, 2, ("-", "T1", "T2", "-"), (), (1, 1, 1, 1), (2,), (), "I")]
    raw_bfs, tr_bfs, _ = run_gen(ctx, rng, tiny[:1] if not T else tiny, "gen-bfs", walks=None, L=3 if not T else 4, min_emit=1, ids=("m1", "m2", "n1"),
                                 t2=("n1",), blockers=(), maxw=1, copies=2, verdicts=("A", "R"), tick=2, bursts=[("m1", "m2")])
    raw_sim, tr_sim, _ = run_gen(ctx, rng, gen_cfg_records(rng, 14 if not T else 40), "gen-sim", walks=350 if not T else 4000, L=12 if not T else 14)
    if T:
        raw2, t2_, _ = run_gen(ctx, rng, gen_cfg_records(rng, 30), "gen-sim-short", walks=3000, L=8, min_emit=3)
        raw_sim += raw2
        tr_sim += t2_
    if not raw_bfs or not raw_sim:
        raise vlib.Inconclusive("GenValBounds emitted nothing")
    raw_bfs.sort(key=lambda s: json.dumps(s, sort_keys=True))
    raw_sim.sort(key=lambda s: json.dumps(s, sort_keys=True))
    lim_bfs, lim_sim = (600, 260) if not T else (9000, 2400)
    ch_bfs, n_bfs, _ = select(raw_bfs, rng, lim_bfs)
    exhaustive_bfs = n_bfs <= lim_bfs
    ch_sim, n_sim, n_classes = select(raw_sim, rng, lim_sim)
    scns = []
    for name, c, acts in directed(T):
        scns.append({"name": name, "cfg": c, "acts": acts, "exp": None})
        if T and not name.startswith(("backlog", "churn")):
            c2 = dict(c, router="gossipsub" if c["router"] == "floodsub" else "floodsub", drain=A)
            scns.append({"name": name, "cfg": c2, "acts": acts, "exp": None})
    n_dir = len(scns)
    for s in ch_bfs + ch_sim:
        c, acts = from_model(s, rng)
        scns.append({"name": "gen", "cfg": c, "acts": acts, "exp": s["exp"]})
    ctx.log("x10: %d directed + %d generated scenarios (bfs: %d distinct%s; simulation: %d distinct in %d classes)" %
            (n_dir, len(scns) - n_dir, n_bfs, " = all" if exhaustive_bfs else "", n_sim, n_classes))

    # ---- replay on the real node
    binp = build_fut.result()
    by_scn, dead = replay(ctx, binp, scns)
    opt_out = os.path.join(ctx.work, "options.ndjson")
    ro = run_bin(ctx, binp, "TestX10Options", {"VERIF_OUT": opt_out}, "options", timeout=300)
    if ro["rc"] != 0 or not os.path.exists(opt_out):
        raise vlib.Inconclusive("driver TestX10Options failed (rc=%s, see %s)" % (ro["rc"], ro["log"]))
    opt_lines = vlib.read_ndjson(opt_out)
    for sid, lib_panic, log, _, tail in dead:
        if lib_panic:
            vlib.add_violation(ctx, "P_X10_NoPanic", {"kind": "panic", "panic": tail[:80]},
                               "library panic while replaying scenario %d (%s): %s" % (sid, scns[sid]["name"], tail[:160]),
                               {"scenario": scns[sid], "log": log})
        else:
            raise vlib.Inconclusive("X10 driver died in scenario %d (%s) and the scenario alone does not reproduce a library panic (see %s)" %
                                    (sid, scns[sid]["name"], log))
    traces, missing = [], []
    for i, s in enumerate(scns):
        tr = by_scn.get(i)
        if not tr or tr[0]["a"] != "reset":
            if not any(d[0] == i for d in dead):
                missing.append(i)
            continue
        traces.append((i, tr))
    if missing:
        raise vlib.Inconclusive("the driver recorded nothing for scenarios %s" % missing[:10])
    nlines = sum(len(tr) for _, tr in traces)
    ctx.log("x10: replayed %d scenarios, %d step lines, %d option probes" % (len(traces), nlines, len(opt_lines)))

    # ---- trace validation by TLC
    viols, st_tv = validate(ctx, [tr for _, tr in traces] + [opt_lines], "tv")
    hits, drifts, nontrivial, aborted, compared = {}, [], set(), 0, 0
    for i, tr in traces:
        s = scns[i]
        coverage_hits(s, tr, hits)
        if tr[-1]["a"] == "abort":
            aborted += 1
        kinds = {(e["k"], e["why"]) for ln in tr[1:] for e in ln["ev"] if e["k"] in ("Rej", "Dlv")}
        if len(kinds) >= 2:
            nontrivial.add(json.dumps([s["cfg"], s["acts"]], sort_keys=True))
        d = drift(s, tr)
        if d:
            drifts.append((s, d))
        if s.get("exp") and not s["exp"].get("racy") and s["exp"].get("drained"):
            compared += 1

    mst, mtr, mc_info = join_mc(ctx, mc_futs)
    pool.shutdown()
    ctx.log("x10: model checked %s" % mc_info)

    # ---- verdicts
    by_sig, nsig = {}, {}
    for v in viols:
        if v["pred"] == "P_X10g_Options":
            info = v["info"]
            sig = {"kind": "option", "opt": info.get("opt"), "n": "nonpositive" if isinstance(info.get("n"), int) and info["n"] <= 0 else "positive",
                   "how": "panic" if info.get("panic") else ("accepted" if not info.get("err") else "refused")}
            name = "options"
            s = None
        else:
            s = scns[v["scn"]]
            sig = {"what": v["what"]}
            name = s["name"]
        k = (v["pred"], json.dumps(sig, sort_keys=True))
        nsig[k] = nsig.get(k, set()) | {v["scn"]}
        if k not in by_sig or (s is not None and by_sig[k][2] is not None and len(s["acts"]) < len(by_sig[k][2]["acts"])):
            by_sig[k] = (v, sig, s, name)
    for k, (v, sig, s, name) in sorted(by_sig.items()):
        if s is None:
            vlib.add_violation(ctx, v["pred"], sig, "%s: %s; %s" % (v["pred"], v["what"], json.dumps(v["info"], sort_keys=True)),
                               {"driver": "TestX10Options", "viol": v})
        else:
            vlib.add_violation(ctx, v["pred"], sig, "%s: message %s at step %s: %s; %s; in %d recorded scenario(s), shortest: %s cfg=%s acts=%s" %
                               (v["pred"], v["m"], v["step"], v["what"], json.dumps(v["info"], sort_keys=True), len(nsig[k]), name,
                                json.dumps(s["cfg"], sort_keys=True), json.dumps(s["acts"])[:1500]),
                               {"driver": "TestX10Replay", "scenario": {"name": name, "cfg": s["cfg"], "acts": s["acts"]},
                                "trace": by_scn.get(v["scn"]), "viol": v})
    if viols:
        ctx.log("x10: %d predicate failures in %d scenarios (%d distinct signatures)" % (len(viols), len({v["scn"] for v in viols}), len(by_sig)))
    n_gen = len(scns) - n_dir
    if drifts:
        ex = drifts[0]
        ctx.notes.append("MODEL-DRIFT x10: %d of %d generated scenarios ended differently from GenValBounds' prediction, e.g. %s in acts=%s cfg=%s" %
                         (len(drifts), n_gen, ex[1][:3], json.dumps(ex[0]["acts"]), json.dumps(ex[0]["cfg"], sort_keys=True)))
    findings = vlib.load_findings(ctx.pid)
    real_viol = [v for v in ctx.violations if not any(vlib.sig_matches(f, v) for f in findings)]
    miss = [o for o in OBLIGATIONS if not hits.get(o)]
    if miss and not real_viol:
        raise vlib.Inconclusive("x10: coverage obligations not met by validated real steps: %s" % miss)
    if n_gen and len(drifts) > max(3, n_gen // 10) and not real_viol:
        raise vlib.Inconclusive("x10: the real node disagrees with GenValBounds' prediction in %d of %d generated scenarios although no predicate "
                                "failed (model or driver out of step): %s" % (len(drifts), n_gen, drifts[0][1][:3]))
    mid = traces[len(traces) // 2]
    samples = [{"scenario": {"name": scns[i]["name"], "cfg": scns[i]["cfg"], "acts": scns[i]["acts"][:14]},
                "trace": [{"a": ln["a"], "x": ln.get("x"), "ev": [{k: v for k, v in e.items() if v not in ("", 0, -1, False)} for e in ln.get("ev", [])]} for ln in tr[1:8]]}
               for i, tr in (traces[0], mid)]
    cov = {"states": mst + st_self + st_tv, "transitions": mtr + tr_bfs + tr_sim + st_tv, "traces_validated_against_impl": len(traces),
           "samples": samples, "evaluations": len(traces) * len(PREDS) + len(opt_lines), "distinct_nontrivial": len(nontrivial),
           "rule": "scenario = pipeline configuration (queue size, workers, global throttle, validators with their own concurrency / timeout / inline flag) "
                   "+ stimulus sequence (copies, bursts, gate releases with verdicts, ticks of virtual time, worker blockers, (un)registrations, local "
                   "publishes) emitted by GenValBounds (all sequences up to the bound for a tiny universe, stratified seeded simulation for the large one) "
                   "or directed; one evaluation = one predicate on one recorded scenario; non-trivial = at least two different outcomes traced; "
                   "distinct by (configuration, stimulus sequence)",
           "exhaustive": False, "exhaustive_tiny_universe": exhaustive_bfs, "mc": mc_info, "generated": n_gen, "directed": n_dir,
           "step_lines": nlines, "option_probes": len(opt_lines), "drift": len(drifts), "drift_compared": compared, "aborted_scenarios": aborted,
           "predicates": PREDS, "obligations_detail": {o: hits.get(o, 0) for o in OBLIGATIONS}, "other_hits": {k: v for k, v in hits.items() if k not in OBLIGATIONS}}
    return vlib.finish(ctx, LEVEL, cov, ASSUMPTIONS)


def drift(s, tr):
    """Differences between what the real node did and what GenValBounds predicted (conformance; never a verdict)."""
    e = s.get("exp")
    if not e or e.get("racy") or not e.get("drained"):
        return []
    fin, cnt = {}, {"dup": {}, "qf": {}, "val": {}}
    for ln in tr[1:]:
        if ln["a"] in ("drain",):
            break
        for x in ln["ev"]:
            if x["loc"] or x["tp"] == "B":
                continue
            if x["k"] == "Dlv":
                fin.setdefault(x["m"], []).append("A")
            elif x["k"] == "Rej" and x["why"] in ("R", "I", "T"):
                fin.setdefault(x["m"], []).append(x["why"])
            elif x["k"] == "Rej" and x["why"] == "Q":
                cnt["qf"][x["m"]] = cnt["qf"].get(x["m"], 0) + 1
            elif x["k"] == "Dup":
                cnt["dup"][x["m"]] = cnt["dup"].get(x["m"], 0) + 1
            elif x["k"] == "Val":
                cnt["val"][x["m"]] = cnt["val"].get(x["m"], 0) + 1
    out = []
    for m, f in e["fin"].items():
        if list(f) != fin.get(m, []):
            out.append("outcome(%s): model %s, node %s" % (m, list(f), fin.get(m, [])))
    for k in ("dup", "qf", "val"):
        for m, n in e[k].items():
            if n != cnt[k].get(m, 0):
                out.append("%s(%s): model %d, node %d" % (k, m, n, cnt[k].get(m, 0)))
    return out
