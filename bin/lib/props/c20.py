"""C20 - the sequence-number validator never accepts a replay.

spec/seqno: Seqno (validate() at RW-lock / store-access grain, both a textbook RW lock and sync.RWMutex;
exhaustive MC incl. a config without the re-check that MUST fail), GenSeqno (every interleaving of the
harness-controllable steps, hidden steps run to quiescence), SeqnoTrace (MonSpec: the predicates of C20 on
the real sequence of Put/verdicts; TraceSpec: conformance of the real runs with Seqno's actions),
SeqnoNode (the validator inside real nodes: replays after seen-cache expiry).

Pipeline: MC -> Gen -> Go replay on the PUBLIC validator (harness/drivers/c20) -> TLC evaluates the predicates and
validates conformance -> coverage obligations -> vlib.finish."""
import concurrent.futures as cf
import json, os, random, re
from .. import vlib

LEVEL = "model_checking"
FAMILY = "seqno"
MAXU64 = "18446744073709551615"
# rank -> real sequence number (order preserving; rank 3 is always 2^64-1)
TABLES = [["0", "1", "2", MAXU64],
          ["0", "1", "9223372036854775808", MAXU64],
          ["0", "255", "256", MAXU64]]
SKIP = ("summary", "diverged", "note", "stuck")


def consts(init, recheck=True, golock=True, ncalls=3, seqnos=(0, 1, 2, 3)):
    return {"Authors": {1, 2}, "NCalls": ncalls, "Seqnos": set(seqnos), "InitNonces": set(init),
            "RecheckUnderWriteLock": recheck, "GoLock": golock}


MC_INV = ["TypeOK", "LockOK", "HiddenEnabledOK", "P_C20_Increasing", "P_C20_Nonce", "P_C20_Verdict"]
MC_PROP = ["P_C20_NonceMonotone", "P_C20_Returns"]


def model_check(ctx):
    init = (0, 1) if ctx.thorough else (0,)
    jobs = [("mc-rw", consts(init, golock=False), 3, False),
            ("mc-go", consts(init, golock=True), 3, False),
            ("mc-norecheck", consts(init, recheck=False, golock=True), 2, True)]
    if ctx.thorough:
        # four concurrent calls: safety only (the liveness graph of 1.3M states is the long pole)
        jobs.append(("mc-go4", consts((0,), golock=True, ncalls=4, seqnos=(0, 1, 2)), 4, False))

    def one(job):
        name, c, workers, _ = job
        props = MC_PROP if c["NCalls"] <= 3 else MC_PROP[:1]
        cfg = vlib.cfg_text(constants=c, invariants=MC_INV, properties=props, deadlock=True)
        return vlib.run_tlc(ctx, FAMILY, "Seqno", cfg, timeout=1500, name=name, workers=workers)

    with cf.ThreadPoolExecutor(max_workers=len(jobs)) as ex:
        results = list(ex.map(one, jobs))
    states = transitions = 0
    info = {}
    for (name, c, _, must_fail), res in zip(jobs, results):
        if must_fail:
            # non-vacuity: without the re-check under the write lock the model must accept a replay
            vlib.require_mc_fails(ctx, res, "Seqno (RecheckUnderWriteLock=FALSE)", "P_C20_Increasing")
            info[name] = "fails P_C20_Increasing as required"
        else:
            vlib.require_mc_ok(ctx, res, "Seqno %s" % name)
            states += res.distinct
            transitions += res.generated
            info[name] = [res.distinct, res.generated]
    ctx.log("model checking: %s" % info)
    return states, transitions, info


def generate(ctx):
    """All interleavings of the controllable steps; thorough adds a stored initial nonce and four calls of one author."""
    init = (0, 1) if ctx.thorough else (0,)
    plans = [("gen", consts(init), None)]
    if ctx.thorough:
        c4 = consts((0,), ncalls=4, seqnos=(1, 2, 3))
        c4["Authors"] = {1}
        plans.append(("gen4", c4, 20000))
    scns, st, tr = [], 0, 0
    for name, c, limit in plans:
        cfg = vlib.cfg_text(spec="GenSpec", constants=c, invariants=["Emit"])
        g = vlib.run_tlc(ctx, FAMILY, "GenSeqno", cfg, timeout=1500, name=name, heap="12g")
        vlib.require_mc_ok(ctx, g, "GenSeqno " + name)
        seen, got = set(), []
        for sc in g.printed("SCN"):
            k = json.dumps(sc, sort_keys=True)
            if k not in seen:
                seen.add(k)
                got.append(sc)
        if not got:
            raise vlib.Inconclusive("generator %s emitted nothing" % name)
        if limit and len(got) > limit:
            random.Random(ctx.seed).shuffle(got)
            got = got[:limit]
        for sc in got:
            if len(sc["init"]) < 2:
                sc["init"] = list(sc["init"]) + [0] * (2 - len(sc["init"]))
        scns += got
        st += g.distinct
        tr += g.generated
    return scns, st, tr


def split(lines):
    scns, cur = [], None
    for ln in lines:
        if ln.get("e") == "reset":
            cur = [ln]
            scns.append(cur)
        elif cur is not None:
            cur.append(ln)
    return scns


def monitor(ctx, scenarios, ncalls, chunk=5000, name="mon"):
    """Run MonSpec over the scenarios (lists of lines); returns [(scenario index, line offset, pred, why)], states."""
    cfg = vlib.cfg_text(spec="MonSpec", constants={"NCalls": ncalls}, constraint="HW", postcondition="MonDone")
    chunks = [list(range(i, min(i + chunk, len(scenarios)))) for i in range(0, len(scenarios), chunk)]

    def do(idx):
        lines, owner = [], []
        for i in idx:
            for k, ln in enumerate(scenarios[i]):
                lines.append(ln)
                owner.append((i, k))
        path = os.path.join(ctx.work, "%s-chunk-%d.ndjson" % (name, idx[0]))
        vlib.write_ndjson(path, lines)
        res = vlib.run_tlc(ctx, FAMILY, "SeqnoTrace", cfg, mode="trace", files={"trace.ndjson": path}, timeout=900,
                           name="%s-%d" % (name, idx[0]), heap="3g")
        if res.hw is None or res.hw[0] < res.hw[1]:
            raise vlib.Inconclusive("monitor did not reach the end of the trace (see %s/tlc.out): %s" % (res.dir, res.errors[:2]))
        out = set()
        for v in res.printed("VIOL"):
            i, k = owner[v["l"] - 1]
            out.add((i, k, v["p"], v["why"]))
        return sorted(out), res.distinct

    viols, states = [], 0
    with cf.ThreadPoolExecutor(max_workers=max(1, min(vlib.NCPU // 2, 8, len(chunks)))) as ex:
        for v, st in ex.map(do, chunks):
            viols += v
            states += st
    return viols, states


def classify(sc):
    """Which situations of interest a (conforming) real run went through."""
    hits = set()
    calls = sc[0]["calls"]
    seq = {i + 1: c["s"] for i, c in enumerate(calls)}
    top = 3
    g1, put_by, puts_per_author, retv = {}, set(), {}, {}
    put_seen_before_start = {}
    nputs = 0
    for e in sc[1:]:
        k = e.get("e")
        if k == "start":
            put_seen_before_start[e["c"]] = nputs
        elif k == "get" and e["k"] == 1:
            g1[e["c"]] = e["v"]
        elif k == "get" and e["k"] == 2:
            c = e["c"]
            if seq[c] <= e["v"] and seq[c] > g1.get(c, 99):
                # passed the optimistic check, stopped only by the re-check under the write lock
                hits.add("recheck-prevents-double-accept")
                hits.add("recheck-equal-seqnos" if seq[c] == e["v"] else "recheck-decreasing-seqnos")
        elif k == "put":
            nputs += 1
            put_by.add(e["c"])
            puts_per_author.setdefault(e["a"], []).append(e["v"])
            if e["v"] == top:
                hits.add("max-accepted")
        elif k == "ret":
            c = e["c"]
            retv[c] = e["r"]
            if seq[c] == 0 and e["r"] == "ignore":
                hits.add("seqno-zero-ignored")
            if e["r"] == "ignore" and c not in put_by and seq[c] <= g1.get(c, -1):
                hits.add("ignored-at-optimistic-check")
                if g1.get(c) == top:
                    hits.add("ignored-after-max")
                if seq[c] == g1.get(c) and seq[c] > 0:
                    hits.add("sequential-equal-replay-ignored")
        elif k == "q":
            for p in e["pos"]:
                if p in ("rb", "wb"):
                    hits.add("parked-" + p)
    for a, vs in puts_per_author.items():
        if len(vs) >= 2:
            hits.add("two-accepts-one-author")
    if len(puts_per_author) >= 2:
        hits.add("accepts-for-two-authors")
    if len([c for c in seq if seq[c] > 0]) >= 2 and len({calls[c - 1]["a"] for c in seq}) == 1 and len(set(seq.values())) < len(seq):
        hits.add("duplicate-seqnos-one-author")
    return hits

# ----------------------------------------------------------------------------- the validator inside a node

def node_phase(ctx):
    """P_C20_NoReplayDelivery: real node(s) with the validator as default validator, a small seen-cache TTL, replays after expiry."""
    L = 4 if ctx.thorough else 3
    cfg = vlib.cfg_text(constants={"Authors": {1, 2}, "Seqnos": {0, 1, 2, 3}, "L": L, "Bursts": True},
                        invariants=["P_C20_NoReplayDelivery", "Emit"], properties=["P_C20_NodeNonceMonotone"])
    g = vlib.run_tlc(ctx, FAMILY, "SeqnoNode", cfg, timeout=1200, name="node-gen", workers=4, heap="8g")
    vlib.require_mc_ok(ctx, g, "SeqnoNode")
    allscn = g.printed("SCN")
    if not allscn:
        raise vlib.Inconclusive("SeqnoNode emitted no scenario")
    rng = random.Random(ctx.seed)
    rng.shuffle(allscn)

    def replay_after_expiry(sc):
        exp = False
        for st in sc["steps"]:
            if st["op"] == "expire":
                exp = True
            elif exp and st["exp"] == "ignored" and st["s"] > 0:
                return True
        return False

    want = 1200 if ctx.thorough else 160

    def pick(pred, n, taken):
        got = [i for i, x in enumerate(allscn) if i not in taken and pred(x)][:n]
        taken.update(got)
        return got

    taken = set()
    a = pick(replay_after_expiry, want // 2, taken)
    b = pick(lambda x: any(st["op"] == "burst" for st in x["steps"]), want // 4, taken)
    c = pick(lambda x: any(st["exp"] == "dup" for st in x["steps"]), want // 16, taken)
    d = pick(lambda x: any(st["op"] == "inj" and st["s"] == 0 for st in x["steps"]), want // 16, taken)
    rest = pick(lambda x: True, want - len(a) - len(b) - len(c) - len(d), taken)
    sel = [allscn[i] for i in a + b + c + d + rest]
    for i, sc in enumerate(sel):
        sc["router"] = "gossipsub" if i % 2 == 0 else "floodsub"
        sc["topicval"] = (i // 2) % 2 == 1
        sc["inline"] = (i // 4) % 2 == 1
        # the accepting topic validator inline too: with "inline" the seqno validator is the FIRST of two inline
        # validators and its Ignore must survive the later Accept (seeded C20-c2)
        sc["topicinline"] = sc["topicval"] and (i // 8) % 2 == 1
        sc["vals"] = TABLES[0] if i % 3 else TABLES[1]
        for st in sc["steps"]:
            st.pop("exp", None)
    return node_run(ctx, sel, {"states": g.distinct, "transitions": g.generated, "generated": len(allscn), "L": L})


def node_driver(ctx, sel, name):
    scn_file = os.path.join(ctx.work, name + "-scenarios.ndjson")
    vlib.write_ndjson(scn_file, sel)
    outp = os.path.join(ctx.work, name + ".ndjson")
    marker = os.path.join(ctx.work, name + ".marker")
    for f in (outp, marker):
        if os.path.exists(f):
            os.remove(f)
    r = vlib.run_go(ctx, "./drivers/c20/", "^TestC20Node$", env={"VERIF_IN": scn_file, "VERIF_OUT": outp, "VERIF_MARKER": marker},
                    timeout=1500, name=name)
    return r, outp, marker


def node_run(ctx, sel, info, need_coverage=True):
    r, outp, marker = node_driver(ctx, sel, "TestC20Node")
    if r["rc"] != 0 and "panic:" in r["out"] and os.path.exists(marker):
        # a panic in a library goroutine kills the driver: a violation only if that scenario alone reproduces it in library code
        idx = int(open(marker).read().strip() or 0)
        r1, _, _ = node_driver(ctx, [sel[idx]], "TestC20Node-single")
        m = re.search(r"^panic: (.*)$", r1["out"], re.M)
        if r1["rc"] != 0 and m and "go-libp2p-pubsub." in r1["out"]:
            vlib.add_violation(ctx, "P_C20_Total", {"driver": "TestC20Node", "why": "panic-in-node", "msg": re.sub(r"\d+", "N", m.group(1))[:120]},
                               "the node died while validating node scenario %d: panic: %s (see %s)" % (idx, m.group(1)[:200], r1["log"]),
                               {"driver": "TestC20Node", "scenario": sel[idx]})
            return dict(info, scenarios=0, stimuli=0, non_conforming=0, hits={}, sample=[], died=True)
        raise vlib.Inconclusive("driver TestC20Node died and the crash was not reproduced by scenario %d alone (see %s)" % (idx, r["log"]))
    if r["rc"] != 0 or not os.path.exists(outp):
        raise vlib.Inconclusive("driver TestC20Node failed (rc=%s, see %s)" % (r["rc"], r["log"]))
    raw = vlib.read_ndjson(outp)
    if not any(l.get("e") == "summary" for l in raw):
        raise vlib.Inconclusive("driver TestC20Node wrote no summary (see %s)" % r["log"])
    lines = [l for l in raw if l.get("e") != "summary"]
    path = os.path.join(ctx.work, "node-trace.ndjson")
    vlib.write_ndjson(path, lines)
    tcfg = vlib.cfg_text(spec="NodeSpec", postcondition="Done")
    res = vlib.run_tlc(ctx, FAMILY, "SeqnoNodeTrace", tcfg, mode="trace", files={"trace.ndjson": path}, timeout=900, name="node-tv", heap="2g")
    if res.hw is None or res.hw[0] < res.hw[1]:
        raise vlib.Inconclusive("node trace monitor did not reach the end (see %s/tlc.out): %s" % (res.dir, res.errors[:2]))
    scn_of, cur = [], -1
    for l in lines:
        if l["e"] == "reset":
            cur = l["sc"]
        scn_of.append(cur)

    def payload(sc):
        return {"driver": "TestC20Node", "scenario": sel[sc], "trace": [l for l, o in zip(lines, scn_of) if o == sc]}

    seen = set()
    for v in res.printed("VIOL"):
        k = (v["sc"], v["l"], v["p"], v["why"])
        if k in seen:
            continue
        seen.add(k)
        ln = lines[v["l"] - 1]
        vlib.add_violation(ctx, v["p"], {"driver": "TestC20Node", "why": v["why"]},
                           "%s (%s) in node scenario %d (%s%s): %s" % (v["p"], v["why"], v["sc"], sel[v["sc"]]["router"],
                           (", with a topic validator" if sel[v["sc"]]["topicval"] else "") + (", inline" if sel[v["sc"]]["inline"] else ""),
                           json.dumps(ln)), payload(v["sc"]))
    drift_scn = {}
    for v in res.printed("DRIFT"):
        drift_scn.setdefault(v["sc"], (v["l"], v["why"]))
    for sc, (l, why) in list(sorted(drift_scn.items()))[:4]:
        ctx.notes.append("MODEL-DRIFT: node scenario %d (%s): %s at %s" % (sc, sel[sc]["router"], why, json.dumps(lines[l - 1])))
    if len(drift_scn) > 4:
        ctx.notes.append("MODEL-DRIFT: %d further node scenarios do not conform" % (len(drift_scn) - 4))

    # coverage on conforming scenarios: a replay that reached the validator after the seen cache forgot it, and was ignored
    hits = {}
    expired, hi, router, tv, inl = False, {}, "", False, False
    two_inline = False
    for l, sc in zip(lines, scn_of):
        if sc in drift_scn:
            continue
        e = l["e"]
        if e == "reset":
            expired, hi, router, tv, inl = False, {}, l["router"], l["topicval"], l.get("inline", False)
            two_inline = bool(inl and tv and l.get("topicinline", False))
        elif e == "expire":
            expired = True
        elif e == "inj":
            if l["deliv"]:
                hi[l["a"]] = max(hi.get(l["a"], 0), l["s"])
                hits["delivered-and-forwarded"] = hits.get("delivered-and-forwarded", 0) + 1
            elif l["dup"] and not l["val"]:
                hits["duplicate-inside-seen-window"] = hits.get("duplicate-inside-seen-window", 0) + 1
            elif l["val"] and l["rej"] == ["validation ignored"]:
                if expired and 0 < l["s"] <= hi.get(l["a"], 0):
                    for k in ("replay-after-expiry-ignored", "replay-after-expiry-ignored-" + router) + (("replay-after-expiry-ignored-topicval",) if tv else ()) + \
                            (("replay-after-expiry-ignored-inline",) if inl else ("replay-after-expiry-ignored-async",)) + \
                            (("replay-after-expiry-ignored-two-inline",) if two_inline else ()):
                        hits[k] = hits.get(k, 0) + 1
                    if l["s"] == 3:
                        hits["replay-of-max-after-expiry"] = hits.get("replay-of-max-after-expiry", 0) + 1
                elif l["s"] == 0:
                    hits["seqno-zero-ignored-in-node"] = hits.get("seqno-zero-ignored-in-node", 0) + 1
                else:
                    hits["stale-seqno-ignored-in-node"] = hits.get("stale-seqno-ignored-in-node", 0) + 1
        elif e == "burst":
            hits["burst"] = hits.get("burst", 0) + 1
            for o, sq in ((l["o1"], l["s"]), (l["o2"], l["s2"])):
                if o["deliv"]:
                    hi[l["a"]] = max(hi.get(l["a"], 0), sq)
            if l["o2"]["deliv"] and l["o1"]["rej"] == ["validation ignored"] and l["o1"]["val"]:
                hits["burst-lower-lost-against-higher"] = hits.get("burst-lower-lost-against-higher", 0) + 1
    need = ["replay-after-expiry-ignored", "replay-after-expiry-ignored-gossipsub", "replay-after-expiry-ignored-floodsub",
            "replay-after-expiry-ignored-topicval", "replay-after-expiry-ignored-inline", "replay-after-expiry-ignored-async",
            "replay-after-expiry-ignored-two-inline", "duplicate-inside-seen-window", "delivered-and-forwarded", "burst",
            "seqno-zero-ignored-in-node"]
    missing = [n for n in need if not hits.get(n)]
    if need_coverage and missing and not ctx.violations:
        raise vlib.Inconclusive("coverage obligation not met on conforming node runs: %s (non-conforming scenarios: %d)" % (missing, len(drift_scn)))
    ctx.log("node: %d scenarios on real nodes, %d stimuli, %d non-conforming; hits %s" % (len(sel), len(lines) - len(sel), len(drift_scn), hits))
    sample = next((payload(sc)["trace"] for sc in range(len(sel)) if replay_after_expiry_real(payload(sc)["trace"])), lines[:6])
    return dict(info, states=info.get("states", 0) + res.distinct, transitions=info.get("transitions", 0) + res.generated,
                scenarios=len(sel), stimuli=len(lines) - len(sel), non_conforming=len(drift_scn), hits=hits, sample=sample)


def replay_after_expiry_real(tr):
    exp = False
    for l in tr:
        if l["e"] == "expire":
            exp = True
        elif exp and l["e"] == "inj" and l.get("rej") == ["validation ignored"] and l["s"] > 0:
            return True
    return False


NEED = ["recheck-prevents-double-accept", "recheck-equal-seqnos", "recheck-decreasing-seqnos", "seqno-zero-ignored",
        "max-accepted", "ignored-after-max", "ignored-at-optimistic-check", "sequential-equal-replay-ignored",
        "two-accepts-one-author", "accepts-for-two-authors", "parked-rb", "parked-wb"]


def run(ctx):
    phases = os.environ.get("C20_PHASES", "")
    if phases == "node":       # development aid: only the in-node part; never a green verdict
        node = node_phase(ctx)
        for v in ctx.violations:
            print("VIOLATION(partial run) [%s] %s" % (v["pred"], v["detail"]))
        for n in ctx.notes:
            print("NOTE:", n)
        raise vlib.Inconclusive("partial run (C20_PHASES=node): %s" % json.dumps(node["hits"]))
    samples = []
    if ctx.replay:
        states, transitions, mcinfo = 0, 0, "skipped (replay of one recorded case)"
    else:
        states, transitions, mcinfo = model_check(ctx)

    # ---- schedules
    if ctx.replay:
        payload = json.load(open(ctx.replay))
        rp = payload.get("replay") or {}
        drv = rp.get("driver")
        if drv == "TestC20Node":
            node = node_run(ctx, [rp["scenario"]], {}, need_coverage=False)
            return vlib.finish(ctx, LEVEL, {"states": states + node["states"], "transitions": transitions + node["transitions"],
                                            "traces_validated_against_impl": 1, "samples": [{"driver": drv, "trace": node.pop("sample")}],
                                            "evaluations": node["stimuli"], "distinct_nontrivial": 1, "rule": "replay of one node scenario",
                                            "mc": mcinfo, "node": node}, ["replay of %s" % ctx.replay])
        if drv == "TestC20Sched" and "scenario" in rp:
            scns = [rp["scenario"]]
        elif drv == "TestC20Lengths":
            scns = []          # the length sweep is always run below
        else:
            raise vlib.Inconclusive("replay file carries nothing this check can replay")
        exhaustive = False
    else:
        scns, st, tr = generate(ctx)
        states += st
        transitions += tr
        rng = random.Random(ctx.seed)
        rng.shuffle(scns)
        exhaustive = not ctx.thorough      # thorough samples the four-call schedules
        for i, s in enumerate(scns):
            s.pop("exp", None)
            s["vals"] = TABLES[0] if i % 2 == 0 else TABLES[1 + (i // 2 + ctx.seed) % 2]
    scn_file = os.path.join(ctx.work, "schedules.ndjson")
    vlib.write_ndjson(scn_file, scns)
    ncalls = max([len(s["calls"]) for s in scns] + [3])
    ctx.log("%d schedules (all interleavings of the controllable steps for every call configuration)" % len(scns))

    # ---- replay on the real validator
    outp = os.path.join(ctx.work, "TestC20Sched.ndjson")
    r = vlib.run_go(ctx, "./drivers/c20/", "^TestC20Sched$", env={"VERIF_IN": scn_file, "VERIF_OUT": outp,
                    "VERIF_MARKER": os.path.join(ctx.work, "marker")}, timeout=1500)
    if r["rc"] != 0 or not os.path.exists(outp) or os.path.getsize(outp) == 0:
        raise vlib.Inconclusive("driver TestC20Sched failed (rc=%s, see %s)" % (r["rc"], r["log"]))
    raw = vlib.read_ndjson(outp)
    summary = next((l for l in raw if l.get("e") == "summary"), None)
    if summary is None:
        raise vlib.Inconclusive("driver TestC20Sched wrote no summary (see %s)" % r["log"])
    full = split(raw)
    traces = [[l for l in sc if l.get("e") not in SKIP] for sc in full]
    diverged = {i for i, sc in enumerate(full) if any(l.get("e") == "diverged" for l in sc)}
    stuck = [i for i, sc in enumerate(full) if any(l.get("e") == "stuck" for l in sc)]
    ctx.log("replayed %d schedules on the real validator: %d followed exactly, %d diverged, %d wedged, %d timing fallbacks (%.0fs)" %
            (len(full), summary["followed"], len(diverged), len(stuck), summary["timing_fallbacks"], r["wall"]))
    if len(full) != len(scns) and not stuck:
        raise vlib.Inconclusive("driver replayed %d of %d schedules" % (len(full), len(scns)))

    def payload_of(i):
        return {"driver": "TestC20Sched", "scenario": scns[full[i][0]["sc"]], "trace": full[i]}

    # ---- lengths (P_C20_Total)
    lenp = os.path.join(ctx.work, "TestC20Lengths.ndjson")
    r2 = vlib.run_go(ctx, "./drivers/c20/", "^TestC20Lengths$", env={"VERIF_OUT": lenp}, timeout=600)
    if r2["rc"] != 0 or not os.path.exists(lenp) or os.path.getsize(lenp) == 0:
        raise vlib.Inconclusive("driver TestC20Lengths failed (rc=%s, see %s)" % (r2["rc"], r2["log"]))
    lens = vlib.read_ndjson(lenp)

    # ---- the predicates on the real runs (TLC, MonSpec)
    # (the length sweep rides along as one more scenario: one JVM start less)
    lenscn = [{"e": "reset", "sc": 0, "n": 1, "calls": [{"a": 1, "s": 0}], "init": [0, 0]}] + lens
    allv, st = monitor(ctx, traces + [lenscn], ncalls)
    states += st
    transitions += st
    viols = [v for v in allv if v[0] < len(traces)]
    lviols = [v for v in allv if v[0] == len(traces)]
    bad_scn = set()
    for (i, k, pred, why) in viols:
        bad_scn.add(i)
        ln = traces[i][k]
        vlib.add_violation(ctx, pred, {"driver": "TestC20Sched", "why": why, "r": ln.get("r", ""), "msg": ln.get("msg", "")},
                           "%s (%s) at line %d of the run of schedule %d: %s; calls=%s" %
                           (pred, why, k, full[i][0]["sc"], json.dumps(ln), json.dumps(traces[i][0]["calls"])), payload_of(i))
    for (i, k, pred, why) in lviols:
        ln = lens[k - 1]
        vlib.add_violation(ctx, pred, {"driver": "TestC20Lengths", "cls": ln["cls"], "r": ln["r"],
                                       "msg": re.sub(r"\d+", "N", ln.get("msg", ""))},
                           "%s: a %d-byte sequence number (%s, stored nonce %d) -> %s %s" %
                           (pred, ln["n"], ln["hex"] or "empty", ln["pre"], ln["r"], ln.get("msg", "")),
                           {"driver": "TestC20Lengths", "line": ln})
    # a validator that wedged (every remaining call parked on the mutex, nobody in the store): exact observation
    for i in stuck:
        if summary["timing_fallbacks"]:
            raise vlib.Inconclusive("a run wedged but quiescence was assumed by timing; cannot tell")
        vlib.add_violation(ctx, "P_C20_Total", {"driver": "TestC20Sched", "why": "never-returns"},
                           "calls never return: every remaining call is parked on the validator's mutex: %s" %
                           json.dumps([l for l in full[i] if l.get("e") == "stuck"]), payload_of(i))

    # ---- conformance of the real runs with Seqno.tla (TLC, TraceSpec)
    cfg = vlib.cfg_text(spec="TraceSpec", constants={"NCalls": ncalls}, constraint="HW", invariants=["ModelProps"],
                        postcondition="Accepted")
    cand = [i for i in range(len(traces)) if i not in bad_scn and i not in stuck]
    rej, acc, st = vlib.validate_by_cursor(ctx, FAMILY, "SeqnoTrace", cfg, [traces[i] for i in cand], chunk=4000,
                                           max_rejects=4, name="tv", dfs=True)
    states += st
    transitions += st
    rejected = {cand[i] for (i, _, _) in rej}
    for (i, k, inv) in rej[:5]:
        sc = traces[cand[i]]
        ctx.notes.append("MODEL-DRIFT: run of schedule %d is not a behaviour of Seqno.tla at line %d: %s (calls=%s)" %
                         (full[cand[i]][0]["sc"], k, json.dumps(sc[k] if k < len(sc) else None), json.dumps(sc[0]["calls"])))
    if len(rej) > 5:
        ctx.notes.append("MODEL-DRIFT: %d further runs do not conform" % (len(rej) - 5))

    # ---- coverage obligations, measured on real runs that followed their schedule (and conform unless they violate)
    hits, nontrivial = {}, set()
    for i, sc in enumerate(traces):
        if i in rejected or i in diverged:
            continue
        h = classify(sc)
        for x in h:
            hits[x] = hits.get(x, 0) + 1
        if {"accept", "ignore"} <= {e.get("r") for e in sc if e.get("e") == "ret"}:
            nontrivial.add(json.dumps(scns[full[i][0]["sc"]]["steps"], sort_keys=True) + json.dumps(sc[0]["calls"]))
    len_hits = {}
    for ln in lens:
        len_hits[ln["cls"]] = len_hits.get(ln["cls"], 0) + 1
    results_by_len = {}
    for ln in lens:
        results_by_len.setdefault(str(ln["n"]), set()).add(ln["r"])
    missing = [n for n in NEED if not hits.get(n)] + ["len-" + c for c in ("0", "1..7", "8", ">8") if not len_hits.get(c)]
    if not ctx.replay and missing and not ctx.violations:
        raise vlib.Inconclusive("coverage obligation not met on conforming real runs: %s (diverged=%d, non-conforming=%d)" %
                                (missing, len(diverged), len(rej)))
    if traces:
        mid = next((sc for sc in traces if "recheck-prevents-double-accept" in classify(sc)), traces[len(traces) // 2])
        samples.append({"driver": "TestC20Sched", "trace": mid[:30]})
    samples.append({"driver": "TestC20Lengths", "verdict_by_length": {k: sorted(v) for k, v in results_by_len.items()}})

    # ---- the validator inside real nodes (P_C20_NoReplayDelivery)
    node = None
    if not ctx.replay:
        node = node_phase(ctx)
        states += node["states"]
        transitions += node["transitions"]
        samples.append({"driver": "TestC20Node", "trace": node.pop("sample")})

    cov = {"states": states, "transitions": transitions, "traces_validated_against_impl": acc + (node["scenarios"] - node["non_conforming"] if node else 0),
           "samples": samples, "evaluations": len(traces) + len(lens) + (node["stimuli"] if node else 0), "distinct_nontrivial": len(nontrivial),
           "rule": "one evaluation = one TLC-generated schedule (call configuration x interleaving of start/Get1/Get2/Put, hidden steps run to "
                   "quiescence) forced on the real validator and judged by MonSpec, or one wrong-length call, or one stimulus of a node scenario; "
                   "non-trivial = a schedule whose run has at least one accept and one ignore; distinct by (call configuration, schedule)",
           "exhaustive": exhaustive, "schedules": len(scns), "followed_exactly": summary["followed"], "diverged": len(diverged),
           "non_conforming": len(rej), "conforming": acc, "timing_fallbacks": summary["timing_fallbacks"],
           "situation_hits": hits, "length_class_hits": len_hits,
           "verdict_by_length": {k: sorted(v) for k, v in results_by_len.items()}, "mc": mcinfo, "node": node}
    return vlib.finish(ctx, LEVEL, cov, [
        "the PeerMetadataStore does not fail (Get/Put errors are not modelled or injected)",
        "sync.RWMutex behaves as modelled with GoLock=TRUE (a pending writer parks new readers, writers first come first served, Unlock admits all "
        "parked readers first); every generated schedule is nevertheless checked against what really happened, so a different lock policy shows as "
        "divergence, not as a wrong verdict",
        "parking on the mutex is read from runtime.Stack wait reasons (sync.RWMutex.RLock / sync.RWMutex.Lock / sync.Mutex.Lock) of the pinned toolchain",
        "sequence numbers are represented by ranks {0,1,2,3}; the driver maps them order-preservingly to real values (3 = 2^64-1)"])
