"""X02 - dead-peer handling and reconnect backoff (extension family, spec/deadpeer).

Level 1 (the backoff object): Backoff.tla (history-based law + implementation-shaped model, exhaustive MC with five seeded
model defects that MUST fail), GenBackoff (all operation histories up to a bound + seeded simulation of long ones), replay on
the REAL backoff object under virtual time (TestX02Pure), BackoffTrace (the law evaluated on every recorded call).
Level 2 (one real node): DeadPeer.tla (event-loop grain model of announce / open / adopt / death / respawn / ejection;
exhaustive MC of the repaired model, the AS-FOUND model and six seeded defects MUST fail), GenDeadPeer (stimulus sequences by
class + seeded simulation + forced witnesses), replay on a real node with wire-level fake peers (TestX02Node), DeadPeerTrace
(per-peer monitor over router notifications, NewStream attempts, backoff entries and settled snapshots)."""
import hashlib, json, os, random, subprocess, time
import concurrent.futures as cf
from .. import vlib

LEVEL = "model_checking"
FAMILY = "deadpeer"

BO0 = {"has": False, "d": 0, "rem": 0, "att": 0, "last": 0}
TTL, CI, NATT = 600000, 60000, 4


def tla_set(xs):
    return "{" + ", ".join(('"%s"' % x) if isinstance(x, str) else str(x) for x in xs) + "}"


# ----------------------------------------------------------------------------- model checking
BACK_BASE = {"Peers": "{p1, p2}", "p1": "p1", "p2": "p2", "MinDelay": 1, "MaxDelay": 5, "TTL": 2, "Mult": 2, "Jit": 2, "MaxAtt": 3,
             "DevTTLInclusive": False, "DevErrRefresh": False, "DevNoCap": False, "DevCleanEarly": False, "DevJitter": False,
             "MaxCalls": 5, "MaxNow": 4}
BACK_INV = ["TypeOK", "P_X02a_Law", "P_X02a_Bounded", "P_X02a_FirstFree", "P_X02a_Monotone", "P_X02a_AtMostMaxAtt", "P_X02b_Keys"]

NODE_BASE = {"Peers": "{p1}", "p1": "p1", "MinDelay": 1, "MaxDelay": 3, "TTL": 4, "Mult": 2, "Jit": 1, "MaxAtt": 2,
             "DevTTLInclusive": False, "DevErrRefresh": False, "DevNoCap": False, "DevCleanEarly": False, "DevJitter": False,
             "MaxQ": 5, "MaxEnv": 4, "MaxNow": 5, "WatchAtOpen": False, "ReplayAnnounce": True, "DevNoCloseQueue": False, "DevNoConnCheck": False,
             "DevEarlyRespawn": False, "DevNoEject": False, "DevErrKeepsQueue": False, "DevPendingDup": False}
NODE_INV = ["NodeTypeOK", "P_X02f_Alternate", "P_X02f_OneWriter", "P_X02f_Consistent", "P_X02e_Gone", "P_X02e_NoDialDead",
            "P_X02c_NotBefore", "P_X02d_Eject", "P_X02g_Served"]


def back_cfg(**over):
    c = dict(BACK_BASE)
    c.update(over)
    if c["Peers"] == "{p1}":
        c.pop("p2", None)
    return vlib.cfg_text(spec="BSpec", constants=c, invariants=BACK_INV, constraint="Bound")


def node_cfg(invariants=None, liveness=True, **over):
    c = dict(NODE_BASE)
    c.update(over)
    if c["Peers"] == "{p1, p2}":
        c["p2"] = "p2"
    return vlib.cfg_text(spec="Spec", constants=c, invariants=invariants or NODE_INV, view="View",
                         properties=["P_X02g_Settles"] if liveness else [])


def model_checking(ctx):
    jobs = [
        # (name, module, cfg, want, property that must fail, timeout)
        ("mc-backoff", "MCBackoff", back_cfg(), "ok", None, 900),
        ("mc-backoff-cap", "MCBackoff", back_cfg(Peers="{p1}", MaxDelay=6, TTL=3, MaxAtt=7, MaxCalls=8, MaxNow=4), "ok", None, 900),
        ("mc-backoff-seeded-ttl-inclusive", "MCBackoff", back_cfg(DevTTLInclusive=True), "fail", ["P_X02a_Law"], 600),
        ("mc-backoff-seeded-refusal-refreshes", "MCBackoff", back_cfg(DevErrRefresh=True), "fail", ["P_X02a_Law"], 600),
        ("mc-backoff-seeded-no-cap", "MCBackoff", back_cfg(DevNoCap=True, MaxDelay=2, MaxAtt=4), "fail", ["P_X02a_Law", "P_X02a_Bounded"], 600),
        ("mc-backoff-seeded-cleanup-early", "MCBackoff", back_cfg(DevCleanEarly=True), "fail", ["P_X02b_Keys"], 600),
        ("mc-backoff-seeded-jitter-bound", "MCBackoff", back_cfg(DevJitter=True), "fail", ["P_X02a_Law"], 600),
        ("mc-node-repaired", "MCDeadPeer", node_cfg(), "ok", None, 1500),
        ("mc-node-asfound-alternate", "MCDeadPeer", node_cfg(WatchAtOpen=True, liveness=False), "fail", ["P_X02f_Alternate"], 600),
        ("mc-node-asfound-router-leak", "MCDeadPeer", node_cfg(WatchAtOpen=True, liveness=False, invariants=["P_X02f_Consistent"]), "fail",
         ["P_X02f_Consistent"], 600),
        ("mc-node-asfound-lost-announcement", "MCDeadPeer", node_cfg(ReplayAnnounce=False, liveness=False), "fail", ["P_X02g_Served"], 600),
        ("mc-node-seeded-no-queue-close", "MCDeadPeer", node_cfg(DevNoCloseQueue=True, liveness=False), "fail", ["P_X02f_OneWriter", "P_X02f_Consistent"], 600),
        ("mc-node-seeded-no-conn-check", "MCDeadPeer", node_cfg(DevNoConnCheck=True, liveness=False), "fail", ["P_X02e_NoDialDead"], 600),
        ("mc-node-seeded-early-respawn", "MCDeadPeer", node_cfg(DevEarlyRespawn=True, liveness=False), "fail", ["P_X02c_NotBefore"], 600),
        ("mc-node-seeded-no-eject", "MCDeadPeer", node_cfg(DevNoEject=True, liveness=False), "fail", ["P_X02d_Eject"], 600),
        ("mc-node-seeded-error-keeps-entry", "MCDeadPeer", node_cfg(DevErrKeepsQueue=True, liveness=False), "fail", ["P_X02f_Consistent", "P_X02g_Served"], 600),
        ("mc-node-seeded-pending-duplicate", "MCDeadPeer", node_cfg(DevPendingDup=True, liveness=False), "fail", ["P_X02f_OneWriter"], 600),
    ]
    if ctx.thorough:
        jobs += [
            ("mc-node-repaired-deep", "MCDeadPeer", node_cfg(MaxEnv=5, MaxNow=6), "ok", None, 2400),
            ("mc-node-repaired-2peers", "MCDeadPeer", node_cfg(Peers="{p1, p2}", MaxEnv=4, MaxQ=4, MaxNow=3, liveness=False), "ok", None, 2400),
            ("mc-backoff-deep", "MCBackoff", back_cfg(MaxCalls=6, MaxNow=5), "ok", None, 2400),
        ]

    def one(j):
        name, module, cfg, want, prop, to = j
        return name, vlib.run_tlc(ctx, FAMILY, module, cfg, timeout=to, name=name, workers=2 if (want == "fail" or not ctx.thorough) else 4)
    res = {}
    with cf.ThreadPoolExecutor(max_workers=4) as ex:
        for name, r in ex.map(one, jobs):
            res[name] = r
    states = transitions = 0
    summary = {}
    for name, module, cfg, want, prop, to in jobs:
        r = res[name]
        if want == "ok":
            vlib.require_mc_ok(ctx, r, name, allow_timeout=name.endswith(("-deep", "-2peers")))
            states += r.distinct
            transitions += r.generated
        else:
            if not any(p in r.violated for p in prop):
                raise vlib.Inconclusive("%s: expected one of %s to be violated (non-vacuity), got %s (see %s/tlc.out)" % (name, prop, r.violated, r.dir))
        summary[name] = [r.distinct, r.generated, "%.0fs" % r.wall, want, r.violated[:1]]
    return states, transitions, summary


# ----------------------------------------------------------------------------- generators (cached: a function of spec text, constants, seed)
class _Gen:
    def __init__(self, distinct, generated):
        self.distinct, self.generated = distinct, generated


def _cached(ctx, module_file, key, runner):
    h = hashlib.sha1()
    h.update(open(os.path.join(vlib.SPEC, FAMILY, module_file), "rb").read())
    h.update(json.dumps(key, sort_keys=True, default=str).encode())
    d = os.path.join(vlib.WORK, ".x02-gencache")
    os.makedirs(d, exist_ok=True)
    path = os.path.join(d, h.hexdigest()[:20] + ".json")
    if os.path.exists(path) and not os.environ.get("VERIF_X02_NOCACHE"):
        try:
            c = json.load(open(path))
            return c["scns"], _Gen(c["distinct"], c["generated"])
        except Exception:
            pass
    got, g = runner()
    tmp = path + ".%d.tmp" % os.getpid()
    with open(tmp, "w") as f:
        json.dump({"scns": got, "distinct": g.distinct, "generated": g.generated}, f)
    os.replace(tmp, path)
    return got, _Gen(g.distinct, g.generated)


def gen_pure(ctx, name, L, maxatt, loop, advs, peers=("p1", "p2"), max_adv=2, simulate=None):
    consts = {"GPeers": tla_set(peers), "L": L, "Advs": tla_set(advs), "MaxAdv": max_adv, "MaxAttCfg": maxatt, "LoopMode": loop}
    key = ["pure", consts, ctx.seed if simulate else 0, simulate]

    def runner():
        kw = {"mode": "sim", "simulate": simulate, "depth": L + 1} if simulate else {}
        g = vlib.run_tlc(ctx, FAMILY, "GenBackoff", vlib.cfg_text(constants=consts, invariants=["Emit"]), timeout=900,
                         name="gen-" + name, heap="4g", workers=1 if simulate else 2, **kw)
        if not simulate:
            vlib.require_mc_ok(ctx, g, "GenBackoff " + name)
        got = g.printed("SCN")
        if not got:
            raise vlib.Inconclusive("generator %s emitted nothing (see %s/tlc.out)" % (name, g.dir))
        return got, g
    return _cached(ctx, "GenBackoff.tla", key, runner)


def gen_node(ctx, name, L, kinds, peers=("p1",), advs=(150, 1000), by_conn=("r",), by_down=("n", "r"), max_fail=2, simulate=None):
    consts = {"GPeers": tla_set(peers), "Kinds": tla_set(kinds), "Advs": tla_set(advs), "L": L, "ByConn": tla_set(by_conn),
              "ByDown": tla_set(by_down), "MaxFail": max_fail}
    key = ["node", consts, ctx.seed if simulate else 0, simulate]

    def runner():
        kw = {"mode": "sim", "simulate": simulate, "depth": L + 1} if simulate else {}
        g = vlib.run_tlc(ctx, FAMILY, "GenDeadPeer", vlib.cfg_text(constants=consts, invariants=["Emit"]), timeout=900,
                         name="gennode-" + name, heap="4g", workers=1 if simulate else 2, **kw)
        if not simulate:
            vlib.require_mc_ok(ctx, g, "GenDeadPeer " + name)
        got = [s["acts"] for s in g.printed("SCN")]
        if not got:
            raise vlib.Inconclusive("generator %s emitted nothing (see %s/tlc.out)" % (name, g.dir))
        return got, g
    return _cached(ctx, "GenDeadPeer.tla", key, runner)


# ----------------------------------------------------------------------------- level 1: scenarios
def build_pure_scenarios(ctx, rng):
    """The generated operation sequences do not depend on maxAttempts: one generator run serves several values of it."""
    L = 6 if ctx.thorough else 5
    edge = (1, 300000, 600000, 600001)
    plan = [
        # (name, generator arguments, values of maxAttempts, quick sample, thorough sample) - samples per value of maxAttempts
        ("edge", dict(L=L, maxatt=0, loop=False, advs=edge), (1, 2), 700, 20000),
        ("max4", dict(L=L + 1, maxatt=0, loop=False, advs=(1, 600000, 600001), peers=("p1",)), (4,), 700, 20000),
        ("max4-2peers", dict(L=L + 1, maxatt=0, loop=False, advs=(600001,), max_adv=1), (4,), 500, 20000),
        ("loop", dict(L=L, maxatt=0, loop=True, advs=(1, 300000, 600000, 60001)), (2,), 600, 20000),
    ]
    sims = [
        ("sim", dict(L=40, maxatt=0, loop=False, advs=(1, 5000, 300000, 600000, 600001), peers=("p1", "p2", "p3"), max_adv=2), (4, 12, 100), 360, 3600),
        ("sim-loop", dict(L=40, maxatt=0, loop=True, advs=(1, 30000, 300000, 600000, 60001), max_adv=2), (4,), 150, 1500),
    ]

    def one(item):
        return gen_pure(ctx, item[0], **item[1])

    def one_sim(item):
        return gen_pure(ctx, item[0], simulate="num=%d" % (item[4] if ctx.thorough else item[3]), **item[1])
    with cf.ThreadPoolExecutor(max_workers=3) as ex:
        res = list(ex.map(one, plan)) + list(ex.map(one_sim, sims))
    scns, classes, gs, gt = [], {}, 0, 0
    for (name, kw, maxes, nq, nt), (got, g) in zip(plan + sims, res):
        gs += g.distinct
        gt += g.generated
        got = sorted(got, key=lambda s: json.dumps(s, sort_keys=True))
        want = nt if ctx.thorough else nq
        sim = name.startswith("sim")
        for k, mx in enumerate(maxes):
            part = got[k::len(maxes)] if sim else got
            exhaustive = len(part) <= want and not sim
            if len(part) > want:
                part = rng.sample(part, want)
            classes["%s-max%d" % (name, mx)] = {"generated": g.distinct, "replayed": len(part), "exhaustive": exhaustive}
            for s in part:
                s = dict(s)
                s["max"] = mx
                s["cls"] = "%s-max%d" % (name, mx)
                scns.append(s)
    # forced witnesses: growth up to the cap and beyond, the TTL edge at every attempt number
    g12 = [{"a": "get", "p": "p1", "ms": 0}] * 13
    scns.append({"max": 12, "loop": False, "cls": "forced-cap", "ops": g12})
    for k in range(1, 6):
        ops = [{"a": "get", "p": "p1", "ms": 0}] * k
        scns.append({"max": 4, "loop": False, "cls": "forced-ttl-edge",
                     "ops": ops + [{"a": "adv", "p": "", "ms": 600000}, {"a": "get", "p": "p1", "ms": 0}, {"a": "adv", "p": "", "ms": 600001},
                                   {"a": "cleanup", "p": "", "ms": 0}, {"a": "get", "p": "p1", "ms": 0}]})
        scns.append({"max": 4, "loop": False, "cls": "forced-ttl-edge",
                     "ops": ops + [{"a": "adv", "p": "", "ms": 600000}, {"a": "cleanup", "p": "", "ms": 0}, {"a": "get", "p": "p1", "ms": 0},
                                   {"a": "adv", "p": "", "ms": 600001}, {"a": "get", "p": "p1", "ms": 0}, {"a": "get", "p": "p2", "ms": 0}]})
    classes["forced"] = {"generated": 11, "replayed": 11, "exhaustive": True}
    for i, s in enumerate(scns):
        s["id"] = i
    return scns, gs, gt, classes


def pure_hits(scn_lines):
    """Coverage counters of one recorded level-1 scenario (not judgments)."""
    h = {}

    def hit(k):
        h[k] = h.get(k, 0) + 1
    last, run = {}, {}
    keys_prev = set()
    for ln in scn_lines:
        if ln["e"] == "get":
            p, t = ln["p"], ln["t"]
            if ln["ok"]:
                fresh = p not in last or t - last[p] > TTL
                if p in last and t - last[p] == TTL:
                    hit("grant-at-exactly-ttl")
                if p in last and fresh:
                    hit("fresh-after-ttl")
                run[p] = 1 if fresh else run[p] + 1
                last[p] = t
                hit("grant-%d" % min(run[p], 5))
                if ln["d"] == 10000:
                    hit("at-cap")
            else:
                hit("refused")
                if p in last and t - last[p] == TTL:
                    hit("refused-at-exactly-ttl")
        ks = set(ln["keys"])
        if ln["e"] in ("cleanup", "adv"):
            if keys_prev - ks:
                hit("entry-removed")
            if ln["e"] == "cleanup" and ks:
                hit("entry-kept-by-cleanup")
        keys_prev = ks
    return h


# ----------------------------------------------------------------------------- level 2: scenarios
def A(a, p="", by="", on=False, ms=0):
    return {"a": a, "p": p, "by": by, "on": on, "ms": ms}


RW = [A("rst", "p1"), A("adv", ms=1000)]
# five deaths inside one run: delays 0, 100 ms, 200+j, 400+.., the fifth ejects; announced again: a writer at once; the next death
# is refused again (no respawn); after TTL + cleanup the entry is gone and a death starts a fresh run
FORCED_EJECT = [A("conn", "p1", "r")] + RW * 5 + [A("renotify", "p1"), A("adv", ms=1000), A("rst", "p1"), A("adv", ms=1000),
                                                   A("renotify", "p1"), A("adv", ms=661000), A("rst", "p1"), A("adv", ms=1000)] + RW
# ejection, then a NEW connection
FORCED_EJECT_RECONNECT = [A("conn", "p1", "n")] + RW * 5 + [A("down", "p1", "n"), A("adv", ms=1000), A("conn", "p1", "r"), A("adv", ms=1000)] + RW
# a run is forgotten after TTL: the third death comes more than TTL after the second
FORCED_TTL = [A("conn", "p1", "r")] + RW * 2 + [A("adv", ms=600000)] + RW * 2 + [A("adv", ms=599000 - 20)] + RW
# the stream dies BEFORE the loop has adopted it (hold the open, park the loop, let the open through, reset, unpark), then the re-open works / fails
FORCED_EARLY_DEATH = [A("hold", "p1"), A("conn", "p1", "r"), A("park"), A("release", "p1"), A("rst", "p1"), A("unpark"), A("adv", ms=1000)] + RW
FORCED_EARLY_DEATH_FAIL = [A("hold", "p1"), A("conn", "p1", "r"), A("park"), A("release", "p1"), A("rst", "p1"), A("fail", "p1", on=True), A("unpark"),
                           A("adv", ms=1000), A("fail", "p1", on=False), A("renotify", "p1"), A("adv", ms=1000)]
# a peer in newPeersPend AND peerDeadPend in the same loop turn: still connected / connection closed meanwhile / re-connected meanwhile
FORCED_BOTH_PENDING = [A("conn", "p1", "r"), A("park"), A("rst", "p1"), A("renotify", "p1"), A("unpark"), A("adv", ms=1000)]
FORCED_BOTH_PENDING_GONE = [A("conn", "p1", "r"), A("park"), A("rst", "p1"), A("renotify", "p1"), A("down", "p1", "n"), A("unpark"), A("adv", ms=1000)]
FORCED_BOTH_PENDING_RECONN = [A("conn", "p1", "r"), A("park"), A("down", "p1", "n"), A("adv", ms=150), A("conn", "p1", "r"), A("unpark"), A("adv", ms=1000)]
# NewStream fails: the entry goes, nothing is retried until the next announcement; failing respawns; a held respawn
FORCED_FAIL = [A("fail", "p1", on=True), A("conn", "p1", "r"), A("adv", ms=1000), A("fail", "p1", on=False), A("adv", ms=1000), A("renotify", "p1"),
               A("adv", ms=1000), A("fail", "p1", on=True), A("rst", "p1"), A("adv", ms=1000), A("fail", "p1", on=False), A("renotify", "p1"), A("adv", ms=1000)]
FORCED_HOLD_RESPAWN = [A("conn", "p1", "r"), A("rst", "p1"), A("adv", ms=1000), A("hold", "p1"), A("rst", "p1"), A("adv", ms=1000), A("renotify", "p1"),
                       A("release", "p1"), A("adv", ms=1000)]
# an announcement made while the error of a failed open has not reached the (parked) loop yet
FORCED_LOST_ANNOUNCE = [A("fail", "p1", on=True), A("hold", "p1"), A("conn", "p1", "r"), A("park"), A("release", "p1"), A("fail", "p1", on=False),
                        A("renotify", "p1"), A("unpark"), A("adv", ms=1000), A("renotify", "p1"), A("adv", ms=1000)]
# the other peer is never disturbed
FORCED_TWO = [A("conn", "p1", "r"), A("conn", "p2", "n")] + RW * 5 + [A("rst", "p2"), A("adv", ms=1000), A("down", "p2", "r"), A("adv", ms=1000),
                                                                      A("conn", "p2", "r"), A("adv", ms=1000)]
FORCED = [("eject", FORCED_EJECT, True), ("eject-reconnect", FORCED_EJECT_RECONNECT, False), ("ttl", FORCED_TTL, False),
          ("early-death", FORCED_EARLY_DEATH, False), ("early-death-fail", FORCED_EARLY_DEATH_FAIL, True),
          ("both-pending", FORCED_BOTH_PENDING, True), ("both-pending-gone", FORCED_BOTH_PENDING_GONE, True),
          ("both-pending-reconn", FORCED_BOTH_PENDING_RECONN, False), ("fail", FORCED_FAIL, True), ("lost-announce", FORCED_LOST_ANNOUNCE, True), ("hold-respawn", FORCED_HOLD_RESPAWN, True),
          ("two", FORCED_TWO, False)]


def assemble_node(acts, router, cls):
    """Generated stimuli + epilogue (unpark, release holds, a quiet second)."""
    out, held, parked = [], set(), False
    for a in acts:
        a = dict(a)
        a["on"] = bool(a.get("on", False))
        out.append(a)
        if a["a"] == "hold":
            held.add(a["p"])
        elif a["a"] == "release":
            held.discard(a["p"])
        elif a["a"] == "park":
            parked = True
        elif a["a"] == "unpark":
            parked = False
    if parked:
        out.append(A("unpark"))
    for p in sorted(held):
        out.append(A("release", p))
    if not (out and out[-1]["a"] == "adv" and out[-1]["ms"] >= 2000):
        out.append(A("adv", ms=2000))
    return {"router": router, "class": cls, "acts": out}


def build_node_scenarios(ctx, rng):
    t = ctx.thorough
    plan = [
        # (name, generator arguments, routers, quick sample, thorough sample)
        ("churn", dict(L=7 if t else 6, kinds=["conn", "rst", "down", "adv"], by_conn=("r", "n")), "all", 300, 3000),
        ("fail-hold", dict(L=7 if t else 6, kinds=["conn", "rst", "fail", "hold", "adv"], advs=(150, 1000)), "all", 220, 2500),
        ("park", dict(L=7 if t else 6, kinds=["conn", "rst", "park", "hold", "renotify", "down"], by_down=("n",), advs=()), "gossipsub", 220, 2500),
        ("park-fail", dict(L=7, kinds=["conn", "rst", "park", "hold", "fail"], max_fail=1, advs=()), "all", 160, 2000),
        ("two-peers", dict(L=6 if t else 5, kinds=["conn", "rst", "down", "adv"], peers=("p1", "p2"), by_down=("n",), advs=(1000,)), "all", 150, 1500),
    ]
    sims = [
        ("sim-run", dict(L=16, kinds=["conn", "rst", "adv", "renotify"], advs=(150, 1000, 601000)), "gossipsub", 40, 400),
        ("sim-mixed", dict(L=14, kinds=["conn", "rst", "down", "fail", "hold", "park", "renotify", "adv"], advs=(150, 1000), peers=("p1", "p2")),
         "gossipsub", 60, 800),
    ]

    def one(item):
        return gen_node(ctx, item[0], **item[1])

    def one_sim(item):
        return gen_node(ctx, item[0], simulate="num=%d" % (item[4] if t else item[3]), **item[1])
    with cf.ThreadPoolExecutor(max_workers=3) as ex:
        res = list(ex.map(one, plan)) + list(ex.map(one_sim, sims))
    scns, classes, gs, gt = [], {}, 0, 0
    for (name, kw, routers, nq, nt), (got, g) in zip(plan + sims, res):
        gs += g.distinct
        gt += g.generated
        got = sorted(got, key=lambda s: json.dumps(s, sort_keys=True))
        want = nt if t else nq
        exhaustive = len(got) <= want and not name.startswith("sim-")
        if len(got) > want:
            got = rng.sample(got, want)
        classes[name] = {"generated": g.distinct, "replayed": len(got), "exhaustive": exhaustive}
        for i, acts in enumerate(got):
            router = routers if routers != "all" else ("gossipsub" if i % 4 < 2 else ("floodsub" if i % 4 == 2 else "randomsub"))
            scns.append(assemble_node(acts, router, name))
    n = 0
    for name, acts, gs_only in FORCED:
        for router in (("gossipsub",) if gs_only else ("gossipsub", "floodsub", "randomsub")):
            for rep in range(4 if name.startswith(("early-death", "lost-announce")) else 1):   # the loop's choice between two ready cases is random
                scns.append(assemble_node(acts, router, "forced-" + name))
                n += 1
    classes["forced"] = {"generated": n, "replayed": n, "exhaustive": True}
    for i, s in enumerate(scns):
        s["id"] = i
    return scns, gs, gt, classes


def flatten(lines):
    """Step lines of the node driver -> act / ev / snap lines in the order things happened (a Down gets `after`: the peer's
    backoff entry as the next observation of that peer saw it)."""
    out = []
    for d in lines:
        if d["e"] == "reset":
            out.append({"e": "reset", "scn": d["scn"], "i": 0, "t": d["t"], "router": d["router"], "cls": d.get("class", "")})
            continue
        a, st, evs = d["act"], d["st"], d["ev"]
        out.append({"e": "act", "scn": d["scn"], "i": d["i"], "t": d["t"], "a": a["a"], "p": a["p"], "by": a["by"], "on": bool(a["on"]),
                    "ms": int(a["ms"]), "made": bool(a.get("made", False))})
        for j, e in enumerate(evs):
            after = next((e2["bo"] for e2 in evs[j + 1:] if e2["p"] == e["p"]), None)
            if after is None:
                after = st["bo"].get(e["p"], BO0)
            out.append({"e": "ev", "scn": d["scn"], "i": d["i"], "t": e["t"], "k": e["k"], "p": e["p"], "n": e["n"], "bo": e["bo"], "after": after})
        s = {"e": "snap", "scn": d["scn"], "i": d["i"], "t": d["t"]}
        s.update(st)
        out.append(s)
    return out


def node_hits(steps):
    """Coverage counters of one recorded level-2 scenario (not judgments)."""
    h = {}

    def hit(k):
        h[k] = h.get(k, 0) + 1
    grants = {}
    parked_prev = False
    for d in steps:
        if d["e"] != "step":
            continue
        a, st = d["act"], d["st"]
        evs = d["ev"]
        for j, e in enumerate(evs):
            if e["k"] == "Down":
                after = next((e2["bo"] for e2 in evs[j + 1:] if e2["p"] == e["p"]), st["bo"].get(e["p"], BO0))
                if after["has"] and after["last"] == e["t"]:
                    hit("respawn-attempt-%d" % after["att"])
                    if after["att"] == 1 and grants.get(e["p"]):
                        hit("fresh-run-after-ttl")
                    grants[e["p"]] = grants.get(e["p"], 0) + 1
                    if a["a"] == "down" and a["by"] == "r":
                        hit("remote-close-found-connected")
                else:
                    if e["bo"]["has"] and e["bo"]["att"] >= NATT and e["t"] - e["bo"]["last"] <= TTL and st["conn"].get(e["p"], 0) > 0:
                        hit("ejection")
                    if a["a"] == "down" and a["by"] == "n":
                        hit("local-close-no-respawn")
                    if a["a"] == "down" and a["by"] == "r":
                        hit("remote-close-found-gone")
            elif e["k"] == "openfail":
                hit("open-failed")
            elif e["k"] == "open":
                hit("open")
        for p in st["q"]:
            if d["parked"] and st["pn"][p] and st["pd"][p]:
                hit("both-pending-one-turn")
            if st["g"]["o"] > 0 and not d["parked"]:
                hit("held-open")
        if a["a"] == "renotify" and st["ok"] and st["alive"].get(a["p"], 0) == 1 and not evs:
            hit("renotify-ignored")
        if a["a"] == "unpark" and parked_prev:
            hit("unpark")
        if a["a"] == "adv" and a["ms"] >= TTL + CI and not any(b["has"] for b in st["bo"].values()) and grants:
            hit("entry-cleaned-by-loop")
        parked_prev = d["parked"]
    return h


# ----------------------------------------------------------------------------- driver runs
def build_driver(ctx):
    binp = os.path.join(ctx.work, "x02.test")
    r = vlib.run_go(ctx, "./drivers/x02/", "^TestX02", extra=["-c", "-o", binp], timeout=900, name="build")
    if r["rc"] != 0 or not os.path.exists(binp):
        raise vlib.Inconclusive("cannot build the X02 driver (see %s)" % r["log"])
    return binp


def run_bin(ctx, binp, test, scn_file, tag, shard=None, only=None, timeout=1500):
    outp = os.path.join(ctx.work, "trace-%s.ndjson" % tag)
    mark = os.path.join(ctx.work, "marker-%s" % tag)
    log = os.path.join(ctx.work, "go-%s.log" % tag)
    env = dict(os.environ)
    env.update({"VERIF_IN": scn_file, "VERIF_OUT": outp, "VERIF_MARKER": mark, "VERIF_SEED": str(ctx.seed), "VERIF_TIER": ctx.tier})
    if shard is not None:
        env.update({"VERIF_SHARD": str(shard[0]), "VERIF_SHARDS": str(shard[1])})
    if only is not None:
        env["VERIF_ONLY"] = str(only)
    with open(log, "w") as lf:
        try:
            p = subprocess.run(["timeout", str(timeout), binp, "-test.run", "^%s$" % test, "-test.timeout", "%ds" % timeout], cwd=ctx.work, env=env,
                               stdout=lf, stderr=subprocess.STDOUT)
            rc = p.returncode
        except Exception as e:  # pragma: no cover
            raise vlib.Inconclusive("cannot run the X02 driver: %s" % e)
    return {"rc": rc, "trace": outp, "marker": mark, "log": log, "out": open(log, errors="replace").read()}


def replay(ctx, binp, test, scns, tag, nshards):
    """Runs the driver (sharded). A shard that dies is attributed to its scenario by the marker file; only a panic inside library code
    that re-occurs when the scenario is replayed alone is a violation, everything else is a machinery failure."""
    scn_file = os.path.join(ctx.work, "scenarios-%s.ndjson" % tag)
    vlib.write_ndjson(scn_file, scns)

    def shard(i):
        return run_bin(ctx, binp, test, scn_file, "%s-%d" % (tag, i), shard=(i, nshards))
    with cf.ThreadPoolExecutor(max_workers=nshards) as ex:
        res = list(ex.map(shard, range(nshards)))
    lines = []
    for i, r in enumerate(res):
        if r["rc"] != 0:
            sid = open(r["marker"]).read().strip() if os.path.exists(r["marker"]) else "?"
            if sid != "?" and "panic:" in r["out"]:
                again = run_bin(ctx, binp, test, scn_file, "%s-only-%s" % (tag, sid), only=sid)
                tail = again["out"].split("panic:")[1][:600] if "panic:" in again["out"] else ""
                if again["rc"] != 0 and "go-libp2p-pubsub" in again["out"] and "verifharness" not in tail:
                    vlib.add_violation(ctx, "P_X02_NoCrash", {"kind": "panic", "cond": "none", "level": tag},
                                       "the library panics while replaying %s scenario %s (see %s)" % (tag, sid, again["log"]),
                                       {"scenario": scns[int(sid)] if sid.isdigit() and int(sid) < len(scns) else None})
                    continue
            raise vlib.Inconclusive("X02 driver %s shard %d failed (rc=%s, scenario %s, see %s)" % (test, i, r["rc"], sid, r["log"]))
        if not os.path.exists(r["trace"]) or os.path.getsize(r["trace"]) == 0:
            if any((k % nshards) == i for k in range(len(scns))):
                raise vlib.Inconclusive("X02 driver %s shard %d produced no trace (see %s)" % (test, i, r["log"]))
            continue
        lines.append(vlib.read_ndjson(r["trace"]))
    return lines


def validate(ctx, module, cfg, scenarios, chunk, name):
    """Deterministic trace specs: every chunk must be read to its end (HW) and every <<"VIOL", json>> is returned."""
    chunks = [scenarios[i:i + chunk] for i in range(0, len(scenarios), chunk)]

    def one(ic):
        i, ch = ic
        path = os.path.join(ctx.work, "%s-chunk-%d.ndjson" % (name, i))
        vlib.write_ndjson(path, [ln for s in ch for ln in s])
        res = vlib.run_tlc(ctx, FAMILY, module, cfg, mode="trace", files={"trace.ndjson": path}, timeout=1200, name="%s-%d" % (name, i))
        n = sum(len(s) for s in ch)
        if res.hw is None or res.hw[0] < n + 1 or res.hw[1] != n + 1:
            raise vlib.Inconclusive("trace validation %s chunk %d did not reach the end of the trace (hw=%s of %d, see %s/tlc.out): %s" %
                                    (name, i, res.hw, n + 1, res.dir, res.errors[:2]))
        return res.printed("VIOL"), res.distinct
    viols, states = [], 0
    with cf.ThreadPoolExecutor(max_workers=4) as ex:
        for v, st in ex.map(one, enumerate(chunks)):
            viols += v
            states += st
    return viols, states


# ----------------------------------------------------------------------------- the check
PURE_NEED = ["grant-1", "grant-2", "grant-3", "grant-4", "grant-5", "refused", "fresh-after-ttl", "grant-at-exactly-ttl", "refused-at-exactly-ttl",
             "at-cap", "entry-removed", "entry-kept-by-cleanup"]
NODE_NEED = ["respawn-attempt-1", "respawn-attempt-2", "respawn-attempt-3", "respawn-attempt-4", "ejection", "fresh-run-after-ttl", "open-failed",
             "local-close-no-respawn", "both-pending-one-turn", "renotify-ignored", "held-open", "entry-cleaned-by-loop", "unpark"]


def run(ctx):
    rng = random.Random(ctx.seed)
    samples = []
    # 1. model level
    if os.environ.get("VERIF_X02_SKIP_MC"):
        # development aid only (trying changes of /repo quickly): the model-level part does not depend on /repo
        states, transitions, mc = 1, 1, {"skipped": "VERIF_X02_SKIP_MC"}
        ctx.notes.append("model checking skipped (VERIF_X02_SKIP_MC set): not a complete run")
    else:
        states, transitions, mc = model_checking(ctx)
    ctx.log("model checking done: %d distinct states; %s" % (states, {k: v[0] for k, v in mc.items()}))

    # 2. scenarios
    pure, gs1, gt1, pure_classes = build_pure_scenarios(ctx, rng)
    node, gs2, gt2, node_classes = build_node_scenarios(ctx, rng)
    states += gs1 + gs2
    transitions += gt1 + gt2
    ctx.log("scenarios: %d histories for the backoff object %s, %d stimulus sequences for the node %s" % (
        len(pure), {k: v["replayed"] for k, v in pure_classes.items()}, len(node), {k: v["replayed"] for k, v in node_classes.items()}))

    # 3. replay on the real code
    binp = build_driver(ctx)
    t0 = time.time()
    pure_lines = replay(ctx, binp, "TestX02Pure", pure, "pure", 1)
    pure_scn = vlib.split_scenarios([ln for part in pure_lines for ln in part])
    nshards = 8 if ctx.thorough else 4
    node_parts = replay(ctx, binp, "TestX02Node", node, "node", nshards)
    node_raw = [s for part in node_parts for s in vlib.split_scenarios(part)]
    ctx.log("replayed %d histories and %d stimulus sequences on the real code in %.0fs" % (len(pure_scn), len(node_raw), time.time() - t0))
    if len(pure_scn) != len(pure) or len(node_raw) != len(node):
        if not ctx.violations:
            raise vlib.Inconclusive("the drivers recorded %d/%d and %d/%d scenarios" % (len(pure_scn), len(pure), len(node_raw), len(node)))

    # 4. validate with TLC
    pv, st1 = validate(ctx, "BackoffTrace", "BackoffTrace.cfg", pure_scn, 4000, "tv-pure")
    node_flat = [flatten(s) for s in node_raw]
    nv, st2 = validate(ctx, "DeadPeerTrace", "DeadPeerTrace.cfg", node_flat, 600, "tv-node")
    states += st1 + st2
    pure_by_id = {s["id"]: s for s in pure}
    node_by_id = {s["id"]: s for s in node}
    for v in pv:
        scn = pure_by_id.get(v["scn"])
        sig = {"level": "backoff", "kind": v["kind"], "cond": "none", "loop": v["loop"]}
        vlib.add_violation(ctx, v["pred"], sig,
                           "backoff object: %s (%s) at line %d of history %d: %s(%s) at t=%d ms answered ok=%s d=%d ms; allowed/expected: %s" % (
                               v["pred"], v["kind"], v["line"], v["scn"], v["e"], v["p"], v["t"], v["ok"], v["d"], str(v["extra"])[:300]),
                           {"level": "backoff", "scenario": scn, "viol": v})
    for v in nv:
        scn = node_by_id.get(v["scn"])
        sig = {"level": "node", "kind": v["kind"], "cond": v["cond"]}
        vlib.add_violation(ctx, v["pred"], sig,
                           "node (%s): %s (%s) for %s at step %d of scenario %d [%s], t=%d ms, monitor state %s: %s" % (
                               v["router"], v["pred"], v["kind"], v["p"], v["i"], v["scn"], scn["class"] if scn else "?", v["t"], v["st"], str(v["extra"])[:300]),
                           {"level": "node", "scenario": scn, "viol": v})

    # 5. coverage obligations on real steps
    ph, nh = {}, {}
    nontrivial = set()
    for s in pure_scn:
        h = pure_hits(s)
        for k, n in h.items():
            ph[k] = ph.get(k, 0) + n
        if len(h) >= 2:
            nontrivial.add("b:" + json.dumps([[ln["e"], ln["p"], ln["ms"]] for ln in s[1:]]) + str(s[0]["max"]) + str(s[0]["loop"]))
    for s in node_raw:
        h = node_hits(s)
        for k, n in h.items():
            nh[k] = nh.get(k, 0) + n
        if any(k.startswith(("respawn", "ejection", "open-failed", "local-close", "remote-close", "both-pending")) for k in h):
            nontrivial.add("n:" + s[0]["router"] + json.dumps([[d["act"]["a"], d["act"]["p"], d["act"]["by"], d["act"]["on"], d["act"]["ms"]] for d in s[1:]]))
    missing = [k for k in PURE_NEED if not ph.get(k)] + [k for k in NODE_NEED if not nh.get(k)]
    if missing and not ctx.violations:
        raise vlib.Inconclusive("coverage obligation not met: never observed on the real code: %s" % missing)
    if pure_scn:
        samples.append({"level": "backoff", "trace": pure_scn[len(pure_scn) // 2][:10]})
    if node_flat:
        k = next((i for i, s in enumerate(node_raw) if s[0].get("class") == "forced-eject"), len(node_flat) // 2)
        samples.append({"level": "node", "trace": [{kk: vv for kk, vv in ln.items() if kk not in ("st",)} for ln in node_flat[k][:24]]})
    total = len(pure_scn) + len(node_raw)
    cov = {"states": states, "transitions": transitions, "traces_validated_against_impl": total, "samples": samples,
           "evaluations": sum(len(s) for s in pure_scn) + sum(len(s) for s in node_flat), "distinct_nontrivial": len(nontrivial),
           "rule": "scenario = operation history on the backoff object / stimulus sequence on a node, emitted by GenBackoff / GenDeadPeer (all sequences of a class "
                   "up to the bound, sampled by seed above the class budget; seeded TLC simulation for long ones; forced witnesses); evaluations = trace lines judged by TLC; "
                   "non-trivial = a history with at least two different coverage kinds (grant number, refusal, expiry, cap, cleanup) or a node scenario with a "
                   "respawn / ejection / failed open / close / double-pending turn; distinct by input sequence (and router)",
           "exhaustive": all(c["exhaustive"] for n, c in list(pure_classes.items()) + list(node_classes.items()) if not n.startswith("sim")),
           "classes": {"backoff": pure_classes, "node": node_classes}, "hits": {"backoff": ph, "node": nh}, "mc": mc}
    return vlib.finish(ctx, LEVEL, cov, [
        "testing/synctest virtual time: timers fire exactly when due and time only advances when every goroutine is durably blocked (so 'at death + delay' is exact)",
        "the jitter of updateAndGet is read off the granted delay; the law only bounds it (0 <= j < 100 ms per multiplication)",
        "level 2 observes the node through the public RawTracer (router notifications inside the event loop), a host wrapper around NewStream, the fake peers' "
        "view of the streams, a stop-the-world goroutine dump, and the add-only verif exports VerifSnapshot / VerifDeadPeerBackoff / VerifPending / VerifQueueIDsInLoop",
        "whether a death caused by the REMOTE closing the connection still finds the peer connected is a free choice of the node (both outcomes are accepted); "
        "a close by the node itself is not (the swarm forgets the connection before it resets the streams)",
        "NewStream towards a peer without connection would re-dial in libp2p; scenarios never rely on that (the monitor follows the observed connections)",
        "blacklist, topics and queue contents are out of scope here (C16, C05, C15)"])
