"""X04 - the partial-messages extension and the extensions handshake (extension family; spec/partial).

partialmessages/partialmsgs.go (PartialMessagesExtension: group state, time to live, peer-initiated limits and
counters, the send rule, gossip, peer removal) and the glue in extensions.go / gossipsub.go / pubsub.go
(extensionsState: first-message rule, misbehaviour report, dispatch; RequestsPartial / SupportsSendingPartial
subscription flags; full-message suppression; MeshPeers / EmitGossip / Heartbeat / OnClosedOutboundStream wiring).

spec/partial: PartialExt.tla (properties X04.a-f, the object's methods as operators, exhaustive MC incl. the
design as found and one seeded defect per property, scenario generator), PartialTrace.tla (trace specification of
the object alone), PartialNode.tla / PartialNodeTrace.tla (properties X04.g-k, handshake model and the trace
specification of the real node).

  1. MC   exhaustive: ideal design satisfies a-f (+ strict c); the design as found violates b (finding X04-F1) and
          strict c (X04-F2) and nothing else; each seeded defect violates its property; the handshake model.
  2. Gen  TLC emits every call sequence of a bounded length (BFS) and seeded random walks (-simulate); directed
          scenarios (below) discharge the coverage obligations whatever the seed.
  3. Go   harness/drivers/x04: TestX04Obj (the REAL extension object, recording router stub, bitmap application),
          TestX04Node (a REAL gossipsub node in harness/world, fake v1.3 / v1.2 / floodsub peers).
  4. TV   TLC folds the operators over the recorded calls / steps and prints every failing predicate instance.
"""
import concurrent.futures as cf
import json, os, random, re
from .. import vlib

LEVEL = "model_checking"
FAMILY = "partial"
OBJ_PEERS, OBJ_TOPICS, OBJ_GROUPS = ["p1", "p2", "p3"], ["t1", "t2"], ["g1", "g2", "g3"]
ALL_ACTS = '{"pub", "rpc", "hb", "close", "mesh", "gossip", "req"}'
INVS = ["TypeOK", "P_X04_a", "P_X04_aDead", "P_X04_b", "P_X04_c", "P_X04_cStrict", "P_X04_d", "P_X04_e", "P_X04_f"]
# seeded model defects: (Dev, property that must fail, extra constants)
DEVS = [("norefresh", "P_X04_a", {}), ("ttlearly", "P_X04_a", {"CTtl": 2}), ("hbkeepempty", "P_X04_a", {}),
        ("nodecexpiry", "P_X04_b", {}), ("nodecconvert", "P_X04_b", {}),
        ("offbyone", "P_X04_c", {}), ("createondrop", "P_X04_c", {}),
        ("msgtononreq", "P_X04_d", {"CSloppy": True, "Acts": ALL_ACTS, "Groups": '{"g1"}'}),
        ("gossippeerinit", "P_X04_e", {"Acts": ALL_ACTS, "Groups": '{"g1"}'}),
        ("leakclose", "P_X04_f", {})]


def sset(l):
    return "{" + ", ".join('"%s"' % x for x in l) + "}"


def consts(**over):
    c = {"Peers": '{"p1", "p2"}', "Topics": '{"t1"}', "Groups": '{"g1", "g2"}', "Parts": "{0}",
         "CTtl": 1, "CLimT": 2, "CLimP": 1, "CEager": True, "CRegossip": True, "CSloppy": False,
         "ResetOnClose": False, "StaleDec": False, "KeepEntries": False, "Dev": '"none"', "MaxLen": 0, "Bursts": "{}",
         "Acts": '{"pub", "rpc", "hb", "close"}'}
    c.update(over)
    return c


# ------------------------------------------------------------------------------------------------ TLC: MC + generation
def tlc_jobs(ctx, acc):
    th = ctx.thorough
    jobs = {}

    def mc(name, invs, timeout=900, **over):
        jobs[name] = dict(module="PartialExt", cfg=vlib.cfg_text(constants=consts(**over), invariants=invs, view="MCView"), timeout=timeout)

    # the ideal design (counters kept until the group goes; Dec only for groups that count): everything holds
    mc("mc-ideal", INVS)
    mc("mc-ideal-2topics", INVS, Topics='{"t1", "t2"}', Groups='{"g1"}')
    if th:
        mc("mc-ideal-send", INVS, Groups='{"g1"}', Parts="{0, 1}", Acts=ALL_ACTS)
    else:
        mc("mc-ideal-send", INVS, Groups='{"g1"}', Parts="{0}", Acts=ALL_ACTS)
        mc("mc-ideal-send-noclose", INVS, Groups='{"g1"}', Parts="{0, 1}", Acts='{"pub", "rpc", "hb", "mesh", "gossip", "req"}')
    # reset on close without the stale decrement: only the strict reading of c fails (X04-F2)
    mc("mc-epoch", [i for i in INVS if i != "P_X04_cStrict"], ResetOnClose=True)
    mc("mc-epoch-strict", ["P_X04_cStrict"], ResetOnClose=True)
    # the design as found: b fails (X04-F1; c follows), a d e f hold
    mc("mc-asfound", ["TypeOK", "P_X04_a", "P_X04_d", "P_X04_e", "P_X04_f"], ResetOnClose=True, StaleDec=True, KeepEntries=True)
    mc("mc-asfound-b", ["P_X04_b"], ResetOnClose=True, StaleDec=True, KeepEntries=True)
    mc("mc-asfound-dead", ["P_X04_aDead"], KeepEntries=True)
    for dev, prop, extra in DEVS:
        mc("mc-dev-" + dev, [prop], timeout=600, Dev='"%s"' % dev, **extra)
    if th:
        mc("mc-ideal-3groups", INVS, timeout=900, Groups='{"g1", "g2", "g3"}')
        mc("mc-asfound-send", ["TypeOK", "P_X04_a", "P_X04_d", "P_X04_e", "P_X04_f"], timeout=900, ResetOnClose=True, StaleDec=True, KeepEntries=True,
           Groups='{"g1"}', Parts="{0, 1}", Acts=ALL_ACTS, CLimT=1)
    node_tlc_jobs(ctx, jobs)

    # generators: call sequences of the object
    def gen(name, maxlen, sim=None, depth=None, **over):
        c = consts(MaxLen=maxlen, ResetOnClose=True, StaleDec=True, KeepEntries=True, **over)
        jobs[name] = dict(module="PartialExt", cfg=vlib.cfg_text(spec="GenSpec", constants=c, invariants=["Emit"]), timeout=900, heap="6g",
                          mode="sim" if sim else "mc", simulate=("num=%d" % sim) if sim else None, depth=depth, workers=1 if sim else None)

    gen("gen-bfs-count", 4, Groups='{"g1", "g2"}', Bursts="{1, 4}", CTtl=3, Acts='{"pub", "rpc", "hb", "close"}')
    gen("gen-bfs-all", 3, Groups='{"g1", "g2"}', Parts="{0, 1}", Bursts="{1, 4}", CTtl=3, Acts=ALL_ACTS)
    # (in simulation mode TLC evaluates Emit on every successor it generates: about a hundred histories per walk)
    gen("gen-walks", 14, sim=900 if th else 350, depth=16, Peers='{"p1", "p2", "p3"}', Topics='{"t1", "t2"}', Groups='{"g1", "g2", "g3"}',
        Parts="{0, 1}", Bursts="{1, 2, 4}", CTtl=3, CLimT=3, CLimP=2, Acts=ALL_ACTS)
    if os.environ.get("X04_DEV_SKIP_MC"):       # development aid only (mutation trials)
        jobs = {k: v for k, v in jobs.items() if k.startswith("gen-")}

    def one(name):
        j = dict(jobs[name])
        module, cfg = j.pop("module"), j.pop("cfg")
        if j.get("workers") is None:
            j["workers"] = 1 if not th else 2         # four jobs at a time: 4 (quick) / 8 (thorough) TLC worker threads
        j.setdefault("heap", "4g" if th else "3g")
        r = vlib.run_tlc(ctx, FAMILY, module, cfg, name=name, **j)
        if os.environ.get("X04_DEV_TIMES"):
            ctx.log("tlc %-28s %5.1fs %d distinct" % (name, r.wall, r.distinct))
        return name, r

    order = sorted(jobs, key=lambda n: (not n.startswith("gen-"), not any(x in n for x in ("3groups", "2peers", "-send", "asfound", "epoch", "ideal")), n))
    with cf.ThreadPoolExecutor(max_workers=4) as ex:
        res = dict(ex.map(one, order))
    for n, r in res.items():
        if n.startswith("gen-"):
            continue
        if "-dev-" in n:
            prop = dict((d, p) for d, p, _ in DEVS + NODE_DEVS)[n.split("-dev-")[1]]
            vlib.require_mc_fails(ctx, r, "%s (seeded defect)" % n, prop)
            acc["mc"]["%s_fails_%s" % (n[3:], prop)] = True
        elif n in ("mc-epoch-strict", "mc-asfound-b", "mc-asfound-dead", "mc-node-asfound-g", "mc-node-asfound-k"):
            prop = {"mc-epoch-strict": "P_X04_cStrict", "mc-asfound-b": "P_X04_b", "mc-asfound-dead": "P_X04_aDead", "mc-node-asfound-g": "P_X04_g", "mc-node-asfound-k": "P_X04_k"}[n]
            vlib.require_mc_fails(ctx, r, "%s (design as found)" % n, prop)
            acc["mc"]["%s_fails_%s" % (n[3:], prop)] = True
        else:
            vlib.require_mc_ok(ctx, r, n, allow_timeout=(n in ("mc-ideal-3groups", "mc-asfound-send", "mc-node-ideal-2peers")))
            acc["mc"][n[3:]] = [r.distinct, r.generated]
    pools = {}
    for n in ("gen-bfs-count", "gen-bfs-all", "gen-walks", "gen-node"):
        r = res[n]
        if r.timed_out or r.violated or (n != "gen-walks" and not r.no_error):
            raise vlib.Inconclusive("generator %s failed: %s (see %s/tlc.out)" % (n, r.errors[:2], r.dir))
        seen, pool = set(), []
        for s in r.printed("SCN"):
            k = json.dumps(s["evs"], sort_keys=True)
            if k not in seen:
                seen.add(k)
                pool.append(s["evs"])
        pool.sort(key=lambda evs: json.dumps(evs, sort_keys=True))      # TLC's print order depends on its worker threads
        if not pool:
            raise vlib.Inconclusive("generator %s emitted nothing (see %s/tlc.out)" % (n, r.dir))
        pools[n] = pool
    for r in res.values():
        acc["states"] += r.distinct
        acc["transitions"] += r.generated
    acc["gen"] = {n: len(p) for n, p in pools.items()}
    return pools


# ------------------------------------------------------------------------------------------------ object level: scenarios
OBJ_CFGS = [  # rotated over the generated call sequences
    {"ttl": 3, "limT": 2, "limP": 1, "eager": True, "regossip": True, "sloppy": False},
    {"ttl": 0, "limT": 3, "limP": 2, "eager": False, "regossip": True, "sloppy": True},
    {"ttl": 4, "limT": 1, "limP": 1, "eager": True, "regossip": False, "sloppy": False},
    {"ttl": 3, "limT": 2, "limP": 2, "eager": True, "regossip": True, "sloppy": True},
    {"ttl": 3, "limT": 0, "limP": 0, "eager": False, "regossip": False, "sloppy": False},    # the defaults 255 / 8
]


def rpc(p, g, meta=(0,), t="t1", has_meta=True, has_msg=False, apperr=False):
    return {"a": "rpc", "p": p, "t": t, "g": g, "hasMeta": has_meta, "meta": list(meta), "hasMsg": has_msg, "apperr": apperr}


def pub(g, parts=(0, 1), t="t1", err=()):
    return {"a": "pub", "t": t, "g": g, "parts": list(parts), "err": list(err)}


def mesh(ps, t="t1"):
    return {"a": "mesh", "t": t, "ps": list(ps)}


def req(p, v=True, t="t1"):
    return {"a": "req", "p": p, "t": t, "v": v}


def close(p):
    return {"a": "close", "p": p}


def gossip(ps, t="t1"):
    return {"a": "gossip", "t": t, "ps": list(ps)}


HB = {"a": "hb"}


def obj_directed():
    D = []

    def add(name, cfg, acts):
        D.append({"src": "directed:" + name, "cfg": dict(OBJ_CFGS[0], **cfg), "acts": acts})

    # lifecycle: publish, refresh, expiry after exactly T heartbeats; empty groups go at the next heartbeat; T below the minimum
    add("ttl", {}, [mesh(["p1"]), req("p1"), pub("g1"), HB, HB, pub("g1"), HB, HB, HB, HB, HB, pub("g2", t="t2"), HB, pub("g1"), HB, HB, HB, HB])
    add("ttl-min", {"ttl": 1}, [mesh(["p1"]), pub("g1"), HB, HB, HB, HB, HB])
    add("ttl-4", {"ttl": 4}, [mesh(["p1"]), rpc("p2", "g2"), pub("g1"), HB, HB, HB, HB, HB, HB])
    add("empty", {"limP": 2}, [pub("g1"), HB, rpc("p1", "g2", has_meta=False, has_msg=True), rpc("p1", "g3", apperr=True), HB, HB])
    # the application refuses an RPC: the error comes back, the state (created before the callback) stays as it is
    add("app-error", {"limP": 2, "limT": 2}, [rpc("p1", "g1", apperr=True), rpc("p1", "g1", meta=(1,)), rpc("p2", "g1", meta=(2,), apperr=True), rpc("p2", "g2", apperr=True),
                                              rpc("p1", "g3", apperr=True), mesh(["p1"]), pub("g1"), rpc("p1", "g1", meta=(3,), apperr=True), HB, HB, HB, HB])
    # peer RPCs never refresh
    add("rpc-no-refresh", {}, [rpc("p1", "g1"), HB, rpc("p1", "g1", meta=(1,)), rpc("p2", "g1"), HB, HB, HB, HB])
    # limits: per peer, per topic, other topic untouched, existing group always served, drop leaves nothing
    add("limits", {"limT": 3, "limP": 2}, [rpc("p1", "g1"), rpc("p1", "g2"), rpc("p1", "g3"), rpc("p1", "g2", meta=(1,)), rpc("p2", "g3"),
                                             rpc("p3", "g3", meta=(2,)), rpc("p1", "g1", t="t2"), HB, HB, HB, HB, rpc("p1", "g3")])
    add("limit-total", {"limT": 2, "limP": 2}, [rpc("p1", "g1"), rpc("p2", "g2"), rpc("p3", "g3"), rpc("p2", "g3"), rpc("p3", "g1"),
                                                  pub("g1"), rpc("p3", "g3"), HB, HB, HB, HB, rpc("p3", "g2")])
    add("defaults", {"limT": 0, "limP": 0}, [rpc("p1", "g1"), rpc("p1", "g2"), rpc("p1", "g3"), close("p1")])
    # conversion by publish: counted group
    add("convert", {}, [rpc("p1", "g1"), mesh(["p1", "p2"]), req("p1"), pub("g1"), rpc("p1", "g2"), HB, HB, HB, HB])
    # finding X04-F1 (stale decrement) through expiry and through conversion; X04-F2 (limit reset on close)
    add("stale-dec-expiry", {}, [rpc("p1", "g1"), close("p1"), rpc("p1", "g2"), HB, rpc("p1", "g3"), HB, HB, HB, HB])
    add("stale-dec-convert", {}, [rpc("p1", "g1"), rpc("p2", "g1", meta=(1,)), close("p1"), rpc("p1", "g2"), mesh(["p1", "p2"]), req("p1"),
                                  pub("g1", parts=(0, 1, 2)), rpc("p1", "g3"), HB, HB, HB, HB, HB])
    add("reset-on-close", {"limT": 2, "limP": 2}, [rpc("p1", "g1"), rpc("p2", "g1"), rpc("p1", "g2"), rpc("p2", "g2"), close("p1"), rpc("p1", "g3"),
                                                     HB, HB, HB, HB])
    # the send rule: eager push, missing parts only, metadata only when changed, nothing at all, non-requester, action errors
    add("send", {}, [mesh(["p1", "p2", "p3"]), req("p1"), req("p3"), rpc("p3", "g1", meta=(0,)), pub("g1", parts=(0, 1)), pub("g1", parts=(0, 1)),
                     rpc("p1", "g1", meta=(0, 1, 2)), pub("g1", parts=(0, 1, 2)), pub("g1", parts=(0, 1, 2), err=["p2"]), pub("g1", parts=(0, 1, 2, 3), err=["p1", "p3"]),
                     req("p1", False), pub("g1", parts=(0, 1, 2, 3, 4))])
    add("send-noeager", {"eager": False}, [mesh(["p1", "p2"]), req("p1"), req("p2"), pub("g1", parts=(0,)), rpc("p1", "g1", meta=()), pub("g1", parts=(0,)),
                                          pub("g1", parts=(0, 1)), pub("g1", parts=())])
    add("send-sloppy", {"sloppy": True}, [mesh(["p1", "p2"]), req("p1"), pub("g1", parts=(0, 1)), rpc("p2", "g1", meta=(0,)), pub("g1", parts=(0, 1, 2)),
                                        req("p2"), pub("g1", parts=(0, 1, 2, 3))])
    # state persists, is removed on close, starts from zero afterwards
    add("close", {}, [mesh(["p1", "p2"]), req("p1"), req("p2"), pub("g1"), pub("g2", t="t2"), rpc("p1", "g1", meta=(0,)), close("p1"), pub("g1"), HB,
                      mesh(["p2"]), close("p2"), HB, HB])
    # gossip: only local groups, only untracked peers, once per group life, republish refreshes
    add("gossip", {}, [mesh(["p1"]), req("p1"), req("p2"), req("p3"), pub("g1"), rpc("p2", "g2"), HB, gossip(["p2", "p3"]), gossip(["p2", "p3"]), HB, HB,
                       gossip(["p3", "p1"]), gossip(["p2"], t="t2"), HB, HB, HB, HB, gossip(["p2"])])
    add("gossip-norepub", {"regossip": False}, [mesh(["p1"]), req("p2"), pub("g1"), pub("g2"), HB, gossip(["p2", "p3"]), HB, HB, HB, gossip(["p2"])])
    return D


def ev_to_act(e):
    a = e["a"]
    if a == "pub":
        return [pub(e["g"], e["parts"], e["t"])]
    if a == "rpc":
        return [rpc(e["p"], e["g"], e["parts"], e["t"], e["hasMeta"], e["hasMsg"])]
    if a == "hb":
        return [dict(HB) for _ in range(e["n"])]
    if a == "close":
        return [close(e["p"])]
    if a == "gossip":
        return [gossip(e["ps"], e["t"])]
    if a == "mesh":
        return [mesh(e["ps"], e["t"])]
    if a == "req":
        return [req(e["p"], e["hasMeta"], e["t"])]
    raise vlib.Inconclusive("unknown generator call %r" % a)


def obj_scenarios(ctx, pools):
    rng = random.Random(ctx.seed * 7919 + 4)
    th = ctx.thorough
    scns = obj_directed()
    lim = {"gen-bfs-count": 50000 if th else 1500, "gen-bfs-all": 50000 if th else 1500, "gen-walks": 3000 if th else 350}
    exhaustive = {}
    for n in ("gen-bfs-count", "gen-bfs-all", "gen-walks"):
        pool = list(pools[n])
        exhaustive[n] = len(pool) <= lim[n] and n != "gen-walks"
        if len(pool) > lim[n]:
            rng.shuffle(pool)
            pool = pool[:lim[n]]
        for i, evs in enumerate(pool):
            acts = [a for e in evs for a in ev_to_act(e)]
            if n == "gen-walks":
                # seeded decoration outside the generator's alphabet: the application refuses an RPC / yields an action with an error
                for a in acts:
                    if a["a"] == "rpc" and rng.random() < 0.12:
                        a["apperr"] = True
                    elif a["a"] == "pub" and rng.random() < 0.15:
                        a["err"] = rng.sample(OBJ_PEERS, rng.choice((1, 1, 2)))
            if n == "gen-bfs-count":
                cfg = OBJ_CFGS[(0, 2, 3)[(i + ctx.seed) % 3]]
            else:
                cfg = OBJ_CFGS[(i + ctx.seed) % len(OBJ_CFGS)]
            scns.append({"src": n, "cfg": dict(cfg), "acts": acts})
    for i, s in enumerate(scns):
        s["id"] = i
    return scns, exhaustive


def slim_obj(row):
    if row["e"] == "reset":
        c = row["cfg"]
        return {"e": "reset", "scn": row["scn"], "i": 0, "a": "reset", "ttl": c["ttl"], "limT": c["limT"], "limP": c["limP"],
                "eager": c["eager"], "regossip": c["regossip"], "sloppy": c["sloppy"]}
    a = row["act"]
    k, ps = row["ret"], []
    if k.startswith("actions:"):
        k, ps = "actions", k[len("actions:"):].split(",")

    def msgparts(s):
        s = s[len("parts:"):] if s.startswith("parts:") else ""
        return [int(x) for x in s.split(",") if x != ""]
    for name in [a.get("p", "p1")] + list(a.get("ps", [])) + list(a.get("err", [])):
        if name and name not in OBJ_PEERS:
            raise vlib.Inconclusive("peer outside the universe of the trace specification: %r" % name)
    return {"e": "step", "scn": row["scn"], "i": row["i"], "a": a["a"], "p": a.get("p", ""), "t": a.get("t", ""), "g": a.get("g", ""),
            "ps": a.get("ps", []), "parts": a.get("parts", a.get("meta", [])), "err": a.get("err", []), "hasMeta": bool(a.get("hasMeta", False)),
            "hasMsg": bool(a.get("hasMsg", False)), "apperr": bool(a.get("apperr", False)), "v": bool(a.get("v", False)),
            "ret": {"k": k, "ps": ps},
            "sent": [{"p": s["p"], "t": s["t"], "g": s["g"], "hasMsg": s["hasMsg"], "msg": msgparts(s["msg"]), "hasMeta": s["hasMeta"], "meta": s["meta"]}
                     for s in row["sent"]],
            "cb": row["cb"], "groups": row["st"]["groups"], "empty": row["st"]["empty"], "ctr": row["st"]["ctr"]}


def obj_trace_cfg():
    c = consts(Peers=sset(OBJ_PEERS), Topics=sset(OBJ_TOPICS), Groups=sset(OBJ_GROUPS), Parts="{0, 1, 2, 3, 4, 5, 6, 7}",
               CTtl=3, CLimT=255, CLimP=8, ResetOnClose=True, StaleDec=True, KeepEntries=True, Acts="{}")
    return vlib.cfg_text(spec="TraceSpec", constants=c, constraint="HW", postcondition="Accepted")


def run_tv(ctx, module, cfg, name, path):
    res = vlib.run_tlc(ctx, FAMILY, module, cfg, mode="trace", files={"trace.ndjson": path}, timeout=1500, name=name, heap="4g")
    if res.hw is None or res.hw[0] < res.hw[1] or res.violated or res.timed_out:
        raise vlib.Inconclusive("trace validation did not consume its input (hw=%s errors=%s, see %s/tlc.out)" % (res.hw, res.errors[:2], res.dir))
    viols, steps = res.printed("VIOL"), res.printed("STEP")
    if len(viols) != len(res.printed_raw("VIOL")) or len(steps) != len(res.printed_raw("STEP")):
        raise vlib.Inconclusive("unparsable VIOL/STEP output in %s/tlc.out" % res.dir)
    return viols, steps, res.distinct


def lib_panic(out):
    """A panic of the driver process counts only when the panicking goroutine was executing library code: the first frame
    below the runtime's own is a function of go-libp2p-pubsub (not of the harness)."""
    if "panic:" not in out:
        return None
    tail = out.split("panic:", 1)[1]
    blocks = tail.split("\n\ngoroutine ")
    if len(blocks) < 2:
        return None
    for line in blocks[1].split("\n")[1:]:
        fn = line.strip()
        if not fn or fn.startswith(("panic(", "runtime.", "/", "created by")) or line.startswith("\t"):
            continue
        if "go-libp2p-pubsub" in fn and "verifharness" not in fn:
            return tail.split("\n")[0].strip() + " in " + fn.rsplit("(", 1)[0]
        return None
    return None


def replay_obj(ctx, scns, reps_directed=3):
    """Directed scenarios are replayed reps_directed times (Go's map iteration order differs between runs), the others once."""
    directed = [s for s in scns if s["src"].startswith("directed:")]
    rest = [s for s in scns if not s["src"].startswith("directed:")]
    parts = [("obj-directed", directed, reps_directed)]
    n = 3 if ctx.thorough else 2
    for k in range(n):
        parts.append(("obj-gen%d" % k, rest[k::n], 1))

    def one(part):
        name, ss, reps = part
        inp, outp, mark = [os.path.join(ctx.work, "%s.%s" % (name, x)) for x in ("scn.ndjson", "trace.ndjson", "marker")]
        vlib.write_ndjson(inp, ss)
        r = vlib.run_go(ctx, "./drivers/x04/", "^TestX04Obj$", env={"VERIF_IN": inp, "VERIF_OUT": outp, "VERIF_REPS": reps, "VERIF_MARKER": mark},
                        timeout=1200, name=name)
        runs = []        # (scenario, lines)
        if r["rc"] != 0:
            why = lib_panic(r["out"])
            idx = int(open(mark).read().strip()) if os.path.exists(mark) and open(mark).read().strip().isdigit() else None
            if why and idx is not None:
                # re-run the one scenario alone: a violation only if it reproduces
                scn = ss[idx // reps]
                inp1, out1 = os.path.join(ctx.work, name + ".crash.scn.ndjson"), os.path.join(ctx.work, name + ".crash.trace.ndjson")
                vlib.write_ndjson(inp1, [scn])
                r1 = vlib.run_go(ctx, "./drivers/x04/", "^TestX04Obj$", env={"VERIF_IN": inp1, "VERIF_OUT": out1, "VERIF_REPS": 1}, timeout=300, name=name + "-crash")
                why1 = lib_panic(r1["out"])
                if r1["rc"] != 0 and why1:
                    vlib.add_violation(ctx, "P_X04_c", {"level": "obj", "kind": "panic", "where": why1[:80]},
                                       "the extension object panics: %s (scenario %s, %s)" % (why1, scn["id"], scn["src"]), {"scenario": scn})
                    return runs
            raise vlib.Inconclusive("object driver failed (rc=%s, see %s)" % (r["rc"], r["log"]))
        cur = None
        for row in vlib.read_ndjson(outp):
            if row["e"] == "reset":
                cur = [row]
            elif row["e"] == "end":
                runs.append((ss[len(runs) // reps], cur))
                cur = None
            elif cur is not None:
                cur.append(row)
        if len(runs) != len(ss) * reps:
            raise vlib.Inconclusive("object driver replayed %d of %d scenario runs (see %s)" % (len(runs), len(ss) * reps, r["log"]))
        return runs

    with cf.ThreadPoolExecutor(max_workers=len(parts)) as ex:
        out = [x for l in ex.map(one, parts) for x in l]
    return out


def validate_obj(ctx, runs, acc):
    """runs: [(scenario, raw lines)]. Returns (violations with scenario attached, step tags)."""
    chunk = 900 if ctx.thorough else 600
    jobs = []
    for ci in range(0, len(runs), chunk):
        path = os.path.join(ctx.work, "tv-obj-%d.ndjson" % ci)
        with open(path, "w") as f:
            for gi, (scn, lines) in enumerate(runs[ci:ci + chunk]):
                for row in lines:
                    s = slim_obj(row)
                    s["scn"] = ci + gi
                    f.write(json.dumps(s, separators=(",", ":")) + "\n")
        jobs.append(("tv-obj-%d" % ci, path))
    viols, steps = [], []
    cfg = obj_trace_cfg()
    with cf.ThreadPoolExecutor(max_workers=5 if ctx.thorough else 2) as ex:
        for v, s, st in ex.map(lambda j: run_tv(ctx, "PartialTrace", cfg, j[0], j[1]), jobs):
            viols += v
            steps += s
            acc["states"] += st
    return viols, steps


OBJ_OBLIGATIONS = ["pub-new", "pub-refresh", "pub-converts-counted", "pub-converts-stale", "send-msg-and-meta", "send-meta-only", "send-msg-only",
                   "send-nothing", "msg-stripped-for-non-requester", "pub-action-error", "send-missing-parts", "mesh-peer-initialised",
                   "pub-two-action-errors", "pub-action-error-others-sent",
                   "rpc-creates", "rpc-peer-limit", "rpc-total-limit", "rpc-existing-at-limit", "rpc-on-local-group", "rpc-app-error-new-group",
                   "rpc-app-error-existing-group",
                   "rpc-ignored-by-app", "metadata-merged", "expire-ttl", "expire-empty", "expire-counted", "expire-stale", "hb-survivor",
                   "close-removes-state", "close-resets-counter", "gossip-offered", "gossip-republished", "gossip-skips-peer-initiated",
                   "gossip-all-tracked", "topic-dies"]

WHAT = {
    "P_X04_a": "group lifecycle", "P_X04_b": "peer-initiated counters", "P_X04_c": "peer-initiated limits / dispatch of the RPC",
    "P_X04_d": "send rule / per-peer state", "P_X04_e": "gossip", "P_X04_f": "peer removal",
    "P_X04_g": "handshake (outbound)", "P_X04_h": "handshake (inbound)", "P_X04_i": "dispatch to the extension",
    "P_X04_j": "full-message suppression", "P_X04_k": "extension wiring in the node"}


def report(ctx, level, viols, lookup, per_sig):
    """One replay file per (predicate, kind); the remaining instances are counted."""
    for v in viols:
        sig = {"level": level, "kind": v["kind"]}
        key = (v["pred"], json.dumps(sig, sort_keys=True))
        per_sig[key] = per_sig.get(key, 0) + 1
        if per_sig[key] <= 2:
            scn, lines = lookup(v["scn"])
            bad = next((r for r in lines if r.get("i") == v["i"]), None)
            vlib.add_violation(ctx, v["pred"], sig,
                               "%s: %s (topic %s group %s peer %s observed %s expected %s); %s scenario %s (%s) step %d: %s" %
                               (WHAT.get(v["pred"], v["pred"]), v["kind"], v["t"], v["g"], v["p"], v["obs"], v["exp"], level, scn.get("id"), scn.get("src"),
                                v["i"], json.dumps(bad, sort_keys=True)[:900] if bad else "?"),
                               {"level": level, "scenario": scn, "failing_step": v["i"], "lines": lines[:v["i"] + 2]})
        else:
            ctx.violations.append({"pred": v["pred"], "sig": sig, "detail": "", "replay": ""})


# ------------------------------------------------------------------------------------------------ node level
NODE_PEERS = ["p1", "p2", "p3", "p4"]
NODE_DEVS = [("extEveryRpc", "P_X04_g", {}), ("extToOld", "P_X04_g", {}), ("sentKeep", "P_X04_g", {}),
             ("noPenalty", "P_X04_h", {}), ("recOverwrite", "P_X04_h", {}), ("noRecDelete", "P_X04_h", {}),
             ("dispatchPeerOnly", "P_X04_i", {"MyPartial": False}), ("closeNotWired", "P_X04_k", {})]
NODE_INVS = ["P_X04_g", "P_X04_h", "P_X04_i", "P_X04_k"]


def nconsts(**over):
    c = {"NPeers": '{"p1"}', "MyPartial": True, "MyTest": True, "NAsFound": False, "NDev": '"none"', "NMaxLen": 0, "MaxMisb": 2}
    c.update(over)
    return c


def node_tlc_jobs(ctx, jobs):
    def mc(name, invs, timeout=600, **over):
        jobs[name] = dict(module="PartialNode", cfg=vlib.cfg_text(spec="NSpec", constants=nconsts(**over), invariants=invs), timeout=timeout)
    mc("mc-node-ideal", NODE_INVS)
    mc("mc-node-nolocal", NODE_INVS, MyPartial=False, MyTest=False)
    mc("mc-node-asfound", ["P_X04_h", "P_X04_i"], NAsFound=True)
    mc("mc-node-asfound-g", ["P_X04_g"], NAsFound=True)
    mc("mc-node-asfound-k", ["P_X04_k"], NAsFound=True)
    for dev, prop, extra in NODE_DEVS:
        mc("mc-node-dev-" + dev, [prop], NDev='"%s"' % dev, **extra)
    if ctx.thorough:
        mc("mc-node-ideal-2peers", NODE_INVS, timeout=1500, NPeers='{"p1", "p2"}', MaxMisb=1)
    L = 5
    jobs["gen-node"] = dict(module="PartialNode", timeout=900, heap="6g",
                            cfg=vlib.cfg_text(spec="NGenSpec", constants=nconsts(NAsFound=True, NMaxLen=L, MaxMisb=1), invariants=["NEmit"]))


def EXT(partial=True, test=False):
    return {"present": True, "partial": partial, "test": test}


def SUB(t="t1", req=None, sup=None, sub=True):
    d = {"t": t, "sub": sub}
    if req is not None:
        d["req"] = req
    if sup is not None:
        d["sup"] = sup
    return d


def PART(g, meta=(0,), t="t1", has_msg=False, has_meta=True):
    return {"present": True, "t": t, "g": g, "hasMeta": has_meta, "meta": list(meta), "hasMsg": has_msg}


def NP(p, proto="v13", d="in"):
    return {"a": "peer", "p": p, "proto": proto, "dir": d, "subs": []}


def X(p, ext=None, subs=None, part=None, testx=False, graft=None):
    d = {"a": "x", "p": p}
    if ext is not None:
        d["ext"] = ext
    if subs:
        d["subs"] = subs
    if part is not None:
        d["part"] = part
    if testx:
        d["testx"] = True
    if graft:
        d["graft"] = list(graft)
    return d


def PPUB(g, parts=(0, 1), t="t1"):
    return {"a": "ppub", "t": t, "g": g, "parts": list(parts)}


SUBSCRIBE1, SUBSCRIBE2 = {"a": "subscribe", "t": "t1"}, {"a": "subscribe", "t": "t2"}
NODE_CFG = {"partial": True, "test": False, "flood": False, "ttl": 3, "limT": 255, "limP": 8, "eager": True, "regossip": True, "sloppy": False,
            "topics": {"t1": "req"}, "npeers": 4}


def std_peers(p1=True):
    """p1: v1.3, extension, requests (and so supports); p2: v1.3, extension, supports only; p3: v1.2, nothing; all three in the mesh of t1.
    p4: v1.3, extension, requests, NOT in the mesh (a gossip target)."""
    acts = [SUBSCRIBE1]
    if p1:
        acts += [NP("p1"), X("p1", ext=EXT(), subs=[SUB(req=True, sup=True)]), X("p1", graft=["t1"])]
    acts += [NP("p2", d="out"), X("p2", ext=EXT(), subs=[SUB(req=False, sup=True)]), X("p2", graft=["t1"]),
             NP("p3", "v12"), X("p3", subs=[SUB()]), X("p3", graft=["t1"])]
    return acts


P4 = [NP("p4"), X("p4", ext=EXT(), subs=[SUB(req=True)])]


def msg(p, m, t="t1", size=0):
    d = {"a": "msg", "p": p, "t": t, "m": m}
    if size:
        d["size"] = size
    return d


def node_directed():
    D = []

    def add(name, cfg, acts):
        c = dict(NODE_CFG)
        c.update(cfg)
        D.append({"src": "directed:" + name, "cfg": c, "acts": acts})

    # the handshake in both directions, every protocol, misbehaviour, streams closing and re-opening
    add("handshake", {"test": True}, [
        SUBSCRIBE1, NP("p1"), X("p1", ext=EXT(True, True), subs=[SUB(req=True)]), NP("p2", d="out"), X("p2", subs=[SUB()]),
        NP("p3", "v12"), X("p3", ext=EXT(True, True), subs=[SUB(req=True)]), NP("p4", "v11", "out"), X("p4", subs=[SUB()]),
        X("p1", ext=EXT(True, True)), X("p1", ext=EXT(False, False)), X("p2", ext=EXT(True, False)), X("p1", testx=True), X("p2", testx=True), X("p3", testx=True),
        {"a": "closeOut", "p": "p1"}, {"a": "openOut", "p": "p1"}, X("p1", ext=EXT(False, True)), X("p1", testx=True),
        {"a": "resetOut", "p": "p2"}, {"a": "openOut", "p": "p2"}, X("p2", ext=EXT(True, True), subs=[SUB(req=True)]), X("p2", ext=EXT(True, True)),
        {"a": "resetIn", "p": "p1"}, HB, HB, X("p1", testx=True),
        {"a": "down", "p": "p1"}, HB, NP("p1"), X("p1", subs=[SUB()]), X("p1", ext=EXT()), {"a": "down", "p": "p3"}, {"a": "down", "p": "p2"}, HB])
    # a node without any extension: nothing advertised, nothing dispatched, no crash, PublishPartial fails cleanly
    add("nolocal", {"partial": False, "topics": {}}, [
        SUBSCRIBE1, NP("p1"), X("p1", ext=EXT(True, True), subs=[SUB(req=True, sup=True)], part=PART("g1")), X("p1", part=PART("g2"), testx=True),
        X("p1", graft=["t1"]), NP("p2", "v12"), X("p2", subs=[SUB(req=True)], part=PART("g1")), PPUB("g1"), {"a": "publish", "t": "t1", "m": "m1"}, X("p1", ext=EXT()),
        HB, {"a": "down", "p": "p1"}, HB])
    # only the test extension
    add("testonly", {"partial": False, "test": True, "topics": {}}, [
        SUBSCRIBE1, NP("p1"), X("p1", ext=EXT(True, True), part=PART("g1")), X("p1", testx=True), NP("p2", d="out"), X("p2", ext=EXT(True, False), testx=True),
        X("p2", testx=True), {"a": "resetIn", "p": "p1"}, HB, HB, {"a": "down", "p": "p1"}, HB])
    # the node requests partial messages: publish, merge, missing parts, gossip, suppression, IDONTWANT, expiry
    add("request", {}, std_peers() + P4 + [
        HB, PPUB("g1", (0, 1)), X("p1", part=PART("g1", (0,))), X("p2", part=PART("g1", (0, 1, 2))), PPUB("g1", (0, 1, 2)), PPUB("g1", (0, 1, 2)),
        {"a": "publish", "t": "t1", "m": "m1"}, msg("p3", "m2"), msg("p3", "m3", size=100), msg("p2", "m4", size=100),
        HB, X("p4", part=PART("g1", (0,))), X("p4", part=PART("g2", (1,))), X("p3", part=PART("g3")), PPUB("g2", (2,)), HB, HB, HB, HB, HB, PPUB("g3", (0,)), HB])
    # the node only supports sending: requesters are served partially, supporters in full; IDONTWANT flows
    add("support", {"topics": {"t1": "sup"}}, std_peers() + P4 + [
        HB, PPUB("g1", (0, 1)), {"a": "publish", "t": "t1", "m": "m1"}, msg("p3", "m2", size=100), HB, X("p1", part=PART("g1", (0,))), PPUB("g1", (0, 1, 2)), HB, HB, HB, HB, HB])
    # the node does not support partial messages on the topic: requesters get everything in full, MeshPeers is empty
    add("none", {"topics": {}}, std_peers() + P4 + [
        HB, PPUB("g1", (0, 1)), {"a": "publish", "t": "t1", "m": "m1"}, msg("p3", "m2"), X("p1", part=PART("g2")), HB, HB, HB, HB, HB])
    # flood publishing; two topics with different modes; unsubscribe and re-subscribe with other flags
    add("flood", {"flood": True, "topics": {"t1": "req", "t2": "sup"}}, [SUBSCRIBE2] + std_peers() + P4 + [
        X("p1", subs=[SUB("t2", req=True)]), X("p2", subs=[SUB("t2", req=True)]), X("p3", subs=[SUB("t2")]), X("p1", graft=["t2"]), X("p3", graft=["t2"]), HB,
        {"a": "publish", "t": "t1", "m": "m1"}, {"a": "publish", "t": "t2", "m": "m2"}, PPUB("g1", (0,), "t2"), PPUB("g1", (1,), "t1"),
        X("p1", subs=[SUB("t1", sub=False)]), {"a": "publish", "t": "t1", "m": "m3"}, X("p1", subs=[SUB("t1")]), {"a": "publish", "t": "t1", "m": "m4"},
        X("p1", subs=[SUB("t1", req=True)]), {"a": "publish", "t": "t1", "m": "m5"}, HB, HB])
    # finding X04-F5: a peer requests partial messages in its subscription without having advertised the extension
    add("f5", {}, std_peers(p1=False) + [
        NP("p1"), X("p1", ext=EXT(False), subs=[SUB(req=True)]), X("p1", graft=["t1"]), NP("p4"), X("p4", subs=[SUB(req=True)]), HB,
        PPUB("g1", (0, 1)), {"a": "publish", "t": "t1", "m": "m1"}, HB, {"a": "down", "p": "p1"}, HB, HB, HB, HB, HB])
    # finding X04-F3: the peer's own stream closes first / outbound first (clean) / re-opened outbound stream
    add("f3", {"test": True}, std_peers() + [
        HB, PPUB("g1", (0, 1)), X("p1", part=PART("g2")), {"a": "closeOut", "p": "p1"}, {"a": "down", "p": "p1"}, HB,
        X("p2", part=PART("g3")), {"a": "resetIn", "p": "p2"}, HB, HB, PPUB("g1", (0, 1, 2)), {"a": "down", "p": "p2"}, HB, HB, HB, HB, HB])
    # a partial RPC handled while the node has no outbound stream to the peer (its re-open is held back)
    add("no-outbound", {}, std_peers() + [
        HB, {"a": "hold", "p": "p1"}, {"a": "resetIn", "p": "p1"}, X("p1", part=PART("g1")), {"a": "down", "p": "p1"}, {"a": "release", "p": "p1"},
        HB, HB, HB, HB, HB])
    # the peer-initiated limits in the node
    add("limits", {"limT": 2, "limP": 1}, std_peers() + [
        HB, X("p1", part=PART("g1")), X("p1", part=PART("g2")), X("p2", part=PART("g2")), X("p2", part=PART("g3")), X("p1", part=PART("g1", (1,))),
        PPUB("g1"), X("p1", part=PART("g3")), HB, HB, HB, HB, X("p2", part=PART("g3"))])
    # reconnect: everything starts from zero
    add("reconnect", {}, std_peers() + [
        HB, PPUB("g1", (0, 1)), X("p1", part=PART("g1", (0, 1))), {"a": "down", "p": "p1"}, HB, NP("p1"), X("p1", ext=EXT(), subs=[SUB(req=True)]), X("p1", graft=["t1"]),
        HB, PPUB("g1", (0, 1)), {"a": "publish", "t": "t1", "m": "m1"}, HB])
    return D


def node_from_history(evs, k):
    """One peer's handshake history (NGenSpec) inside a standard environment: p2 / p3 keep the mesh populated, the application
    publishes before and after, the peer leaves at the end."""
    acts = std_peers(p1=False) + [HB, PPUB("g2", (0,))]
    alt = 0
    for e in evs:
        a = e["a"]
        if a == "connect":
            acts.append(NP("p1", e["proto"], ["in", "out"][(k + alt) % 2]))
            alt += 1
        elif a == "recv":
            subs = [SUB("t1", req=e["req"], sup=e["req"])]
            acts.append(X("p1", ext=e["ext"] if e["ext"]["present"] else None, subs=subs, part=PART("g1") if e["part"] else None, graft=["t1"]))
        elif a == "indown":
            acts.append({"a": ["closeOut", "resetOut"][(k + alt) % 2], "p": "p1"})
            alt += 1
        elif a == "inup":
            acts.append({"a": "openOut", "p": "p1"})
        elif a == "outdown":
            acts.append({"a": "resetIn", "p": "p1"})
        elif a == "outup":
            acts += [dict(HB), dict(HB)]
        elif a == "ppub":
            acts.append(PPUB("g1", (0, 1)))
        elif a == "down":
            acts.append({"a": "down", "p": "p1"})
        elif a == "down-infirst":
            acts += [{"a": "closeOut", "p": "p1"}, {"a": "down", "p": "p1"}]
        else:
            raise vlib.Inconclusive("unknown handshake event %r" % a)
    acts += [PPUB("g2", (0, 1)), {"a": "publish", "t": "t1", "m": "mz"}, dict(HB), {"a": "down", "p": "p1"}, dict(HB), dict(HB)]
    cfg = dict(NODE_CFG, test=bool(k % 3 == 0), topics={"t1": ["req", "sup"][k % 2]})
    return {"src": "gen-node", "cfg": cfg, "acts": acts}


def node_scenarios(ctx, pool):
    rng = random.Random(ctx.seed * 104729 + 4)
    scns = node_directed()
    lim = 1500 if ctx.thorough else 110
    pool = list(pool)
    exhaustive = len(pool) <= lim
    if not exhaustive:
        rng.shuffle(pool)
        pool = pool[:lim]
    for i, evs in enumerate(pool):
        scns.append(node_from_history(evs, i + ctx.seed))
    for i, s in enumerate(scns):
        s["id"] = i
    return scns, exhaustive


NOEXT = {"present": False, "partial": False, "test": False}
NOPART = {"present": False, "t": "", "g": "", "hasMeta": False, "meta": [], "hasMsg": False}
NODE_ACTS = {"peer", "x", "msg", "publish", "ppub", "subscribe", "cancel", "hb", "down", "closeOut", "resetOut", "openOut", "resetIn", "hold", "release", "end"}


def msgparts(s):
    s = s[len("parts:"):] if s.startswith("parts:") else ""
    return [int(x) for x in s.split(",") if x != ""]


def pairs(m):
    return [[t, p] for t, l in sorted((m or {}).items()) for p in l]


def snap_node(row):
    st = row["st"]
    return {"mesh": pairs(st.get("mesh")), "fanout": pairs(st.get("fanout")), "tpeers": pairs(st.get("topics")),
            "joined": sorted((st.get("myTopics") or {}).keys()), "pen": [{"p": p, "n": n} for p, n in sorted((st.get("pen") or {}).items())]}


def slim_node(row, prev):
    a = row["act"]
    if a["a"] == "reset":
        c = a["cfg"]
        return {"e": "reset", "scn": row["scn"], "i": 0, "a": "reset", "partial": c["partial"], "test": c["test"], "flood": c["flood"], "ttl": c["ttl"],
                "limT": c["limT"], "limP": c["limP"], "eager": c["eager"], "regossip": c["regossip"], "sloppy": c["sloppy"],
                "modes": [{"t": t, "mode": m} for t, m in sorted((c.get("topics") or {}).items())]}
    if a["a"] not in NODE_ACTS:
        raise vlib.Inconclusive("node action outside the alphabet of the trace specification: %r" % a["a"])
    x, st, cur, pre = row["x"], row["st"], snap_node(row), snap_node(prev)
    sends = a["a"] in ("x", "msg") and not a.get("sendErr")
    xe = dict(NOEXT)
    xe.update(a.get("ext") or {})
    xp = dict(NOPART)
    xp.update(a.get("part") or {})
    xs = [{"t": s["t"], "sub": bool(s.get("sub")), "req": bool(s.get("req")), "sup": bool(s.get("sup"))} for s in (a.get("subs") or [])] if a["a"] == "x" else []
    frames = []
    for p, frs in sorted(row["out"].items()):
        if frs and p not in NODE_PEERS:
            raise vlib.Inconclusive("peer outside the universe of the trace specification: %r" % p)
        for n, fr in enumerate(frs):
            pt = fr["partial"]
            frames.append({"p": p, "n": n + 1, "ext": fr["ext"],
                           "part": {"present": pt["present"], "t": pt["t"], "g": pt["g"], "hasMsg": pt["hasMsg"], "msg": msgparts(pt["msg"]),
                                    "hasMeta": pt["hasMeta"], "meta": pt["meta"]},
                           "msgs": [{"m": m["m"], "t": m["topic"]} for m in fr["msgs"]], "ihave": [h["topic"] for h in fr["ihave"]],
                           "idw": sum(len(l) for l in fr["idontwant"]), "testx": fr["hasTestExt"]})
    return {"e": "step", "scn": row["scn"], "i": row["i"], "a": a["a"], "p": a.get("p", ""), "t": a.get("t", ""), "g": a.get("g", ""),
            "parts": a.get("parts", []), "m": a.get("m", ""), "sends": sends, "xext": xe, "xsubs": xs, "xpart": xp, "xtest": bool(a.get("testx")),
            "served": a["a"] in ("publish", "msg"),
            "evo": [{"k": e["k"], "p": e["p"], "proto": e.get("proto", "")} for e in row["ev"] if e["k"] in ("Up", "Down")],
            "frames": frames, "hb": row["hb"],
            "mesh": cur["mesh"], "fanout": cur["fanout"], "tpeers": cur["tpeers"], "joined": cur["joined"], "pen": cur["pen"],
            "premesh": pre["mesh"], "prefanout": pre["fanout"], "pretpeers": pre["tpeers"], "prejoined": pre["joined"], "prepen": pre["pen"],
            "recs": x["ext"]["peer"], "sentx": x["ext"]["sent"],
            "flags": [{"t": t, "p": p, "req": f["req"], "sup": f["sup"]} for t, m in sorted((st.get("partial") or {}).items()) for p, f in sorted(m.items())],
            "groups": x["pm"]["groups"], "empty": x["pm"]["empty"], "ctr": x["pm"]["ctr"], "cb": x["cb"], "testrecv": x["testrecv"],
            "ret": {"k": x["ret"], "ps": []}}


def node_trace_cfg():
    c = consts(Peers=sset(NODE_PEERS), Topics=sset(OBJ_TOPICS), Groups=sset(OBJ_GROUPS), Parts="{0, 1, 2, 3, 4, 5, 6, 7}",
               CTtl=3, CLimT=255, CLimP=8, ResetOnClose=True, StaleDec=True, KeepEntries=True, Acts="{}")
    return vlib.cfg_text(spec="NodeTraceSpec", constants=c, constraint="HW", postcondition="Accepted")


def replay_node(ctx, scns):
    n = 1 if len(scns) < 40 else (4 if ctx.thorough else 3)
    parts = [scns[k::n] for k in range(n)]

    def one(k):
        inp, outp, mark = [os.path.join(ctx.work, "node%d.%s" % (k, x)) for x in ("scn.ndjson", "trace.ndjson", "marker")]
        vlib.write_ndjson(inp, parts[k])
        by_id = {s["id"]: s for s in parts[k]}
        skip = []
        for attempt in range(4):
            todo = [s for s in parts[k] if s["id"] not in skip]
            vlib.write_ndjson(inp, todo)
            outk = outp if not attempt else outp + ".r%d" % attempt
            r = vlib.run_go(ctx, "./drivers/x04/", "^TestX04Node$", env={"VERIF_IN": inp, "VERIF_OUT": outk, "VERIF_MARKER": mark},
                            timeout=1500 if ctx.thorough else 600, name="node%d%s" % (k, "" if not attempt else "-r%d" % attempt))
            if r["rc"] == 0:
                return [outp] + [outp + ".r%d" % i for i in range(1, attempt + 1)]
            sid = open(mark).read().strip() if os.path.exists(mark) else ""
            if not sid.isdigit():
                raise vlib.Inconclusive("node driver died before its first scenario (see %s)" % r["log"])
            # a dead driver is a violation only if the scenario, replayed alone, panics again in library code
            inp1, out1 = os.path.join(ctx.work, "node-crash-%s.scn.ndjson" % sid), os.path.join(ctx.work, "node-crash-%s.trace.ndjson" % sid)
            vlib.write_ndjson(inp1, [by_id[int(sid)]])
            r1 = vlib.run_go(ctx, "./drivers/x04/", "^TestX04Node$", env={"VERIF_IN": inp1, "VERIF_OUT": out1}, timeout=300, name="node-crash-%s" % sid)
            why = lib_panic(r1["out"]) if r1["rc"] != 0 else None
            if why:
                scn = by_id[int(sid)]
                vlib.add_violation(ctx, "P_X04_i", {"level": "node", "kind": "panic", "where": why[:80]},
                                   "the node panics: %s (scenario %s, %s)" % (why, scn["id"], scn["src"]), {"level": "node", "scenario": scn})
            elif r1["rc"] != 0:
                raise vlib.Inconclusive("node driver fails on scenario %s (see %s)" % (sid, r1["log"]))
            skip.append(int(sid))
        raise vlib.Inconclusive("node driver keeps dying (see %s)" % r["log"])

    with cf.ThreadPoolExecutor(max_workers=n) as ex:
        paths = [p for l in ex.map(one, range(n)) for p in l]
    by_id = {s["id"]: s for s in scns}
    runs, seen = [], set()
    for path in paths:
        if not os.path.exists(path):
            continue
        cur = None
        for row in vlib.read_ndjson(path):
            a = row["act"]["a"]
            if a == "reset":
                cur = [row]
            elif cur is not None:
                if a == "end":
                    if row["scn"] not in seen:
                        seen.add(row["scn"])
                        runs.append((by_id[row["scn"]], cur))
                    cur = None
                else:
                    cur.append(row)
    return runs


def validate_node(ctx, runs, acc):
    chunk = 60
    jobs = []
    for ci in range(0, len(runs), chunk):
        path = os.path.join(ctx.work, "tv-node-%d.ndjson" % ci)
        with open(path, "w") as f:
            for gi, (scn, lines) in enumerate(runs[ci:ci + chunk]):
                prev = None
                for row in lines:
                    s = slim_node(row, prev or row)
                    s["scn"] = ci + gi
                    f.write(json.dumps(s, separators=(",", ":")) + "\n")
                    prev = row
        jobs.append(("tv-node-%d" % ci, path))
    viols, steps, drifts = [], [], []
    cfg = node_trace_cfg()

    def one(j):
        res = vlib.run_tlc(ctx, FAMILY, "PartialNodeTrace", cfg, mode="trace", files={"trace.ndjson": j[1]}, timeout=1500, name=j[0], heap="4g")
        if res.hw is None or res.hw[0] < res.hw[1] or res.violated or res.timed_out:
            raise vlib.Inconclusive("trace validation did not consume its input (hw=%s errors=%s, see %s/tlc.out)" % (res.hw, res.errors[:2], res.dir))
        v, s, d = res.printed("VIOL"), res.printed("NSTEP"), res.printed("DRIFT")
        if len(v) != len(res.printed_raw("VIOL")) or len(s) != len(res.printed_raw("NSTEP")):
            raise vlib.Inconclusive("unparsable VIOL/NSTEP output in %s/tlc.out" % res.dir)
        return v, s, d, res.distinct
    with cf.ThreadPoolExecutor(max_workers=3 if ctx.thorough else 2) as ex:
        for v, s, d, st in ex.map(one, jobs):
            viols += v
            steps += s
            drifts += d
            acc["states"] += st
    return viols, steps, drifts


NODE_OBLIGATIONS = ["hello-with-ext", "hello-v13-no-local-ext", "hello-old-protocol", "outbound-reopened-record-kept", "first-rpc-advertises-partial",
                    "first-rpc-without-ext", "first-rpc-advertises-test", "first-rpc-old-protocol", "second-ext-message", "second-ext-message-differs",
                    "inbound-closed-record-dropped", "peer-reconnected", "partial-rpc-dispatched", "partial-rpc-from-peer-without-ext",
                    "partial-rpc-without-local-ext", "partial-rpc-in-first-rpc", "partial-rpc-over-limit", "test-rpc-dispatched", "test-rpc-ignored", "test-rpc-sent",
                    "publish-partial-sent", "publish-partial-not-enabled", "publish-partial-with-message", "publish-partial-metadata-only",
                    "mesh-peer-excluded-from-partial", "requester-without-ext-in-mesh", "supporter-gets-metadata", "gossip-wired", "gossip-rpc-sent",
                    "expiry-wired", "ttl-countdown-wired", "close-wired", "outbound-closed-after-inbound", "outbound-closed-inbound-alive",
                    "partial-rpc-without-outbound-stream", "partial-rpc-from-old-protocol-peer-with-ext",
                    "full-message-suppressed", "full-message-sent", "requester-served-because-node-does-not-support", "ihave-sent", "idontwant-sent",
                    "idontwant-suppressed"]


# ------------------------------------------------------------------------------------------------ the bitmap package
def bitmap_stage(ctx, acc):
    outp = os.path.join(ctx.work, "bitmap.trace.ndjson")
    r = vlib.run_go(ctx, "./drivers/x04/", "^TestX04Bitmap$", env={"VERIF_OUT": outp}, timeout=600, name="bitmap")
    if r["rc"] != 0 or not os.path.exists(outp):
        why = lib_panic(r["out"])
        if why:
            vlib.add_violation(ctx, "P_X04_d", {"level": "bitmap", "kind": "panic", "where": why[:80]}, "partialmessages/bitmap panics: %s" % why, {"log": r["log"]})
            return [], 0
        raise vlib.Inconclusive("bitmap driver failed (rc=%s, see %s)" % (r["rc"], r["log"]))
    rows = vlib.read_ndjson(outp)
    res = vlib.run_tlc(ctx, FAMILY, "BitmapTrace", "BitmapTrace.cfg", mode="trace", files={"trace.ndjson": outp}, timeout=600, name="tv-bitmap", heap="2g")
    if res.hw is None or res.hw[0] < res.hw[1] or res.violated or res.timed_out:
        raise vlib.Inconclusive("bitmap trace validation did not consume its input (hw=%s errors=%s, see %s/tlc.out)" % (res.hw, res.errors[:2], res.dir))
    acc["states"] += res.distinct
    kinds = {}
    for row in rows:
        kinds[row["e"]] = kinds.get(row["e"], 0) + 1
    if not (kinds.get("merge", 0) >= 900 and kinds.get("set", 0) >= 200 and kinds.get("clear", 0) >= 200):
        raise vlib.Inconclusive("bitmap driver recorded too little: %s" % kinds)
    by_i = {row["i"]: row for row in rows}
    return [dict(v, line=by_i.get(v["i"])) for v in res.printed("VIOL")], len(rows) - 1


# ------------------------------------------------------------------------------------------------ the check
def run(ctx):
    acc = {"states": 0, "transitions": 0, "mc": {}, "gen": {}}
    if ctx.replay:
        payload = json.load(open(ctx.replay))
        rp = payload.get("replay") or {}
        scn = rp.get("scenario")
        if not scn:
            raise vlib.Inconclusive("replay file has no scenario")
        scn["id"] = 0
        per_sig = {}
        if rp.get("level") == "node":
            runs = replay_node(ctx, [scn])
            viols, steps, _ = validate_node(ctx, runs, acc)
            report(ctx, "node", viols, lambda i: runs[i], per_sig)
        else:
            runs = replay_obj(ctx, [dict(scn, src="directed:replay")], reps_directed=3)
            viols, steps = validate_obj(ctx, runs, acc)
            report(ctx, "obj", viols, lambda i: runs[i], per_sig)
        return vlib.finish(ctx, LEVEL, {"states": max(acc["states"], 1), "transitions": max(acc["states"], 1), "traces_validated_against_impl": len(runs),
                                        "samples": [{"replayed": ctx.replay, "steps_judged": len(steps)}], "evaluations": len(steps),
                                        "distinct_nontrivial": len(steps), "rule": "single replayed scenario"}, ["replay of one scenario"])

    pools = tlc_jobs(ctx, acc)
    scns, exhaustive = obj_scenarios(ctx, pools)
    nscns, nexh = node_scenarios(ctx, pools["gen-node"])
    if os.environ.get("X04_DEV_NODE_ONLY"):      # development aid only: many generated node scenarios, few object runs
        scns = scns[:30]
        rng = random.Random(ctx.seed)
        pool = list(pools["gen-node"])
        rng.shuffle(pool)
        nscns = node_directed() + [node_from_history(e, i + ctx.seed) for i, e in enumerate(pool[:int(os.environ["X04_DEV_NODE_ONLY"])])]
        for i, x in enumerate(nscns):
            x["id"] = i
    exhaustive["gen-node"] = nexh
    ctx.log("replaying %d call sequences on the real extension object and %d scenarios on the real node" % (len(scns), len(nscns)))
    with cf.ThreadPoolExecutor(max_workers=2) as ex:
        f_obj, f_node = ex.submit(replay_obj, ctx, scns), ex.submit(replay_node, ctx, nscns)
        runs, nruns = f_obj.result(), f_node.result()
    nlines, nnlines = sum(len(l) for _, l in runs), sum(len(l) for _, l in nruns)
    ctx.log("recorded %d calls of %d object runs and %d steps of %d node scenarios; validating with TLC" % (nlines, len(runs), nnlines, len(nruns)))
    with cf.ThreadPoolExecutor(max_workers=2) as ex:
        f_obj, f_node = ex.submit(validate_obj, ctx, runs, acc), ex.submit(validate_node, ctx, nruns, acc)
        viols, steps = f_obj.result()
        nviols, nsteps, drifts = f_node.result()
    per_sig = {}
    report(ctx, "obj", viols, lambda i: runs[i], per_sig)
    report(ctx, "node", nviols, lambda i: nruns[i], per_sig)
    bviols, bcalls = bitmap_stage(ctx, acc)
    for v in bviols:
        sig = {"level": "bitmap", "kind": v["kind"]}
        key = (v["pred"], json.dumps(sig, sort_keys=True))
        per_sig[key] = per_sig.get(key, 0) + 1
        if per_sig[key] <= 1:
            vlib.add_violation(ctx, v["pred"], sig, "partialmessages/bitmap: %s on call %s" % (v["kind"], json.dumps(v.get("line"))[:400]), {"level": "bitmap", "call": v.get("line")})
        else:
            ctx.violations.append({"pred": v["pred"], "sig": sig, "detail": "", "replay": ""})
    hits = {}
    for s in steps + nsteps:
        for t in s["tags"]:
            hits[t] = hits.get(t, 0) + 1
    drift_kinds = {}
    for d in drifts:
        drift_kinds[d["kind"]] = drift_kinds.get(d["kind"], 0) + 1
    known = vlib.load_findings(ctx.pid)
    new = [v for v in ctx.violations if not any(vlib.sig_matches(f, v) for f in known)]
    done_ids = {s["id"] for s, _ in nruns}
    missing = [s["id"] for s in nscns if s["id"] not in done_ids]
    if not new:
        if missing:
            raise vlib.Inconclusive("%d node scenarios were not replayed to the end (e.g. %s)" % (len(missing), missing[:5]))
        if drift_kinds:
            raise vlib.Inconclusive("node steps left the envelope in which the expectation is determined: %s" % drift_kinds)
        unmet = [k for k in OBJ_OBLIGATIONS + NODE_OBLIGATIONS if not hits.get(k)]
        if unmet:
            raise vlib.Inconclusive("coverage obligations not met on real steps: %s" % unmet)
    elif missing or drift_kinds:
        ctx.notes.append("%d node scenarios not replayed to the end, drift %s; the verdict rests on the others" % (len(missing), drift_kinds))
    nontrivial = {json.dumps([s["cfg"], s["acts"]], sort_keys=True) for s in scns if sum(1 for a in s["acts"] if a["a"] in ("pub", "rpc", "close", "gossip")) >= 2}
    nnontrivial = {json.dumps([s["cfg"], s["acts"]], sort_keys=True) for s, _ in nruns}
    samples = []
    if runs:
        samples.append({"level": "obj", "scenario": runs[0][0], "trace": runs[0][1][:5]})
    if nruns:
        s0, l0 = nruns[0]
        samples.append({"level": "node", "scenario": {"src": s0["src"], "cfg": s0["cfg"], "acts": s0["acts"][:12]},
                        "trace": [{k: v for k, v in r.items() if k in ("i", "t", "act", "hb", "out", "x")} for r in l0[1:5]]})
    cov = {"states": acc["states"], "transitions": acc["transitions"] + nlines + nnlines, "traces_validated_against_impl": len(runs) + len(nruns),
           "samples": samples, "evaluations": len(steps) + len(nsteps) + bcalls, "bitmap_calls": bcalls, "distinct_nontrivial": len(nontrivial) + len(nnontrivial),
           "rule": "one evaluation = one recorded call on the real extension object judged by PartialTrace (groups, counters, limit decision, RPCs, callbacks) or one step "
                   "of the real node judged by PartialNodeTrace (frames, handshake records, penalty, dispatch, suppression, the extension's bookkeeping); a scenario is "
                   "non-trivial with at least two of publish / RPC / close / gossip (object) and always (node: every scenario carries a handshake); distinct by (configuration, actions)",
           "exhaustive": all(exhaustive.values()), "exhaustive_note": "generator pools replayed completely: %s (otherwise a seeded sample)" % exhaustive,
           "obligations": {k: hits.get(k, 0) for k in OBJ_OBLIGATIONS + NODE_OBLIGATIONS},
           "violating_instances": {"%s %s" % k: n for k, n in sorted(per_sig.items())},
           "object": {"scenarios": len(scns), "runs": len(runs), "calls": nlines}, "node": {"scenarios": len(nruns), "steps": nnlines},
           "mc": acc["mc"], "gen": acc["gen"], "model_drift": drift_kinds}
    return vlib.finish(ctx, LEVEL, cov, [
        "object level: the extension object is driven through its exported methods by one goroutine, its bookkeeping is read with VerifX04Snapshot / VerifPeerStates "
        "(build tag verif); the application around it is the driver's (parts as bitmaps merged with the real partialmessages/bitmap.Merge, eager push, metadata when changed)",
        "node level: one real gossipsub node (harness/world, world.SmallParams, heartbeat 1 s, peer scoring with BehaviourPenaltyWeight 0 so that the misbehaviour report is "
        "visible as the behaviour penalty and changes no score) with at most four wire-level fake peers; stimuli keep 50/150 ms away from heartbeat instants",
        "the handshake monitors are built from what the scenario made the fake peers send and from the Up/Down tracer events; mesh, fanout, topic peers and joined topics "
        "are read from the node's snapshot (they are inputs of X04.j/k, not their subject)",
        "gossip targets are determined only while a topic has at most Dlazy = 2 non-mesh candidates (otherwise the run is inconclusive, never a verdict)",
        "for an RPC that names a group without state the reference follows the decision the code took and X04.c judges the decision against the groups that really count; "
        "where a listed finding explains a deviation (as-found-...) the reference follows the node so that later steps are still judged",
        "partialmessages/bitmap (Merge, Set, Clear, Get, OnesCount, IsZero) is judged on all pairs / indices over 31 bitmaps of 0..2 bytes against set union / insertion / removal",
        "findings X04-F1..F6 are reported as known findings; every other failure of the same predicates is a violation"])
