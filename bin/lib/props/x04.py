"""X04 - the partial-messages extension and the extensions handshake (extension family; spec/partial).

partialmessages/partialmsgs.go (PartialMessagesExtension: group state, time to live, peer-initiated limits and
counters, the send rule, gossip, peer removal) and the glue in extensions.go / gossipsub.go / pubsub.go
(extensionsState: first-message rule, misbehaviour report, dispatch; RequestsPartial / SupportsSendingPartial
subscription flags; full-message suppression; MeshPeers / EmitGossip / Heartbeat / OnClosedOutboundStream wiring).

spec/partial: PartialExt.tla (properties X04.a-f, the object's methods as operators, exhaustive MC incl. the
design as found and one seeded defect per property, scenario generator), PartialTrace.tla (trace specification of
the object alone), PartialNode.tla / PartialNodeTrace.tla (properties X04.g-k, handshake model and the trace
specification of the real node).

  1. MC   exhaustive: ideal design satisfies a-f (+ strict c); the design as found violates b (finding X04-F1) and
          strict c (X04-F2) and nothing else; each seeded defect violates its property; the handshake model.
  2. Gen  TLC emits every call sequence of a bounded length (BFS) and seeded random walks (-simulate); directed
          scenarios (below) discharge the coverage obligations whatever the seed.
  3. Go   harness/drivers/x04: TestX04Obj (the REAL extension object, recording router stub, bitmap application),
          TestX04Node (a REAL gossipsub node in harness/world, fake v1.3 / v1.2 / floodsub peers).
  4. TV   TLC folds the operators over the recorded calls / steps and prints every failing predicate instance.
"""
import concurrent.futures as cf
import json, os, random, re
from .. import vlib

LEVEL = "model_checking"
FAMILY = "partial"
OBJ_PEERS, OBJ_TOPICS, OBJ_GROUPS = ["p1", "p2", "p3"], ["t1", "t2"], ["g1", "g2", "g3"]
ALL_ACTS = '{"pub", "rpc", "hb", "close", "mesh", "gossip", "req"}'
INVS = ["TypeOK", "P_X04_a", "P_X04_b", "P_X04_c", "P_X04_cStrict", "P_X04_d", "P_X04_e", "P_X04_f"]
# seeded model defects: (Dev, property that must fail, extra constants)
DEVS = [("norefresh", "P_X04_a", {}), ("ttlearly", "P_X04_a", {"CTtl": 2}), ("hbkeepempty", "P_X04_a", {}),
        ("nodecexpiry", "P_X04_b", {}), ("nodecconvert", "P_X04_b", {}),
        ("offbyone", "P_X04_c", {}), ("createondrop", "P_X04_c", {}),
        ("msgtononreq", "P_X04_d", {"CSloppy": True, "Acts": ALL_ACTS, "Groups": '{"g1"}'}),
        ("gossippeerinit", "P_X04_e", {"Acts": ALL_ACTS, "Groups": '{"g1"}'}),
        ("leakclose", "P_X04_f", {})]


def sset(l):
    return "{" + ", ".join('"%s"' % x for x in l) + "}"


def consts(**over):
    c = {"Peers": '{"p1", "p2"}', "Topics": '{"t1"}', "Groups": '{"g1", "g2"}', "Parts": "{0}",
         "CTtl": 1, "CLimT": 2, "CLimP": 1, "CEager": True, "CRegossip": True, "CSloppy": False,
         "ResetOnClose": False, "StaleDec": False, "Dev": '"none"', "MaxLen": 0, "Bursts": "{}",
         "Acts": '{"pub", "rpc", "hb", "close"}'}
    c.update(over)
    return c


# ------------------------------------------------------------------------------------------------ TLC: MC + generation
def tlc_jobs(ctx, acc):
    th = ctx.thorough
    jobs = {}

    def mc(name, invs, timeout=900, **over):
        jobs[name] = dict(module="PartialExt", cfg=vlib.cfg_text(constants=consts(**over), invariants=invs, view="MCView"), timeout=timeout)

    # the ideal design (counters kept until the group goes; Dec only for groups that count): everything holds
    mc("mc-ideal", INVS)
    mc("mc-ideal-2topics", INVS, Topics='{"t1", "t2"}', Groups='{"g1"}')
    mc("mc-ideal-send", INVS, Groups='{"g1"}', Parts="{0, 1}", Acts=ALL_ACTS)
    # reset on close without the stale decrement: only the strict reading of c fails (X04-F2)
    mc("mc-epoch", [i for i in INVS if i != "P_X04_cStrict"], ResetOnClose=True)
    mc("mc-epoch-strict", ["P_X04_cStrict"], ResetOnClose=True)
    # the design as found: b fails (X04-F1; c follows), a d e f hold
    mc("mc-asfound", ["TypeOK", "P_X04_a", "P_X04_d", "P_X04_e", "P_X04_f"], ResetOnClose=True, StaleDec=True)
    mc("mc-asfound-b", ["P_X04_b"], ResetOnClose=True, StaleDec=True)
    for dev, prop, extra in DEVS:
        mc("mc-dev-" + dev, [prop], timeout=600, Dev='"%s"' % dev, **extra)
    if th:
        mc("mc-ideal-3groups", INVS, timeout=1500, CTtl=2, Groups='{"g1", "g2", "g3"}')
        mc("mc-asfound-send", ["TypeOK", "P_X04_a", "P_X04_d", "P_X04_e", "P_X04_f"], timeout=1500, ResetOnClose=True, StaleDec=True,
           Groups='{"g1"}', Parts="{0, 1}", Acts=ALL_ACTS, Peers='{"p1", "p2", "p3"}', CLimT=1)
    if os.path.exists(os.path.join(vlib.SPEC, FAMILY, "MCPartialNode.cfg")):
        jobs["mc-node"] = dict(module="PartialNode", cfg="MCPartialNode.cfg", timeout=900)
    for dev, prop in NODE_DEVS:
        jobs["mc-node-dev-" + dev] = dict(module="PartialNode", timeout=600,
                                          cfg=open(os.path.join(vlib.SPEC, FAMILY, "MCPartialNode.cfg")).read()
                                          .replace('NDev = "none"', 'NDev = "%s"' % dev))

    # generators: call sequences of the object
    def gen(name, maxlen, sim=None, depth=None, **over):
        c = consts(MaxLen=maxlen, ResetOnClose=True, StaleDec=True, **over)
        jobs[name] = dict(module="PartialExt", cfg=vlib.cfg_text(spec="GenSpec", constants=c, invariants=["Emit"]), timeout=900, heap="6g",
                          mode="sim" if sim else "mc", simulate=("num=%d" % sim) if sim else None, depth=depth, workers=1 if sim else None)

    gen("gen-bfs-count", 5 if th else 4, Groups='{"g1", "g2"}', Bursts="{1, 4}", CTtl=3, Acts='{"pub", "rpc", "hb", "close"}')
    gen("gen-bfs-all", 4 if th else 3, Groups='{"g1", "g2"}', Parts="{0, 1}", Bursts="{1, 4}", CTtl=3, Acts=ALL_ACTS)
    gen("gen-walks", 14, sim=6000 if th else 700, depth=16, Peers='{"p1", "p2", "p3"}', Topics='{"t1", "t2"}', Groups='{"g1", "g2", "g3"}',
        Parts="{0, 1}", Bursts="{1, 2, 4}", CTtl=3, CLimT=3, CLimP=2, Acts=ALL_ACTS)
    if os.environ.get("X04_DEV_SKIP_MC"):       # development aid only (mutation trials)
        jobs = {k: v for k, v in jobs.items() if k.startswith("gen-")}

    def one(name):
        j = dict(jobs[name])
        module, cfg = j.pop("module"), j.pop("cfg")
        if j.get("workers") is None:
            j["workers"] = 2 if not th else 4
        j.setdefault("heap", "4g")
        return name, vlib.run_tlc(ctx, FAMILY, module, cfg, name=name, **j)

    order = sorted(jobs, key=lambda n: (not n.startswith("gen-"), "3groups" not in n, n))
    with cf.ThreadPoolExecutor(max_workers=2) as ex:
        res = dict(ex.map(one, order))
    for n, r in res.items():
        if n.startswith("gen-"):
            continue
        if "-dev-" in n:
            prop = dict((d, p) for d, p, _ in DEVS).get(n.split("-dev-")[1]) or dict(NODE_DEVS)[n.split("-dev-")[1]]
            vlib.require_mc_fails(ctx, r, "%s (seeded defect)" % n, prop)
            acc["mc"]["%s_fails_%s" % (n[3:], prop)] = True
        elif n in ("mc-epoch-strict", "mc-asfound-b"):
            prop = "P_X04_cStrict" if n == "mc-epoch-strict" else "P_X04_b"
            vlib.require_mc_fails(ctx, r, "%s (design as found)" % n, prop)
            acc["mc"]["%s_fails_%s" % (n[3:], prop)] = True
        else:
            vlib.require_mc_ok(ctx, r, n, allow_timeout=(n in ("mc-ideal-3groups", "mc-asfound-send")))
            acc["mc"][n[3:]] = [r.distinct, r.generated]
    pools = {}
    for n in ("gen-bfs-count", "gen-bfs-all", "gen-walks"):
        r = res[n]
        if r.timed_out or r.violated or (n != "gen-walks" and not r.no_error):
            raise vlib.Inconclusive("generator %s failed: %s (see %s/tlc.out)" % (n, r.errors[:2], r.dir))
        seen, pool = set(), []
        for s in r.printed("SCN"):
            k = json.dumps(s["evs"], sort_keys=True)
            if k not in seen:
                seen.add(k)
                pool.append(s["evs"])
        pool.sort(key=lambda evs: json.dumps(evs, sort_keys=True))      # TLC's print order depends on its worker threads
        if not pool:
            raise vlib.Inconclusive("generator %s emitted nothing (see %s/tlc.out)" % (n, r.dir))
        pools[n] = pool
    for r in res.values():
        acc["states"] += r.distinct
        acc["transitions"] += r.generated
    acc["gen"] = {n: len(p) for n, p in pools.items()}
    return pools


# ------------------------------------------------------------------------------------------------ object level: scenarios
OBJ_CFGS = [  # rotated over the generated call sequences
    {"ttl": 3, "limT": 2, "limP": 1, "eager": True, "regossip": True, "sloppy": False},
    {"ttl": 0, "limT": 3, "limP": 2, "eager": False, "regossip": True, "sloppy": True},
    {"ttl": 4, "limT": 1, "limP": 1, "eager": True, "regossip": False, "sloppy": False},
    {"ttl": 3, "limT": 2, "limP": 2, "eager": True, "regossip": True, "sloppy": True},
    {"ttl": 3, "limT": 0, "limP": 0, "eager": False, "regossip": False, "sloppy": False},    # the defaults 255 / 8
]


def rpc(p, g, meta=(0,), t="t1", has_meta=True, has_msg=False, apperr=False):
    return {"a": "rpc", "p": p, "t": t, "g": g, "hasMeta": has_meta, "meta": list(meta), "hasMsg": has_msg, "apperr": apperr}


def pub(g, parts=(0, 1), t="t1", err=()):
    return {"a": "pub", "t": t, "g": g, "parts": list(parts), "err": list(err)}


def mesh(ps, t="t1"):
    return {"a": "mesh", "t": t, "ps": list(ps)}


def req(p, v=True, t="t1"):
    return {"a": "req", "p": p, "t": t, "v": v}


def close(p):
    return {"a": "close", "p": p}


def gossip(ps, t="t1"):
    return {"a": "gossip", "t": t, "ps": list(ps)}


HB = {"a": "hb"}


def obj_directed():
    D = []

    def add(name, cfg, acts):
        D.append({"src": "directed:" + name, "cfg": dict(OBJ_CFGS[0], **cfg), "acts": acts})

    # lifecycle: publish, refresh, expiry after exactly T heartbeats; empty groups go at the next heartbeat; T below the minimum
    add("ttl", {}, [mesh(["p1"]), req("p1"), pub("g1"), HB, HB, pub("g1"), HB, HB, HB, HB, HB, pub("g2", t="t2"), HB, pub("g1"), HB, HB, HB, HB])
    add("ttl-min", {"ttl": 1}, [mesh(["p1"]), pub("g1"), HB, HB, HB, HB, HB])
    add("ttl-4", {"ttl": 4}, [mesh(["p1"]), rpc("p2", "g2"), pub("g1"), HB, HB, HB, HB, HB, HB])
    add("empty", {}, [pub("g1"), HB, rpc("p1", "g2", has_meta=False, has_msg=True), rpc("p1", "g3", apperr=True), HB, HB])
    # peer RPCs never refresh
    add("rpc-no-refresh", {}, [rpc("p1", "g1"), HB, rpc("p1", "g1", meta=(1,)), rpc("p2", "g1"), HB, HB, HB, HB])
    # limits: per peer, per topic, other topic untouched, existing group always served, drop leaves nothing
    add("limits", {"limT": 3, "limP": 2}, [rpc("p1", "g1"), rpc("p1", "g2"), rpc("p1", "g3"), rpc("p1", "g2", meta=(1,)), rpc("p2", "g3"),
                                             rpc("p3", "g3", meta=(2,)), rpc("p1", "g1", t="t2"), HB, HB, HB, HB, rpc("p1", "g3")])
    add("limit-total", {"limT": 2, "limP": 2}, [rpc("p1", "g1"), rpc("p2", "g2"), rpc("p3", "g3"), rpc("p2", "g3"), rpc("p3", "g1"),
                                                  pub("g1"), rpc("p3", "g3"), HB, HB, HB, HB, rpc("p3", "g2")])
    add("defaults", {"limT": 0, "limP": 0}, [rpc("p1", "g1"), rpc("p1", "g2"), rpc("p1", "g3"), close("p1")])
    # conversion by publish: counted group
    add("convert", {}, [rpc("p1", "g1"), mesh(["p1", "p2"]), req("p1"), pub("g1"), rpc("p1", "g2"), HB, HB, HB, HB])
    # finding X04-F1 (stale decrement) through expiry and through conversion; X04-F2 (limit reset on close)
    add("stale-dec-expiry", {}, [rpc("p1", "g1"), close("p1"), rpc("p1", "g2"), HB, rpc("p1", "g3"), HB, HB, HB, HB])
    add("stale-dec-convert", {}, [rpc("p1", "g1"), rpc("p2", "g1", meta=(1,)), close("p1"), rpc("p1", "g2"), mesh(["p1", "p2"]), req("p1"),
                                  pub("g1", parts=(0, 1, 2)), rpc("p1", "g3"), HB, HB, HB, HB, HB])
    add("reset-on-close", {"limT": 2, "limP": 2}, [rpc("p1", "g1"), rpc("p2", "g1"), rpc("p1", "g2"), rpc("p2", "g2"), close("p1"), rpc("p1", "g3"),
                                                     HB, HB, HB, HB])
    # the send rule: eager push, missing parts only, metadata only when changed, nothing at all, non-requester, action errors
    add("send", {}, [mesh(["p1", "p2", "p3"]), req("p1"), req("p3"), rpc("p3", "g1", meta=(0,)), pub("g1", parts=(0, 1)), pub("g1", parts=(0, 1)),
                     rpc("p1", "g1", meta=(0, 1, 2)), pub("g1", parts=(0, 1, 2)), pub("g1", parts=(0, 1, 2), err=["p2"]), pub("g1", parts=(0, 1, 2, 3), err=["p1", "p3"]),
                     req("p1", False), pub("g1", parts=(0, 1, 2, 3, 4))])
    add("send-noeager", {"eager": False}, [mesh(["p1", "p2"]), req("p1"), req("p2"), pub("g1", parts=(0,)), rpc("p1", "g1", meta=()), pub("g1", parts=(0,)),
                                          pub("g1", parts=(0, 1)), pub("g1", parts=())])
    add("send-sloppy", {"sloppy": True}, [mesh(["p1", "p2"]), req("p1"), pub("g1", parts=(0, 1)), rpc("p2", "g1", meta=(0,)), pub("g1", parts=(0, 1, 2)),
                                        req("p2"), pub("g1", parts=(0, 1, 2, 3))])
    # state persists, is removed on close, starts from zero afterwards
    add("close", {}, [mesh(["p1", "p2"]), req("p1"), req("p2"), pub("g1"), pub("g2", t="t2"), rpc("p1", "g1", meta=(0,)), close("p1"), pub("g1"), HB,
                      mesh(["p2"]), close("p2"), HB, HB])
    # gossip: only local groups, only untracked peers, once per group life, republish refreshes
    add("gossip", {}, [mesh(["p1"]), req("p1"), req("p2"), req("p3"), pub("g1"), rpc("p2", "g2"), HB, gossip(["p2", "p3"]), gossip(["p2", "p3"]), HB, HB,
                       gossip(["p3", "p1"]), gossip(["p2"], t="t2"), HB, HB, HB, HB, gossip(["p2"])])
    add("gossip-norepub", {"regossip": False}, [mesh(["p1"]), req("p2"), pub("g1"), pub("g2"), HB, gossip(["p2", "p3"]), HB, HB, HB, gossip(["p2"])])
    return D


def ev_to_act(e):
    a = e["a"]
    if a == "pub":
        return [pub(e["g"], e["parts"], e["t"])]
    if a == "rpc":
        return [rpc(e["p"], e["g"], e["parts"], e["t"], e["hasMeta"], e["hasMsg"])]
    if a == "hb":
        return [dict(HB) for _ in range(e["n"])]
    if a == "close":
        return [close(e["p"])]
    if a == "gossip":
        return [gossip(e["ps"], e["t"])]
    if a == "mesh":
        return [mesh(e["ps"], e["t"])]
    if a == "req":
        return [req(e["p"], e["hasMeta"], e["t"])]
    raise vlib.Inconclusive("unknown generator call %r" % a)


def obj_scenarios(ctx, pools):
    rng = random.Random(ctx.seed * 7919 + 4)
    th = ctx.thorough
    scns = obj_directed()
    lim = {"gen-bfs-count": 30000 if th else 2500, "gen-bfs-all": 30000 if th else 2500, "gen-walks": 6000 if th else 700}
    exhaustive = {}
    for n in ("gen-bfs-count", "gen-bfs-all", "gen-walks"):
        pool = list(pools[n])
        exhaustive[n] = len(pool) <= lim[n] and n != "gen-walks"
        if len(pool) > lim[n]:
            rng.shuffle(pool)
            pool = pool[:lim[n]]
        for i, evs in enumerate(pool):
            acts = [a for e in evs for a in ev_to_act(e)]
            if n == "gen-bfs-count":
                cfg = OBJ_CFGS[(0, 2, 3)[(i + ctx.seed) % 3]]
            else:
                cfg = OBJ_CFGS[(i + ctx.seed) % len(OBJ_CFGS)]
            scns.append({"src": n, "cfg": dict(cfg), "acts": acts})
    for i, s in enumerate(scns):
        s["id"] = i
    return scns, exhaustive


def slim_obj(row):
    if row["e"] == "reset":
        c = row["cfg"]
        return {"e": "reset", "scn": row["scn"], "i": 0, "a": "reset", "ttl": c["ttl"], "limT": c["limT"], "limP": c["limP"],
                "eager": c["eager"], "regossip": c["regossip"], "sloppy": c["sloppy"]}
    a = row["act"]
    k, ps = row["ret"], []
    if k.startswith("actions:"):
        k, ps = "actions", k[len("actions:"):].split(",")

    def msgparts(s):
        s = s[len("parts:"):] if s.startswith("parts:") else ""
        return [int(x) for x in s.split(",") if x != ""]
    for name in [a.get("p", "p1")] + list(a.get("ps", [])) + list(a.get("err", [])):
        if name and name not in OBJ_PEERS:
            raise vlib.Inconclusive("peer outside the universe of the trace specification: %r" % name)
    return {"e": "step", "scn": row["scn"], "i": row["i"], "a": a["a"], "p": a.get("p", ""), "t": a.get("t", ""), "g": a.get("g", ""),
            "ps": a.get("ps", []), "parts": a.get("parts", a.get("meta", [])), "err": a.get("err", []), "hasMeta": bool(a.get("hasMeta", False)),
            "hasMsg": bool(a.get("hasMsg", False)), "apperr": bool(a.get("apperr", False)), "v": bool(a.get("v", False)),
            "ret": {"k": k, "ps": ps},
            "sent": [{"p": s["p"], "t": s["t"], "g": s["g"], "hasMsg": s["hasMsg"], "msg": msgparts(s["msg"]), "hasMeta": s["hasMeta"], "meta": s["meta"]}
                     for s in row["sent"]],
            "cb": row["cb"], "groups": row["st"]["groups"], "empty": row["st"]["empty"], "ctr": row["st"]["ctr"]}


def obj_trace_cfg():
    c = consts(Peers=sset(OBJ_PEERS), Topics=sset(OBJ_TOPICS), Groups=sset(OBJ_GROUPS), Parts="{0, 1, 2, 3, 4, 5, 6, 7}",
               CTtl=3, CLimT=255, CLimP=8, ResetOnClose=True, StaleDec=True, Acts="{}")
    return vlib.cfg_text(spec="TraceSpec", constants=c, constraint="HW", postcondition="Accepted")


def run_tv(ctx, module, cfg, name, path):
    res = vlib.run_tlc(ctx, FAMILY, module, cfg, mode="trace", files={"trace.ndjson": path}, timeout=1500, name=name, heap="4g")
    if res.hw is None or res.hw[0] < res.hw[1] or res.violated or res.timed_out:
        raise vlib.Inconclusive("trace validation did not consume its input (hw=%s errors=%s, see %s/tlc.out)" % (res.hw, res.errors[:2], res.dir))
    viols, steps = res.printed("VIOL"), res.printed("STEP")
    if len(viols) != len(res.printed_raw("VIOL")) or len(steps) != len(res.printed_raw("STEP")):
        raise vlib.Inconclusive("unparsable VIOL/STEP output in %s/tlc.out" % res.dir)
    return viols, steps, res.distinct


def lib_panic(out):
    """A panic of the driver process counts only when a library frame is on the panicking goroutine's stack."""
    if "panic:" not in out:
        return None
    tail = out.split("panic:", 1)[1]
    first = tail.split("\n\ngoroutine ")[0] if "\n\ngoroutine " in tail else tail[:6000]
    lib = re.search(r"go-libp2p-pubsub(@[^/\s]*)?[./]|%s/" % re.escape(os.path.realpath(vlib.REPO)), first)
    own = re.search(r"verifharness/drivers/x04\.\(\*app\)|verifharness/drivers/x04\.\(\*stubRouter\)", first.split("\n")[2] if len(first.split("\n")) > 2 else "")
    if lib and not own:
        return tail.split("\n")[0].strip()
    return None


def replay_obj(ctx, scns, reps_directed=3):
    """Directed scenarios are replayed reps_directed times (Go's map iteration order differs between runs), the others once."""
    directed = [s for s in scns if s["src"].startswith("directed:")]
    rest = [s for s in scns if not s["src"].startswith("directed:")]
    parts = [("obj-directed", directed, reps_directed)]
    n = 3 if ctx.thorough else 2
    for k in range(n):
        parts.append(("obj-gen%d" % k, rest[k::n], 1))

    def one(part):
        name, ss, reps = part
        inp, outp, mark = [os.path.join(ctx.work, "%s.%s" % (name, x)) for x in ("scn.ndjson", "trace.ndjson", "marker")]
        vlib.write_ndjson(inp, ss)
        r = vlib.run_go(ctx, "./drivers/x04/", "^TestX04Obj$", env={"VERIF_IN": inp, "VERIF_OUT": outp, "VERIF_REPS": reps, "VERIF_MARKER": mark},
                        timeout=1200, name=name)
        runs = []        # (scenario, lines)
        if r["rc"] != 0:
            why = lib_panic(r["out"])
            idx = int(open(mark).read().strip()) if os.path.exists(mark) and open(mark).read().strip().isdigit() else None
            if why and idx is not None:
                # re-run the one scenario alone: a violation only if it reproduces
                scn = ss[idx // reps]
                inp1, out1 = os.path.join(ctx.work, name + ".crash.scn.ndjson"), os.path.join(ctx.work, name + ".crash.trace.ndjson")
                vlib.write_ndjson(inp1, [scn])
                r1 = vlib.run_go(ctx, "./drivers/x04/", "^TestX04Obj$", env={"VERIF_IN": inp1, "VERIF_OUT": out1, "VERIF_REPS": 1}, timeout=300, name=name + "-crash")
                why1 = lib_panic(r1["out"])
                if r1["rc"] != 0 and why1:
                    vlib.add_violation(ctx, "P_X04_c", {"level": "obj", "kind": "panic", "where": why1[:80]},
                                       "the extension object panics: %s (scenario %s, %s)" % (why1, scn["id"], scn["src"]), {"scenario": scn})
                    return runs
            raise vlib.Inconclusive("object driver failed (rc=%s, see %s)" % (r["rc"], r["log"]))
        cur = None
        for row in vlib.read_ndjson(outp):
            if row["e"] == "reset":
                cur = [row]
            elif row["e"] == "end":
                runs.append((ss[len(runs) // reps], cur))
                cur = None
            elif cur is not None:
                cur.append(row)
        if len(runs) != len(ss) * reps:
            raise vlib.Inconclusive("object driver replayed %d of %d scenario runs (see %s)" % (len(runs), len(ss) * reps, r["log"]))
        return runs

    with cf.ThreadPoolExecutor(max_workers=len(parts)) as ex:
        out = [x for l in ex.map(one, parts) for x in l]
    return out


def validate_obj(ctx, runs, acc):
    """runs: [(scenario, raw lines)]. Returns (violations with scenario attached, step tags)."""
    chunk = 900 if ctx.thorough else 600
    jobs = []
    for ci in range(0, len(runs), chunk):
        path = os.path.join(ctx.work, "tv-obj-%d.ndjson" % ci)
        with open(path, "w") as f:
            for gi, (scn, lines) in enumerate(runs[ci:ci + chunk]):
                for row in lines:
                    s = slim_obj(row)
                    s["scn"] = ci + gi
                    f.write(json.dumps(s, separators=(",", ":")) + "\n")
        jobs.append(("tv-obj-%d" % ci, path))
    viols, steps = [], []
    cfg = obj_trace_cfg()
    with cf.ThreadPoolExecutor(max_workers=4) as ex:
        for v, s, st in ex.map(lambda j: run_tv(ctx, "PartialTrace", cfg, j[0], j[1]), jobs):
            viols += v
            steps += s
            acc["states"] += st
    return viols, steps


OBJ_OBLIGATIONS = ["pub-new", "pub-refresh", "pub-converts-counted", "pub-converts-stale", "send-msg-and-meta", "send-meta-only", "send-msg-only",
                   "send-nothing", "msg-stripped-for-non-requester", "pub-action-error", "send-missing-parts", "mesh-peer-initialised",
                   "rpc-creates", "rpc-peer-limit", "rpc-total-limit", "rpc-existing-at-limit", "rpc-on-local-group", "rpc-app-error",
                   "rpc-ignored-by-app", "metadata-merged", "expire-ttl", "expire-empty", "expire-counted", "expire-stale", "hb-survivor",
                   "close-removes-state", "close-resets-counter", "gossip-offered", "gossip-republished", "gossip-skips-peer-initiated",
                   "gossip-all-tracked", "count-drift-seen"]

WHAT = {
    "P_X04_a": "group lifecycle", "P_X04_b": "peer-initiated counters", "P_X04_c": "peer-initiated limits / dispatch of the RPC",
    "P_X04_d": "send rule / per-peer state", "P_X04_e": "gossip", "P_X04_f": "peer removal",
    "P_X04_g": "handshake (outbound)", "P_X04_h": "handshake (inbound)", "P_X04_i": "dispatch to the extension",
    "P_X04_j": "full-message suppression", "P_X04_k": "extension wiring in the node"}


def report(ctx, level, viols, lookup, per_sig):
    """One replay file per (predicate, kind); the remaining instances are counted."""
    for v in viols:
        sig = {"level": level, "kind": v["kind"]}
        key = (v["pred"], json.dumps(sig, sort_keys=True))
        per_sig[key] = per_sig.get(key, 0) + 1
        if per_sig[key] <= 2:
            scn, lines = lookup(v["scn"])
            bad = next((r for r in lines if r.get("i") == v["i"]), None)
            vlib.add_violation(ctx, v["pred"], sig,
                               "%s: %s (topic %s group %s peer %s observed %s expected %s); %s scenario %s (%s) step %d: %s" %
                               (WHAT.get(v["pred"], v["pred"]), v["kind"], v["t"], v["g"], v["p"], v["obs"], v["exp"], level, scn.get("id"), scn.get("src"),
                                v["i"], json.dumps(bad, sort_keys=True)[:900] if bad else "?"),
                               {"level": level, "scenario": scn, "failing_step": v["i"], "lines": lines[:v["i"] + 2]})
        else:
            ctx.violations.append({"pred": v["pred"], "sig": sig, "detail": "", "replay": ""})


# ------------------------------------------------------------------------------------------------ node level
NODE_DEVS = []      # filled in below (node-level seeded defects)


def run(ctx):
    acc = {"states": 0, "transitions": 0, "mc": {}, "gen": {}}
    pools = tlc_jobs(ctx, acc)
    scns, exhaustive = obj_scenarios(ctx, pools)
    ctx.log("replaying %d call sequences on the real extension object" % len(scns))
    runs = replay_obj(ctx, scns)
    nlines = sum(len(l) for _, l in runs)
    ctx.log("recorded %d calls of %d runs; validating with TLC" % (nlines, len(runs)))
    viols, steps = validate_obj(ctx, runs, acc)
    per_sig = {}
    report(ctx, "obj", viols, lambda i: runs[i], per_sig)
    hits = {}
    for s in steps:
        for t in s["tags"]:
            hits[t] = hits.get(t, 0) + 1
    known = vlib.load_findings(ctx.pid)
    new = [v for v in ctx.violations if not any(vlib.sig_matches(f, v) for f in known)]
    if not new:
        unmet = [k for k in OBJ_OBLIGATIONS if not hits.get(k)]
        if unmet:
            raise vlib.Inconclusive("coverage obligations not met on real calls: %s" % unmet)
    nontrivial = {json.dumps([s["cfg"], s["acts"]], sort_keys=True) for s in scns if sum(1 for a in s["acts"] if a["a"] in ("pub", "rpc", "close", "gossip")) >= 2}
    cov = {"states": acc["states"], "transitions": acc["transitions"] + nlines, "traces_validated_against_impl": len(runs),
           "samples": [{"scenario": runs[0][0], "trace": runs[0][1][:6]}] if runs else [],
           "evaluations": len(steps), "distinct_nontrivial": len(nontrivial),
           "rule": "one evaluation = one recorded call judged by PartialTrace (groups, counters, decision, RPCs, callbacks)",
           "exhaustive": all(exhaustive.values()), "exhaustive_note": "BFS pools replayed completely: %s" % exhaustive,
           "obligations": {k: hits.get(k, 0) for k in OBJ_OBLIGATIONS},
           "violating_instances": {"%s %s" % k: n for k, n in sorted(per_sig.items())},
           "mc": acc["mc"], "gen": acc["gen"]}
    return vlib.finish(ctx, LEVEL, cov, ["(object level only: work in progress)"])
