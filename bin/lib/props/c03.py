"""C03 - only authentic messages are accepted under the configured signature policy.

spec/sigpolicy: SigPolicy (abstract message classes, the property's notion Authentic/PropAllows, a transcription of
the code's decision rule CodeVerdict, P_C03), MCSigPolicy (the whole decision table as state space; five regression
configurations that MUST fail), GenSigPolicy (emits every row of the table), SigPolicyTrace (monitor over what the
REAL node did with every concretised class, judged with the verdict of an independent crypto oracle).

Pipeline: MC -> Gen -> (quick: seeded covering subset | thorough: full table + random byte mutations) -> Go replay on
real gossipsub and floodsub nodes (harness/drivers/c03) -> TLC evaluates the predicates on every line -> coverage
obligations -> vlib.finish.

Level: model checking OF THE ABSTRACTION (DESIGN section 6): TLA+ does not model signatures; the acceptance rule over
classes is decided exhaustively and bound to the code on concretisations of every class."""
import concurrent.futures as cf
import collections, json, os, random, time
from .. import vlib

LEVEL = "model_checking"
FAMILY = "sigpolicy"
ROUTERS = ["gossipsub", "floodsub"]
POLICIES = ["StrictSign", "StrictNoSign", "LaxSign", "LaxNoSign"]
MODES = ["default", "custom", "noAuthor"]
DIMS = ["cfg", "from", "seqno", "key", "sig", "extra", "via"]
MUST_FAIL = [("MCSigPolicyNoKeyMatch.cfg", "messagePubKey without MatchesPublicKey"),
             ("MCSigPolicyLaxNoVerify.cfg", "lax policies not verifying present signatures"),
             ("MCSigPolicyNoSelf.cfg", "no self-origin test"),
             ("MCSigPolicyAnonKey.cfg", "anonymous mode ignoring the key field"),
             ("MCSigPolicyNoMissing.cfg", "StrictSign not rejecting a missing signature")]


def val(r, d):
    return r["policy"] + "/" + r["mode"] if d == "cfg" else r["cls"][d]


def model_check(ctx):
    jobs = [("MCSigPolicy.cfg", None)] + MUST_FAIL

    def one(job):
        return vlib.run_tlc(ctx, FAMILY, "MCSigPolicy", job[0], timeout=300, workers=2, name="mc-" + job[0][:-4])

    with cf.ThreadPoolExecutor(max_workers=3) as ex:
        results = list(ex.map(one, jobs))
    main = results[0]
    vlib.require_mc_ok(ctx, main, "MCSigPolicy (the code as found)")
    for (cfg, what), res in zip(jobs[1:], results[1:]):
        vlib.require_mc_fails(ctx, res, "MCSigPolicy %s (%s)" % (cfg, what), "P_C03_Recv")
    return main


def generate(ctx):
    g = vlib.run_tlc(ctx, FAMILY, "GenSigPolicy", "GenSigPolicy.cfg", timeout=300, workers=1, name="gen")
    vlib.require_mc_ok(ctx, g, "GenSigPolicy")
    rows = g.printed("SCN")
    recv = [r for r in rows if r["d"] == "recv"]
    send = [r for r in rows if r["d"] == "send"]
    ctor = [r for r in rows if r["d"] == "ctor"]
    if len(rows) != g.distinct or not recv or not send or len(ctor) != 12:
        raise vlib.Inconclusive("generator output incomplete: %d rows for %d states" % (len(rows), g.distinct))
    return recv, send, ctor, g


def mandatory(r):
    """Rows every run must contain (the coverage obligations of DESIGN C03)."""
    c, p, mode = r["cls"], r["policy"], r["mode"]
    plain = c["extra"] == "none"
    # a message that is acceptable under the configuration (forwarding must be observable)
    if plain and c["from"] in ("inline", "hashed", "absent") and r["verdict"] == "accept" and c["key"] in ("absent", "matches") \
            and c["seqno"] == ("absent" if c["from"] == "absent" else "present"):
        return True
    # self-origin through a third party, otherwise acceptable
    if c["from"] == "self" and plain and c["key"] == "absent" and c["seqno"] == "present" \
            and c["sig"] == ("absent" if p == "StrictNoSign" else "fromThis"):
        return True
    # every key class with an otherwise valid signature (and the attached-key forgery)
    if c["from"] in ("inline", "hashed") and plain and c["seqno"] == "present" and c["via"] == "third" \
            and c["sig"] in ("fromThis", "attThis"):
        return True
    # unknown protobuf fields: signed over / added after signing, on an otherwise valid message
    if c["from"] in ("inline", "hashed") and c["seqno"] == "present" and c["via"] == "third" and c["sig"] == "fromThis" \
            and c["key"] == ("absent" if c["from"] == "inline" else "matches"):
        return True
    # strict no-signing: exactly one stray authentication field
    if p == "StrictNoSign" and plain:
        stray = [k for k in ("from", "seqno", "key", "sig") if c[k] not in ("absent", "empty")]
        if len(stray) == 1 and all(c[k] == "absent" for k in ("from", "seqno", "key", "sig") if k not in stray):
            return True
        if stray == ["from", "sig"] and c["sig"] == "fromThis" and c["key"] == "absent" and c["seqno"] == "absent":
            return True
    # unsigned / missing signature under every policy
    if plain and c["sig"] == "absent" and c["from"] == "inline" and c["key"] == "absent" and c["seqno"] == "present":
        return True
    return False


def covering_subset(rows, rng):
    """Seeded covering subset: the mandatory rows, every (cfg, key, sig) triple, every pair of dimension values."""
    def pairs(r):
        v = [val(r, d) for d in DIMS]
        return [(i, v[i], j, v[j]) for i in range(len(DIMS)) for j in range(i + 1, len(DIMS))]

    needed = set()
    by_triple = collections.defaultdict(list)
    for i, r in enumerate(rows):
        needed.update(pairs(r))
        by_triple[(val(r, "cfg"), val(r, "key"), val(r, "sig"))].append(i)
    chosen, covered, triples_done = [], set(), set()

    def take(i):
        chosen.append(i)
        covered.update(pairs(rows[i]))
        triples_done.add((val(rows[i], "cfg"), val(rows[i], "key"), val(rows[i], "sig")))

    for i, r in enumerate(rows):
        if mandatory(r):
            take(i)
    triples = sorted(by_triple)
    rng.shuffle(triples)
    for t in triples:
        if t in triples_done:
            continue
        cands = rng.sample(by_triple[t], min(24, len(by_triple[t])))
        take(max(cands, key=lambda i: len(set(pairs(rows[i])) - covered)))
    remaining = needed - covered
    if remaining:
        order = list(range(len(rows)))
        rng.shuffle(order)
        for i in order:
            if not remaining:
                break
            new = remaining.intersection(pairs(rows[i]))
            if new:
                take(i)
                remaining -= new
    if needed - covered:
        raise vlib.Inconclusive("covering subset incomplete")
    return sorted(set(chosen)), len(needed), len(by_triple)


def make_worlds(ctx, recv_rows, send_rows, ctor_rows):
    by_cfg = collections.defaultdict(list)
    for r in recv_rows:
        by_cfg[(r["policy"], r["mode"])].append({"cls": r["cls"], "verdict": r["verdict"], "auth": r["auth"], "sauth": r["sauth"]})
    sends = collections.defaultdict(list)
    for s in send_rows:
        sends[(s["policy"], s["mode"], s["ak"])].append({"pub": s["pub"], "exp": s["exp"], "ok": s["ok"]})
    valid = {(c["policy"], c["mode"]): c["valid"] for c in ctor_rows}
    worlds = []
    for ri, router in enumerate(ROUTERS):
        for p in POLICIES:
            for mode in MODES:
                # the custom author has a hashed (RSA) id under gossipsub and an inline (Ed25519) id under floodsub;
                # the other kind gets a send-only world
                aks = ["inline"] if mode != "custom" else (["hashed", "inline"] if ri == 0 else ["inline", "hashed"])
                for k, ak in enumerate(aks):
                    worlds.append({"w": len(worlds), "router": router, "policy": p, "mode": mode, "ak": ak,
                                   "valid": valid[(p, mode)],
                                   "msgs": by_cfg.get((p, mode), []) if k == 0 else [],
                                   "sends": sorted(sends.get((p, mode, ak), []), key=lambda s: s["pub"]),
                                   "fuzz": (20 if ctx.thorough else 2) if k == 0 else 0})
    return worlds


def run_driver(ctx, worlds):
    """Replay the worlds on the real code; several test processes in parallel (the test binary is built once)."""
    nproc = 4 if ctx.thorough else 2
    parts = [[] for _ in range(nproc)]
    # balance by number of messages
    for w in sorted(worlds, key=lambda w: -len(w["msgs"])):
        min(parts, key=lambda p: sum(len(x["msgs"]) + 5 for x in p)).append(w)
    parts = [p for p in parts if p]

    def one(k):
        if k > 1:
            time.sleep(1.5 * (k - 1))  # run_go rewrites one shared go.alt.mod for scratch worktrees: do not start together
        inp = os.path.join(ctx.work, "worlds-%d.ndjson" % k)
        outp = os.path.join(ctx.work, "trace-%d.ndjson" % k)
        mark = os.path.join(ctx.work, "marker-%d" % k)
        vlib.write_ndjson(inp, parts[k])
        r = vlib.run_go(ctx, "./drivers/c03/", "^TestC03$", env={"VERIF_IN": inp, "VERIF_OUT": outp, "VERIF_MARKER": mark},
                        timeout=1500, name="c03-%d" % k)
        return r, outp, mark

    # build once (first process alone would also do; running it first keeps the build cache race-free)
    first = one(0)
    with cf.ThreadPoolExecutor(max_workers=max(1, len(parts) - 1)) as ex:
        rest = list(ex.map(one, range(1, len(parts))))
    lines = []
    for r, outp, mark in [first] + rest:
        if r["rc"] != 0 or not os.path.exists(outp):
            at = open(mark).read() if os.path.exists(mark) else "?"
            raise vlib.Inconclusive("driver failed (rc=%s, in world %s, see %s)" % (r["rc"], at, r["log"]))
        lines += vlib.read_ndjson(outp)
    lines.sort(key=lambda l: (l["w"], l.get("n", 0)))
    return lines


def validate(ctx, lines):
    chunk = 4000
    chunks = [lines[i:i + chunk] for i in range(0, len(lines), chunk)]

    def one(k):
        path = os.path.join(ctx.work, "tv-chunk-%d.ndjson" % k)
        vlib.write_ndjson(path, chunks[k])
        res = vlib.run_tlc(ctx, FAMILY, "SigPolicyTrace", "SigPolicyTrace.cfg", mode="trace", files={"trace.ndjson": path},
                           timeout=900, name="tv-%d" % k)
        if res.hw is None or res.hw[0] != res.hw[1] or res.hw[1] != len(chunks[k]) + 1 or res.violated:
            raise vlib.Inconclusive("trace validation did not consume chunk %d (see %s/tlc.out): %s" % (k, res.dir, res.errors[:2]))
        out = []
        for tag in ("VIOL", "BAD", "DRIFT"):
            if len(res.printed(tag)) != len(res.printed_raw(tag)):
                raise vlib.Inconclusive("unparsable %s line in %s/tlc.out" % (tag, res.dir))
            for x in res.printed(tag):
                out.append((tag, x, chunks[k][x["l"] - 1]))
        return out, res.distinct

    found, states = [], 0
    with cf.ThreadPoolExecutor(max_workers=max(1, min(4, vlib.NCPU // 2))) as ex:
        for out, st in ex.map(one, range(len(chunks))):
            found += out
            states += st
    seen, uniq = set(), []
    for tag, x, line in found:
        k = (tag, x["p"], line["w"], line.get("n", 0), line["e"])
        if k not in seen:
            seen.add(k)
            uniq.append((tag, x, line))
    return uniq, states


def obligations(lines):
    """Coverage obligations: which validated real steps a run must contain."""
    miss = []
    msgs = [l for l in lines if l["e"] == "msg"]
    ctors = {(l["router"], l["policy"], l["mode"]): l for l in lines if l["e"] == "ctor"}
    acc = lambda l: l["deliv"] or l["fwd"]
    for router in ROUTERS:
        for p in POLICIES:
            for mode in MODES:
                c = ctors.get((router, p, mode))
                if c is None:
                    miss.append("no constructor call for %s/%s/%s" % (router, p, mode))
                    continue
                if c["err"]:
                    continue
                mine = [l for l in msgs if (l["router"], l["policy"], l["mode"]) == (router, p, mode)]
                name = "%s/%s/%s" % (router, p, mode)
                if not any(l["deliv"] and l["fwd"] for l in mine):
                    miss.append("%s: no message was delivered AND forwarded (forwarding not observable)" % name)
                if not any(not acc(l) for l in mine):
                    miss.append("%s: no message was rejected" % name)
                sig_ok = lambda l: l["cls"]["sig"] == "fromThis" and l["cls"]["extra"] != "addedAfter"
                # every key class with an otherwise valid signature, for both kinds of id
                for fk in ("inline", "hashed"):
                    for kc in ("absent", "empty", "matches", "other", "garbage"):
                        if not any(l["cls"]["from"] == fk and l["cls"]["key"] == kc and sig_ok(l) for l in mine):
                            miss.append("%s: key class %s with a valid signature of a %s id not exercised" % (name, kc, fk))
                    if not any(l["cls"]["from"] == fk and l["cls"]["key"] == "other" and l["cls"]["sig"] == "attThis" for l in mine):
                        miss.append("%s: signature by an attached foreign key (%s id) not exercised" % (name, fk))
                # tampering of every signed field
                for sc in ("fromOverData", "fromOverTopic", "fromOverFrom", "fromOverSeqno", "fromOverUnknown", "swapped", "garbage", "empty", "absent"):
                    if not any(l["cls"]["sig"] == sc for l in mine):
                        miss.append("%s: signature class %s not exercised" % (name, sc))
                if not any(l["cls"]["extra"] == "addedAfter" and l["cls"]["sig"] == "fromThis" for l in mine):
                    miss.append("%s: unknown field added after signing not exercised" % name)
                # self-origin through a third party with an otherwise acceptable message
                if not any(l["cls"]["from"] == "self" and l["cls"]["key"] == "absent" and l["cls"]["extra"] == "none"
                           and l["cls"]["sig"] == ("absent" if p == "StrictNoSign" else "fromThis") for l in mine):
                    miss.append("%s: self-origin through a third party not exercised" % name)
                if p == "StrictNoSign":
                    def only(field, l):
                        c = l["cls"]
                        return c[field] not in ("absent", "empty") and all(c[k] == "absent" for k in ("from", "seqno", "key", "sig") if k != field)
                    fields = ("from", "seqno", "key", "sig") if mode == "noAuthor" else ("sig",)
                    for f in fields:
                        if not any(only(f, l) for l in mine):
                            miss.append("%s: stray %s field alone not exercised" % (name, f))
    # sending direction: every valid policy x author mode x publish mode arrived at the observer or was refused locally
    sends = [l for l in lines if l["e"] == "send"]
    for router in ROUTERS:
        for p in POLICIES:
            for mode, ak in (("default", "inline"), ("custom", "inline"), ("custom", "hashed"), ("noAuthor", "inline")):
                c = ctors.get((router, p, mode))
                if c is None or c["err"]:
                    continue
                for pub in ("plain", "perKeyInline", "perKeyHashed"):
                    got = [l for l in sends if (l["router"], l["policy"], l["mode"], l["ak"], l["pub"]) == (router, p, mode, ak, pub)]
                    if not got:
                        miss.append("send %s/%s/%s/%s/%s not exercised" % (router, p, mode, ak, pub))
                    elif not any(l["recv"] or l["err"] for l in got):
                        miss.append("send %s/%s/%s/%s/%s: neither received by the observer nor refused" % (router, p, mode, ak, pub))
        if not any(l["recv"] and l["obs"]["key"] == "matches" for l in sends if l["router"] == router):
            miss.append("send %s: no published message carried its key (hashed author)" % router)
        if not any(l["recv"] and l["obs"]["sig"] == "present" and l["obs"]["key"] == "absent" for l in sends if l["router"] == router):
            miss.append("send %s: no signed message without key (inline author)" % router)
    return miss


def run(ctx):
    mc = model_check(ctx)
    recv, send, ctor, g = generate(ctx)
    states, transitions = mc.distinct + g.distinct, mc.generated + g.generated
    ctx.log("decision table: %d classes x configurations (recv), %d send rows; model check ok, %d regression configs fail as required"
            % (len(recv), len(send), len(MUST_FAIL)))
    rng = random.Random(ctx.seed)
    if ctx.thorough:
        chosen, exhaustive, cover_info = recv, True, {"rows": len(recv)}
    else:
        idx, npairs, ntriples = covering_subset(recv, rng)
        chosen, exhaustive = [recv[i] for i in idx], False
        cover_info = {"rows": len(chosen), "pairs_covered": npairs, "cfg_key_sig_triples_covered": ntriples}
    worlds = make_worlds(ctx, chosen, send, ctor)
    ctx.log("replaying %d classes on %d worlds (%s)" % (len(chosen), len(worlds), "full table" if exhaustive else "covering subset"))
    lines = run_driver(ctx, worlds)
    kinds = collections.Counter(l["e"] for l in lines)
    ctx.log("driver: %s" % dict(kinds))
    found, st = validate(ctx, lines)
    states += st
    transitions += st

    drift = collections.Counter()
    bad = []
    groups = collections.OrderedDict()
    for tag, x, line in found:
        if tag == "VIOL":
            # one violation per (predicate, direction, policy, mode); the replay file lists the failing lines
            key = (x["p"], "send" if line["e"] == "send" else "recv", line["policy"], line["mode"])
            groups.setdefault(key, []).append((x, line))
    for (pred, direction, policy, mode), items in groups.items():
        x, line = items[0]
        sig = {"pred": pred, "dir": direction, "policy": policy, "mode": mode, "obs": line["obs"],
               "class": line.get("cls", "fuzz" if line["e"] == "fuzz" else line.get("pub"))}
        vlib.add_violation(ctx, pred, sig,
                           "%s/%s (%d line(s), first on %s): %s; oracle authentic=%s, delivered=%s forwarded=%s events=%s" %
                           (policy, mode, len(items), line["router"], x["why"], line["authentic"],
                            line.get("deliv", line.get("local")), line.get("fwd", line.get("recv")), line["ev"]),
                           {"lines": [l for _, l in items[:20]], "count": len(items)})
    for tag, x, line in found:
        if tag == "VIOL":
            continue
        elif tag == "BAD":
            bad.append((x, line))
        else:
            drift[x["p"]] += 1
            if drift[x["p"]] <= 3:
                ctx.notes.append("MODEL-DRIFT %s: %s (%s/%s %s line %s)" % (x["p"], x["why"], line["policy"], line["mode"], line["router"], line.get("n")))
    for k, n in drift.items():
        if n > 3:
            ctx.notes.append("MODEL-DRIFT %s: %d lines in total" % (k, n))
    if bad and not ctx.violations:
        x, line = bad[0]
        raise vlib.Inconclusive("harness/oracle disagrees with the class it was asked to build (%d lines), e.g. %s: %s %s" %
                                (len(bad), x["p"], x["why"], json.dumps(line)[:400]))
    miss = obligations(lines)
    if miss and not ctx.violations:
        raise vlib.Inconclusive("coverage obligations not met (%d): %s" % (len(miss), "; ".join(miss[:4])))

    msgs = [l for l in lines if l["e"] in ("msg", "fuzz")]
    accepted = [l for l in msgs if l["deliv"] or l["fwd"]]
    distinct = {json.dumps([l["router"], l["policy"], l["mode"], l.get("cls", l["obs"]), l["authentic"]], sort_keys=True)
                for l in msgs if l["obs"]["sig"] != "absent" or l["obs"]["from"] != "absent" or l["obs"]["key"] != "absent"}
    reasons = collections.Counter(e for l in msgs for e in l["ev"] if e.startswith("Reject:") or e == "Deliver")
    samples = []
    for want in (lambda l: l["e"] == "msg" and l["cls"]["sig"] == "attThis",
                 lambda l: l["e"] == "msg" and l["cls"]["from"] == "self",
                 lambda l: l["e"] == "send" and l["recv"] and l["obs"]["key"] == "matches",
                 lambda l: l["e"] == "fuzz"):
        s = next((l for l in lines if want(l)), None)
        if s:
            samples.append(s)
    cov = {"states": states, "transitions": transitions, "traces_validated_against_impl": len(lines),
           "samples": samples, "evaluations": len(lines), "distinct_nontrivial": len(distinct),
           "rule": "evaluation = one message injected into (or published by) a real node and judged by SigPolicyTrace; "
                   "distinct by (router, policy, mode, class or observed field presence, oracle verdict); non-trivial = carries at least one "
                   "authentication field (signature, from or key)",
           "exhaustive": exhaustive, "decision_table_rows": len(recv), "selection": cover_info,
           "worlds": len(worlds), "line_kinds": dict(kinds), "accepted": len(accepted), "rejected": len(msgs) - len(accepted),
           "trace_reasons": dict(reasons), "drift": dict(drift),
           "mc": {"MCSigPolicy": [mc.distinct, mc.generated], "regression_configs_fail": [c for c, _ in MUST_FAIL]},
           "abstraction_note": "model checking of the abstraction: the acceptance rule over message classes is exhaustive; "
                               "signatures are real only in the replay (independent oracle); bytes outside every class are sampled (fuzz lines)"}
    return vlib.finish(ctx, LEVEL, cov, [
        "Unforgeable: a signature verifies under key K over bytes B iff it was made with K's private key over exactly B (crypto.Verify is sound)",
        "the oracle shares the protobuf codec (pb.Message Marshal/Unmarshal) and go-libp2p's crypto/peer packages with the code, nothing of package pubsub",
        "a present but zero-length field is treated as neither carried nor absent: the property makes no demand on it (conformance only)",
        "authenticity is judged leniently on attached keys: a key that does not match an inline id does not make a correctly signed message "
        "inauthentic (the code as found rejects it; reported as drift if that changes)",
        "the node under test always has an Ed25519 (inline) host id; hashed ids occur as remote authors, custom author and per-publish keys"])
