"""Helpers shared by the two container sub-checks (c02_timecache.py, c17_mcache.py).

Both containers are deterministic, so their trace specifications walk the recorded file with a single
cursor, never block on a wrong answer and print one  <<"VIOL", json>>  line per failed predicate
(guide: "evaluate predicates per line and PrintT(<<"VIOL", ...>>), then dedupe in python").  What can
leave the cursor short of the end is only a malformed trace - that is a machinery problem (exit 2)."""
import concurrent.futures as cf
import json, os

from .. import vlib


def dedupe(items, key=lambda x: json.dumps(x, sort_keys=True)):
    seen, out = set(), []
    for it in items:
        k = key(it)
        if k not in seen:
            seen.add(k)
            out.append(it)
    return out


def canonical(seqs):
    """Deduplicate and sort (TLC with several workers prints in a varying order; seeded sampling must not depend on it)."""
    return sorted(dedupe(seqs), key=lambda x: json.dumps(x, sort_keys=True))


def run_parallel(fns, workers=4):
    """Run thunks concurrently (each starts its own TLC); results in order. Exceptions propagate."""
    with cf.ThreadPoolExecutor(max_workers=max(1, min(workers, len(fns)))) as ex:
        futs = [ex.submit(f) for f in fns]
        return [f.result() for f in futs]


def replay(ctx, pkg, test, scenarios, name, timeout=900):
    """Write scenarios, run the Go driver on the real code, return the recorded trace split into
    scenarios (lists of lines, each starting with its reset line)."""
    inp = os.path.join(ctx.work, name + "-in.ndjson")
    outp = os.path.join(ctx.work, name + "-out.ndjson")
    vlib.write_ndjson(inp, scenarios)
    r = vlib.run_go(ctx, pkg, "^%s$" % test, env={"VERIF_IN": inp, "VERIF_OUT": outp}, timeout=timeout, name=name)
    if not os.path.exists(outp) or os.path.getsize(outp) == 0:
        raise vlib.Inconclusive("driver %s produced no trace (rc=%s, see %s)" % (test, r["rc"], r["log"]))
    if r["rc"] != 0:
        # the drivers recover panics of the calls they make themselves (logged as "panic" lines);
        # anything else that kills the test binary is a machinery failure
        raise vlib.Inconclusive("driver %s failed (rc=%s, see %s)" % (test, r["rc"], r["log"]))
    lines = vlib.read_ndjson(outp)
    traces = vlib.split_scenarios(lines)
    if len(traces) != len(scenarios):
        raise vlib.Inconclusive("driver %s recorded %d of %d scenarios (see %s)" % (test, len(traces), len(scenarios), r["log"]))
    return traces, r


def validate_print(ctx, family, module, cfg, traces, name, lines_per_chunk=25000, timeout=900, workers=None):
    """Validate recorded scenarios with a non-blocking trace spec. Returns (viols, states) where viols
    is the list of decoded VIOL records (each carries scn = scenario index taken from the reset line)."""
    chunks, cur, n = [], [], 0
    for tr in traces:
        cur.append(tr)
        n += len(tr)
        if n >= lines_per_chunk:
            chunks.append(cur)
            cur, n = [], 0
    if cur:
        chunks.append(cur)

    def one(ci, chunk):
        def f():
            path = os.path.join(ctx.work, "%s-chunk-%d.ndjson" % (name, ci))
            lines = [ln for tr in chunk for ln in tr]
            vlib.write_ndjson(path, lines)
            res = vlib.run_tlc(ctx, family, module, cfg, mode="trace", files={"trace.ndjson": path},
                               timeout=timeout, name="%s-%d" % (name, ci))
            if res.timed_out:
                raise vlib.Inconclusive("%s: trace validation timed out (see %s/tlc.out)" % (name, res.dir))
            if res.hw is None:
                raise vlib.Inconclusive("%s: trace validation produced no verdict (see %s/tlc.out): %s" %
                                        (name, res.dir, res.errors[:2]))
            hw, end = res.hw
            if hw < end:
                raise vlib.Inconclusive("%s: trace line %d of %s cannot be read by %s (malformed trace or driver clock off): %s" %
                                        (name, hw, path, module, json.dumps(lines[hw - 1]) if hw - 1 < len(lines) else "?"))
            return res.printed("VIOL"), res.distinct, res.printed("INFO")
        return f

    if workers is None:
        workers = max(1, min(vlib.NCPU // 2, 8))
    viols, states, infos = [], 0, []
    for v, st, inf in run_parallel([one(i, c) for i, c in enumerate(chunks)], workers=workers):
        viols += v
        states += st
        infos += inf
    return viols, states, infos


def selftest(ctx, family, module, cfg, lines, expect, name):
    """Non-vacuity of a trace specification: a hand-written trace with wrong answers must make it
    report exactly the expected predicates (else the machinery is broken: Inconclusive)."""
    res = vlib.run_tlc(ctx, family, module, cfg, mode="trace",
                       files={"trace.ndjson": "".join(json.dumps(l) + "\n" for l in lines)}, timeout=120, name=name)
    got = sorted({(v["scn"], v["pred"]) for v in res.printed("VIOL")})
    want = sorted({(s, p) for s, p in expect})
    if res.hw is None or res.hw[0] < res.hw[1] or got != want:
        raise vlib.Inconclusive("%s self-test: expected %s, trace spec reported %s (hw=%s, see %s/tlc.out)" %
                                (module, want, got, res.hw, res.dir))
    return res.distinct


def merge_parts(parts):
    """Merge the evidence dicts returned by the part-functions of one property check into the coverage
    dict and the assumption list expected by vlib.finish. Each part returns: part (name), states,
    transitions, traces, samples, evaluations, distinct_nontrivial, hits, rule, assumptions (+ anything else)."""
    cov = {"states": 0, "transitions": 0, "traces_validated_against_impl": 0, "samples": [], "evaluations": 0,
           "distinct_nontrivial": 0, "rule": "", "hits": {}, "parts": {}}
    assumptions = []
    for p in parts:
        name = p.get("part", "part%d" % (len(cov["parts"]) + 1))
        cov["states"] += p.get("states", 0)
        cov["transitions"] += p.get("transitions", 0)
        cov["traces_validated_against_impl"] += p.get("traces", 0)
        cov["samples"] += [dict(s, part=name) if isinstance(s, dict) else s for s in p.get("samples", [])]
        cov["evaluations"] += p.get("evaluations", 0)
        cov["distinct_nontrivial"] += p.get("distinct_nontrivial", 0)
        cov["rule"] += ("; " if cov["rule"] else "") + p.get("rule", "")
        cov["hits"][name] = p.get("hits", {})
        cov["parts"][name] = {k: v for k, v in p.items() if k not in ("samples", "hits", "rule", "assumptions", "part")}
        assumptions += p.get("assumptions", [])
    cov["exhaustive"] = bool(parts) and all(p.get("exhaustive", False) for p in parts)
    return cov, assumptions
