"""X00 - trace validation of the repository's OWN test suite ("smart casual verification").

The repository's tests exercise many more configurations and real goroutine schedules than the synctest
drivers of the listed properties, but their assertions are weak. /repo/verif_autotrace.go (build tag verif)
gives every PubSub instance a test creates one more EventTracer; this check runs the repository's tests from
the CURRENT working tree with the tag on, splits the recorded events per test and lets TLC replay them
through spec/autotrace (AutoTrace.tla = per-instance C19 replay machine + cross-instance wire monitor).

Failures of the test suite itself are not a verdict (they are listed as notes): the verdict comes from the
traces. spec/autotrace/EXCLUDED_TESTS.md lists the tests that poke router internals and the predicates
skipped for them (table EXCLUDED below is the machine-readable copy)."""
import collections, concurrent.futures as cf, glob, json, os, re, shutil, subprocess, time
from .. import vlib

LEVEL = "model_checking"
FAMILY = "autotrace"

# the pre-existing flaky test (hangs about 1 in 200 runs on the ORIGINAL tree): never run
NEVER_RUN = ["TestGossipSubDiscoveryAfterBootstrap"]

# quick tier: a fixed subset covering the three routers and the gossipsub mechanisms
QUICK = [
    # floodsub / pubsub core (signing, validation, blacklist, relay, notifications)
    "TestBasicFloodsub", "TestMultihops", "TestReconnects", "TestNoConnection", "TestSelfReceive", "TestOneToOne", "TestTreeTopology",
    "TestSubReporting", "TestPeerTopicReporting", "TestSubscribeMultipleTimes", "TestPeerDisconnect", "TestWithNoSigning", "TestWithSigning",
    "TestImproperlySignedMessageRejected", "TestMessageSender", "TestPubsubWithAssortedOptions", "TestPreconnectedNodes",
    "TestValidate", "TestValidate2", "TestValidateOverload", "TestValidateAssortedOptions", "TestBlacklist", "TestBlacklist2", "TestBlacklist3",
    "TestPubSubRemovesBlacklistedPeer", "TestTopicRelay", "TestTopicReuse", "TestSubscriptionNotificationSubUnSub", "TestWithLocalPublication",
    "TestPublishDuplicateMessage", "TestBasicSeqnoValidatorReplay", "TestPBTracer",
    # randomsub
    "TestRandomsubSmall", "TestRandomsubMixed", "TestRandomsubEnoughPeers",
    # gossipsub: mesh / fanout / gossip / prune / backoff / px / score / direct / flood publish / idontwant / fragmentation / discovery
    "TestSparseGossipsub", "TestGossipsubGossip", "TestMixedGossipsub", "TestGossipsubGraft", "TestGossipsubGraftPruneRetry",
    "TestGossipsubFanoutExpiry", "TestGossipsubFanoutOnly", "TestGossipsubGossipPropagation", "TestGossipsubPrune", "TestGossipsubPruneBackoffTime",
    "TestGossipsubRemovePeer", "TestGossipsubMultihops", "TestGossipsubTreeTopology", "TestGossipsubStarTopology",
    "TestGossipsubStarTopologyWithSignedPeerRecords", "TestGossipsubDirectPeers", "TestGossipsubDirectPeersFanout", "TestGossipsubFloodPublish",
    "TestGossipsubEnoughPeers", "TestGossipsubNegativeScore", "TestGossipsubScoreValidatorEx", "TestGossipsubOpportunisticGrafting",
    "TestGossipSubLeaveTopic", "TestGossipSubJoinTopic", "TestGossipsubRPCFragmentation", "TestGossipsubIdontwantSend",
    "TestGossipsubIdontwantReceive", "TestGossipsubIdontwantNonMesh", "TestGossipsubPruneMeshCorrectly", "TestGossipSubPeerFilter",
    "TestGossipsubAttackGRAFTDuringBackoff", "TestGossipsubAttackSpamIWANT", "TestMinTopicSizeNoDiscovery",
]

# machine-readable copy of spec/autotrace/EXCLUDED_TESTS.md: test -> (predicates skipped, or ["*"]), reason
EXCLUDED = {
    "TestGossipsubMultipleGraftTopics": (["X00_WireControl", "X00_MeshEvents"],
        "gossipsub_test.go:1946-1948 writes p2Router.mesh[topic] by hand (no Join, so no JOIN event) and :1959 calls "
        "p1Router.sendGraftPrune by hand (GRAFT on the wire without graftPeer: no GRAFT event, peer not in the mesh)"),
}

EL_TYPES = {"ON_NEW_OUTBOUND_STREAM", "ON_CLOSED_OUTBOUND_STREAM", "JOIN", "LEAVE", "GRAFT", "PRUNE", "RECV_RPC",
            "SEND_RPC", "DROP_RPC", "DELIVER_MESSAGE"}

PREDICATES = ["X00_Alternate", "X00_MeshEvents", "X00_LeavePrunes", "X00_WireControl", "X00_Backoff", "X00_AtMostOnce",
              "X00_Accounting", "X00_SendAccepted", "X00_Wire", "X00_Origin"]


# ----------------------------------------------------------------------------- running the repository's tests

def list_tests(repo, pkg):
    """Names of the top-level tests of a package (go test -list), minus the ones never run."""
    e = dict(os.environ); e.update(vlib.GOENV); e.pop("GOSUMDB", None); e.pop("GOTOOLCHAIN", None)
    p = subprocess.run(["go", "test", "-tags", "verif", "-vet=off", "-list", "^Test", pkg], cwd=repo, env=e,
                       stdout=subprocess.PIPE, stderr=subprocess.STDOUT, text=True)
    if p.returncode != 0:
        raise vlib.Inconclusive("go test -list failed in %s (does the tree build with -tags verif?): %s" % (repo, p.stdout[-600:]))
    return [l.strip() for l in p.stdout.splitlines() if re.match(r"^Test\w+$", l.strip()) and l.strip() not in NEVER_RUN]


def run_suite(ctx, pkg, tests, outdir, timeout_s, name):
    """go test inside the repository under test with VERIF_AUTOTRACE set. Returns dict(rc, log, wall, failed tests)."""
    os.makedirs(outdir, exist_ok=True)
    e = dict(os.environ); e.update(vlib.GOENV); e.pop("GOSUMDB", None); e.pop("GOTOOLCHAIN", None)
    e["VERIF_AUTOTRACE"] = outdir
    rx = "^(" + "|".join(tests) + ")$"
    cmd = ["go", "test", "-tags", "verif", "-count=1", "-vet=off", "-timeout", "%ds" % timeout_s, "-run", rx, pkg]
    t0 = time.time()
    p = subprocess.run(["timeout", str(timeout_s + 60)] + cmd, cwd=vlib.REPO, env=e, stdout=subprocess.PIPE,
                       stderr=subprocess.STDOUT, text=True, errors="replace")
    log = os.path.join(ctx.work, "gotest-%s.log" % name)
    with open(log, "w") as f:
        f.write(p.stdout)
    if "[build failed]" in p.stdout or "[setup failed]" in p.stdout:
        raise vlib.Inconclusive("the repository's test binary does not build with -tags verif (see %s)" % log)
    failed = re.findall(r"^--- FAIL: (\S+)", p.stdout, re.M)
    return {"rc": p.returncode, "log": log, "wall": time.time() - t0, "failed": failed,
            "panic": "panic:" in p.stdout, "timeout": "test timed out" in p.stdout or p.returncode == 124}


# ----------------------------------------------------------------------------- normalisation (no judging here)

def load_raw(outdir):
    """-> {test: {"inst": [instance lines], "ev": [event lines]}} from the per-process files of one run."""
    tests = collections.OrderedDict()
    for fn in sorted(glob.glob(os.path.join(outdir, "autotrace-*.ndjson"))):
        inst = {}
        with open(fn) as f:
            for line in f:
                if not line.endswith("\n"):
                    continue            # torn last line of a killed process
                try:
                    d = json.loads(line)
                except ValueError:
                    continue
                if d["k"] == "I":
                    inst[d["n"]] = d
                    tests.setdefault(d["test"], {"inst": [], "ev": []})["inst"].append(d)
                else:
                    i = inst.get(d["n"])
                    if i is not None:
                        tests[i["test"]]["ev"].append(d)
    return tests


def content_key(rpc):
    """Canonical text of what an RPC carries (both ends compute it from their own trace metadata)."""
    if not any(rpc.get(k) for k in ("msgs", "graft", "prune", "ihave", "iwant", "idw")):
        return None
    return json.dumps([rpc.get(k, []) for k in ("msgs", "subs", "graft", "prune", "ihave", "iwant", "idw")], separators=(",", ":"))


def normalise(test, raw, skip):
    """One test -> list of lines for the trace spec (reset line first)."""
    insts = sorted(raw["inst"], key=lambda d: d["n"])
    idx = {d["n"]: i + 1 for i, d in enumerate(insts)}
    by_id = collections.defaultdict(list)
    for d in insts:
        by_id[d["id"]].append(idx[d["n"]])
    pi_of = {p: (v[0] if len(v) == 1 else 0) for p, v in by_id.items()}
    elmax = collections.defaultdict(int)
    evs = raw["ev"]
    for d in evs:
        if d["ty"] in EL_TYPES:
            n = idx[d["n"]]
            if d["g"] > elmax[n]:
                elmax[n] = d["g"]
    # order: the push for SEND_RPC (gp), the callback for everything else
    evs = sorted(evs, key=lambda d: d.get("gp", d["g"]))
    mids, ckeys = {}, {}

    def mid(s):
        if s not in mids:
            mids[s] = len(mids) + 1
        return mids[s]

    out = []
    for k, d in enumerate(evs):
        ty = d["ty"]
        row = {"k": "ev", "g": d.get("gp", d["g"]), "n": idx[d["n"]], "ts": d["ts"], "ty": ty, "ln": k + 1}
        if ty in ("ON_NEW_OUTBOUND_STREAM", "ON_CLOSED_OUTBOUND_STREAM"):
            row["p"] = d["p"]
        elif ty in ("JOIN", "LEAVE"):
            row["t"] = d["t"]
        elif ty in ("GRAFT", "PRUNE"):
            row["p"], row["t"] = d["p"], d["t"]
        elif ty == "PUBLISH_MESSAGE":
            row["m"], row["t"] = mid(d["m"]), d["t"]
        elif ty in ("DELIVER_MESSAGE", "DUPLICATE_MESSAGE", "REJECT_MESSAGE"):
            row["m"], row["p"], row["pi"] = mid(d["m"]), d["p"], pi_of.get(d["p"], 0)
            if ty == "REJECT_MESSAGE":
                row["r"] = d["r"]
        elif ty in ("RECV_RPC", "SEND_RPC", "DROP_RPC"):
            rpc = d.get("rpc", {})
            row["p"], row["pi"] = d["p"], pi_of.get(d["p"], 0)
            row["msgs"] = [[mid(m), t] for m, t in rpc.get("msgs", [])]
            row["graft"] = rpc.get("graft", [])
            row["prune"] = [[t, bo] for t, npx, bo in rpc.get("prune", [])]
            row["iwant"] = [mid(m) for m in rpc.get("iwant", [])]
            row["x"] = bool(d.get("x"))
            ck = content_key(rpc)
            if ck is None:
                row["c"] = 0
            else:
                row["c"] = ckeys.setdefault(ck, len(ckeys) + 1)
            if ty != "RECV_RPC":
                row["ihave"] = [[t, [mid(m) for m in ids]] for t, ids in rpc.get("ihave", [])]
                row["hasgp"] = "gp" in d
                row["u"] = bool(d.get("u"))
            # ids only mentioned in IHAVE / IDONTWANT still need a number (they are part of the content key only)
        out.append(row)
    cfg = []
    for d in insts:
        cfg.append({"id": d["id"], "router": d["router"], "ttl": d["ttl"], "pruneBackoff": d.get("pruneBackoff", 0),
                    "unsubBackoff": d.get("unsubBackoff", 0), "elmax": elmax[idx[d["n"]]]})
    reset = {"k": "reset", "test": test, "ni": len(insts), "nm": max(1, len(mids)), "inst": cfg, "skip": sorted(skip)}
    return [reset] + out


# ----------------------------------------------------------------------------- TLC

def validate(ctx, tests, workers):
    """tests: {name: lines}. Packs the tests into chunks, runs AutoTraceTrace on each, returns (viols, covs, states, lines)."""
    limit = 120000
    chunks, cur, n = [], [], 0
    for name in sorted(tests, key=lambda t: -len(tests[t])):
        rows = tests[name]
        if cur and n + len(rows) > limit:
            chunks.append(cur); cur, n = [], 0
        cur.append(name); n += len(rows)
    if cur:
        chunks.append(cur)
    viols, covs, states, nlines = [], {}, 0, 0
    tr = os.path.join(vlib.SPEC, "tracereplay", "TraceReplay.tla")

    def do(ci):
        path = os.path.join(ctx.work, "tv-chunk-%d.ndjson" % ci)
        with open(path, "w") as f:
            k = 0
            for name in chunks[ci]:
                for r in tests[name]:
                    f.write(json.dumps(r, separators=(",", ":")) + "\n"); k += 1
        t0 = time.time()
        res = vlib.run_tlc(ctx, FAMILY, "AutoTraceTrace", "AutoTraceTrace.cfg", mode="trace",
                           files={"trace.ndjson": path, "TraceReplay.tla": tr}, timeout=1500, name="tv-%d" % ci, heap="4g")
        if res.hw is None or res.hw[0] < res.hw[1]:
            raise vlib.Inconclusive("trace validation stopped early (chunk %d, tests %s..., high water %s): %s (see %s/tlc.out)" %
                                    (ci, chunks[ci][:3], res.hw, res.errors[:2], res.dir))
        ctx.log("chunk %d: %d tests, %d lines, TLC %.0fs" % (ci, len(chunks[ci]), k, time.time() - t0))
        return res.printed("VIOL"), res.printed("COV"), res.distinct, k

    with cf.ThreadPoolExecutor(max_workers=max(1, min(workers, len(chunks)))) as ex:
        for vs, cs, st, k in ex.map(do, range(len(chunks))):
            viols += vs
            for c in cs:
                covs[c["test"]] = c["cov"]
            states += st; nlines += k
    return viols, covs, states, nlines


def window(lines, ln, n, before=40, after=5):
    """The lines of instance n (and RPC events naming it) around line ln of a normalised test trace."""
    evs = lines[1:]
    sel = [r for r in evs[max(0, ln - 1 - 4000):ln + after] if r["n"] == n or r.get("pi") == n]
    return sel[-(before + after):]


def report(ctx, viols, tests, rawcfg):
    seen = {}
    for v in viols:
        test, pred = v["test"], v["pred"]
        info = v.get("info", {})
        what = info.get("what", "")
        lines = tests.get(test, [])
        inst = lines[0]["inst"][v["n"] - 1] if lines and v["n"] - 1 < len(lines[0]["inst"]) else {}
        sig = {"test": test.split(".")[-1].split("#")[0], "what": what, "router": inst.get("router", "")}
        key = (pred, json.dumps(sig, sort_keys=True))
        seen.setdefault(key, 0)
        seen[key] += 1
        if seen[key] > 1:
            continue
        detail = "%s in %s, instance %d (%s, peer %s), line %d (g=%d, %s): %s" % (
            pred, test, v["n"], inst.get("router"), inst.get("id"), v["ln"], v["g"], v["ty"], json.dumps(info, sort_keys=True)[:500])
        payload = {"test": test, "instance": v["n"], "instance_cfg": inst, "line": v["ln"], "predicate": pred, "info": info,
                   "rerun": "cd %s && VERIF_AUTOTRACE=<dir> GOFLAGS=-mod=mod GOPROXY=off go test -tags verif -count=1 -vet=off -run '^%s$' %s" % (
                       vlib.REPO, test.split(".")[-1].split("#")[0], "." if not test.startswith("partialmessages") else "./partialmessages/"),
                   "note": "real goroutine schedules differ between runs; the window below is the evidence",
                   "window": window(lines, v["ln"], v["n"]) if lines else []}
        vlib.add_violation(ctx, pred, sig, detail, payload)
    return seen


# ----------------------------------------------------------------------------- model level

MUST_FAIL = [("JoinTwice", "Inv_Alternate"), ("GraftNoEvent", "Inv_WireControl"), ("LeaveOmitsPrune", "Inv_LeavePrunes"),
             ("WireGraftNoMesh", "Inv_WireControl"), ("GraftIgnoresBackoff", "Inv_Backoff"), ("IHaveToMesh", "Inv_WireControl"),
             ("IHaveUnknown", "Inv_WireControl"), ("ForwardToSender", "Inv_SendAccepted"), ("SendBeforeDeliver", "Inv_SendAccepted"),
             ("NoPublishEvent", "Inv_Accounting"), ("SpontaneousDeliver", "Inv_Origin"), ("DeliverDuplicate", "Inv_AtMostOnce"),
             ("RejectNotSeen", "Inv_AtMostOnce"), ("WireReorder", "Inv_Wire"), ("WireSpontaneous", "Inv_Wire")]


def model_check(ctx):
    """The monitor composed with an abstract network of gossipsub nodes: no predicate fires on the model of the code
    (all interleavings up to the bound), every seeded model defect makes its predicate fire."""
    tr = {"TraceReplay.tla": os.path.join(vlib.SPEC, "tracereplay", "TraceReplay.tla")}
    info, states, trans = {}, 0, 0
    mc = vlib.run_tlc(ctx, FAMILY, "MCAutoTrace", "MCAutoTrace10.cfg" if ctx.thorough else "MCAutoTrace.cfg", files=tr,
                      timeout=1500, name="mc", workers=4)
    vlib.require_mc_ok(ctx, mc, "MCAutoTrace (2 nodes, 1 message, queue capacity 2, %d events)" % (10 if ctx.thorough else 8))
    states += mc.distinct; trans += mc.generated
    info["MCAutoTrace"] = [mc.distinct, mc.generated]
    todo = MUST_FAIL if ctx.thorough else [MUST_FAIL[(ctx.seed + k * 4) % len(MUST_FAIL)] for k in range(4)] + [MUST_FAIL[7], MUST_FAIL[4]]

    def one(di):
        defect, inv = di
        cfg = vlib.cfg_text(constants={"NN": 2, "Msgs": 1, "Cap": 2, "MaxG": 16, "MaxTime": 3, "Defect": '"%s"' % defect},
                            constraint="Bound", invariants=[inv])
        r = vlib.run_tlc(ctx, FAMILY, "MCAutoTrace", cfg, files=tr, timeout=900, name="mf-" + defect, workers=2)
        vlib.require_mc_fails(ctx, r, "MCAutoTrace Defect=%s" % defect, inv)
        return defect, r.distinct, r.generated

    with cf.ThreadPoolExecutor(max_workers=3) as ex:
        for defect, d, gnr in ex.map(one, dict.fromkeys(todo)):
            states += d; trans += gnr
            info["must_fail:" + defect] = d
    if ctx.thorough:
        sim = vlib.run_tlc(ctx, FAMILY, "MCAutoTrace", "MCAutoTraceSim.cfg", files=tr, mode="sim", simulate="num=3000", depth=80,
                           timeout=900, name="sim", workers=4)
        vlib.require_mc_ok(ctx, sim, "MCAutoTrace simulation (3 nodes, 2 messages, 60 events)")
        states += sim.distinct; trans += sim.generated
        info["simulation"] = [sim.distinct, sim.generated]
    return states, trans, info


# ----------------------------------------------------------------------------- main

NEED = {  # coverage obligations: antecedent counters that must be hit (summed over the validated tests)
    "quick": {"join": 100, "leave": 5, "graft": 200, "prune": 20, "pruneLeave": 5, "wireGraft": 100, "wirePrune": 20, "wireIHave": 5,
              "final": 2000, "outcome": 5000, "dup": 1000, "selfDeliver": 100, "sendMsg": 2000,
              "wireMatched": 2000, "origin": 1000, "stream": 300},
    "thorough": {"join": 300, "leave": 20, "graft": 1000, "prune": 100, "pruneRemote": 1, "pruneLeave": 20, "closedMesh": 1,
                 "wireGraft": 500, "wirePrune": 100, "wireIHave": 50, "final": 10000,
                 "outcome": 30000, "dup": 5000, "selfDeliver": 500, "sendMsg": 10000, "wireMatched": 10000,
                 "wireUrgent": 1, "origin": 5000, "stream": 1000},
}


def run_replay(ctx):
    """bin/check X00 --replay <file>: run the test named in a replay file again (three times: real schedules differ) and judge its traces."""
    rp = json.load(open(ctx.replay)).get("replay") or {}
    test = rp.get("test")
    if not test:
        raise vlib.Inconclusive("replay file names no test")
    short, pkg = test.split(".")[-1], ("./partialmessages/" if test.startswith("partialmessages") else ".")
    tests, nev = {}, 0
    for k in range(3):
        outdir = os.path.join(ctx.work, "traces%d" % k)
        r = run_suite(ctx, pkg, [short], outdir, 600, "replay%d" % k)
        for t, raw in load_raw(outdir).items():
            if raw["ev"]:
                ex = EXCLUDED.get(t.split(".")[-1])
                tests["%s#%d" % (t, k)] = normalise("%s#%d" % (t, k), raw, ex[0] if ex else [])
                nev += len(raw["ev"])
    if not tests:
        raise vlib.Inconclusive("the test recorded no events")
    viols, covs, st, nlines = validate(ctx, tests, workers=3)
    for v in viols:
        v["test"] = v["test"]
    report(ctx, viols, tests, None)
    return vlib.finish(ctx, LEVEL, {"states": max(st, 1), "transitions": max(nlines, 1), "traces_validated_against_impl": len(tests),
                                    "evaluations": nlines, "distinct_nontrivial": len(tests), "exhaustive": False,
                                    "rule": "replay: the test of a replay file run three times", "samples": [{"test": test, "events": nev}]},
                       ["replay of one repository test; real schedules differ between runs"])


def run(ctx):
    if ctx.replay:
        return run_replay(ctx)
    # the model checking runs while the repository's tests run (they mostly wait for real-time timers)
    mc_pool = cf.ThreadPoolExecutor(max_workers=1)
    mc_future = mc_pool.submit(model_check, ctx)
    outdir = os.path.join(ctx.work, "traces")
    shutil.rmtree(outdir, ignore_errors=True)
    suites = []
    if ctx.thorough:
        names = list_tests(vlib.REPO, ".")
        suites.append((".", names, 1500, "root"))
        try:
            pm = list_tests(vlib.REPO, "./partialmessages/")
            if pm:
                suites.append(("./partialmessages/", pm, 600, "partialmessages"))
        except vlib.Inconclusive:
            pass
    else:
        have = set(list_tests(vlib.REPO, "."))
        names = [t for t in QUICK if t in have]
        missing = [t for t in QUICK if t not in have]
        if missing:
            ctx.notes.append("quick list names tests the tree does not have: %s" % missing)
        suites.append((".", names, 600, "root"))
    suite_info = []
    for pkg, names, to, nm in suites:
        r = run_suite(ctx, pkg, names, outdir, to, nm)
        ctx.log("go test %s: %d tests requested, rc=%d, %.0fs, failed=%s" % (pkg, len(names), r["rc"], r["wall"], r["failed"][:6]))
        suite_info.append({"pkg": pkg, "requested": len(names), "rc": r["rc"], "wall": round(r["wall"]), "failed": r["failed"]})
        if r["failed"] or r["rc"] != 0:
            ctx.notes.append("the repository's own tests did not all pass in %s (rc=%d, failed=%s, timeout=%s, panic=%s): not a verdict of this check, see %s" % (
                pkg, r["rc"], r["failed"][:8], r["timeout"], r["panic"], r["log"]))
    raw = load_raw(outdir)
    if not raw:
        raise vlib.Inconclusive("no trace was recorded (hook not built in / VERIF_AUTOTRACE ignored?)")
    tests, skipped_tests, ninst, nev = {}, [], 0, 0
    for test, r in raw.items():
        short = test.split(".")[-1]
        ex = EXCLUDED.get(short)
        if ex and "*" in ex[0]:
            skipped_tests.append(short)
            continue
        if not r["ev"]:
            continue
        tests[test] = normalise(test, r, ex[0] if ex else [])
        ninst += len(r["inst"]); nev += len(r["ev"])
    ctx.log("recorded %d tests with events (%d instances, %d events); %d excluded" % (len(tests), ninst, nev, len(skipped_tests)))
    viols, covs, st, nlines = validate(ctx, tests, workers=4 if not ctx.thorough else 6)
    states, transitions, mcinfo = mc_future.result()
    states += st; transitions += nlines
    seen = report(ctx, viols, tests, raw)
    total = collections.Counter()
    for c in covs.values():
        total.update(c)
    need = NEED[ctx.tier]
    unmet = {k: (total.get(k, 0), v) for k, v in need.items() if total.get(k, 0) < v}
    if unmet and not ctx.violations:
        raise vlib.Inconclusive("coverage obligations not met (antecedent: seen, needed): %s" % unmet)
    sample_test = next(iter(tests))
    cov = {"states": states, "transitions": transitions, "traces_validated_against_impl": len(tests),
           "evaluations": nlines, "distinct_nontrivial": sum(1 for c in covs.values() if c.get("outcome", 0) > 0 or c.get("graft", 0) > 0),
           "rule": "one trace = all tracer events of all PubSub instances one test of the repository created, in g order; "
                   "non-trivial = the test delivered/rejected at least one message or grafted at least one peer",
           "exhaustive": False, "tests": len(tests), "instances": ninst, "events": nev, "antecedents": dict(total),
           "obligations_detail": need, "suite": suite_info, "excluded_tests": skipped_tests,
           "partially_excluded": {k: v[0] for k, v in EXCLUDED.items() if "*" not in v[0]},
           "mc": mcinfo, "violations_by_signature": {"%s %s" % k: n for k, n in seen.items()},
           "samples": [{"test": sample_test, "lines": tests[sample_test][:6]}]}
    return vlib.finish(ctx, LEVEL, cov, [
        "g is taken inside the tracer callback: only orders justified by happens-before are used (see the header of AutoTrace.tla)",
        "the repository's tests run in real time (or in synctest bubbles): each run samples different schedules; the predicates hold for all of them",
        "message ids are compared through a 64 bit hash; peers through the last 6 bytes of their id",
        "a failing or hanging repository test is reported as a note, never as a verdict"])
