"""C11 - splitting an oversized RPC loses nothing and respects the size limit.

spec/split: SplitRel (the property: a relation between input, limit and fragments), Split (exact
protobuf sizes + SplitImpl, a transcription of RPC.split with the repairs as a parameter), MCSplit
(exhaustive check over a bounded shape space and all limits; generator of the shapes), SplitTrace
(every recorded run of the REAL RPC.split judged against the relation only).

MC -> Gen -> Go replay (harness/drivers/c11: TLC shapes x limits, seeded large random RPCs) -> TLC
judges every recorded line -> verdict."""
import concurrent.futures as cf
import hashlib, json, os, random
from .. import vlib

LEVEL = "model_checking"
FAMILY = "split"
ALL_FIXED = '{"D1", "empty", "sov0"}'
D1_KINDS = {"idontwant", "ext", "partial", "testext"}


def mc_cfg(fixed, space, invariants, constraint=None):
    return vlib.cfg_text(constants={"Fixed": fixed, "Space": "Space <- " + space, "MinLimit": 2},
                         invariants=invariants, constraint=constraint)


def model_check(ctx):
    """The transcription with all repairs satisfies the relation on every shape and every limit; the
    transcription as found (and with one repair missing) violates exactly the clause it should."""
    tot = {"states": 0, "transitions": 0, "runs": {}}

    def ok(name, fixed, space, invs, timeout=900, allow_timeout=False):
        r = vlib.run_tlc(ctx, FAMILY, "MCSplit", mc_cfg(fixed, space, invs), timeout=timeout, name=name, workers=4)
        vlib.require_mc_ok(ctx, r, "MCSplit %s" % name, allow_timeout=allow_timeout)
        tot["states"] += r.distinct; tot["transitions"] += r.generated
        tot["runs"][name] = [r.distinct, r.generated, round(r.wall, 1)]
        return r

    def must_fail(name, fixed, space, inv):
        r = vlib.run_tlc(ctx, FAMILY, "MCSplit", mc_cfg(fixed, space, [inv]), timeout=600, name=name, workers=2)
        vlib.require_mc_fails(ctx, r, "MCSplit %s" % name, inv)
        tot["runs"][name] = "violates %s (expected: non-vacuity)" % inv

    main = "MC_Quick" if ctx.thorough else "MC_Smoke"
    ok("mc-main", ALL_FIXED, main, ["Inv_WellFormed", "Inv_Valid"])
    ok("mc-pub", ALL_FIXED, "MC_Pub", ["Inv_WellFormed", "Inv_Valid"])
    # non-vacuity: D1 as found loses content; without the "empty" repair empty RPCs are yielded; without
    # the "sov0" repair a fragment of empty messages exceeds the limit
    must_fail("mc-asfound", "{}", "MC_Smoke", "Inv_NoLoss")
    must_fail("mc-noempty", '{"D1", "sov0"}', "MC_Smoke", "Inv_NonEmpty")
    must_fail("mc-nosov0", '{"D1", "empty"}', "MC_Pub", "Inv_Fits")
    if ctx.thorough:
        # ... and nothing else is wrong with the algorithm as found (no duplicates, order kept, only the D1 kinds lost)
        ok("mc-asfound-otherwise-ok", "{}", "MC_Smoke", ["Inv_AsFoundOtherwiseOK"])
        ok("mc-long", ALL_FIXED, "MC_Long", ["Inv_WellFormed", "Inv_Valid"], timeout=300, allow_timeout=True)
        ok("mc-thorough", ALL_FIXED, "MC_Thorough", ["Inv_WellFormed", "Inv_Valid"], timeout=600, allow_timeout=True)
    return tot


def generate(ctx, tot):
    """TLC emits every shape of the spaces with its exact abstract size; limits: all of lo..hi, or (quick
    tier / large shapes) the boundary values plus a seeded sample."""
    rnd = random.Random(ctx.seed)
    # (space, all limits?, number of sampled limits besides the boundary ones)
    if ctx.thorough:
        plan = [("MC_Smoke", True, 0), ("MC_Pub", True, 0), ("MC_Quick", False, 14), ("MC_Long", False, 20), ("MC_Thorough", False, 8)]
    else:
        plan = [("MC_Quick", False, 5), ("MC_Pub", False, 8), ("MC_Long", False, 6)]
    shapes, exhaustive_spaces = [], []
    for space, all_limits, nsample in plan:
        g = vlib.run_tlc(ctx, FAMILY, "MCSplit", mc_cfg(ALL_FIXED, space, ["Emit"], constraint="GenStop"),
                         timeout=900, name="gen-" + space, workers=4)
        vlib.require_mc_ok(ctx, g, "GenSplit " + space)
        got = g.printed("SHAPE")
        if not got:
            raise vlib.Inconclusive("generator emitted nothing for " + space)
        tot["states"] += g.distinct; tot["transitions"] += g.generated
        got.sort(key=lambda s: json.dumps(s, sort_keys=True))
        for s in got:
            lo, hi, rest = s["lo"], s["hi"], s["rest"]
            if all_limits:
                lims = list(range(lo, hi + 1))
            else:
                lims = {hi - 2, hi - 1, hi, rest - 1, rest, rest + 1}
                lims |= set(rnd.sample(range(lo, hi + 1), min(nsample, hi - lo + 1)))
                lims = sorted(x for x in lims if lo <= x <= hi)
            s["space"] = space
            s["lims"] = lims
            shapes.append(s)
        if all_limits:
            exhaustive_spaces.append(space)
    for i, s in enumerate(shapes):
        s["sid"] = i
        s["cmp"] = rnd.random() < (0.04 if not ctx.thorough else 0.01)
    return shapes, exhaustive_spaces


class Chunks:
    """Trace lines are streamed into chunk files (never held in memory); TLC judges the chunks in parallel."""

    def __init__(self, ctx, name):
        self.ctx, self.name, self.files, self.f, self.n, self.bytes = ctx, name, [], None, 0, 0

    def add(self, raw):
        if self.f is None or self.n >= 6000 or self.bytes + len(raw) > 6_000_000:
            self.close()
            path = os.path.join(self.ctx.work, "%s-chunk-%d.ndjson" % (self.name, len(self.files)))
            self.files.append([path, 0])
            self.f, self.n, self.bytes = open(path, "w"), 0, 0
        self.f.write(raw + "\n")
        self.n += 1; self.bytes += len(raw) + 1
        self.files[-1][1] += 1

    def close(self):
        if self.f is not None:
            self.f.close(); self.f = None

    def judge(self):
        """TLC (SplitTrace) judges every line; returns {id: VIOL record}, {id: IMPL record}, states."""
        self.close()
        ctx = self.ctx

        def do(idx):
            path, n = self.files[idx]
            res = vlib.run_tlc(ctx, FAMILY, "SplitTrace", "SplitTrace.cfg", mode="trace", files={"trace.ndjson": path},
                               timeout=1200, name="%s-%d" % (self.name, idx), heap="4g")
            if res.hw is None or res.hw[0] < res.hw[1] or res.hw[1] != n + 1 or not res.no_error:
                raise vlib.Inconclusive("trace validation did not judge every line of %s (hw=%s, errors=%s, see %s/tlc.out)"
                                        % (path, res.hw, res.errors[:2], res.dir))
            v, m = res.printed("VIOL"), res.printed("IMPL")
            for fn in ("trace.ndjson", "tlc.out"):
                try:
                    if not v or fn == "trace.ndjson":
                        os.remove(os.path.join(res.dir, fn))
                except OSError:
                    pass
            return v, m, res.distinct

        viol, impl, states = {}, {}, 0
        with cf.ThreadPoolExecutor(max_workers=max(1, min(vlib.NCPU // 2, 4))) as ex:
            for v, m, st in ex.map(do, range(len(self.files))):
                states += st
                for x in v:
                    viol[x["id"]] = x
                for x in m:
                    impl[x["id"]] = x
        return viol, impl, states

    def lines(self):
        for path, _ in self.files:
            with open(path) as f:
                for raw in f:
                    yield raw

    def cleanup(self):
        for path, _ in self.files:
            try:
                os.remove(path)
            except OSError:
                pass


def nitems(sh, kind):
    if kind == "ihave":
        return sum(len(e["ids"]) for e in sh.get("ihave", []))
    if kind in ("iwant", "idw"):
        return sum(len(e) for e in sh.get(kind, []))
    return len(sh.get(kind, []))


def classify(ln, v):
    """Signatures of the clauses TLC reported as failed for one line (facts only: which clause, which kinds,
    on which path, in which context)."""
    out = []
    limit, sizes, frags = ln["limit"], ln["sizes"], ln["frags"]
    slow = ln["rest"] >= limit
    path = "slow" if slow else "fast"
    lost = sorted(v["lost"])
    for k in lost:                             # one signature per kind, so that co-occurring losses are told apart
        out.append(("P_C11_NoLoss", {"clause": "lost", "kind": k, "path": path}))
    for k in sorted(v["extra"]):
        out.append(("P_C11_NoDuplicate", {"clause": "extra", "kind": k, "path": path}))
    if not v["puborder"]:
        out.append(("P_C11_PublishOrder", {"clause": "puborder", "path": path}))
    ctxs = set()
    for i in v["empty"]:                       # 1-based fragment numbers
        nxt_over = i < len(frags) and sizes[i] > limit
        if nxt_over:
            ctxs.add("before-oversized-element")
        elif (slow and set(lost) & D1_KINDS and i == len(frags) and frags[i - 1].get("ctl")
              and sizes[i - 1] == 2):
            ctxs.add("control-wrapper-after-D1-loss")
        else:
            ctxs.add("other")
    for c in sorted(ctxs):
        out.append(("P_C11_NoEmptyRPC", {"clause": "empty", "context": c, "path": path}))
    ctxs = set()
    for i in v["badover"]:
        f = frags[i - 1]
        only_pub = all(k in ("pub", "ctl") for k in f) and not f.get("ctl")
        if only_pub and "m:" in f.get("pub", []):
            ctxs.add("publish-with-empty-messages")
        else:
            ctxs.add("other")
    for c in sorted(ctxs):
        out.append(("P_C11_FitsLimit", {"clause": "oversize", "context": c, "path": path}))
    if v["alien"] or not v["shapeok"]:
        out.append(("P_C11_NothingElse", {"clause": "alien" if v["alien"] else "malformed"}))
    return out


def classify_send(ln, v):
    """Signatures for a line recorded at sendRPC (queued for the wire / reported dropped / kept for a retry)."""
    out = []
    limit = ln["limit"]
    path = "whole" if ln["insize"] < limit else ("slow" if ln["rest"] >= limit else "fast")
    q = "queue-full" if ln["cap"] >= 0 and len(ln["queued"]) >= ln["cap"] else "queue-has-room"
    for k in sorted(v["lost"]):
        # neither queued nor in any drop report
        out.append(("P_C11_DropReported", {"clause": "dropped-silently", "kind": k, "path": path, "queue": q}))
    for k in sorted(v["extra"]):
        out.append(("P_C11_SendNoDuplicate", {"clause": "send-extra", "kind": k, "path": path, "queue": q}))
    if not v["puborder"] and "pub" not in v["lost"] and "pub" not in v["extra"]:
        out.append(("P_C11_SendPublishOrder", {"clause": "send-puborder", "path": path}))
    if v["empty"]:
        out.append(("P_C11_SendNoEmptyRPC", {"clause": "send-empty", "path": path}))
    if v["over"]:
        out.append(("P_C11_Queue", {"clause": "queued-oversize", "path": path}))
    kinds = set()
    for i in v["baddrop"]:
        kinds.add("fitting-rpc-dropped" if ln["dsizes"][i - 1] <= limit else "oversized-rpc-of-several-elements-dropped")
    for c in sorted(kinds):
        out.append(("P_C11_OnlyUnfittingDropped", {"clause": c, "path": path, "queue": q}))
    if v["evtbad"]:
        out.append(("P_C11_DropReported", {"clause": "drop-trace-event-differs-from-dropped-rpc", "path": path}))
    for k in sorted(v["retrybad"]):
        out.append(("P_C11_SendNoDuplicate", {"clause": "retry-of-something-not-dropped", "kind": k, "path": path}))
    if not v["shapeok"]:
        out.append(("P_C11_NothingElse", {"clause": "malformed"}))
    return out


def run(ctx):
    tot = model_check(ctx)
    ctx.log("model checking done: %s" % tot["runs"])
    shapes, exhaustive_spaces = generate(ctx, tot)
    scn_file = os.path.join(ctx.work, "shapes.ndjson")
    vlib.write_ndjson(scn_file, shapes)
    ncases = sum(len(s["lims"]) for s in shapes)
    ctx.log("generated %d shapes, %d (shape, limit) cases; all limits for %s" % (len(shapes), ncases, exhaustive_spaces))

    # replay on the real splitter; lines are streamed into chunk files, coverage is measured on the way
    ob = {k: 0 for k in ["slow+idontwant", "slow+ext", "slow+partial", "slow+testext", "element-exceeds-limit",
                         "limit=size", "limit=size-1", "limit=size+1", "slow+messages+control", "fast-path",
                         "limit=rest (fast path boundary)", "split-within:subs", "split-within:graft", "split-within:prune",
                         "split-within:ihave", "split-within:iwant", "split-within:idw", "split-within:pub",
                         "send:whole (size < limit)", "send:split", "send:drop reported", "send:exact fit queued",
                         "send:limit=size", "send:slow+idontwant",
                         "send:piggybacked content takes the RPC over the limit",
                         "send:queue full, whole RPC dropped", "send:queue full after some fragments",
                         "send:queue-full drop with GRAFT/PRUNE next to gossip ids", "send:GRAFT/PRUNE kept for a retry",
                         "send:giant id with fitting elements before and after"]
          + ["send:dropped %s id reported (%s)" % (k, c) for k in ("ihave", "iwant", "idontwant") for c in ("oversize", "queue full")]}
    nontrivial, ids, panicked, samples_pool = set(), set(), [], {"tlc": [], "rand": []}
    count = {"tlc": 0, "rand": 0, "send": 0}
    touched = [0]
    chunks = Chunks(ctx, "tv")

    def measure(l):
        inp, lim = l["inp"], l["limit"]
        slow = l["rest"] >= lim
        if slow:
            for k, f in (("slow+idontwant", "idw"), ("slow+ext", "ext"), ("slow+partial", "partial"), ("slow+testext", "testext")):
                if inp.get(f):
                    ob[k] += 1
            if inp.get("pub") and inp.get("ctl"):
                ob["slow+messages+control"] += 1
        else:
            ob["fast-path"] += 1
        if any(s > lim for s in l["sizes"]):
            ob["element-exceeds-limit"] += 1
        for d, k in ((0, "limit=size"), (-1, "limit=size-1"), (1, "limit=size+1")):
            if lim == l["insize"] + d:
                ob[k] += 1
        if lim == l["rest"]:
            ob["limit=rest (fast path boundary)"] += 1
        for kind in ("subs", "graft", "prune", "ihave", "iwant", "idw", "pub"):
            if sum(1 for f in l["frags"] if nitems(f, kind) > 0) >= 2:
                ob["split-within:" + kind] += 1
        if len(l["frags"]) >= 2:
            nontrivial.add(hashlib.sha1((json.dumps(inp, sort_keys=True) + "|%d" % lim).encode()).digest()[:10])
        pool = samples_pool[l["src"]]
        if len(l["frags"]) >= 3 and (len(pool) < 2 or (count[l["src"]] % 97 == 0 and len(pool) < 40)):
            pool.append(l)

    def measure_send(l):
        lim = l["limit"]
        if l["insize"] < lim and len(l["queued"]) == 1:
            ob["send:whole (size < limit)"] += 1
        if len(l["queued"]) >= 2:
            ob["send:split"] += 1
        if l["drops"] >= 1:
            ob["send:drop reported"] += 1
        if any(s == lim for s in l["qsizes"]):
            ob["send:exact fit queued"] += 1
        if lim == l["insize"]:
            ob["send:limit=size"] += 1
        if l["rest"] >= lim and l["inp"].get("idw"):
            ob["send:slow+idontwant"] += 1
        if l.get("piggy") and l["outsize"] < lim <= l["insize"]:
            ob["send:piggybacked content takes the RPC over the limit"] += 1
        # the drop reports that are compared (by TLC) with what is missing from the queue
        hit = set()
        for f, sz in zip(l["rep"], l["dsizes"]):
            cause = "oversize" if sz > lim else "queue full"
            for kind, fld in (("ihave", "ihave"), ("iwant", "iwant"), ("idontwant", "idw")):
                if nitems(f, fld) > 0:
                    hit.add("send:dropped %s id reported (%s)" % (kind, cause))
            if cause == "queue full":
                if (f.get("graft") or f.get("prune")) and any(nitems(f, x) > 0 for x in ("ihave", "iwant", "idw")):
                    hit.add("send:queue-full drop with GRAFT/PRUNE next to gossip ids")
                hit.add("send:queue full, whole RPC dropped" if not l["queued"] and len(l["rep"]) == 1
                        else "send:queue full after some fragments")
        if l["retry"].get("graft") or l["retry"].get("prune"):
            hit.add("send:GRAFT/PRUNE kept for a retry")
        if l.get("pos") == "middle" and l["cap"] < 0 and l["queued"] and l["rep"]:
            hit.add("send:giant id with fitting elements before and after")
        for h in hit:
            ob[h] += 1

    nrand = 150 if not ctx.thorough else 1500
    for test, env in (("TestC11Shapes", {"VERIF_IN": scn_file}), ("TestC11Random", {"VERIF_C11_RANDOM": nrand}),
                      ("TestC11Send", {"VERIF_IN": scn_file, "VERIF_C11_RANDOM": nrand // 2})):
        outp = os.path.join(ctx.work, test + ".ndjson")
        env = dict(env, VERIF_OUT=outp)
        r = vlib.run_go(ctx, "./drivers/c11/", "^%s$" % test, env=env, timeout=1500)
        if not os.path.exists(outp) or os.path.getsize(outp) == 0:
            raise vlib.Inconclusive("driver %s produced no trace (rc=%s, see %s)" % (test, r["rc"], r["log"]))
        if r["rc"] != 0:
            raise vlib.Inconclusive("driver %s failed (rc=%s, see %s)" % (test, r["rc"], r["log"]))
        n0 = sum(count.values())
        with open(outp) as f:
            for raw in f:
                raw = raw.strip()
                if not raw:
                    continue
                l = json.loads(raw)
                if l["e"] == "sizedrift":
                    raise vlib.Inconclusive("the abstract size function disagrees with the real encoder: %s" % raw[:600])
                if l["e"] not in ("case", "send"):
                    continue
                if l["id"] in ids:
                    raise vlib.Inconclusive("duplicate case id %s in the trace" % l["id"])
                ids.add(l["id"])
                if "panic" in l:
                    panicked.append(l)
                    continue
                if l["e"] == "send":
                    count["send"] += 1
                    measure_send(l)
                    chunks.add(raw)
                    continue
                count[l["src"]] += 1
                if l.get("insize_after") != l["insize"]:
                    touched[0] += 1
                measure(l)
                chunks.add(raw)
        os.remove(outp)
        ctx.log("%s: %d lines" % (test, sum(count.values()) - n0))
    if count["tlc"] + sum(1 for l in panicked if l["e"] == "case" and l["src"] == "tlc") != ncases:
        raise vlib.Inconclusive("driver replayed %d of %d generated cases" % (count["tlc"], ncases))

    # a panic inside the splitter is an observation of the real code
    for l in panicked[:5]:
        vlib.add_violation(ctx, "P_C11_NoPanic", {"clause": "panic", "where": (l.get("stack") or ["?"])[0][:80]},
                           "%s panicked: %s (case %s, limit %d)" % ("RPC.split" if l["e"] == "case" else "sendRPC", l["panic"],
                                                                   l["id"], l["limit"]), l)

    viol, impl, tv_states = chunks.judge()
    njudged = sum(count.values())
    tot["states"] += tv_states; tot["transitions"] += tv_states
    ctx.log("TLC judged %d lines: %d rejected" % (njudged, len(viol)))

    # violations, grouped by signature (second pass over the chunk files for the rejected lines only)
    groups = {}
    if viol:
        for raw in chunks.lines():
            # cheap pre-filter on the id before parsing
            ln = json.loads(raw)
            v = viol.get(ln["id"])
            if v is None:
                continue
            for pred, sig in (classify(ln, v) if ln["e"] == "case" else classify_send(ln, v)):
                k = (pred, json.dumps(sig, sort_keys=True))
                g = groups.setdefault(k, {"n": 0, "ex": None, "len": 0})
                g["n"] += 1
                if g["ex"] is None or len(raw) < g["len"]:
                    g["ex"], g["len"] = (ln, v), len(raw)
    chunks.cleanup()
    for (pred, sigj), g in sorted(groups.items()):
        sig = json.loads(sigj)
        ln, v = g["ex"]
        payload = dict(ln)
        payload["tlc_verdict"] = v
        payload["how_to_rebuild"] = ("concretise 'abs' of shape sid (work/C11-*/shapes.ndjson) as harness/drivers/c11 does, limit as given"
                                     if ln["src"] == "tlc"
                                     else "TestC11Random / TestC11Send: VERIF_SEED and case number are in the id (s)r<seed>.<case>-<limit>")
        payload["level"] = "RPC.split (pubsub.VerifSplit)" if ln["e"] == "case" else "GossipSubRouter.sendRPC (PubSub.VerifSendRPC)"
        shown = {k: x for k, x in v.items() if k != "id" and x not in ([], False, True)}
        if ln["e"] == "case":
            what = "%d fragments of sizes %s" % (len(ln["frags"]), ln["sizes"][:12])
        else:
            what = "queue capacity %s; sendRPC queued %d RPCs of sizes %s and reported %d drop(s) of sizes %s" % (
                "unbounded" if ln["cap"] < 0 else ln["cap"], len(ln["queued"]), ln["qsizes"][:12], ln["drops"], ln["dsizes"][:8])
        vlib.add_violation(ctx, pred, sig,
                           "%s on %d recorded %s; smallest: case %s, limit %d, input size %d, %s; TLC: %s"
                           % (sig["clause"], g["n"], "split(s)" if ln["e"] == "case" else "sendRPC call(s)", ln["id"], ln["limit"],
                              ln["insize"], what, json.dumps(shown)), payload)

    if touched[0]:
        ctx.notes.append("the splitter changed the size of its INPUT RPC in %d case(s) (not part of the property; the relation is "
                         "judged against the contents recorded before the call)" % touched[0])
    missing = [k for k, n in ob.items() if n == 0]
    if missing and not ctx.violations:
        raise vlib.Inconclusive("coverage obligation not met: never exercised: %s" % missing)

    agree = {"compared": len(impl), "abstract_size_exact": sum(1 for x in impl.values() if x["size"]),
             "same_fragment_sizes_as_repaired_transcription": sum(1 for x in impl.values() if x["repaired"]),
             "same_fragment_sizes_as_as_found_transcription": sum(1 for x in impl.values() if x["asfound"])}
    if impl and agree["abstract_size_exact"] != len(impl):
        raise vlib.Inconclusive("abstract sizes differ from the real encoder on sampled lines")
    if impl and not any(x["repaired"] or x["asfound"] for x in impl.values()):
        ctx.notes.append("MODEL-DRIFT: the real splitter's packing matches neither transcription on any sampled case (the relation is still what is judged)")

    def trim(l):
        d = {k: v for k, v in l.items() if k != "stack"}
        return d if len(json.dumps(d)) < 3000 else {"id": l["id"], "limit": l["limit"], "insize": l["insize"], "sizes": l["sizes"][:40],
                                                    "nfrags": len(l["frags"]), "note": "large case, shapes omitted"}
    accepted = [l for l in samples_pool["tlc"] + samples_pool["rand"] if l["id"] not in viol]
    samples = [trim(l) for l in ([l for l in accepted if l["src"] == "tlc"][-2:] + [l for l in accepted if l["src"] == "rand"][:1])
               or (samples_pool["tlc"][-1:] + samples_pool["rand"][:1])]
    if not samples:
        raise vlib.Inconclusive("no split with three or more fragments was observed")
    cov = {"states": tot["states"], "transitions": tot["transitions"],
           "traces_validated_against_impl": njudged, "evaluations": njudged,
           "distinct_nontrivial": len(nontrivial),
           "rule": "one evaluation = one run of the real RPC.split (or, 'send' lines, of the real GossipSubRouter.sendRPC) on (RPC, limit), judged by TLC against SplitRel; "
                   "non-trivial = the splitter produced at least two fragments; distinct by (input content shape, limit). "
                   "TLC-generated shapes: all limits 2..size+1 for the spaces listed in 'all_limits_for', otherwise boundary limits "
                   "(size-1, size, size+1, rest-1, rest, rest+1) plus a seeded sample; random cases: seeded",
           "exhaustive": False,   # the MC is exhaustive over its shape space; the replayed input space is bounded + sampled
           "all_limits_for": exhaustive_spaces,
           "cases": {"tlc_shapes": len(shapes), "split_tlc_cases": count["tlc"], "split_random_cases": count["rand"],
                     "sendRPC_cases": count["send"]},
           "obligations": ob, "mc": tot["runs"], "conformance_with_transcription": agree,
           "rejected_lines": len(viol), "violation_groups": {"%s %s" % (p, s): g["n"] for (p, s), g in groups.items()},
           "samples": samples}
    return vlib.finish(ctx, LEVEL, cov, [
        "protobuf sizes in the model are those of pb/rpc.pb.go (checked: the abstract size equals the real Size() for every generated shape)",
        "'fits' is read as size <= limit; an oversized fragment is accepted iff it holds exactly one indivisible element (RPC.split hands it out, sendRPC drops and reports it)",
        "'empty RPC' = no message, subscription, control entry or extension field (an empty Control wrapper alone is empty); inputs never contain a non-nil but empty Control",
        "the input space beyond the enumerated shapes (elements of 128 bytes and more, thousands of ids) is sampled by a seeded generator, not enumerated",
        "sendRPC is driven inside the event loop of a real gossipsub node towards a peer that exists as an outbound queue only "
        "(PubSub.VerifSendRPCQ, build tag verif; unbounded, or taking 0..3 RPCs so that the queue-full drop path runs); the writer goroutine and the wire are not part "
        "of this check; in every other sendRPC case the PRUNEs and IHAVEs reach sendRPC by piggybacking (pending control retry / pending gossip installed for the peer); "
        "GRAFT retries (need mesh membership) are not piggybacked",
        "drop reports: the RPC given to RawTracer.DropRPC is read INSIDE the callback (it is altered afterwards) and the DROP_RPC event's meta inside EventTracer.Trace; "
        "judged: queued (+) reported-dropped = original per kind; the GRAFT/PRUNE kept for a retry must be among the reported-dropped ones (that they ARE kept is recorded, not judged)"])
