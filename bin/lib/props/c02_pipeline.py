"""C02, pipeline part: within the seen window a message id is delivered to each subscription at most once and the
validators are invoked for it at most once, however many copies race through the node and even when the same id
is published locally at the same time (P_C02_DeliverOnce, P_C02_ValidateOnce, P_C02_LocalDup).

Shares spec/ingest and harness/drivers/ingest with C04 (see _ingest.py).  run_pipeline(ctx) performs MC -> Gen ->
Go replay -> TLC trace validation, records violations with vlib.add_violation, raises vlib.Inconclusive for
machinery problems / unmet coverage obligations and returns the evidence dict of this part; it does not call
vlib.finish."""
from ._ingest import run_ingest


def run_pipeline(ctx):
    return run_ingest(ctx, "C02")
